(* ExecMerge.v — model of the execute plugin's observation validation and merges:
   execute/plugin.go:ValidateObservation, execute/plugin_functions.go:validateObserverReadingEligibility,
   validateObserverDataEligibility, validateObservedSequenceNumbers, validateMessageKeys (repair of F13a), validateObservedChains (repair of F13d),
   validateCommitReportKeys (repair of F75), mergeCommitObservations (called with the destination's f for every chain key: repair of F75),
   mergeMessageObservations, mergeTokenObservations, mergeNonceObservations, mergeCostlyMessages (with the
   repair of F13c), getConsensusObservation.

   Identity of an item is the implementation's id function (sha3 of the "%v" rendering; TokenDataHash for token
   data). The harness interns every rendering to a number stored in the item ([c_id], [m_id], [t_data]); the other
   fields of an item are functions of that rendering, so structural equality of the records below coincides with
   the implementation's identity on every harness-produced value.  No proofs in this file. *)
Require Import Verif.Model.Base Verif.Model.Consensus.

(* ---------- items ---------- *)
Record commit := mkCommit {
  c_id : N;            (* interned "%v" of the whole exectypes.CommitData *)
  c_src : N;           (* SourceChain *)
  c_root : N;          (* interned MerkleRoot.String() *)
  c_lo : N; c_hi : N;  (* SequenceNumberRange *)
  c_exec : list N      (* ExecutedMessages *)
}.
Record msg := mkMsg {
  m_id : N;    (* interned "%v" (= JSON, Message has a String method) *)
  m_seq : N;   (* Header.SequenceNumber *)
  m_mid : N    (* interned Header.MessageID *)
}.
Record tok := mkTok { t_ready : bool; t_data : N (* interned "%v" of Data *) }.
Definition nonce_t := (N * N * N)%type.   (* source chain, interned sender string, nonce *)

Definition commit_eqb (a b : commit) : bool :=
  N.eqb (c_id a) (c_id b) && N.eqb (c_src a) (c_src b) && N.eqb (c_root a) (c_root b) && N.eqb (c_lo a) (c_lo b) &&
  N.eqb (c_hi a) (c_hi b) && list_eqb N.eqb (c_exec a) (c_exec b).
Definition msg_eqb (a b : msg) : bool :=
  N.eqb (m_id a) (m_id b) && N.eqb (m_seq a) (m_seq b) && N.eqb (m_mid a) (m_mid b).
Definition tok_eqb (a b : tok) : bool := Bool.eqb (t_ready a) (t_ready b) && N.eqb (t_data a) (t_data b).
Definition nonce_eqb (a b : nonce_t) : bool :=
  N.eqb (fst (fst a)) (fst (fst b)) && N.eqb (snd (fst a)) (snd (fst b)) && N.eqb (snd a) (snd b).

(* ---------- observation (Go maps are association lists; iteration order = list order) ---------- *)
Record obs := mkObs {
  o_commits : list (N * list commit);              (* CommitReports: chain -> reports *)
  o_msgs : list (N * list (N * msg));              (* Messages: chain -> seq key -> message *)
  o_tokens : list (N * list (N * list tok));       (* TokenData: chain -> seq key -> token slots *)
  o_costly : list N;                               (* CostlyMessages: message ids *)
  o_nonces : list (N * list (N * N))               (* Nonces: chain -> sender -> nonce *)
}.
Definition ao := (N * obs)%type.                   (* (oracle id, observation) *)

(* every value filed under key k (one entry when keys are unique, as in a Go map) *)
Definition entries {V} (k : N) (m : list (N * list V)) : list V :=
  flat_map (fun kv => if N.eqb (fst kv) k then snd kv else []) m.
Definition keys {V} (m : list (N * V)) : list N := map fst m.

(* ---------- validation (plugin.go:ValidateObservation) ---------- *)
(* validateObserverReadingEligibility: a non-empty message map needs a supported chain *)
Definition validate_eligibility (sup : list N) (msgs : list (N * list (N * msg))) : bool :=
  forallb (fun kv => match snd kv with [] => true | _ => memN (fst kv) sup end) msgs.

Definition overlaps (a b : N * N) : bool := N.leb (fst a) (snd b) && N.leb (fst b) (snd a).
Definition contains (r : N * N) (s : N) : bool := N.leb (fst r) s && N.leb s (snd r).
Definition c_range (d : commit) : N * N := (c_lo d, c_hi d).

(* validateObservedSequenceNumbers, one chain: no duplicate root, no overlap with an earlier range,
   executed numbers inside the range *)
Fixpoint val_reports (roots : list N) (ranges : list (N * N)) (l : list commit) : bool :=
  match l with
  | [] => true
  | d :: l' =>
      if memN (c_root d) roots then false
      else if existsb (fun r => overlaps r (c_range d)) ranges then false
      else if negb (forallb (contains (c_range d)) (c_exec d)) then false
      else val_reports (c_root d :: roots) (c_range d :: ranges) l'
  end.
Definition validate_seqnums (commits : list (N * list commit)) : bool :=
  forallb (fun kv => val_reports [] [] (snd kv)) commits.

(* validateMessageKeys (repair of F13a): a message is filed under its own sequence number *)
Definition validate_msg_keys (msgs : list (N * list (N * msg))) : bool :=
  forallb (fun kv => forallb (fun sm => N.eqb (m_seq (snd sm)) (fst sm)) (snd kv)) msgs.

(* validateObserverDataEligibility (repair of F07): token data only for chains the observer reads; nonces and costly
   flags only from observers that read the destination chain *)
Definition validate_data (sup : list N) (dest : N) (o : obs) : bool :=
  forallb (fun kv => match snd kv with [] => true | _ => memN (fst kv) sup end) (o_tokens o) &&
  (if memN dest sup then true
   else forallb (fun kv => match snd kv with [] => true | _ => false end) (o_nonces o) &&
        match o_costly o with [] => true | _ => false end).

(* validateObservedChains (repair of F13d): commit reports, messages and token data only under chains that the local
   fChain knows (an empty inner map counts: the merges look at keys) *)
Definition validate_chains (fchain : list (N * Z)) (o : obs) : bool :=
  forallb (fun k => memN k (keys fchain)) (keys (o_commits o) ++ keys (o_msgs o) ++ keys (o_tokens o)).

(* validateCommitReportKeys (repair of F75): a commit report is filed under its own source chain *)
Definition validate_commit_keys (commits : list (N * list commit)) : bool :=
  forallb (fun kv => forallb (fun d => N.eqb (c_src d) (fst kv)) (snd kv)) commits.

Definition validate (sup : list N) (dest : N) (fchain : list (N * Z)) (o : obs) : bool :=
  validate_eligibility sup (o_msgs o) && validate_data sup dest o && validate_seqnums (o_commits o) &&
  validate_msg_keys (o_msgs o) && validate_chains fchain o && validate_commit_keys (o_commits o).
(* ValidateObservation without the repair of F75 (validateCommitReportKeys) *)
Definition validate_nokeys (sup : list N) (dest : N) (fchain : list (N * Z)) (o : obs) : bool :=
  validate_eligibility sup (o_msgs o) && validate_data sup dest o && validate_seqnums (o_commits o) &&
  validate_msg_keys (o_msgs o) && validate_chains fchain o.
(* ValidateObservation without the repair of F13a (validateMessageKeys) *)
Definition validate_unfixed (sup : list N) (dest : N) (fchain : list (N * Z)) (o : obs) : bool :=
  validate_eligibility sup (o_msgs o) && validate_data sup dest o && validate_seqnums (o_commits o) &&
  validate_chains fchain o && validate_commit_keys (o_commits o).
(* ValidateObservation without the repair of F13d (validateObservedChains) *)
Definition validate_nochains (sup : list N) (dest : N) (o : obs) : bool :=
  validate_eligibility sup (o_msgs o) && validate_data sup dest o && validate_seqnums (o_commits o) &&
  validate_msg_keys (o_msgs o) && validate_commit_keys (o_commits o).

(* ---------- merges ---------- *)
(* "no validator for chain": some observation has a key that fChain lacks *)
Definition unknown_key {V} (fchain : list (N * Z)) (proj : obs -> list (N * V)) (aos : list ao) : bool :=
  existsb (fun a => existsb (fun k => negb (memN k (keys fchain))) (keys (proj (snd a)))) aos.

Definition commit_items (k : N) (aos : list ao) : list commit :=
  flat_map (fun a => entries k (o_commits (snd a))) aos.
Definition msg_items (k : N) (aos : list ao) : list msg :=
  flat_map (fun a => map snd (entries k (o_msgs (snd a)))) aos.

(* one validator per fChain key with threshold uint(f+1); result keys in fChain order, chains without a valid
   item omitted *)
Definition per_chain {T} (eqb : T -> T -> bool) (items : N -> list T) (fchain : list (N * Z)) : list (N * list T) :=
  flat_map (fun kf => match valid eqb (f_plus_1 (snd kf)) (items (fst kf)) with
                      | [] => []
                      | v => [(fst kf, v)]
                      end) fchain.

(* Go: fChain[dest], zero when absent *)
Definition f_dest (dest : N) (fchain : list (N * Z)) : Z :=
  match alookup dest fchain with Some f => f | None => 0%Z end.

(* commit reports are destination data: getConsensusObservation hands mergeCommitObservations a map that gives every
   chain key the destination's f (repair of F75); one validator per fChain key as before *)
Definition dest_fchain (dest : N) (fchain : list (N * Z)) : list (N * Z) :=
  map (fun kf => (fst kf, f_dest dest fchain)) fchain.
Definition merge_commits (dest : N) (fchain : list (N * Z)) (aos : list ao) : res (list (N * list commit)) :=
  if unknown_key fchain o_commits aos then Err
  else Ok (per_chain commit_eqb (fun k => commit_items k aos) (dest_fchain dest fchain)).
(* before the repair: the f of the chain key the report is filed under *)
Definition merge_commits_unfixed (fchain : list (N * Z)) (aos : list ao) : res (list (N * list commit)) :=
  if unknown_key fchain o_commits aos then Err
  else Ok (per_chain commit_eqb (fun k => commit_items k aos) fchain).

(* the valid messages per chain; the implementation then stores them in a map keyed by Header.SequenceNumber
   (two valid messages with one sequence number: the later in GetValid order wins - see msgs_assigned in Check) *)
Definition merge_msgs (fchain : list (N * Z)) (aos : list ao) : res (list (N * list msg)) :=
  if unknown_key fchain o_msgs aos then Err
  else Ok (per_chain msg_eqb (fun k => msg_items k aos) fchain).

(* token data: one validator per (chain, seq key, slot index), threshold uint(f+1), exactly one valid value or
   the not-ready filler *)
Definition not_ready : tok := mkTok false 0.
Definition tok_votes (c s : N) (i : nat) (aos : list ao) : list tok :=
  flat_map (fun a => match nth_error (entries s (entries c (o_tokens (snd a)))) i with
                     | Some t => [t] | None => [] end) aos.
Definition tok_slots (c s : N) (aos : list ao) : nat :=
  fold_right Nat.max O (map (fun a => length (entries s (entries c (o_tokens (snd a))))) aos).
Definition tok_slot (thr : N) (c s : N) (aos : list ao) (i : nat) : tok :=
  match valid tok_eqb thr (tok_votes c s i aos) with
  | [v] => v
  | _ => not_ready
  end.
Definition dedupN (l : list N) : list N := dedup N.eqb l.
Definition tok_chains (aos : list ao) : list N := dedupN (flat_map (fun a => keys (o_tokens (snd a))) aos).
Definition tok_seqs (c : N) (aos : list ao) : list N :=
  dedupN (flat_map (fun a => keys (entries c (o_tokens (snd a)))) aos).
Definition merge_tokens (fchain : list (N * Z)) (aos : list ao) : res (list (N * list (N * list tok))) :=
  if unknown_key fchain o_tokens aos then Err
  else Ok (map (fun c =>
             let thr := match alookup c fchain with Some f => f_plus_1 f | None => 0%N end in
             (c, map (fun s => (s, map (tok_slot thr c s aos) (seq 0 (tok_slots c s aos)))) (tok_seqs c aos)))
           (tok_chains aos)).

(* nonces: one validator, threshold uint(fDest+1), items (source, sender, nonce) *)
Definition nonce_triples (o : obs) : list nonce_t :=
  flat_map (fun kv => map (fun sn => (fst kv, fst sn, snd sn)) (snd kv)) (o_nonces o).
Definition nonce_items (aos : list ao) : list nonce_t := flat_map (fun a => nonce_triples (snd a)) aos.
Definition merge_nonces (fdest : Z) (aos : list ao) : list nonce_t :=
  valid nonce_eqb (f_plus_1 fdest) (nonce_items aos).

(* costly messages: Go int comparison count >= f+1 (GteFPlusOne); each observation votes once per id (F13c repair) *)
Definition gte_f_plus_one (f : Z) (v : N) : bool := Z.leb (f + 1) (Z.of_N v).
Definition costly_items (aos : list ao) : list N := flat_map (fun a => dedupN (o_costly (snd a))) aos.
Definition merge_costly (fdest : Z) (aos : list ao) : list N :=
  filter (fun x => gte_f_plus_one fdest (count N.eqb x (costly_items aos))) (dedupN (costly_items aos)).
(* before the repair: every list element is a vote *)
Definition costly_items_unfixed (aos : list ao) : list N := flat_map (fun a => o_costly (snd a)) aos.
Definition merge_costly_unfixed (fdest : Z) (aos : list ao) : list N :=
  filter (fun x => gte_f_plus_one fdest (count N.eqb x (costly_items_unfixed aos))) (dedupN (costly_items_unfixed aos)).

(* ---------- getConsensusObservation ---------- *)
Record merged := mkMerged {
  g_commits : list (N * list commit);
  g_msgs : list (N * list msg);
  g_tokens : list (N * list (N * list tok));
  g_costly : list N;
  g_nonces : list nonce_t
}.
Definition get_consensus (bigF : Z) (dest : N) (fchain : list (N * Z)) (aos : list ao) : res merged :=
  if Z.ltb (Z.of_nat (length aos)) bigF then Err
  else rbind (merge_commits dest fchain aos) (fun cs =>
       rbind (merge_msgs fchain aos) (fun ms =>
       rbind (merge_tokens fchain aos) (fun ts =>
       Ok (mkMerged cs ms ts (merge_costly (f_dest dest fchain) aos) (merge_nonces (f_dest dest fchain) aos))))).
(* getConsensusObservation before the repair of F75 *)
Definition get_consensus_unfixed (bigF : Z) (dest : N) (fchain : list (N * Z)) (aos : list ao) : res merged :=
  if Z.ltb (Z.of_nat (length aos)) bigF then Err
  else rbind (merge_commits_unfixed fchain aos) (fun cs =>
       rbind (merge_msgs fchain aos) (fun ms =>
       rbind (merge_tokens fchain aos) (fun ts =>
       Ok (mkMerged cs ms ts (merge_costly (f_dest dest fchain) aos) (merge_nonces (f_dest dest fchain) aos))))).

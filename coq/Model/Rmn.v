(* Rmn.v — executable model of commit/merkleroot/rmn/controller.go: ComputeReportSignatures with its two
   phases
     A  getRmnSignedObservations / sendObservationRequests / listenForRmnObservationResponses /
        parseResponse / validateSignedObservationResponse (+ validateRootLengths) / gotSufficientObservationResponses
     B  getRmnReportSignatures / selectRoots / transformAndSortObservations / sendReportSignatureRequest /
        listenForRmnReportSignatures / validateReportSigResponse / sortAndParseReportSigs
   as one machine  gstep : gstate -> event -> gstate  over the events a select loop can see.
   No proofs in this file.

   Conventions (DESIGN 2.2): byte strings that are only compared are ids in N; root id 0 is the all-zero
   Bytes32 (Bytes32.IsEmpty); F values are Go int = Z; nullable protobuf sub-messages are [option];
   a nil dereference is [Panic] in the [res] monad.  Everything Go leaves to chance is an explicit
   schedule input ([sched]): map iteration orders, randomShuffle results, newRequestID values,
   PeerClient.Send failures.  Which select case is taken is the order of the event list.

   The two repairs of F12 are switches of the model ([fixes]): fx_nil = nil / root-length checks (F12a),
   fx_addr = a response is let in only from the node its request id was sent to (F12b).  The repaired
   code is [fixed]; [unfixed] is the code before the repair, kept for the refutation theorems. *)
Require Import Verif.Model.Base.

Definition node := N.
Definition chain := N.
Definition root := N.
Definition reqid := N.

(* The on-ramp address is the one byte string whose LENGTH the code looks at (typconv.KeepNRightBytes(.., 20)), so it
   is not an abstract id but the byte string itself: its length and its non-zero bytes as (index counted from the
   END of the string, byte) in ascending index order — a canonical form, so that equality of the terms is bytes.Equal
   (nil and the empty slice are both (0, [])). *)
Definition addr := (N * list (N * N))%type.
Definition addr_eqb (a b : addr) : bool :=                                                     (* bytes.Equal *)
  N.eqb (fst a) (fst b) && list_eqb (pair_eqb N.eqb N.eqb) (snd a) (snd b).
(* typconv.KeepNRightBytes(b, n): b itself if it has at most n bytes, else its last n bytes *)
Definition keep_right (n : N) (a : addr) : addr :=
  if N.leb (fst a) n then a else (n, filter (fun p => N.ltb (fst p) n) (snd a)).

(* ---------- configuration ---------- *)
(* lr_onramp: updateReq.LaneSource.OnrampAddress as the plugin passes it (abi-encoded, 32 bytes for an EVM source) *)
Record lane_req := mkLaneReq { lr_chain : chain; lr_onramp : addr; lr_min : N; lr_max : N }.
(* what an observation has to carry: the last 20 bytes of the requested address (all of it if it is shorter) *)
Definition exp_onramp (q : lane_req) : addr := keep_right 20 (lr_onramp q).
Record home_node := mkHomeNode { hn_id : node; hn_chains : list chain; hn_key : N }.
Record signer := mkSigner { sg_node : node; sg_addr : N }.

Record config := mkConfig {
  c_nodes : list home_node;        (* RMNHome.GetRMNNodesInfo(digest), in slice order *)
  c_homeF : list (chain * Z);      (* RMNHome.GetF(digest) *)
  c_dest_sel : N;                  (* destChain.DestChainSelector *)
  c_dest_off : N;                  (* destChain.OfframpAddress *)
  c_dest_known : bool;             (* chainsel.ChainBySelector(dest) exists *)
  c_digest : N;                    (* rmnRemoteCfg.ConfigDigest *)
  c_reqs : list lane_req;          (* updateRequests, in slice order *)
  c_signers : list signer;         (* rmnRemoteCfg.Signers *)
  c_remoteF : Z;                   (* int(rmnRemoteCfg.F) *)
  c_dueA : bool;                   (* observationsInitialRequestTimerDuration already elapsed at the first select *)
  c_dueB : bool                    (* reportsInitialRequestTimerDuration likewise *)
}.

Record sched := mkSched {
  s_order1 : list node;    (* range rmnNodeInfo in getRmnSignedObservations *)
  s_sendA1 : list node;    (* range requestsPerNode in the initial sendObservationRequests *)
  s_sendA2 : list node;    (* range requestsPerNode in the additional sendObservationRequests *)
  s_rootord : list root;   (* range votes in selectRoots *)
  s_shufB1 : list node;    (* randomShuffle(signers) in sendReportSignatureRequest *)
  s_shufB2 : list node;    (* randomShuffle(signers) on the report timer *)
  s_id : nat -> reqid;     (* newRequestID() of the k-th PeerClient.Send call *)
  s_fail : nat -> bool     (* the k-th PeerClient.Send call returns an error *)
}.

Record fixes := mkFixes { fx_nil : bool; fx_addr : bool }.
Definition fixed := mkFixes true true.
Definition unfixed := mkFixes false false.

(* ---------- wire messages ---------- *)
Inductive rootv := RNil | RShort | R32 (r : root) | RLong (r : root).   (* RLong r: first 32 bytes are r *)
Record lane_update := mkLU {
  lu_src : option (chain * addr);  (* LaneSource: selector, onramp address bytes *)
  lu_itv : option (N * N);         (* ClosedInterval: min, max *)
  lu_root : rootv }.
Record observation := mkObs {
  ob_dest : option (N * N);        (* LaneDest: selector, offramp *)
  ob_digest : N;
  ob_lus : list lane_update }.
Record signed_obs := mkSO { so_obs : option observation; so_sig : N }.
Record ecdsa := mkEcdsa { e_lenok : bool; e_sig : N }.   (* len(R) = len(S) = 32; identity of (R,S) *)
Inductive payload :=
| PNone                                   (* Response oneof not set *)
| PObs (so : signed_obs)
| PSig (sg : option ecdsa).               (* ReportSignature with its Signature sub-message *)
Inductive body := BGarbage | BMsg (id : reqid) (p : payload).
Inductive event := Resp (n : node) (b : body) | TimerFire | CtxDone.

(* ---------- results ---------- *)
Inductive fail :=
| FDupChain | FNoF | FNothingToDo | FTimeoutA | FInsufObs | FRoots | FDest | FSendSigs | FTimeoutB | FInsufSigs.
Definition report := list (lane_req * root).         (* ReportSignatures.LaneUpdates = RMNReport.LaneUpdates *)
Inductive final :=
| Success (sigs : list N) (rep : report)
| Failure (f : fail)
| Crash.                                             (* a Go panic *)

(* one PeerClient.Send call: kind 0 = ObservationRequest / 1 = ReportSignatureRequest, addressee, id, accepted,
   requested chains in wire order *)
Record send_rec := mkSend { sd_kind : N; sd_node : node; sd_id : reqid; sd_ok : bool; sd_chains : list chain }.

(* ---------- small set / order helpers ---------- *)
Fixpoint dedupN (l : list N) : list N :=
  match l with
  | [] => []
  | x :: l' => if memN x l' then dedupN l' else x :: dedupN l'
  end.
Fixpoint dedup_keep_first (seen l : list N) : list N :=
  match l with
  | [] => []
  | x :: l' => if memN x seen then dedup_keep_first seen l' else x :: dedup_keep_first (x :: seen) l'
  end.
(* the iteration order of a Go map / a shuffle with key set [keys], steered by the preference list [pref]:
   keys named in [pref] first (in that order, once), the others after them *)
Definition order_by (pref keys : list N) : list N :=
  filter (fun k => memN k keys) (dedup_keep_first [] pref) ++ filter (fun k => negb (memN k pref)) keys.
Definition set_addN (x : N) (s : list N) : list N := if memN x s then s else s ++ [x].

Definition is_none {A} (o : option A) : bool := match o with None => true | Some _ => false end.

(* ---------- ComputeReportSignatures: grouping and filtering of the requests ---------- *)
Record upd := mkUpd { u_req : lane_req; u_nodes : list node; u_F : Z }.   (* updateRequestWithMeta + its home F *)
Definition u_chain (u : upd) : chain := lr_chain (u_req u).

Definition rmn_nodes_of (cfg : config) (ch : chain) : list node :=
  dedupN (map hn_id (filter (fun hn => memN ch (hn_chains hn)) (c_nodes cfg))).

Definition lookupF (cfg : config) (ch : chain) : option Z := alookup ch (c_homeF cfg).

Fixpoint with_F (cfg : config) (reqs : list lane_req) : option (list upd) :=
  match reqs with
  | [] => Some []
  | r :: reqs' =>
      match lookupF cfg (lr_chain r), with_F cfg reqs' with
      | Some f, Some us => Some (mkUpd r (rmn_nodes_of cfg (lr_chain r)) f :: us)
      | _, _ => None
      end
  end.

Definition zlen {A} (l : list A) : Z := Z.of_nat (length l).
Definition gte_f_plus_one (f v : Z) : bool := Z.leb (f + 1) v.      (* consensus.GteFPlusOne *)
Definition lt_f_plus_one (f v : Z) : bool := Z.ltb v (f + 1).       (* consensus.LtFPlusOne *)

Definition prepare (cfg : config) : res (list upd) + fail :=
  if negb (nodupb N.eqb (map lr_chain (c_reqs cfg))) then inr FDupChain
  else match with_F cfg (c_reqs cfg) with
       | None => inr FNoF
       | Some us =>
           match filter (fun u => negb (lt_f_plus_one (u_F u) (zlen (u_nodes u)))) us with
           | [] => inr FNothingToDo
           | us' => inl (Ok us')
           end
       end.

(* ---------- phase A: who is asked first ---------- *)
(* requestedNodes as a set of (chain, node) pairs *)
Definition rq_mem (ch : chain) (n : node) (rq : list (chain * node)) : bool :=
  existsb (fun p => N.eqb (fst p) ch && N.eqb (snd p) n) rq.
Definition rq_add (ch : chain) (n : node) (rq : list (chain * node)) : list (chain * node) :=
  if rq_mem ch n rq then rq else rq ++ [(ch, n)].
Definition rq_card (ch : chain) (rq : list (chain * node)) : Z :=
  zlen (filter (fun p => N.eqb (fst p) ch) rq).

(* the inner loop over updateRequestsPerChain for one node *)
Fixpoint node_pass (n : node) (us : list upd) (st : list (chain * node) * list chain)
  : list (chain * node) * list chain :=
  match us with
  | [] => st
  | u :: us' =>
      if memN n (u_nodes u) then
        let rq' := rq_add (u_chain u) n (fst st) in
        let en' := if gte_f_plus_one (u_F u) (rq_card (u_chain u) rq') then set_addN (u_chain u) (snd st)
                   else snd st in
        node_pass n us' (rq', en')
      else node_pass n us' st
  end.

(* the outer loop over rmnNodeInfo, in iteration order [order] *)
Fixpoint init_loop (order : list node) (us : list upd) (st : list (chain * node) * list chain)
  : list (chain * node) * list chain :=
  match order with
  | [] => st
  | n :: rest =>
      if Nat.eqb (length (snd st)) (length us) then st
      else init_loop rest us (node_pass n us st)
  end.

Definition chains_of_node (n : node) (pairs : list (chain * node)) : list chain :=
  sortN (map fst (filter (fun p => N.eqb (snd p) n) pairs)).
Definition nodes_of_pairs (pairs : list (chain * node)) : list node :=
  dedup_keep_first [] (map snd pairs).

(* ---------- sending ---------- *)
(* requestIDs (a set) together with requestNodes (id -> addressee): adding an id that is already present keeps the
   set as it is and overwrites the addressee *)
Definition ids_t := list (reqid * node).
Definition ids_mem (id : reqid) (ids : ids_t) : bool := memN id (map fst ids).
Definition ids_add (id : reqid) (n : node) (ids : ids_t) : ids_t :=
  filter (fun p => negb (N.eqb (fst p) id)) ids ++ [(id, n)].
Definition ids_node (id : reqid) (ids : ids_t) : option node := alookup id ids.
(* finished.Equal(requestIDs) *)
Definition ids_all_finished (ids : ids_t) (fin : list reqid) : bool :=
  forallb (fun p => memN (fst p) fin) ids && forallb (fun i => ids_mem i ids) fin.

Record sendst := mkSendst { ss_ids : ids_t; ss_k : nat; ss_log : list send_rec }.

(* sendObservationRequests over the nodes in iteration order; every node gets the requests in [pairs] *)
Fixpoint send_obs (sc : sched) (nodes : list node) (pairs : list (chain * node)) (st : sendst) : sendst :=
  match nodes with
  | [] => st
  | n :: rest =>
      let k := ss_k st in
      let id := s_id sc k in
      let chs := chains_of_node n pairs in
      if s_fail sc k
      then send_obs sc rest pairs (mkSendst (ss_ids st) (S k) (ss_log st ++ [mkSend 0%N n id false chs]))
      else send_obs sc rest pairs (mkSendst (ids_add id n (ss_ids st)) (S k) (ss_log st ++ [mkSend 0%N n id true chs]))
  end.

(* ---------- phase A: acceptance and validation of a response ---------- *)
(* parseResponse: Some (id, payload) when let in *)
Definition parse (fx : fixes) (ids : ids_t) (fin : list reqid) (n : node) (b : body) : option (reqid * payload) :=
  match b with
  | BGarbage => None
  | BMsg id p =>
      if negb (ids_mem id ids) then None
      else if fx_addr fx && negb (option_eqb N.eqb (ids_node id ids) (Some n)) then None
      else if memN id fin then None
      else Some (id, p)
  end.

Definition find_upd (ch : chain) (us : list upd) : option upd :=
  find (fun u => N.eqb (u_chain u) ch) us.
Definition find_home (cfg : config) (n : node) : option home_node :=
  find (fun hn => N.eqb (hn_id hn) n) (c_nodes cfg).

Section Validate.
  Variable edv : N -> observation -> N -> bool.   (* ed25519 verify: node key, observation, signature *)
  Variable fx : fixes.
  Variable cfg : config.

  (* the loop over FixedDestLaneUpdates; yields the (chain, root) votes of the observation *)
  Fixpoint validate_lus (n : node) (us : list upd) (seen : list chain) (lus : list lane_update)
    : res (list (chain * rootv)) :=
    match lus with
    | [] => Ok []
    | lu :: rest =>
        if fx_nil fx && (is_none (lu_src lu) || is_none (lu_itv lu)) then Err
        else
        match lu_src lu with
        | None => Panic                                      (* signedObsLu.LaneSource.SourceChainSelector *)
        | Some (ch, onr) =>
            match find_upd ch us with
            | None => Err
            | Some u =>
                if memN ch seen then Err
                else if negb (memN n (u_nodes u)) then Err
                else
                match lu_itv lu with
                | None => Panic                              (* signedObsLu.ClosedInterval.MinMsgNr *)
                | Some (mn, mx) =>
                    if negb (N.eqb (lr_min (u_req u)) mn) then Err
                    else if negb (N.eqb (lr_max (u_req u)) mx) then Err
                    else if negb (addr_eqb (exp_onramp (u_req u)) onr) then Err   (* bytes.Equal(KeepNRightBytes(req, 20), obs) *)
                    else
                    match lu_root lu with
                    | RNil => Err
                    | rv => rbind (validate_lus n us (ch :: seen) rest) (fun l => Ok ((ch, rv) :: l))
                    end
                end
            end
        end
    end.

  Definition all_roots_32 (l : list (chain * rootv)) : bool :=
    forallb (fun p => match snd p with R32 _ => true | _ => false end) l.

  (* validateSignedObservationResponse followed (repaired code) by validateRootLengths *)
  Definition validate_obs (n : node) (us : list upd) (p : payload) : res (list (chain * rootv)) :=
    match p with
    | PObs so =>
        match find_home cfg n with
        | None => Err
        | Some hn =>
            match so_obs so with
            | None => if fx_nil fx then Err else Panic       (* signedObs.Observation.LaneDest *)
            | Some ob =>
                match ob_dest ob with
                | None => if fx_nil fx then Err else Panic   (* .LaneDest.DestChainSelector *)
                | Some (sel, off) =>
                    if negb (N.eqb sel (c_dest_sel cfg)) then Err
                    else if negb (N.eqb off (c_dest_off cfg)) then Err
                    else if negb (N.eqb (ob_digest ob) (c_digest cfg)) then Err
                    else
                    rbind (validate_lus n us [] (ob_lus ob)) (fun votes =>
                      if negb (edv (hn_key hn) ob (so_sig so)) then Err
                      else if fx_nil fx && negb (all_roots_32 votes) then Err
                      else Ok votes)
                end
            end
        end
    | _ => Err
    end.
End Validate.

(* accepted observation responses: rmnSignedObservationWithMeta reduced to node and votes *)
Definition acc_t := list (node * list (chain * rootv)).

(* cciptypes.Bytes32(lu.Root): panics on a short slice, truncates a long one *)
Definition root_of (rv : rootv) : res root :=
  match rv with R32 r | RLong r => Ok r | RShort => Panic | RNil => Panic end.
Fixpoint flat_votes (l : list (chain * rootv)) : res (list (chain * root)) :=
  match l with
  | [] => Ok []
  | (ch, rv) :: l' => rbind (root_of rv) (fun r => rbind (flat_votes l') (fun t => Ok ((ch, r) :: t)))
  end.
Fixpoint all_votes (acc : acc_t) : res (list (chain * root)) :=
  match acc with
  | [] => Ok []
  | (_, l) :: acc' => rbind (flat_votes l) (fun a => rbind (all_votes acc') (fun b => Ok (a ++ b)))
  end.
Definition vote_eqb (p q : chain * root) : bool := N.eqb (fst p) (fst q) && N.eqb (snd p) (snd q).
Definition count_votes (ch : chain) (r : root) (vs : list (chain * root)) : Z :=
  zlen (filter (vote_eqb (ch, r)) vs).

(* gotSufficientObservationResponses *)
Definition chain_sufficient (vs : list (chain * root)) (u : upd) : bool :=
  existsb (fun p => N.eqb (fst p) (u_chain u) && negb (lt_f_plus_one (u_F u) (count_votes (u_chain u) (snd p) vs))) vs.
Definition sufficient (us : list upd) (acc : acc_t) : res bool :=
  rbind (all_votes acc) (fun vs => Ok (forallb (chain_sufficient vs) us)).

(* ---------- phase A state and step ---------- *)
Record stA := mkStA {
  a_ids : ids_t;                   (* requestIDs / requestNodes *)
  a_fin : list reqid;              (* finishedRequestIDs *)
  a_acc : acc_t;                   (* rmnObservationResponses *)
  a_exp : bool;                    (* timerExpired *)
  a_due : bool;                    (* the timer is ready to fire (elapsed duration, or Reset(0)) *)
  a_rq : list (chain * node);      (* requestedNodes *)
  a_k : nat;                       (* number of Send calls so far *)
  a_log : list send_rec }.

Inductive outcome (S R : Type) := Cont (s : S) | Done (r : R).
Arguments Cont {S R} s.
Arguments Done {S R} r.

Definition all_pairs (us : list upd) : list (chain * node) :=
  flat_map (fun u => map (fun n => (u_chain u, n)) (u_nodes u)) us.

Section PhaseA.
  Variable edv : N -> observation -> N -> bool.
  Variable fx : fixes.
  Variable cfg : config.
  Variable sc : sched.
  Variable us : list upd.

  Definition initA : stA :=
    let rq := fst (init_loop (order_by (s_order1 sc) (dedupN (map hn_id (c_nodes cfg)))) us ([], [])) in
    let ss := send_obs sc (order_by (s_sendA1 sc) (nodes_of_pairs rq)) rq (mkSendst [] 0 []) in
    mkStA (ss_ids ss) [] [] false (c_dueA cfg) rq (ss_k ss) (ss_log ss).

  (* Done (inl acc) = phase A returns the observations; Done (inr f) = it returns an error / panics *)
  Definition stepA (s : stA) (e : event) : outcome stA (acc_t + final) :=
    match e with
    | CtxDone => Done (inr (Failure FTimeoutA))
    | TimerFire =>
        if a_exp s then Cont (mkStA (a_ids s) (a_fin s) (a_acc s) true false (a_rq s) (a_k s) (a_log s))
        else
          let extra := filter (fun p => negb (rq_mem (fst p) (snd p) (a_rq s))) (all_pairs us) in
          let ss := send_obs sc (order_by (s_sendA2 sc) (nodes_of_pairs extra)) extra
                             (mkSendst (a_ids s) (a_k s) (a_log s)) in
          Cont (mkStA (ss_ids ss) (a_fin s) (a_acc s) true false (a_rq s ++ extra) (ss_k ss) (ss_log ss))
    | Resp n b =>
        match parse fx (a_ids s) (a_fin s) n b with
        | None => Cont s
        | Some (id, p) =>
            let fin' := id :: a_fin s in
            match validate_obs edv fx cfg n us p with
            | Panic | Spin => Done (inr Crash)
            | v =>
                let acc' := match v with Ok votes => a_acc s ++ [(n, votes)] | _ => a_acc s end in
                let due' := match v with Ok _ => a_due s | _ => true end in       (* Reset(0) *)
                match sufficient us acc' with
                | Ok true => Done (inl acc')
                | Ok false =>
                    if a_exp s && ids_all_finished (a_ids s) fin'
                    then Done (inr (Failure FInsufObs))
                    else Cont (mkStA (a_ids s) fin' acc' (a_exp s) due' (a_rq s) (a_k s) (a_log s))
                | _ => Done (inr Crash)
                end
            end
        end
    end.
End PhaseA.

(* ---------- between the phases: selectRoots, report, transformAndSortObservations, first signature requests ---------- *)
Definition roots_voted (ch : chain) (vs : list (chain * root)) : list root :=
  dedup_keep_first [] (map snd (filter (fun p => N.eqb (fst p) ch) vs)).

(* the loop over one chain's vote map in iteration order [rs]; [sel] = selectedRoot, 0 = empty *)
Fixpoint select_loop (f : Z) (ch : chain) (vs : list (chain * root)) (rs : list root) (sel : root) : option root :=
  match rs with
  | [] => Some sel
  | r :: rs' =>
      if lt_f_plus_one f (count_votes ch r vs) then select_loop f ch vs rs' sel
      else if negb (N.eqb sel 0%N) then None
      else select_loop f ch vs rs' r
  end.
Definition select_root (sc : sched) (vs : list (chain * root)) (u : upd) : option root :=
  match roots_voted (u_chain u) vs with
  | [] => None                                        (* "no most voted root for source chain" *)
  | rs => match select_loop (u_F u) (u_chain u) vs (order_by (s_rootord sc) rs) 0%N with
          | Some r => if N.eqb r 0%N then None else Some r
          | None => None
          end
  end.
Fixpoint select_roots (sc : sched) (vs : list (chain * root)) (us : list upd) : option report :=
  match us with
  | [] => Some []
  | u :: us' =>
      match select_root sc vs u, select_roots sc vs us' with
      | Some r, Some rep => Some ((u_req u, r) :: rep)
      | _, _ => None
      end
  end.
Definition sort_report (rep : report) : report :=
  sort_by (fun a b => N.leb (lr_chain (fst a)) (lr_chain (fst b))) rep.

Definition is_home (cfg : config) (n : node) : bool := existsb (fun hn => N.eqb (hn_id hn) n) (c_nodes cfg).

(* transformAndSortObservations: the comparator of the final sort.Slice indexes FixedDestLaneUpdates[0] of BOTH
   entries whenever two attributed observations carry the same SignerNodeIndex, and validation accepts an observation
   without lane updates, so the sort panics (index out of range) when one node has two accepted observations one of
   which is empty.  Which pairs sort.Slice compares depends on its algorithm; the model panics for every such pair
   (exact for the repaired code, where no node has two accepted observations — proved in RmnP.v). *)
Definition nilb {A} (l : list A) : bool := match l with [] => true | _ => false end.
Fixpoint tas_panics (acc : acc_t) : bool :=
  match acc with
  | [] => false
  | a :: rest =>
      existsb (fun b => N.eqb (fst a) (fst b) && (nilb (snd a) || nilb (snd b))) rest || tas_panics rest
  end.

Record sigsend := mkSigsend { gs_ids : ids_t; gs_asked : list node; gs_k : nat; gs_log : list send_rec }.

(* the loop of sendReportSignatureRequest over randomShuffle(signers) *)
Fixpoint send_sigs_first (cfg : config) (sc : sched) (order : list node) (st : sigsend) : sigsend :=
  match order with
  | [] => st
  | n :: rest =>
      if gte_f_plus_one (c_remoteF cfg) (zlen (dedupN (map fst (gs_ids st)))) then st
      else if negb (is_home cfg n) then send_sigs_first cfg sc rest st
      else
        let k := gs_k st in
        let id := s_id sc k in
        if s_fail sc k
        then send_sigs_first cfg sc rest (mkSigsend (gs_ids st) (gs_asked st) (S k) (gs_log st ++ [mkSend 1%N n id false []]))
        else send_sigs_first cfg sc rest
               (mkSigsend (ids_add id n (gs_ids st)) (set_addN n (gs_asked st)) (S k) (gs_log st ++ [mkSend 1%N n id true []]))
  end.

(* the loop on the report timer: every signer not yet asked *)
Fixpoint send_sigs_more (cfg : config) (sc : sched) (order : list node) (st : sigsend) : sigsend :=
  match order with
  | [] => st
  | n :: rest =>
      if memN n (gs_asked st) then send_sigs_more cfg sc rest st
      else if negb (is_home cfg n) then send_sigs_more cfg sc rest st
      else
        let k := gs_k st in
        let id := s_id sc k in
        if s_fail sc k
        then send_sigs_more cfg sc rest (mkSigsend (gs_ids st) (gs_asked st) (S k) (gs_log st ++ [mkSend 1%N n id false []]))
        else send_sigs_more cfg sc rest
               (mkSigsend (ids_add id n (gs_ids st)) (set_addN n (gs_asked st)) (S k) (gs_log st ++ [mkSend 1%N n id true []]))
  end.

Record stB := mkStB {
  b_ids : ids_t;
  b_fin : list reqid;
  b_sigs : list (node * N * N);    (* reportSigs: (node, signer address, signature) *)
  b_exp : bool;
  b_due : bool;
  b_asked : list node;             (* signersRequested *)
  b_k : nat;
  b_log : list send_rec;
  b_rep : report;                  (* the report being signed = the lane updates handed back *)
  b_acc : acc_t                    (* what phase A returned (sent along as AttributedSignedObservations) *)
}.

Definition find_signer (cfg : config) (n : node) : option signer :=
  find (fun s => N.eqb (sg_node s) n) (c_signers cfg).
Definition signer_nodes (cfg : config) : list node := map sg_node (c_signers cfg).

(* sortAndParseReportSigs *)
Definition sort_sigs (l : list (node * N * N)) : list (node * N * N) :=
  sort_by (fun a b => N.leb (snd (fst a)) (snd (fst b))) l.

Section PhaseB.
  Variable vrs : N -> N -> report -> bool.   (* RMNCrypto.VerifyReportSignatures: signer address, signature, report *)
  Variable fx : fixes.
  Variable cfg : config.
  Variable sc : sched.

  (* everything between the two listen loops; a failure comes with the send log so far *)
  Definition startB (us : list upd) (acc : acc_t) (k : nat) (log : list send_rec)
    : outcome stB (final * list send_rec) :=
    match all_votes acc with
    | Ok vs =>
        match select_roots sc vs us with
        | None => Done (Failure FRoots, log)
        | Some rep0 =>
            let rep := sort_report rep0 in
            if negb (c_dest_known cfg) then Done (Failure FDest, log)
            else if tas_panics acc then Done (Crash, log)
            else
              let gs := send_sigs_first cfg sc (order_by (s_shufB1 sc) (signer_nodes cfg)) (mkSigsend [] [] k log) in
              if lt_f_plus_one (c_remoteF cfg) (zlen (dedupN (map fst (gs_ids gs))))
              then Done (Failure FSendSigs, gs_log gs)
              else Cont (mkStB (gs_ids gs) [] [] false (c_dueB cfg) (gs_asked gs) (gs_k gs) (gs_log gs) rep acc)
        end
    | _ => Done (Crash, log)
    end.

  (* validateReportSigResponse *)
  Definition validate_sig (rep : report) (n : node) (p : payload) : res (N * N) :=
    match find_signer cfg n with
    | None => Err
    | Some sg =>
        match p with
        | PSig osig =>
            match osig with
            | None => Err                                   (* NewECDSASigFromPB(nil): "signature is nil" *)
            | Some e =>
                if negb (e_lenok e) then Err
                else if negb (vrs (sg_addr sg) (e_sig e) rep) then Err
                else Ok (sg_addr sg, e_sig e)
            end
        | _ => Err
        end
    end.

  Definition stepB (s : stB) (e : event) : outcome stB final :=
    match e with
    | CtxDone => Done (Failure FTimeoutB)
    | TimerFire =>
        if b_exp s then Cont (mkStB (b_ids s) (b_fin s) (b_sigs s) true false (b_asked s) (b_k s) (b_log s) (b_rep s) (b_acc s))
        else
          let gs := send_sigs_more cfg sc (order_by (s_shufB2 sc) (signer_nodes cfg))
                                   (mkSigsend (b_ids s) (b_asked s) (b_k s) (b_log s)) in
          Cont (mkStB (gs_ids gs) (b_fin s) (b_sigs s) true false (gs_asked gs) (gs_k gs) (gs_log gs) (b_rep s) (b_acc s))
    | Resp n b =>
        match parse fx (b_ids s) (b_fin s) n b with
        | None => Cont s
        | Some (id, p) =>
            let fin' := id :: b_fin s in
            match validate_sig (b_rep s) n p with
            | Panic | Spin => Done Crash
            | v =>
                let sigs' := match v with Ok (a, g) => b_sigs s ++ [(n, a, g)] | _ => b_sigs s end in
                let due' := match v with Ok _ => b_due s | _ => true end in
                if gte_f_plus_one (c_remoteF cfg) (zlen sigs')
                then Done (Success (map snd (sort_sigs sigs')) (b_rep s))
                else if b_exp s && ids_all_finished (b_ids s) fin'
                then Done (Failure FInsufSigs)
                else Cont (mkStB (b_ids s) fin' sigs' (b_exp s) due' (b_asked s) (b_k s) (b_log s) (b_rep s) (b_acc s))
            end
        end
    end.
End PhaseB.

(* ---------- the whole call ---------- *)
Inductive gstate :=
| GA (us : list upd) (s : stA)
| GB (s : stB)
| GFinal (f : final) (log : list send_rec).

Section Machine.
  Variable edv : N -> observation -> N -> bool.
  Variable vrs : N -> N -> report -> bool.
  Variable fx : fixes.
  Variable cfg : config.
  Variable sc : sched.

  Definition ginit : gstate :=
    match prepare cfg with
    | inr f => GFinal (Failure f) []
    | inl (Ok us) => GA us (initA cfg sc us)
    | inl _ => GFinal Crash []
    end.

  Definition enterB (us : list upd) (acc : acc_t) (k : nat) (log : list send_rec) : gstate :=
    match startB cfg sc us acc k log with
    | Cont sb => GB sb
    | Done (f, l) => GFinal f l
    end.

  Definition gstep (g : gstate) (e : event) : gstate :=
    match g with
    | GFinal _ _ => g
    | GA us s =>
        match stepA edv fx cfg sc us s e with
        | Cont s' => GA us s'
        | Done (inl acc) => enterB us acc (a_k s) (a_log s)
        | Done (inr f) => GFinal f (a_log s)
        end
    | GB s =>
        match stepB vrs fx cfg sc s e with
        | Cont s' => GB s'
        | Done f => GFinal f (b_log s)
        end
    end.

  Definition run (evs : list event) : gstate := fold_left gstep evs ginit.
End Machine.

Definition g_log (g : gstate) : list send_rec :=
  match g with GA _ s => a_log s | GB s => b_log s | GFinal _ l => l end.
Definition g_final (g : gstate) : option final :=
  match g with GFinal f _ => Some f | _ => None end.
Definition g_due (g : gstate) : bool :=
  match g with GA _ s => a_due s | GB s => b_due s | GFinal _ _ => false end.

(* Curses.v — model of the RMN curse handling (C15):
   pkg/reader/curses.go (CurseInfo.NonCursedSourceChains, GlobalCurseSubject),
   pkg/reader/ccip.go (getCurseInfoFromCursedSubjects, chainSelectorToBytes16),
   internal/plugincommon/curses.go (IsReportCursed),
   commit/merkleroot/observation.go (ObserveOffRampNextSeqNums),
   execute/observation.go (getCurseInfo, getCommitReportsObservation),
   and the curse step of both ShouldAcceptAttestedReport callbacks (the gates themselves are in Transmit.v). *)
Require Import Verif.Model.Base Verif.Model.Transmit.

(* a 16-byte subject as two big-endian 8-byte halves *)
Definition subject := (N * N)%type.
Definition global_subject : subject := (72057594037927936, 1)%N.   (* 0x01 00..00 | 00..00 01 *)
Definition subject_of_chain (c : N) : subject := (0%N, c).          (* chainSelectorToBytes16 *)
Definition subj_eqb (a b : subject) : bool := N.eqb (fst a) (fst b) && N.eqb (snd a) (snd b).
Definition mem_subj (s : subject) (l : list subject) : bool := existsb (subj_eqb s) l.

(* reader.CurseInfo; the Go map is an association list with distinct keys *)
Record curse_info := CurseInfo {
  ci_sources : list (N * bool);
  ci_dest : bool;
  ci_global : bool }.

(* getCurseInfoFromCursedSubjects *)
Definition curse_info_of (subjects : list subject) (dest : N) (sources : list N) : curse_info :=
  CurseInfo (map (fun c => (c, mem_subj (subject_of_chain c) subjects)) sources)
            (mem_subj global_subject subjects || mem_subj (subject_of_chain dest) subjects)
            (mem_subj global_subject subjects).

(* ci.CursedSourceChains[c] : a missing key reads false *)
Definition src_cursed (ci : curse_info) (c : N) : bool :=
  match alookup c (ci_sources ci) with Some b => b | None => false end.

(* CurseInfo.NonCursedSourceChains *)
Definition non_cursed_sources (ci : curse_info) (input : list N) : list N :=
  if ci_global ci then [] else sortN (filter (fun c => negb (src_cursed ci c)) input).

(* commit: ObserveOffRampNextSeqNums.
   sup: SupportsDestChain answer (0 false / 1 true / 2 error); known: KnownSourceChainsSlice (None = error);
   curse: GetRmnCurseInfo answer (None = error); nextseq: CCIPReader.NextSeqNum (None = error).
   nil and the empty slice are one value. *)
Definition observe_offramp (sup : N) (known : option (list N)) (curse : option curse_info)
           (nextseq : list N -> option (list N)) : list (N * N) :=
  if negb (N.eqb sup 1) then []
  else match known with
       | None => []
       | Some all =>
           match curse with
           | None => []
           | Some ci =>
               if ci_global ci || ci_dest ci then []
               else let src := non_cursed_sources ci all in
                    match src with
                    | [] => []
                    | _ => match nextseq src with
                           | None => []
                           | Some sn => if Nat.eqb (length sn) (length src) then combine src sn else []
                           end
                    end
           end
       end.

(* execute: getCommitReportsObservation; pending = getPendingExecutedReports (chain -> payload), None = error.
   Ok None: the observation is returned without commit reports.
   After the repair of F30 the observed map is built from the known sources: a chain is kept iff it is a known source
   (the chains curse info was requested for), has reports, and is not reported cursed.  The Go loop runs over the known
   sources and looks each one up in the pending map; as a map that is the filter below. *)
Definition exec_observe {P} (sup : N) (known : option (list N)) (curse : option curse_info)
           (pending : option (list (N * P))) : res (option (list (N * P))) :=
  if N.eqb sup 2 then Err
  else if N.eqb sup 0 then Ok None
  else match known with
       | None => Ok None
       | Some all =>
           match curse with
           | None => Ok None
           | Some ci =>
               if ci_global ci || ci_dest ci then Ok None
               else match pending with
                    | None => Err
                    | Some g => Ok (Some (filter (fun kv => memN (fst kv) all && negb (src_cursed ci (fst kv))) g))
                    end
           end
       end.

(* the function before the repair: only the chains the reader reported cursed were deleted *)
Definition exec_observe_unfixed {P} (sup : N) (known : option (list N)) (curse : option curse_info)
           (pending : option (list (N * P))) : res (option (list (N * P))) :=
  if N.eqb sup 2 then Err
  else if N.eqb sup 0 then Ok None
  else match known with
       | None => Ok None
       | Some _ =>
           match curse with
           | None => Ok None
           | Some ci =>
               if ci_global ci || ci_dest ci then Ok None
               else match pending with
                    | None => Err
                    | Some g => Ok (Some (filter (fun kv => negb (src_cursed ci (fst kv))) g))
                    end
           end
       end.

(* plugincommon.IsReportCursed *)
Definition is_report_cursed (srcs : list N) (curse : option curse_info) : res bool :=
  match srcs with
  | [] => Ok false
  | _ => match curse with
         | None => Err
         | Some ci =>
             if ci_global ci || ci_dest ci then Ok true
             else if negb (Nat.eqb (length (non_cursed_sources ci srcs)) (length srcs)) then Ok true
             else Ok false
         end
  end.
Definition curse_code (r : res bool) : N :=
  match r with Ok false => 0 | Ok true => 1 | _ => 2 end%N.

(* the two acceptance callbacks with the curse step spelled out (roots = source chains of the merkle roots,
   reports = source chains of the chain reports) *)
Definition commit_accept (decode_ok : bool) (roots : list N) (tprices gprices sigs : N)
           (curse : option curse_info) (info_ok rmn_enabled : bool) (remoteF : N) : res bool :=
  commit_should_accept decode_ok (N.of_nat (length roots)) tprices gprices sigs
                       (curse_code (is_report_cursed roots curse)) info_ok rmn_enabled remoteF.
Definition exec_accept (nil_report decode_ok : bool) (reports : list N) (curse : option curse_info) : res bool :=
  exec_should_accept nil_report decode_ok (N.of_nat (length reports)) (curse_code (is_report_cursed reports curse)).

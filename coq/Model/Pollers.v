(* Pollers.v — model of the two background configuration pollers:
     internal/reader/home_chain.go  (homeChainPoller: poll, fetchAndSetConfigs, setState, getters, HealthReport, Close)
     pkg/reader/rmn_home.go         (rmnHomePoller: poll, fetchAndSetRmnHomeConfigs, setRMNHomeState, getters,
                                     convertOnChainConfigToRMNHomeChainConfig, IsNodeObserver)
   Executable definitions only; the theorems are in Proofs/PollersP.v.
   Go maps / mapset sets are kept as key-sorted association lists / sorted lists (insertion overwrites), which is the
   canonical form the harness prints (it sorts what Go leaves unordered). *)
Require Import Verif.Model.Base.

(* ---------- canonical maps and sets ---------- *)
Fixpoint minsert {V} (k : N) (v : V) (m : list (N * V)) : list (N * V) :=
  match m with
  | [] => [(k, v)]
  | (k', v') :: m' =>
      if N.ltb k k' then (k, v) :: m
      else if N.eqb k k' then (k, v) :: m'
      else (k', v') :: minsert k v m'
  end.
Fixpoint sinsert (x : N) (s : list N) : list N :=
  match s with
  | [] => [x]
  | y :: s' => if N.ltb x y then x :: s else if N.eqb x y then s else y :: sinsert x s'
  end.
Definition set_of (l : list N) : list N := fold_left (fun s x => sinsert x s) l [].

(* ---------- the generic poller: poll loop, failure counter, Start / Close ---------- *)
Definition max_failed_polls : N := 10.

Section Poller.
  Variables P C V : Type.
  Variable fetchf : P -> res C.      (* one fetch: Ok c = fetched, Err = the poll failed, Panic = the goroutine dies *)
  Variable derive : C -> V.          (* setState: every stored view is computed from the one fetched configuration *)
  Variable reset_on_success : bool.  (* does a successful tick set failedPolls = 0 *)

  (* phase: 0 not started, 1 polling, 2 closed, 3 crashed (panic in the poll goroutine) *)
  Record pst := mkPst { phase : N; first_done : bool; failed : N; views : V }.

  Inductive pev :=
  | EStart
  | EPoll (p : P)       (* the next fetch of the poll loop completes with the contract reader answering p *)
  | ERead               (* a reader calls getters / HealthReport *)
  | EClose.

  Definition pinit (v0 : V) : pst := mkPst 0 false 0 v0.

  Definition pstep (s : pst) (e : pev) : pst :=
    match e with
    | EStart => if N.eqb (phase s) 0 then mkPst 1 (first_done s) (failed s) (views s) else s
    | ERead => s
    | EClose => if N.eqb (phase s) 1 then mkPst 2 (first_done s) 0 (views s) else s
    | EPoll p =>
        if N.eqb (phase s) 1 then
          match fetchf p with
          | Ok c =>
              (* the initial fetch (before the ticker) neither counts nor resets *)
              mkPst 1 true
                    (if first_done s then (if reset_on_success then 0%N else failed s) else failed s)
                    (derive c)
          | Err => mkPst 1 true (if first_done s then succ64 (failed s) else failed s) (views s)
          | _ => mkPst 3 (first_done s) (failed s) (views s)
          end
        else s
    end.

  Definition prun (v0 : V) (evs : list pev) : pst := fold_left pstep evs (pinit v0).

  Definition ready (s : pst) : bool := N.eqb (phase s) 1.
  (* HealthReport()[name] == nil *)
  Definition healthy (s : pst) : bool := N.eqb (phase s) 1 && N.ltb (failed s) max_failed_polls.

  (* ----- specification-level reading of a history (no state machine): used by the theorems and by the
     executable property of the correspondence check ----- *)
  Definition is_start (e : pev) : bool := match e with EStart => true | _ => false end.
  (* an event that ends polling: Close, or a fetch that kills the goroutine *)
  Definition is_stop (e : pev) : bool :=
    match e with
    | EClose => true
    | EPoll p => match fetchf p with Ok _ | Err => false | _ => true end
    | _ => false
    end.
  Fixpoint after_start (evs : list pev) : list pev :=
    match evs with [] => [] | EStart :: r => r | _ :: r => after_start r end.
  Fixpoint until_stop (evs : list pev) : list pev :=
    match evs with [] => [] | e :: r => if is_stop e then [] else e :: until_stop r end.
  (* the events that happen while the poll loop is alive *)
  Definition live (evs : list pev) : list pev := until_stop (after_start evs).
  Definition running (evs : list pev) : bool :=
    existsb is_start evs && negb (existsb is_stop (after_start evs)).
  Definition closed (evs : list pev) : bool :=
    match find is_stop (after_start evs) with Some EClose => true | _ => false end.
  (* outcome of every fetch completed while alive, oldest first: Some c = fetched c, None = failed *)
  Definition poll_results (evs : list pev) : list (option C) :=
    flat_map (fun e => match e with
                       | EPoll p => match fetchf p with Ok c => [Some c] | _ => [None] end
                       | _ => [] end) (live evs).
  Definition is_some {A} (o : option A) : bool := match o with Some _ => true | None => false end.
  (* the configuration of the most recent successful fetch *)
  Definition last_good (evs : list pev) : option C :=
    match find is_some (rev (poll_results evs)) with Some (Some c) => Some c | _ => None end.
  Fixpoint leading_failures (rs : list (option C)) : nat :=
    match rs with None :: r => S (leading_failures r) | _ => O end.
  (* number of failed polls since the last successful one, among the ticker-driven polls (all but the initial fetch) *)
  Definition trailing_failures (evs : list pev) : nat := leading_failures (rev (tl (poll_results evs))).
  Definition total_failures (evs : list pev) : nat :=
    length (filter (fun r => negb (is_some r)) (tl (poll_results evs))).
  Definition spec_views (v0 : V) (evs : list pev) : V :=
    match last_good evs with Some c => derive c | None => v0 end.
  Definition spec_failed (evs : list pev) : N :=
    if running evs then
      (N.of_nat (if reset_on_success then trailing_failures evs else total_failures evs) mod two64)%N
    else 0%N.
  Definition spec_healthy (evs : list pev) : bool := running evs && N.ltb (spec_failed evs) max_failed_polls.
End Poller.

Arguments mkPst {V} _ _ _ _.
Arguments phase {V} _.
Arguments first_done {V} _.
Arguments failed {V} _.
Arguments views {V} _.
Arguments EStart {P}.
Arguments EPoll {P} _.
Arguments ERead {P}.
Arguments EClose {P}.
Arguments pinit {V} _.
Arguments pstep {P C V} _ _ _ _ _.
Arguments prun {P C V} _ _ _ _ _.
Arguments ready {V} _.
Arguments healthy {V} _.
Arguments is_start {P} _.
Arguments is_stop {P C} _ _.
Arguments after_start {P} _.
Arguments until_stop {P C} _ _.
Arguments live {P C} _ _.
Arguments running {P C} _ _.
Arguments closed {P C} _ _.
Arguments poll_results {P C} _ _.
Arguments last_good {P C} _ _.
Arguments leading_failures {C} _.
Arguments trailing_failures {P C} _ _.
Arguments total_failures {P C} _ _.
Arguments spec_views {P C V} _ _ _ _.
Arguments spec_failed {P C} _ _ _.
Arguments spec_healthy {P C} _ _ _.

(* ---------- home chain ---------- *)
(* one ChainConfigInfo as returned by the contract; e_cfg = None when chainconfig.DecodeChainConfig fails,
   otherwise an id standing for the decoded chain configuration *)
Record entry := mkE { e_sel : N; e_readers : list N; e_f : N; e_cfg : option N }.
Record chaincfg := mkCC { cc_f : N; cc_nodes : list N; cc_cfg : N }.
Definition hcfgs := list (N * chaincfg).

Definition home_page_size : nat := 100.

(* fetchAndSetConfigs paging loop: one element per GetLatestValue call (None = the call fails);
   pages are concatenated until the first page shorter than the page size.
   A script that ends before a short page means the next call fails (the harness's reader answers with an error). *)
Fixpoint home_fetch_pages (psz : nat) (pages : list (option (list entry))) (acc : list entry) : res (list entry) :=
  match pages with
  | [] => Err
  | None :: _ => Err
  | Some pg :: rest =>
      if Nat.ltb (length pg) psz then Ok (acc ++ pg) else home_fetch_pages psz rest (acc ++ pg)
  end.

(* convertOnChainConfigToHomeChainConfig: undecodable entries are skipped, a later entry overwrites an earlier one *)
Definition home_convert_step (m : hcfgs) (e : entry) : hcfgs :=
  match e_cfg e with
  | None => m
  | Some c => minsert (e_sel e) (mkCC (e_f e) (set_of (e_readers e)) c) m
  end.
Definition home_convert (es : list entry) : hcfgs := fold_left home_convert_step es [].

Definition home_fetch (pages : list (option (list entry))) : res hcfgs :=
  match home_fetch_pages home_page_size pages [] with
  | Ok es => Ok (home_convert es)
  | Err => Err | Panic => Panic | Spin => Spin
  end.

(* createNodesSupportedChains / createKnownChains / createFChain *)
Definition add_supported (ch : N) (m : list (N * list N)) (p : N) : list (N * list N) :=
  minsert p (sinsert ch (match alookup p m with Some s => s | None => [] end)) m.
Definition create_nsup (c : hcfgs) : list (N * list N) :=
  fold_left (fun m kv => fold_left (add_supported (fst kv)) (cc_nodes (snd kv)) m) c [].
Definition create_known (c : hcfgs) : list N := set_of (map fst c).
Definition create_fchain (c : hcfgs) : list (N * N) :=
  fold_left (fun m kv => minsert (fst kv) (cc_f (snd kv)) m) c [].

(* the poller's `state` struct *)
Record hviews := mkHV {
  hv_cc : hcfgs; hv_nsup : list (N * list N); hv_known : list N; hv_fch : list (N * N) }.
(* setState *)
Definition home_derive (c : hcfgs) : hviews := mkHV c (create_nsup c) (create_known c) (create_fchain c).
Definition home_init : hviews := mkHV [] [] [] [].

(* getters *)
Definition get_chain_config (v : hviews) (sel : N) : option chaincfg := alookup sel (hv_cc v).   (* None = error *)
Definition get_all_chain_configs (v : hviews) : hcfgs := hv_cc v.
Definition get_supported_chains (v : hviews) (p : N) : list N :=
  match alookup p (hv_nsup v) with Some s => s | None => [] end.
Definition get_known_chains (v : hviews) : list N := set_of (map fst (hv_cc v)).   (* ranges over chainConfigs *)
Definition get_fchain (v : hviews) : list (N * N) := hv_fch v.

Definition home_ev := @pev (list (option (list entry))).
Definition home_st := @pst hviews.
(* the poller as repaired (F21a): a successful tick resets the counter *)
Definition home_step : home_st -> home_ev -> home_st := pstep home_fetch home_derive true.
Definition home_run : list home_ev -> home_st := prun home_fetch home_derive true home_init.
(* the poller as it was: the counter only ever grows while polling *)
Definition home_step_unfixed : home_st -> home_ev -> home_st := pstep home_fetch home_derive false.
Definition home_run_unfixed : list home_ev -> home_st := prun home_fetch home_derive false home_init.

(* ---------- RMN home ---------- *)
Record rnode := mkRN { rn_peer : N; rn_key : N }.
(* rc_f is the on-chain uint64; rc_bitmap = None is a nil *big.Int *)
Record rchain := mkRC { rc_sel : N; rc_f : N; rc_bitmap : option Z }.
(* digest 0 = the all-zero (empty) digest *)
Record vconfig := mkVC { vc_digest : N; vc_nodes : list rnode; vc_chains : list rchain; vc_off : N }.

Record hnode := mkHN { hn_id : N; hn_peer : N; hn_key : N; hn_chains : list N }.
Record homecfg := mkHC { hc_nodes : list hnode; hc_f : list (N * Z); hc_digest : N; hc_off : N }.

Definition rmn_max_committee : Z := 256.

(* IsNodeObserver(sourceChain, nodeIndex, totalNodes) *)
Definition is_node_observer (bitmap : option Z) (j n : Z) : res bool :=
  if Z.gtb n rmn_max_committee || Z.leb n 0 then Err
  else if Z.ltb j 0 || Z.geb j n then Err
  else match bitmap with
       | None => Panic     (* Cmp on a nil *big.Int *)
       | Some b =>
           if Z.gtb b (Z.shiftl 1 n - 1) then Err
           else let mask := Z.shiftl 1 j in Ok (Z.eqb (Z.land b mask) mask)
       end.

(* int(chain.F) for a uint64 *)
Definition int_of_u64 (f : N) : Z :=
  if N.ltb f 9223372036854775808 then Z.of_N f else (Z.of_N f - 18446744073709551616)%Z.

(* inner loop `for j := 0; j < len(nodes); j++` for one source chain; supp = the nodes' SupportedSourceChains sets *)
Fixpoint mark_nodes (ch : rchain) (n : Z) (j : nat) (supp : list (list N)) : res (list (list N)) :=
  match supp with
  | [] => Ok []
  | s :: rest =>
      match is_node_observer (rc_bitmap ch) (Z.of_nat j) n with
      | Panic => Panic
      | Spin => Spin
      | Ok true => rbind (mark_nodes ch n (S j) rest) (fun r => Ok (sinsert (rc_sel ch) s :: r))
      | _ => rbind (mark_nodes ch n (S j) rest) (fun r => Ok (s :: r))     (* false, or error: warn and continue *)
      end
  end.
Fixpoint mark_chains (chains : list rchain) (n : Z) (supp : list (list N)) : res (list (list N)) :=
  match chains with
  | [] => Ok supp
  | ch :: rest => rbind (mark_nodes ch n 0 supp) (mark_chains rest n)
  end.

Fixpoint mk_nodes (j : nat) (nodes : list rnode) (supp : list (list N)) : list hnode :=
  match nodes, supp with
  | nd :: nodes', s :: supp' => mkHN (N.of_nat j) (rn_peer nd) (rn_key nd) s :: mk_nodes (S j) nodes' supp'
  | _, _ => []
  end.

Definition convert_one (vc : vconfig) : res homecfg :=
  let n := length (vc_nodes vc) in
  rbind (mark_chains (vc_chains vc) (Z.of_nat n) (repeat [] n)) (fun supp =>
  Ok (mkHC (mk_nodes 0 (vc_nodes vc) supp)
           (fold_left (fun m ch => minsert (rc_sel ch) (int_of_u64 (rc_f ch)) m) (vc_chains vc) [])
           (vc_digest vc) (vc_off vc))).

Definition rmap := list (N * homecfg).
Fixpoint convert_list (l : list vconfig) (m : rmap) : res rmap :=
  match l with
  | [] => Ok m
  | vc :: l' =>
      if N.eqb (vc_digest vc) 0 then convert_list l' m       (* validate fails: skipped *)
      else rbind (convert_one vc) (fun hc => convert_list l' (minsert (vc_digest vc) hc m))
  end.

(* convertOnChainConfigToRMNHomeChainConfig(primary, secondary) *)
Definition rmn_convert (a c : vconfig) : res rmap :=
  if N.eqb (vc_digest a) 0 && N.eqb (vc_digest c) 0 then Ok []
  else convert_list (a :: (if N.eqb (vc_digest c) 0 then [] else [c])) [].

(* the poller's rmnHomeState: (active digest, candidate digest, configs by digest) *)
Definition rviews := (N * N * rmap)%type.
Definition rmn_init : rviews := (0%N, 0%N, []).

(* fetchAndSetRmnHomeConfigs: None = GetLatestValue fails; both digests empty is a failed poll *)
Definition rmn_fetch (p : option (vconfig * vconfig)) : res rviews :=
  match p with
  | None => Err
  | Some (a, c) =>
      if N.eqb (vc_digest a) 0 && N.eqb (vc_digest c) 0 then Err
      else rbind (rmn_convert a c) (fun m => Ok (vc_digest a, vc_digest c, m))
  end.

(* getters; None = error *)
Definition rmn_cfg (v : rviews) (d : N) : option homecfg := alookup d (snd v).
Definition get_nodes_info (v : rviews) (d : N) : option (list hnode) := option_map hc_nodes (rmn_cfg v d).
Definition is_digest_set (v : rviews) (d : N) : bool := match rmn_cfg v d with Some _ => true | None => false end.
Definition get_f (v : rviews) (d : N) : option (list (N * Z)) := option_map hc_f (rmn_cfg v d).
Definition get_offchain (v : rviews) (d : N) : option N := option_map hc_off (rmn_cfg v d).
Definition get_digests (v : rviews) : N * N := fst v.

Definition rmn_ev := @pev (option (vconfig * vconfig)).
Definition rmn_st := @pst rviews.
Definition rmn_step : rmn_st -> rmn_ev -> rmn_st := pstep rmn_fetch (fun v => v) true.
Definition rmn_run : list rmn_ev -> rmn_st := prun rmn_fetch (fun v => v) true rmn_init.

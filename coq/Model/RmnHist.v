(* RmnHist.v — the LONG-LIVED rmn.controller: a sequence of ComputeReportSignatures calls on one instance.
   No proofs in this file.

   The controller struct (commit/merkleroot/rmn/controller.go) holds collaborators only — logger, RMNCrypto,
   PeerClient, RMNHome reader, ed25519 verifier, two timer durations; every piece of working state of a call
   (requestIDs, requestNodes, finishedRequestIDs, requestedNodes, the accepted observations and signatures, the timers)
   is a local of that call, and the RMNHome / RMNRemote configuration is read anew by every call.  What does live on
   between calls is outside the controller's own fields: the PeerClient (its connections, and answers to requests of
   EARLIER calls that are still on their way and are handed to whichever call is listening when they arrive) and the
   stream of request ids (newRequestID draws from crypto/rand; "ids never repeat" is the assumption under which
   late answers are harmless).

   The history machine below therefore threads exactly one thing from call to call: the position in ONE global
   request-id stream [gid] (the k-th Send call of the controller's lifetime carries id [gid k]).  A call is given by
   the configuration current at that call (what RMNHome.GetRMNNodesInfo / GetF answer, the RemoteConfig, the
   requests, the destination), Go's random choices during that call, and the events its select loops see — among
   them possibly late answers to earlier calls. *)
Require Import Verif.Model.Base Verif.Model.Rmn.

Record call := mkCall { cl_cfg : config; cl_sc : sched; cl_evs : list event }.

(* the schedule of a call that starts after [off] Send calls of earlier calls: ids come from the global stream *)
Definition with_ids (gid : nat -> reqid) (off : nat) (sc : sched) : sched :=
  mkSched (s_order1 sc) (s_sendA1 sc) (s_sendA2 sc) (s_rootord sc) (s_shufB1 sc) (s_shufB2 sc)
          (fun k => gid (off + k)) (s_fail sc).

(* number of PeerClient.Send calls a call has made *)
Definition sends_of (g : gstate) : nat := length (g_log g).

(* what the long-lived controller sees: a new call (with the configuration current at that moment), or an event
   delivered to the call in progress *)
Inductive hevent := HCall (cfg : config) (sc : sched) | HEv (e : event).

Record hcur := mkCur { hc_cfg : config; hc_sc : sched; hc_off : nat; hc_g : gstate }.
Record hstate := mkH {
  h_done : list (nat * gstate);    (* earlier calls: (Send calls before the call, its last state) *)
  h_cur : option hcur }.           (* the call in progress *)

Section Hist.
  Variable edv : N -> observation -> N -> bool.
  Variable vrs : N -> N -> report -> bool.
  Variable fx : fixes.
  Variable gid : nat -> reqid.

  Definition hinit : hstate := mkH [] None.

  (* the calls so far, and the number of Send calls they made together *)
  Definition hclose (h : hstate) : list (nat * gstate) * nat :=
    match h_cur h with
    | None => (h_done h, 0%nat)
    | Some c => (h_done h ++ [(hc_off c, hc_g c)], (hc_off c + sends_of (hc_g c))%nat)
    end.

  Definition hstep (h : hstate) (e : hevent) : hstate :=
    match e with
    | HCall cfg sc =>
        let d := hclose h in
        let sc' := with_ids gid (snd d) sc in
        mkH (fst d) (Some (mkCur cfg sc' (snd d) (ginit cfg sc')))
    | HEv e =>
        match h_cur h with
        | Some c => mkH (h_done h)
                        (Some (mkCur (hc_cfg c) (hc_sc c) (hc_off c) (gstep edv vrs fx (hc_cfg c) (hc_sc c) (hc_g c) e)))
        | None => h
        end
    end.

  Definition hrun (evs : list hevent) : hstate := fold_left hstep evs hinit.
  Definition hresults (h : hstate) : list (nat * gstate) := fst (hclose h).

  (* the concatenated history of a list of calls *)
  Definition flatten (calls : list call) : list hevent :=
    flat_map (fun c => HCall (cl_cfg c) (cl_sc c) :: map HEv (cl_evs c)) calls.

  (* the single-call machine [run] applied to every call on its own *)
  Fixpoint hmap (off : nat) (calls : list call) : list (nat * gstate) :=
    match calls with
    | [] => []
    | c :: rest =>
        let g := run edv vrs fx (cl_cfg c) (with_ids gid off (cl_sc c)) (cl_evs c) in
        (off, g) :: hmap (off + sends_of g) rest
    end.
End Hist.

(* an answer that carries a request id issued BEFORE the call that starts at position [off] of the id stream *)
Definition issued_before (gid : nat -> reqid) (off : nat) (id : reqid) : bool :=
  existsb (fun m => N.eqb id (gid m)) (seq 0 off).
Definition not_leftover (gid : nat -> reqid) (off : nat) (e : event) : bool :=
  match e with
  | Resp _ (BMsg id _) => negb (issued_before gid off id)
  | _ => true
  end.

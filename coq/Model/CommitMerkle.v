(* CommitMerkle.v — model of the interval selection and merkle-root observation of the commit plugin:
     commit/merkleroot/outcome.go:reportRangesOutcome           (report_ranges)
     commit/merkleroot/observation.go:ObserveMerkleRoots        (observe_roots)
     commit/merkleroot/observation.go:msgsCoverRange            (covers; added by fixes/F01.patch)
     commit/merkleroot/observation.go:computeMerkleRoot         (compute_root)
     chainlink-common/pkg/merklemulti:NewTree / Root            (mroot)
   Chains, addresses, hashes and roots are abstract ids (N). Go maps are association lists, iterated in
   list order. The consensus result (agreed on-ramp / off-ramp maps) is an input. *)
Require Import Verif.Model.Base Verif.Model.SeqRange.

(* ---------- reportRangesOutcome: ranges and carried off-ramp cursor ---------- *)
Definition chain_range := (N * (N * N))%type.        (* chain, (start, end) *)
Definition seq_chain := (N * N)%type.                (* chain, sequence number *)

Definition fst_le {V} (a b : N * V) : bool := N.leb (fst a) (fst b).

(* the loop over the off-ramp map (iteration order = list order):
     on-ramp value missing -> continue (neither a range nor an off-ramp entry)
     off <= on             -> append range [off,on].Limit(n)
     always (when present) -> append (chain, off) to the carried list *)
Fixpoint rr_loop (lim : N -> N -> N -> N * N) (on : list seq_chain) (n : N) (off : list seq_chain)
  : list chain_range * list seq_chain :=
  match off with
  | [] => ([], [])
  | (k, o) :: off' =>
      let '(rs, os) := rr_loop lim on n off' in
      match alookup k on with
      | None => (rs, os)
      | Some m => ((if N.leb o m then [(k, lim o m n)] else []) ++ rs, (k, o) :: os)
      end
  end.

(* both lists are sorted by chain selector at the end ("deterministic outcome") *)
Definition report_ranges_with (lim : N -> N -> N -> N * N) (on off : list seq_chain) (n : N)
  : list chain_range * list seq_chain :=
  let '(rs, os) := rr_loop lim on n off in (sort_by fst_le rs, sort_by fst_le os).

Definition report_ranges := report_ranges_with limit.
Definition report_ranges_unfixed := report_ranges_with limit_unfixed.

(* ---------- merkle tree (merklemulti.NewTree + Root) over an abstract internal hash ---------- *)
Section Tree.
  Variable h : N -> N -> N.     (* hasher.HashInternal *)
  Variable zero : N.            (* hasher.ZeroHash() *)

  (* computeNextLayer: pad an odd layer with the zero hash, hash neighbours pairwise *)
  Fixpoint next_layer (l : list N) : list N :=
    match l with
    | [] => []
    | [a] => [h a zero]
    | a :: b :: r => h a b :: next_layer r
    end.

  (* NewTree's loop "for len(layer) > 1"; fuel = number of leaves is enough (proved in CommitMerkleP) *)
  Fixpoint mroot_fuel (fuel : nat) (l : list N) : option N :=
    match fuel with
    | O => None
    | S f =>
        match l with
        | [] => None                       (* "Cannot construct a tree without leaves" *)
        | [a] => Some a
        | _ => mroot_fuel f (next_layer l)
        end
    end.
  Definition mroot (l : list N) : option N := mroot_fuel (length l) l.

  (* ---------- computeMerkleRoot ---------- *)
  (* a message as far as this code looks at it: sequence number, header source chain, and the answer of the
     message hasher (None = hasher error) *)
  Definition msg := (N * N * option N)%type.
  Definition m_seq (m : msg) : N := fst (fst m).
  Definition m_src (m : msg) : N := snd (fst m).
  Definition m_hash (m : msg) : option N := snd m.
  Definition seq_le (a b : msg) : bool := N.leb (m_seq a) (m_seq b).

  (* the loop: for i>0 require seq[i] == seq[i-1]+1 (uint64), then hash; first failure aborts *)
  Fixpoint hash_consecutive (prev : option N) (ms : list msg) : option (list N) :=
    match ms with
    | [] => Some []
    | m :: ms' =>
        let gap := match prev with
                   | None => false
                   | Some p => negb (N.eqb (m_seq m) (succ64 p))
                   end in
        if gap then None
        else match m_hash m with
             | None => None
             | Some x =>
                 match hash_consecutive (Some (m_seq m)) ms' with
                 | None => None
                 | Some hs => Some (x :: hs)
                 end
             end
    end.

  Definition compute_root (ms : list msg) : option N :=
    match hash_consecutive None (sort_by seq_le ms) with
    | None => None
    | Some hs => mroot hs
    end.

  (* ---------- msgsCoverRange (fixes/F01.patch) ---------- *)
  Definition covers (ms : list msg) (s e : N) : bool :=
    if N.ltb e s then false
    else match ms with
         | [] => false
         | _ :: ms' =>
             N.eqb (N.of_nat (length ms')) (sub64 e s) &&
             forallb (fun m => N.leb s (m_seq m) && N.leb (m_seq m) e) ms
         end.

  (* ---------- ObserveMerkleRoots ---------- *)
  Definition root_obs := (N * (N * N) * N * N)%type.     (* chain, range, on-ramp address, root *)

  (* one goroutine: reader answer (None = error), then cover check, root, address lookup (None = error) *)
  Definition observe_one_with (check : bool) (k s e : N) (ans : option (list msg)) (addr : option N)
    : option root_obs :=
    match ans with
    | None => None
    | Some ms =>
        if check && negb (covers ms s e) then None
        else match compute_root ms with
             | None => None
             | Some r =>
                 match addr with
                 | None => None
                 | Some a => Some (k, (s, e), a, r)
                 end
             end
    end.
  Definition observe_one := observe_one_with true.
  Definition observe_one_unfixed := observe_one_with false.     (* before fixes/F01.patch *)

  (* supported = None when SupportedChains fails (nil result). The roots are appended as the goroutines
     finish; the model lists them in range order, comparisons are made up to order. *)
  Definition observe_roots_with (check : bool) (supported : option (list N)) (ranges : list chain_range)
             (reader : N -> N * N -> option (list msg)) (addr : N -> option N) : list root_obs :=
    match supported with
    | None => []
    | Some sup =>
        flat_map (fun cr : chain_range =>
                    let '(k, (s, e)) := cr in
                    if memN k sup then
                      match observe_one_with check k s e (reader k (s, e)) (addr k) with
                      | Some r => [r]
                      | None => []
                      end
                    else []) ranges
    end.
  Definition observe_roots := observe_roots_with true.
  Definition observe_roots_unfixed := observe_roots_with false.
End Tree.

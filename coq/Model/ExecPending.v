(* ExecPending.v — model of the execute plugin's "which commit reports are still pending" computation:
   execute/plugin_functions.go: computeRanges, groupByChainSelector, filterOutExecutedMessages (with the repair of
   F15; the function as it was is [filter_executed_unfixed]); execute/plugin.go: getPendingExecutedReports.

   ExecutedMessages of a report is a Go slice of sequence numbers that the code fills with `for s := a; s <= b; s++`
   loops over wire-supplied uint64 bounds.  It is modelled in closed form as a list of RUNS (a, b), a <= b, standing
   for a, a+1, ..., b; the slice is the concatenation of its runs.  No recursion depends on a sequence number.  The
   one loop that cannot end (bound 2^64-1 inside a report that also ends at 2^64-1) is [Spin].  No proofs here. *)
Require Import Verif.Model.Base.

Definition range := (N * N)%type.          (* cciptypes.SeqNumRange: inclusive *)
Definition r_start (r : range) : N := fst r.
Definition r_end (r : range) : N := snd r.

Record rep := mkRep {
  p_id : N;                 (* interned identity of the rest of the CommitData (root, timestamp, block, chain) *)
  p_lo : N; p_hi : N;       (* SequenceNumberRange *)
  p_exec : list range       (* ExecutedMessages as runs *)
}.

(* ---------- computeRanges ---------- *)
Fixpoint compute_ranges_from (cur : range) (acc : list range) (l : list range) : res (list range) :=
  match l with
  | [] => Ok (acc ++ [cur])
  | r :: l' =>
      if N.eqb (succ64 (r_end cur)) (r_start r) then compute_ranges_from (r_start cur, r_end r) acc l'
      else if N.ltb (r_start r) (r_end cur) then Err                       (* errOverlappingRanges *)
      else compute_ranges_from r (acc ++ [cur]) l'
  end.
Definition compute_ranges (l : list range) : res (list range) :=
  match l with
  | [] => Ok []
  | r :: l' => compute_ranges_from r [] l'
  end.

(* ---------- groupByChainSelector: commit reports (each a list of per-chain roots) -> chain -> reports ---------- *)
Fixpoint aappend {V} (k : N) (v : V) (m : list (N * list V)) : list (N * list V) :=
  match m with
  | [] => [(k, [v])]
  | (k', l) :: m' => if N.eqb k' k then (k', l ++ [v]) :: m' else (k', l) :: aappend k v m'
  end.
Definition group_by_chain (reports : list (list (N * rep))) : list (N * list rep) :=
  fold_left (fun m cr => aappend (fst cr) (snd cr) m) (concat reports) [].

(* ---------- filterOutExecutedMessages ---------- *)
Definition by_start (l : list rep) : list rep := sort_by (fun a b => N.leb (p_lo a) (p_lo b)) l.
Definition ranges_by_start (l : list range) : list range := sort_by (fun a b => N.leb (r_start a) (r_start b)) l.

(* "Make sure they do not overlap": previousMax starts at 0 *)
Fixpoint no_overlap (prev : N) (es : list range) : bool :=
  match es with
  | [] => true
  | e :: es' => if N.ltb (r_start e) prev then false else no_overlap (r_end e) es'
  end.

Record fstate := mkFS { fs_reports : list rep; fs_idx : nat; fs_out : list rep }.
Definition upd (i : nat) (r : rep) (l : list rep) : list rep := firstn i l ++ r :: skipn (S i) l.   (* l[i] = r *)
Definition add_run (r : rep) (run : range) : rep := mkRep (p_id r) (p_lo r) (p_hi r) (p_exec r ++ [run]).

(* for i := reportIdx; i < len(reports); i++ { ... } for one executed range e; k = iterations left *)
Fixpoint inner (e : range) (k : nat) (i : nat) (st : fstate) : res fstate :=
  match k with
  | O => Ok st
  | S k' =>
      match nth_error (fs_reports st) i with
      | None => Ok st
      | Some r =>
          if N.ltb (r_end e) (p_lo r) then Ok st                                         (* break *)
          else if N.leb (r_start e) (p_lo r) && N.leb (p_hi r) (r_end e) then            (* fully executed: skip *)
            inner e k' (S i) (mkFS (fs_reports st) (S (fs_idx st)) (fs_out st))
          else
            let s0 := N.max (r_start e) (p_lo r) in
            if N.ltb (r_end e) s0 then inner e k' (S i) st                               (* s-loop does not start *)
            else if N.ltb (p_hi r) s0 then                                               (* first s is past the report *)
              inner e k' (S i) (mkFS (fs_reports st) (S (fs_idx st)) (fs_out st ++ [r]))
            else if N.ltb (p_hi r) (r_end e) then                                        (* s0..hi appended, then "runs into the next report" *)
              let r' := add_run r (s0, p_hi r) in
              inner e k' (S i) (mkFS (upd i r' (fs_reports st)) (S (fs_idx st)) (fs_out st ++ [r']))
            else if N.eqb (r_end e) max64 then Spin                                      (* s <= 2^64-1 never fails, s never passes hi = 2^64-1 *)
            else
              let r' := add_run r (s0, r_end e) in
              inner e k' (S i) (mkFS (upd i r' (fs_reports st)) (fs_idx st) (fs_out st))
      end
  end.

Fixpoint outer (es : list range) (st : fstate) : res fstate :=
  match es with
  | [] => Ok st
  | e :: es' => rbind (inner e (length (fs_reports st) - fs_idx st) (fs_idx st) st) (outer es')
  end.

Definition filter_loops (reports : list rep) (executed : list range) : res (list rep) :=
  let rs := by_start reports in
  match executed with
  | [] => Ok rs
  | _ =>
      let es := ranges_by_start executed in
      if no_overlap 0 es then
        rbind (outer es (mkFS rs 0 [])) (fun st => Ok (fs_out st ++ skipn (fs_idx st) (fs_reports st)))
      else Err
  end.
Definition filter_executed_unfixed := filter_loops.

(* the repair of F15, a pass over the result: slices.Compact on ExecutedMessages, then drop the report when the
   number of executed messages equals the size of its range *)
Fixpoint compact_runs (last : option N) (runs : list range) : list range :=
  match runs with
  | [] => []
  | (a, b) :: runs' =>
      match last with
      | Some l => if N.eqb a l then (if N.eqb a b then compact_runs last runs'
                                     else (N.succ a, b) :: compact_runs (Some b) runs')
                  else (a, b) :: compact_runs (Some b) runs'
      | None => (a, b) :: compact_runs (Some b) runs'
      end
  end.
Definition run_len (r : range) : N := (snd r - fst r + 1)%N.
Definition runs_len (runs : list range) : N := fold_right (fun r n => (run_len r + n)%N) 0%N runs.
Definition num_messages (r : rep) : N := add64 (sub64 (p_hi r) (p_lo r)) 1.       (* uint64(End-Start)+1 *)
Definition still_pending (r : rep) : list rep :=
  let runs := compact_runs None (p_exec r) in
  let r' := mkRep (p_id r) (p_lo r) (p_hi r) runs in
  if N.ltb 0 (runs_len runs) && N.eqb (runs_len runs) (num_messages r) then [] else [r'].

Definition filter_executed (reports : list rep) (executed : list range) : res (list rep) :=
  match executed with
  | [] => filter_loops reports executed                        (* early return: the sorted input, untouched *)
  | _ => rbind (filter_loops reports executed) (fun out => Ok (flat_map still_pending out))
  end.

(* ---------- getPendingExecutedReports (the reader is an oracle) ----------
   [commit_reports]: CommitReportsGTETimestamp, None = error; [executed_of chain range]: ExecutedMessageRanges *)
Definition pending_chain (executed_of : N -> range -> option (list range)) (chain : N) (reports : list rep)
  : res (list rep) :=
  match reports with
  | [] => Ok []
  | _ =>
      rbind (compute_ranges (map (fun r => (p_lo r, p_hi r)) reports)) (fun ranges =>
      let answers := map (executed_of chain) ranges in
      if existsb (fun a => match a with None => true | Some _ => false end) answers then Err
      else filter_executed reports (concat (map (fun a => match a with Some l => l | None => [] end) answers)))
  end.

Fixpoint pending_all (executed_of : N -> range -> option (list range)) (groups : list (N * list rep))
  : res (list (N * list rep)) :=
  match groups with
  | [] => Ok []
  | (c, reports) :: g' =>
      rbind (pending_chain executed_of c reports) (fun rs =>
      rbind (pending_all executed_of g') (fun rest => Ok ((c, rs) :: rest)))
  end.

Definition pending_reports (commit_reports : option (list (list (N * rep))))
           (executed_of : N -> range -> option (list range)) : res (list (N * list rep)) :=
  match commit_reports with
  | None => Err
  | Some crs => pending_all executed_of (group_by_chain crs)
  end.

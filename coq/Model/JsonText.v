(* JsonText.v — the JSON text layer of Go's encoding/json (go1.23) between byte strings and the syntax tree of
   Model/Codec.v (C20).
   [print]: the bytes json.Marshal emits for a tree: compact form, members in the order given, strings escaped as
   encode.go appendString does with escapeHTML = true (what json.Marshal uses): the quote and the backslash as a
   two-byte escape, \b \f \n \r \t, every other byte below 0x20 and < > & as \u00XX (lower-case hex), 0x7f and the
   rest of ASCII unchanged.  Number tokens are kept as written.
   [parse]: what json.Unmarshal's scanner (scanner.go) accepts and what decode.go makes of it, for the constructs
   of the tree: white space (space, \t, \r, \n) around every token, the eight short escapes and \uXXXX (either
   case of hex digits), the number grammar of the scanner's state functions (state0, state1, stateDot ...) with
   the token kept as text, true / false / null, arrays, objects (members kept in textual order, duplicates
   included: Model/Codec.dec folds over them so that the last one wins as in Go), the nesting limit of 10000 open
   containers, and an error for anything but white space after the top-level value.
   Modelled subset: string bytes and \u escapes below 128.  A byte >= 128 inside a string and a \u escape >= 0080
   (surrogate pairs included) make [parse] answer None although Go accepts them (UTF-8 re-coding is outside the
   model); every string of the wire types is ASCII (hex, decimal, base64, RFC 3339, enum names, member names,
   map keys that are decimal selectors).
   The parser is recursive descent with explicit fuel; [parse] supplies the length of the input, which always
   suffices (Proofs/JsonTextP.parse_value_fuel). *)
Require Import Verif.Model.Base Verif.Model.Codec.

Definition true_tok : text := [116; 114; 117; 101]%N.
Definition false_tok : text := [102; 97; 108; 115; 101]%N.

(* ====================================================================================================== *)
(* ---------- encoder ---------- *)
(* one byte of a string (appendString, escapeHTML = true) *)
Definition esc_char (c : N) : text :=
  if N.eqb c 34 then [92; 34]%N
  else if N.eqb c 92 then [92; 92]%N
  else if N.eqb c 8 then [92; 98]%N
  else if N.eqb c 12 then [92; 102]%N
  else if N.eqb c 10 then [92; 110]%N
  else if N.eqb c 13 then [92; 114]%N
  else if N.eqb c 9 then [92; 116]%N
  else if N.ltb c 32 || N.eqb c 60 || N.eqb c 62 || N.eqb c 38
       then [92; 117; 48; 48; hexdigit (c / 16); hexdigit (c mod 16)]%N
  else [c].
Definition print_str (s : text) : text := (quote :: flat_map esc_char s) ++ [quote].

Fixpoint print (j : json) : text :=
  match j with
  | JNull => null_tok
  | JTrue => true_tok
  | JFalse => false_tok
  | JNum s => s
  | JStr s => print_str s
  | JArr [] => [91; 93]%N
  | JArr (x :: l) =>
      91%N :: print x ++
      (fix tail (l : list json) : text :=
         match l with
         | [] => [93%N]
         | y :: l' => 44%N :: print y ++ tail l'
         end) l
  | JObj [] => [123; 125]%N
  | JObj (kv :: l) =>
      123%N :: print_str (fst kv) ++ 58%N :: print (snd kv) ++
      (fix tail (l : list (text * json)) : text :=
         match l with
         | [] => [125%N]
         | kv' :: l' => 44%N :: print_str (fst kv') ++ 58%N :: print (snd kv') ++ tail l'
         end) l
  end.

(* ====================================================================================================== *)
(* ---------- decoder ---------- *)
(* scanner.go isSpace *)
Definition is_ws (c : N) : bool := N.eqb c 32 || N.eqb c 9 || N.eqb c 13 || N.eqb c 10.
Fixpoint skip_ws (s : text) : text :=
  match s with
  | c :: r => if is_ws c then skip_ws r else s
  | [] => []
  end.

(* pushParseState: at most 10000 containers open at a time *)
Definition max_depth : N := 10000.

(* decode.go getu4 (hexval of Codec.v takes either case, as getu4 does) *)
Definition hex4 (a b c d : N) : option N :=
  match hexval a, hexval b, hexval c, hexval d with
  | Some x, Some y, Some z, Some w => Some (((x * 16 + y) * 16 + z) * 16 + w)%N
  | _, _, _, _ => None
  end.
(* stateInStringEsc / unquoteBytes: the character after a backslash *)
Definition unesc (e : N) : option N :=
  if N.eqb e 34 then Some 34%N
  else if N.eqb e 92 then Some 92%N
  else if N.eqb e 47 then Some 47%N
  else if N.eqb e 98 then Some 8%N
  else if N.eqb e 102 then Some 12%N
  else if N.eqb e 110 then Some 10%N
  else if N.eqb e 114 then Some 13%N
  else if N.eqb e 116 then Some 9%N
  else None.
Definition ocons {A B} (x : A) (o : option (list A * B)) : option (list A * B) :=
  match o with Some (l, r) => Some (x :: l, r) | None => None end.
(* the text after an opening quote: (unescaped content, text after the closing quote).
   stateInString: a byte below 0x20 is an error.  None also for what lies outside the modelled subset. *)
Fixpoint parse_str (s : text) : option (text * text) :=
  match s with
  | [] => None
  | c :: r =>
      if N.eqb c 34 then Some ([], r)
      else if N.eqb c 92 then
        match r with
        | [] => None
        | e :: r1 =>
            if N.eqb e 117 then
              match r1 with
              | h1 :: h2 :: h3 :: h4 :: r2 =>
                  match hex4 h1 h2 h3 h4 with
                  | Some u => if N.ltb u 128 then ocons u (parse_str r2) else None
                  | None => None
                  end
              | _ => None
              end
            else match unesc e with
                 | Some x => ocons x (parse_str r1)
                 | None => None
                 end
        end
      else if N.ltb c 32 then None
      else if N.ltb c 128 then ocons c (parse_str r)
      else None
  end.

(* number tokens: the scanner's state functions stateNeg, state0, state1, stateDot, stateDot0, stateE,
   stateESign, stateE0; NBegin is stateBeginValue restricted to the characters that start a number *)
Inductive nstate := NBegin | NNeg | N0 | N1 | NDot | NDot0 | NE | NESign | NE0.
Definition is_digit19 (c : N) : bool := N.leb 49 c && N.leb c 57.
Definition is_e (c : N) : bool := N.eqb c 101 || N.eqb c 69.
Definition num_step (st : nstate) (c : N) : option nstate :=
  match st with
  | NBegin => if N.eqb c 45 then Some NNeg else if N.eqb c 48 then Some N0
              else if is_digit19 c then Some N1 else None
  | NNeg => if N.eqb c 48 then Some N0 else if is_digit19 c then Some N1 else None
  | N1 => if is_digit c then Some N1 else if N.eqb c 46 then Some NDot else if is_e c then Some NE else None
  | N0 => if N.eqb c 46 then Some NDot else if is_e c then Some NE else None
  | NDot => if is_digit c then Some NDot0 else None
  | NDot0 => if is_digit c then Some NDot0 else if is_e c then Some NE else None
  | NE => if N.eqb c 43 || N.eqb c 45 then Some NESign else if is_digit c then Some NE0 else None
  | NESign => if is_digit c then Some NE0 else None
  | NE0 => if is_digit c then Some NE0 else None
  end.
(* states in which the scanner lets the value end (the others report "in numeric literal") *)
Definition num_final (st : nstate) : bool :=
  match st with N0 | N1 | NDot0 | NE0 => true | _ => false end.
(* longest run the state functions consume: (token, rest, state reached) *)
Fixpoint num_run (st : nstate) (s : text) : text * text * nstate :=
  match s with
  | [] => ([], [], st)
  | c :: r =>
      match num_step st c with
      | Some st' => let '(t, r', sf) := num_run st' r in (c :: t, r', sf)
      | None => ([], s, st)
      end
  end.
Definition scan_num (s : text) : option (text * text) :=
  let '(t, r, sf) := num_run NBegin s in if num_final sf then Some (t, r) else None.

(* a text that cannot prolong a complete number token standing before it *)
Definition num_stop (rest : text) : bool :=
  match rest with
  | [] => true
  | c :: _ => negb (is_digit c || N.eqb c 46 || is_e c)
  end.

(* the remaining letters of true / false / null *)
Fixpoint lit (w s : text) : option text :=
  match w with
  | [] => Some s
  | a :: w' => match s with
               | c :: r => if N.eqb a c then lit w' r else None
               | [] => None
               end
  end.

(* after `[` and a first non-`]` character: value (ws) then `,` (ws) value ... or `]`.
   [pv] parses one value, [n] bounds the number of elements *)
Fixpoint elems_loop (pv : text -> option (json * text)) (n : nat) (s : text) : option (list json * text) :=
  match n with
  | O => None
  | S n' =>
      match pv s with
      | None => None
      | Some (v, r) =>
          match skip_ws r with
          | [] => None
          | c :: r' =>
              if N.eqb c 44 then
                match elems_loop pv n' (skip_ws r') with
                | Some (vs, r'') => Some (v :: vs, r'')
                | None => None
                end
              else if N.eqb c 93 then Some ([v], r')
              else None
          end
      end
  end.
(* after `{` (or after `,` inside an object) and white space: "key" (ws) `:` (ws) value (ws) then `,` or `}` *)
Fixpoint members_loop (pv : text -> option (json * text)) (n : nat) (s : text)
  : option (list (text * json) * text) :=
  match n with
  | O => None
  | S n' =>
      match s with
      | [] => None
      | q :: r0 =>
          if negb (N.eqb q 34) then None else
          match parse_str r0 with
          | None => None
          | Some (k, r1) =>
              match skip_ws r1 with
              | [] => None
              | c1 :: r2 =>
                  if negb (N.eqb c1 58) then None else
                  match pv (skip_ws r2) with
                  | None => None
                  | Some (v, r3) =>
                      match skip_ws r3 with
                      | [] => None
                      | c :: r' =>
                          if N.eqb c 44 then
                            match members_loop pv n' (skip_ws r') with
                            | Some (kvs, r'') => Some ((k, v) :: kvs, r'')
                            | None => None
                            end
                          else if N.eqb c 125 then Some ([(k, v)], r')
                          else None
                      end
                  end
              end
          end
      end
  end.

(* one value at the head of [s] (no leading white space); [d] = containers open around it *)
Fixpoint parse_value (fuel : nat) (d : N) (s : text) : option (json * text) :=
  match fuel with
  | O => None
  | S f =>
      match s with
      | [] => None
      | c :: r =>
          if N.eqb c 34 then
            match parse_str r with Some (x, r') => Some (JStr x, r') | None => None end
          else if N.eqb c 91 then
            if N.leb max_depth d then None else
            match skip_ws r with
            | [] => None
            | c2 :: r2 =>
                if N.eqb c2 93 then Some (JArr [], r2)
                else match elems_loop (parse_value f (d + 1)) f (c2 :: r2) with
                     | Some (l, r') => Some (JArr l, r')
                     | None => None
                     end
            end
          else if N.eqb c 123 then
            if N.leb max_depth d then None else
            match skip_ws r with
            | [] => None
            | c2 :: r2 =>
                if N.eqb c2 125 then Some (JObj [], r2)
                else match members_loop (parse_value f (d + 1)) f (c2 :: r2) with
                     | Some (l, r') => Some (JObj l, r')
                     | None => None
                     end
            end
          else if N.eqb c 116 then
            match lit [114; 117; 101]%N r with Some r' => Some (JTrue, r') | None => None end
          else if N.eqb c 102 then
            match lit [97; 108; 115; 101]%N r with Some r' => Some (JFalse, r') | None => None end
          else if N.eqb c 110 then
            match lit [117; 108; 108]%N r with Some r' => Some (JNull, r') | None => None end
          else
            match scan_num s with Some (t, r') => Some (JNum t, r') | None => None end
      end
  end.

(* json.Unmarshal's view of a whole input: white space, one value, white space, end *)
Definition parse (s : text) : option json :=
  match parse_value (length s) 0 (skip_ws s) with
  | Some (j, r) => match skip_ws r with [] => Some j | _ :: _ => None end
  | None => None
  end.

(* ====================================================================================================== *)
(* ---------- the trees of the modelled subset ---------- *)
Definition ascii (s : text) : bool := forallb (fun c => N.ltb c 128) s.
(* a complete number token *)
Definition wf_num (s : text) : bool :=
  match scan_num s with
  | Some (_, []) => true
  | _ => false
  end.
(* [d] containers are open around the value *)
Fixpoint wf_at (d : N) (j : json) : bool :=
  match j with
  | JNull | JTrue | JFalse => true
  | JNum s => wf_num s
  | JStr s => ascii s
  | JArr l =>
      N.ltb d max_depth &&
      (fix go (l : list json) : bool :=
         match l with [] => true | x :: l' => wf_at (d + 1) x && go l' end) l
  | JObj l =>
      N.ltb d max_depth &&
      (fix go (l : list (text * json)) : bool :=
         match l with [] => true | kv :: l' => ascii (fst kv) && wf_at (d + 1) (snd kv) && go l' end) l
  end.
Definition wf_json (j : json) : bool := wf_at 0 j.

(* ---------- byte-level codec of a Go type = text layer composed with Codec.enc / Codec.dec ---------- *)
Definition encode_text (t : ty) (v : val) : text := print (enc t v).
Definition decode_text (t : ty) (s : text) : option val := obind (parse s) (dec t (zero t)).

(* nesting a type descriptor can produce *)
Fixpoint ty_depth (t : ty) : N :=
  match t with
  | TSlice e | TArray _ e | TMap _ e => 1 + ty_depth e
  | TPtr e => ty_depth e
  | TStruct fs =>
      1 + (fix go (fs : list (text * ty)) : N :=
             match fs with [] => 0 | f :: fs' => N.max (ty_depth (snd f)) (go fs') end) fs
  | _ => 0
  end%N.
(* the texts inside a value that reach the wire as they are: strings, string map keys, member names, opaque leaf
   tokens; all must lie in the modelled subset *)
Fixpoint txt_ok (t : ty) (v : val) {struct t} : bool :=
  match t, v with
  | TString, VStr s => ascii s
  | TOpaque _, VOpq j => wf_at 0 j
  | TSlice e, VList (Some l) => forallb (txt_ok e) l
  | TArray _ e, VArr l => forallb (txt_ok e) l
  | TMap km e, VMap (Some m) =>
      forallb (fun kv => (match km with Some _ => true | None => ascii (fst kv) end) && txt_ok e (snd kv)) m
  | TPtr e, VPtr (Some x) => txt_ok e x
  | TStruct fs, VRec vs =>
      (fix go (fs : list (text * ty)) (vs : list val) : bool :=
         match fs, vs with
         | f :: fs', x :: vs' => ascii (fst f) && txt_ok (snd f) x && go fs' vs'
         | _, _ => true
         end) fs vs
  | _, _ => true
  end.

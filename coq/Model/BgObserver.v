(* BgObserver.v — model of execute/tokendata/observer_background.go (backgroundObserver, msgQueue, inMemTokenDataCache)
   as a transition system. Executable definitions only; theorems are in Proofs/BgObserverP.v.

   Workers are anonymous: [idle] of them wait in `select { <-done; <-newMsgSignalChan }`, one per element of [inflight]
   is inside the underlying observer's Observe, [stopped] have returned. [signals] is the number of goroutines waiting
   to hand one new-message signal to a worker (the repaired enqueue sends the signal from a detached goroutine that
   also gives up on `done`; before the repair the caller of Observe itself was that sender: F22a).
   Time is a number read from the clock by the event that reads it. *)
Require Import Verif.Model.Base.

Record msg := mkM { m_id : N; m_chain : N; m_seq : N; m_sup : list bool }.   (* m_sup: IsTokenSupported per token *)
Record tok := mkT { t_ready : bool; t_sup : bool; t_data : N }.
Definition tdata := list tok.

(* MessageTokenData.SupportedAreReady *)
Definition sup_ready (d : tdata) : bool := forallb (fun t => negb (t_sup t) || t_ready t) d.
(* the not-ready placeholder Observe answers with: one slot per token *)
Definition initial_td (m : msg) : tdata := map (fun s => mkT false s 0) (m_sup m).

(* what the underlying observer hands back for a single message *)
Inductive fres :=
| FOk (d : tdata)     (* token data for the message's chain and sequence number *)
| FErr                (* error (also: the observe timeout expired) *)
| FMissing.           (* no entry for the chain / sequence number *)

Record bst := mkB {
  queue : list (msg * N);            (* FIFO; the N is the number of the Observe call that queued the message *)
  ids : list N;                      (* msgQueue.msgIDs *)
  cache : list (N * (tdata * N));    (* message id -> (token data, expiresAt) *)
  idle : N;
  inflight : list N;                 (* message ids being fetched, one worker each *)
  stopped : N;
  signals : N;
  closed : bool;
  epoch : N }.

Definition binit (workers : N) : bst := mkB [] [] [] workers [] 0 0 false 0.

Inductive obs_res :=
| Done (r : list (N * N * tdata))    (* one (chain, seq, token data) per message asked for, in the order asked *)
| ObsErr                             (* "internal error, cache contains not ready token data" *)
| Blocked.                           (* the call does not return in this state *)

Inductive bev :=
| BObserve (ms : list msg) (now : N)
| BTake (id : N)                     (* an idle worker receives a signal and dequeues message id *)
| BReturn (id : N) (r : fres) (now : N)   (* the fetch of id returns to its worker *)
| BTick (now : N)                    (* the cleanup loop fires *)
| BClose
| BExit                              (* an idle worker sees done and returns *)
| BSenderExit                        (* a pending signal sender sees done and returns *)
| BProbe                             (* look at the ids of the waiting messages and of the running fetches *)
| BCacheSize.                        (* look at the number of cache entries *)

Inductive bout :=
| OObs (r : obs_res)
| OProbe (queued fetching : list N)   (* message ids, ascending *)
| OCache (n : N)
| OTake (taken fifo : bool)          (* taken: the message was waiting and a worker could take it; fifo: nothing queued by an earlier Observe call was overtaken *)
| ONone.

Fixpoint remove_first {A} (f : A -> bool) (l : list A) : list A :=
  match l with [] => [] | x :: r => if f x then r else x :: remove_first f r end.

Section Bg.
  Variable ttl : N.                  (* cacheExpirationInterval *)
  Variable get_checks_expiry : bool. (* inMemTokenDataCache.get treats an expired entry as absent (repair of F22b) *)
  Variable async_signal : bool.      (* enqueue hands the signal to a detached sender (repair of F22a) *)

  (* hasExpired: time.Now().After(expiresAt) *)
  Definition expired (now exp : N) : bool := N.ltb exp now.

  Definition cache_get (now : N) (c : list (N * (tdata * N))) (id : N) : option tdata :=
    match alookup id c with
    | Some (d, exp) => if get_checks_expiry && expired now exp then None else Some d
    | None => None
    end.
  (* map assignment *)
  Definition cache_set (id : N) (v : tdata * N) (c : list (N * (tdata * N))) : list (N * (tdata * N)) :=
    (id, v) :: filter (fun kv => negb (N.eqb (fst kv) id)) c.

  (* a worker receives one signal and dequeues the first message *)
  Definition take_head (st : bst) : bst :=
    match queue st with
    | [] => st
    | (m, _) :: q =>
        mkB q (remove_first (N.eqb (m_id m)) (ids st)) (cache st) (idle st - 1) (inflight st ++ [m_id m]) (stopped st)
            (signals st) (closed st) (epoch st)
    end.

  (* second loop of Observe; the answers are accumulated in reverse *)
  Fixpoint observe_loop (st : bst) (ms : list msg) (now : N) (acc : list (N * N * tdata)) : bst * obs_res :=
    match ms with
    | [] => (st, Done (rev acc))
    | m :: ms' =>
        match cache_get now (cache st) (m_id m) with
        | Some d =>
            if sup_ready d then observe_loop st ms' now ((m_chain m, m_seq m, d) :: acc) else (st, ObsErr)
        | None =>
            let r := (m_chain m, m_seq m, initial_td m) in
            if memN (m_id m) (ids st) then observe_loop st ms' now (r :: acc)   (* already waiting: not queued again *)
            else
              let st1 := mkB (queue st ++ [(m, epoch st)]) (m_id m :: ids st) (cache st) (idle st) (inflight st)
                             (stopped st) (signals st) (closed st) (epoch st) in
              if async_signal then
                observe_loop (mkB (queue st1) (ids st1) (cache st1) (idle st1) (inflight st1) (stopped st1)
                                  (signals st1 + 1) (closed st1) (epoch st1)) ms' now (r :: acc)
              else if N.ltb 0 (idle st1) then observe_loop (take_head st1) ms' now (r :: acc)  (* rendezvous *)
              else (st1, Blocked)
        end
    end.

  Definition observe (st : bst) (ms : list msg) (now : N) : bst * obs_res :=
    let st0 := mkB (queue st) (ids st) (cache st) (idle st) (inflight st) (stopped st) (signals st) (closed st)
                   (epoch st + 1) in
    observe_loop st0 ms now [].

  Definition queued_before (e : N) (q : list (msg * N)) : bool := existsb (fun p => N.ltb (snd p) e) q.

  Definition bstep (st : bst) (e : bev) : bst * bout :=
    match e with
    | BObserve ms now =>
        let '(st', r) := observe st ms now in
        (st', OObs r)
    | BTake id =>
        match find (fun p => N.eqb (m_id (fst p)) id) (queue st) with
        | Some (m, ep) =>
            if N.ltb 0 (idle st) && N.ltb 0 (signals st) then
              (mkB (remove_first (fun p => N.eqb (m_id (fst p)) id) (queue st)) (remove_first (N.eqb id) (ids st))
                   (cache st) (idle st - 1) (inflight st ++ [id]) (stopped st) (signals st - 1) (closed st) (epoch st),
               OTake true (negb (queued_before ep (queue st))))
            else (st, OTake false false)
        | None => (st, OTake false false)
        end
    | BReturn id r now =>
        if memN id (inflight st) then
          let c' := match r with
                    | FOk d => if sup_ready d then cache_set id (d, now + ttl)%N (cache st) else cache st
                    | _ => cache st     (* error, missing entry, not ready: dropped, to be asked for again *)
                    end in
          (mkB (queue st) (ids st) c' (idle st + 1) (remove_first (N.eqb id) (inflight st)) (stopped st)
               (signals st) (closed st) (epoch st), ONone)
        else (st, ONone)
    | BTick now =>
        (mkB (queue st) (ids st) (filter (fun kv => negb (expired now (snd (snd kv)))) (cache st)) (idle st)
             (inflight st) (stopped st) (signals st) (closed st) (epoch st), ONone)
    | BClose => (mkB (queue st) (ids st) (cache st) (idle st) (inflight st) (stopped st) (signals st) true (epoch st), ONone)
    | BExit =>
        if closed st && N.ltb 0 (idle st) then
          (mkB (queue st) (ids st) (cache st) (idle st - 1) (inflight st) (stopped st + 1) (signals st) true (epoch st), ONone)
        else (st, ONone)
    | BSenderExit =>
        if closed st && N.ltb 0 (signals st) then
          (mkB (queue st) (ids st) (cache st) (idle st) (inflight st) (stopped st) (signals st - 1) true (epoch st), ONone)
        else (st, ONone)
    | BProbe => (st, OProbe (sortN (map (fun p => m_id (fst p)) (queue st))) (sortN (inflight st)))
    | BCacheSize => (st, OCache (N.of_nat (length (cache st))))
    end.

  Fixpoint brun (st : bst) (evs : list bev) : bst * list bout :=
    match evs with
    | [] => (st, [])
    | e :: r => let '(st1, o) := bstep st e in let '(st2, os) := brun st1 r in (st2, o :: os)
    end.
  Definition bstate (st : bst) (evs : list bev) : bst := fst (brun st evs).
End Bg.

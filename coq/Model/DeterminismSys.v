(* DeterminismSys.v — the WHOLE outcome of one round of the two plugins as a function of what libocr hands to every
   oracle: (previous outcome, query, ordered attributed observations, configuration).  Composition of the models of
   the other properties with every point at which the Go code RANGES over a map made explicit:

     commit   commit/plugin.go:Outcome = merkleroot.Processor.Outcome  (CommitConsensus.aggregate, get_consensus,
              CommitSM.get_outcome), tokenprice / chainfee processor.Outcome (Prices.v), discovery Outcome
              (Discovery.v), then Outcome.Encode (merkleroot.Outcome.Sort).
     execute  execute/outcome.go:Outcome = getConsensusObservation (the five merges over minObservation, whose
              GetValid iterates in ascending id order since the repair of F17), then getCommitReportsOutcome /
              getMessagesOutcome / getFilterOutcome (report builder of ExecReport.v), then newSortedOutcome.

   A Go map is an association list; list order = the order in which that oracle's runtime happens to range over it.
   Maps that arrive in the input (fields of observations, configuration) are related by [*_reorder]; maps built
   INSIDE the function (aggregated observation, consensus observation, merged observation, USD price map) are passed
   through a "runtime" [*_rt]: arbitrary functions that may permute every internal map before it is ranged over.
   The canon functions take NO own-oracle-id argument: the value cannot depend on which oracle computes it.
   No proofs in this file. *)
Require Import Verif.Model.Base Verif.Model.Consensus Verif.Model.Determinism.
Require Verif.Model.CommitConsensus Verif.Model.CommitSM Verif.Model.CommitLive Verif.Model.CommitMerkle
        Verif.Model.Prices Verif.Model.Discovery Verif.Model.Transmit Verif.Model.ExecReport.

Module CC := Verif.Model.CommitConsensus.
Module SM := Verif.Model.CommitSM.
Module PR := Verif.Model.Prices.
Module DI := Verif.Model.Discovery.
Module ER := Verif.Model.ExecReport.

(* ---------- what "the same map in another iteration order" means ---------- *)
(* one level: same entries, keys unique (that is what makes an association list a Go map) *)
Definition map_reorder {V} (m m' : list (N * V)) : Prop := NoDup (map fst m) /\ Permutation m m'.
(* a field that is a slice keeps its order; a field that is a map may be re-ordered *)
Definition field_reorder {V} (m m' : list (N * V)) : Prop := m = m' \/ map_reorder m m'.
(* the same ordered list of (oracle, observation) pairs, the observations related by R *)
Definition aos_rel {O} (R : O -> O -> Prop) (aos aos' : list (N * O)) : Prop :=
  Forall2 (fun ao ao' => fst ao = fst ao' /\ R (snd ao) (snd ao')) aos aos'.

(* ====================================================================================================
   A. commit
   ==================================================================================================== *)

(* ---------- A.1 merkle-root processor ---------- *)
(* merkleroot.Observation: MerkleRoots, OnRampMaxSeqNums, OffRampNextSeqNums are slices, RMNRemoteConfig a struct,
   FChain is the only map *)
Definition mr_obs_reorder (o o' : CC.obs) : Prop :=
  CC.o_roots o = CC.o_roots o' /\ CC.o_onramp o = CC.o_onramp o' /\ CC.o_offramp o = CC.o_offramp o' /\
  CC.o_rmn o = CC.o_rmn o' /\ map_reorder (CC.o_fchain o) (CC.o_fchain o').

(* getConsensusObservation from the aggregated observation on (the body of CommitConsensus.get_consensus):
   GetConsensusMap ranges over each aggregated map; the agreed fChain map is only looked up.
   [off_const]: the off-ramp numbers are agreed at the destination's f for every key (true; repair of F26) or at the
   f of the source chain that is the key (false).  Everything below holds for both. *)
Definition mr_cons_of_agg (off_const : bool) (F : Z) (dest : N) (a : CC.agg) : res CC.cons :=
  let fch := consensus_map Z.eqb (fun _ : N => Some (two_f_plus_1 F)) (CC.a_fchain a) in
  match alookup dest fch with
  | None => Err
  | Some fd =>
      Ok (CC.mkCons (consensus_map CC.root_eqb (thr_2f1 fch) (CC.a_roots a))
                    (consensus_map N.eqb (thr_2f1 fch) (CC.a_onramp a))
                    (consensus_map N.eqb (if off_const then (fun _ : N => Some (two_f_plus_1 fd)) else thr_2f1 fch)
                                   (CC.a_offramp a))
                    (consensus_map N.eqb (thr_2f1 fch) [(dest, CC.a_rmn a)])
                    fch)
  end.

(* the agreed RMN remote config of the destination as the state machine sees it: (identity, F). The identity is
   interned from the whole struct, so F is read from the first (slice order) observation carrying that identity *)
Definition rmn_f_of (aos : list CC.aobs) (id : N) : N :=
  match find (fun ao => negb (CC.rmn_is_empty (CC.o_rmn (snd ao))) && N.eqb (CC.rc_id (CC.o_rmn (snd ao))) id) aos with
  | Some ao => CC.rc_f (CC.o_rmn (snd ao))
  | None => 0%N
  end.
Definition mr_cfg_of (dest : N) (aos : list CC.aobs) (c : CC.cons) : SM.rmn_cfg :=
  match alookup dest (CC.c_rmn c) with
  | Some id => (id, rmn_f_of aos id)
  | None => SM.cfg_empty
  end.

(* merkleroot.Outcome.Sort, called by commit.Outcome.Encode *)
Definition mr_canon (o : SM.outcome) : SM.outcome :=
  SM.mkOutcome (SM.o_type o)
               (sort_by CommitMerkle.fst_le (SM.o_ranges o))
               (sort_by SM.root_le (SM.o_roots o))
               (sort_by CommitMerkle.fst_le (SM.o_off o))
               (SM.o_attempts o) (SM.o_sigs o) (SM.o_cfg o).

Record mr_cfg := mkMrCfg { k_F : Z; k_dest : N; k_max : N; k_n : N; k_off_const : bool }.

(* rt_agg: order in which GetConsensusMap ranges over each aggregated map;
   rt_cons: order in which reportRangesOutcome ranges over OffRampNextSeqNums and buildReport takes
   maps.Values(MerkleRoots) *)
Definition mr_outcome_rt (rt_agg : CC.agg -> CC.agg) (rt_cons : SM.cons -> SM.cons)
           (k : mr_cfg) (prev : SM.outcome) (q : SM.query) (aos : list CC.aobs) : SM.outcome :=
  let co := match mr_cons_of_agg (k_off_const k) (k_F k) (k_dest k) (rt_agg (CC.aggregate aos)) with
            | Ok c => Some (rt_cons (CommitLive.conv_cons (mr_cfg_of (k_dest k) aos) c))
            | _ => None
            end in
  mr_canon (SM.get_outcome (k_max k) (k_n k) prev q co).

(* what a runtime may do to the internal maps: permute them, nothing else *)
Definition agg_perm (a a' : CC.agg) : Prop :=
  Permutation (CC.a_roots a) (CC.a_roots a') /\ Permutation (CC.a_onramp a) (CC.a_onramp a') /\
  Permutation (CC.a_offramp a) (CC.a_offramp a') /\ CC.a_rmn a = CC.a_rmn a' /\
  Permutation (CC.a_fchain a) (CC.a_fchain a').
Definition smcons_perm (c c' : SM.cons) : Prop :=
  Permutation (SM.c_roots c) (SM.c_roots c') /\ Permutation (SM.c_on c) (SM.c_on c') /\
  Permutation (SM.c_off c) (SM.c_off c') /\ SM.c_cfg c = SM.c_cfg c'.

(* ---------- A.2 token-price processor ---------- *)
(* tokenprice.Observation: FeedTokenPrices is a slice; FeeQuoterTokenUpdates and FChain are maps *)
Definition tp_obs_reorder (o o' : PR.tp_obs) : Prop :=
  PR.tp_feed o = PR.tp_feed o' /\ map_reorder (PR.tp_updates o) (PR.tp_updates o') /\
  map_reorder (PR.tp_fchain o) (PR.tp_fchain o') /\ PR.tp_ts o = PR.tp_ts o'.

Record tp_agg := mkTpAgg {
  ta_fchain : list (N * list Z);
  ta_feed : list (N * list Z);
  ta_updates : list (N * list (Z * Z));
  ta_ts : list Z }.
Definition tp_aggregate (aos : list (N * PR.tp_obs)) : tp_agg :=
  mkTpAgg (CC.agg_map PR.tp_fchain aos) (CC.agg_map PR.tp_feed aos) (CC.agg_map PR.tp_updates aos)
          (map (fun ao => PR.tp_ts (snd ao)) aos).
(* the body of Prices.tp_consensus over the aggregated observation *)
Definition tp_cons_of_agg (feedchain : N) (F : Z) (dest : N) (a : tp_agg) : res PR.tp_cons :=
  let fch := consensus_map Z.eqb (fun _ : N => Some (two_f_plus_1 F)) (ta_fchain a) in
  match alookup dest fch with
  | None => Err
  | Some fd =>
      match alookup feedchain fch with
      | None => Err
      | Some ff =>
          Ok (PR.mkTpCons fch
                (consensus_agg (PR.const_thr ff) medianZ (ta_feed a))
                (consensus_agg (PR.const_thr fd) PR.tsbig_agg (ta_updates a))
                (medianZ (ta_ts a)))
      end
  end.
Definition tp_agg_perm (a a' : tp_agg) : Prop :=
  Permutation (ta_fchain a) (ta_fchain a') /\ Permutation (ta_feed a) (ta_feed a') /\
  Permutation (ta_updates a) (ta_updates a') /\ ta_ts a = ta_ts a'.
Definition tp_cons_perm (c c' : PR.tp_cons) : Prop :=
  Permutation (PR.tc_fchain c) (PR.tc_fchain c') /\ Permutation (PR.tc_feed c) (PR.tc_feed c') /\
  Permutation (PR.tc_updates c) (PR.tc_updates c') /\ PR.tc_ts c = PR.tc_ts c'.

Record tp_cfg := mkTpCfg { t_freq : Z; t_info : list (N * Z); t_feedchain : N; t_F : Z; t_dest : N }.

(* rt_agg: GetConsensusMap(Aggregator) ranges; rt_cons: selectTokensForUpdate ranges over the agreed feed prices *)
Definition tp_outcome_rt (rt_agg : tp_agg -> tp_agg) (rt_cons : PR.tp_cons -> PR.tp_cons)
           (k : tp_cfg) (aos : list (N * PR.tp_obs)) : res (list (N * Z)) :=
  if Z.eqb (t_freq k) 0 then Ok []
  else match tp_cons_of_agg (t_feedchain k) (t_F k) (t_dest k) (rt_agg (tp_aggregate aos)) with
       | Ok c => Ok (PR.sort_keys (PR.tokens_to_update (t_freq k) (t_info k) (rt_cons c)))
       | Err => Err
       | Panic => Panic
       | Spin => Spin
       end.

(* ---------- A.3 chain-fee processor ---------- *)
(* chainfee.Observation: FeeComponents, NativeTokenPrices, ChainFeeUpdates, FChain are all maps *)
Definition cf_obs_reorder (o o' : PR.cf_obs) : Prop :=
  map_reorder (PR.cf_feecomp o) (PR.cf_feecomp o') /\ map_reorder (PR.cf_native o) (PR.cf_native o') /\
  map_reorder (PR.cf_updates o) (PR.cf_updates o') /\ map_reorder (PR.cf_fchain o) (PR.cf_fchain o') /\
  PR.cf_ts o = PR.cf_ts o'.

Record cf_agg := mkCfAgg {
  fa_fchain : list (N * list Z);
  fa_feecomp : list (N * list (Z * Z));
  fa_native : list (N * list Z);
  fa_updates : list (N * list PR.update_t);
  fa_ts : list Z }.
Definition cf_aggregate (aos : list (N * PR.cf_obs)) : cf_agg :=
  mkCfAgg (CC.agg_map PR.cf_fchain aos) (CC.agg_map PR.cf_feecomp aos) (CC.agg_map PR.cf_native aos)
          (CC.agg_map PR.cf_updates aos) (map (fun ao => PR.cf_ts (snd ao)) aos).
(* the body of Prices.cf_consensus over the aggregated observation (len(aggObs.Timestamps) = number of observations) *)
Definition cf_cons_of_agg (F : Z) (dest : N) (a : cf_agg) : res PR.cf_cons :=
  let fch := consensus_map Z.eqb (fun _ : N => Some (two_f_plus_1 F)) (fa_fchain a) in
  match alookup dest fch with
  | None => Err
  | Some fd =>
      if Z.ltb (Z.of_nat (length (fa_ts a))) (PR.int64s (2 * fd + 1)) then Err
      else
        Ok (PR.mkCfCons fch
              (consensus_agg (PR.key_thr fch) PR.feecomp_agg (fa_feecomp a))
              (consensus_agg (PR.key_thr fch) medianZ (fa_native a))
              (consensus_agg (PR.const_thr fd) PR.update_agg (fa_updates a))
              (medianZ (fa_ts a)))
  end.
Definition cf_agg_perm (a a' : cf_agg) : Prop :=
  Permutation (fa_fchain a) (fa_fchain a') /\ Permutation (fa_feecomp a) (fa_feecomp a') /\
  Permutation (fa_native a) (fa_native a') /\ Permutation (fa_updates a) (fa_updates a') /\ fa_ts a = fa_ts a'.
Definition cf_cons_perm (c c' : PR.cf_cons) : Prop :=
  Permutation (PR.cc_fchain c) (PR.cc_fchain c') /\ Permutation (PR.cc_feecomp c) (PR.cc_feecomp c') /\
  Permutation (PR.cc_native c) (PR.cc_native c') /\ Permutation (PR.cc_updates c) (PR.cc_updates c') /\
  PR.cc_ts c = PR.cc_ts c'.

Record cf_cfg := mkCfCfg { f_freq : Z; f_info : list (N * (Z * Z)); f_F : Z; f_dest : N }.

(* rt_agg: GetConsensusMap(Aggregator) ranges; rt_cons: the loop over the agreed FeeComponents;
   rt_usd: getGasPricesToUpdate ranges over the USD price map built by that loop *)
Definition cf_outcome_rt (rt_agg : cf_agg -> cf_agg) (rt_cons : PR.cf_cons -> PR.cf_cons)
           (rt_usd : list (N * (Z * Z)) -> list (N * (Z * Z)))
           (k : cf_cfg) (aos : list (N * PR.cf_obs)) : res (list (N * Z)) :=
  match cf_cons_of_agg (f_F k) (f_dest k) (rt_agg (cf_aggregate aos)) with
  | Ok c0 =>
      let c := rt_cons c0 in
      match PR.cc_feecomp c with
      | [] => Ok []
      | _ => Ok (PR.sort_keys (PR.gas_to_update (f_freq k) (f_info k) (rt_usd (PR.cf_usd c)) (PR.cc_updates c) (PR.cc_ts c)))
      end
  | Err => Err
  | Panic => Panic
  | Spin => Spin
  end.

(* ---------- A.4 discovery processor (its Outcome is what is handed to CCIPReader.Sync; an error there aborts the
   plugin's Outcome) ---------- *)
(* dt.Observation: FChain and every Addresses[contract] are maps *)
Definition disc_obs_reorder (o o' : DI.dobs) : Prop :=
  map_reorder (DI.d_fchain_obs o) (DI.d_fchain_obs o') /\ map_reorder (DI.d_onramp o) (DI.d_onramp o') /\
  map_reorder (DI.d_nonce o) (DI.d_nonce o') /\ map_reorder (DI.d_rmn o) (DI.d_rmn o') /\
  map_reorder (DI.d_feeq o) (DI.d_feeq o') /\ map_reorder (DI.d_router o) (DI.d_router o').

Record disc_agg := mkDiscAgg {
  da_fchain : list (N * list Z);
  da_onramp : list (N * list N); da_nonce : list (N * list N); da_rmn : list (N * list N);
  da_feeq : list (N * list N); da_router : list (N * list N) }.
Definition disc_aggregate (dest : N) (aos : list (N * DI.dobs)) : disc_agg :=
  mkDiscAgg (CC.agg_map DI.d_fchain_obs aos) (CC.agg_map DI.onramp_dkv aos) (CC.agg_map (DI.nonce_dkv dest) aos)
            (CC.agg_map (DI.rmn_dkv dest) aos) (CC.agg_map DI.feeq_dkv aos) (CC.agg_map DI.router_dkv aos).
Definition disc_agg_perm (a a' : disc_agg) : Prop :=
  Permutation (da_fchain a) (da_fchain a') /\ Permutation (da_onramp a) (da_onramp a') /\
  Permutation (da_nonce a) (da_nonce a') /\ Permutation (da_rmn a) (da_rmn a') /\
  Permutation (da_feeq a) (da_feeq a') /\ Permutation (da_router a) (da_router a').
(* the body of Discovery.discovery_outcome over the aggregated observation *)
Definition disc_of_agg (F : Z) (dest : N) (a : disc_agg) : DI.dcons :=
  let fch := consensus_map Z.eqb (fun _ : N => Some (two_f_plus_1 F)) (da_fchain a) in
  let thr := thr_2f1 fch in
  DI.mkDcons
    (match alookup dest fch with
     | None => []
     | Some fd => consensus_map N.eqb (fun _ : N => Some (two_f_plus_1 fd)) (da_onramp a)
     end)
    (consensus_map N.eqb thr (da_nonce a)) (consensus_map N.eqb thr (da_rmn a))
    (consensus_map N.eqb thr (da_feeq a)) (consensus_map N.eqb thr (da_router a)).
(* the address maps are Go maps in the result too: compared as maps, i.e. sorted by key *)
Definition disc_canon (d : DI.dcons) : DI.dcons :=
  DI.mkDcons (PR.sort_keys (DI.dc_onramp d)) (PR.sort_keys (DI.dc_nonce d)) (PR.sort_keys (DI.dc_rmn d))
             (PR.sort_keys (DI.dc_feeq d)) (PR.sort_keys (DI.dc_router d)).
Definition disc_outcome_rt (rt_agg : disc_agg -> disc_agg) (F : Z) (dest : N) (aos : list (N * DI.dobs)) : DI.dcons :=
  disc_canon (disc_of_agg F dest (rt_agg (disc_aggregate dest aos))).

(* ---------- A.5 the commit plugin ---------- *)
(* one decoded commit observation = the four processors' observations *)
Record cobs := mkCobs { co_mr : CC.obs; co_tp : PR.tp_obs; co_cf : PR.cf_obs; co_disc : DI.dobs }.
Definition cobs_reorder (o o' : cobs) : Prop :=
  mr_obs_reorder (co_mr o) (co_mr o') /\ tp_obs_reorder (co_tp o) (co_tp o') /\
  cf_obs_reorder (co_cf o) (co_cf o') /\ disc_obs_reorder (co_disc o) (co_disc o').

(* configuration: role-DON F, destination, offchain config; TokenInfo and FeeInfo are Go maps.
   (The previous token-price / chain-fee outcomes are arguments the two processors never read.) *)
Record commit_cfg := mkCommitCfg {
  g_F : Z; g_dest : N; g_max : N; g_n : N;
  g_feedchain : N; g_tp_freq : Z; g_tokeninfo : list (N * Z);
  g_cf_freq : Z; g_feeinfo : list (N * (Z * Z));
  g_off_const : bool }.                          (* which variant of the off-ramp threshold the code has (see mr_cons_of_agg) *)
Definition commit_cfg_reorder (k k' : commit_cfg) : Prop :=
  g_F k = g_F k' /\ g_dest k = g_dest k' /\ g_max k = g_max k' /\ g_n k = g_n k' /\
  g_feedchain k = g_feedchain k' /\ g_tp_freq k = g_tp_freq k' /\ g_cf_freq k = g_cf_freq k' /\
  map_reorder (g_tokeninfo k) (g_tokeninfo k') /\ map_reorder (g_feeinfo k) (g_feeinfo k') /\
  g_off_const k = g_off_const k'.

Record commit_in := mkCommitIn {
  ci_prev : SM.outcome; ci_query : SM.query; ci_aos : list (N * cobs); ci_cfg : commit_cfg }.
Definition commit_reorder (i i' : commit_in) : Prop :=
  ci_prev i = ci_prev i' /\ ci_query i = ci_query i' /\ aos_rel cobs_reorder (ci_aos i) (ci_aos i') /\
  commit_cfg_reorder (ci_cfg i) (ci_cfg i').

Record commit_rt := mkCommitRt {
  r_mr_agg : CC.agg -> CC.agg; r_mr_cons : SM.cons -> SM.cons;
  r_tp_agg : tp_agg -> tp_agg; r_tp_cons : PR.tp_cons -> PR.tp_cons;
  r_cf_agg : cf_agg -> cf_agg; r_cf_cons : PR.cf_cons -> PR.cf_cons;
  r_cf_usd : list (N * (Z * Z)) -> list (N * (Z * Z));
  r_disc_agg : disc_agg -> disc_agg }.
Definition commit_rt_ok (rt : commit_rt) : Prop :=
  (forall a, agg_perm a (r_mr_agg rt a)) /\ (forall c, smcons_perm c (r_mr_cons rt c)) /\
  (forall a, tp_agg_perm a (r_tp_agg rt a)) /\ (forall c, tp_cons_perm c (r_tp_cons rt c)) /\
  (forall a, cf_agg_perm a (r_cf_agg rt a)) /\ (forall c, cf_cons_perm c (r_cf_cons rt c)) /\
  (forall m, Permutation m (r_cf_usd rt m)) /\ (forall a, disc_agg_perm a (r_disc_agg rt a)).
(* the runtime that ranges over every internal map in insertion order: the models of the other properties *)
Definition commit_rt_id : commit_rt :=
  mkCommitRt (fun a => a) (fun c => c) (fun a => a) (fun c => c) (fun a => a) (fun c => c) (fun m => m) (fun a => a).

Definition proj_aos {O} (f : cobs -> O) (aos : list (N * cobs)) : list (N * O) :=
  map (fun ao => (fst ao, f (snd ao))) aos.

(* what Outcome.Encode emits (as a value; the JSON layer is C20's): merkle-root outcome with its three lists sorted,
   token prices and gas prices sorted by key; plus the address maps handed to Sync *)
Record commit_out := mkCommitOut {
  out_mr : SM.outcome; out_tp : res (list (N * Z)); out_cf : res (list (N * Z)); out_disc : DI.dcons }.

Definition commit_outcome_canon_rt (rt : commit_rt) (i : commit_in) : commit_out :=
  let k := ci_cfg i in
  mkCommitOut
    (mr_outcome_rt (r_mr_agg rt) (r_mr_cons rt) (mkMrCfg (g_F k) (g_dest k) (g_max k) (g_n k) (g_off_const k))
                   (ci_prev i) (ci_query i) (proj_aos co_mr (ci_aos i)))
    (tp_outcome_rt (r_tp_agg rt) (r_tp_cons rt)
                   (mkTpCfg (g_tp_freq k) (g_tokeninfo k) (g_feedchain k) (g_F k) (g_dest k)) (proj_aos co_tp (ci_aos i)))
    (cf_outcome_rt (r_cf_agg rt) (r_cf_cons rt) (r_cf_usd rt)
                   (mkCfCfg (g_cf_freq k) (g_feeinfo k) (g_F k) (g_dest k)) (proj_aos co_cf (ci_aos i)))
    (disc_outcome_rt (r_disc_agg rt) (g_F k) (g_dest k) (proj_aos co_disc (ci_aos i))).
Definition commit_outcome_canon : commit_in -> commit_out := commit_outcome_canon_rt commit_rt_id.

(* ====================================================================================================
   B. execute
   ==================================================================================================== *)
Require Verif.Model.ExecMerge Verif.Model.Codec.
Module EM := Verif.Model.ExecMerge.

(* exectypes.CommitData as observed: (id minObservation files it under = sha3 of the "%v" rendering after the UTC
   normalisation of F25, as a number; timestamp instant; the data the report builder looks at) *)
Definition ecommit := (N * Z * ER.cdata)%type.
Definition ec_id (x : ecommit) : N := fst (fst x).
Definition ec_ts (x : ecommit) : Z := snd (fst x).
Definition ec_data (x : ecommit) : ER.cdata := snd x.
(* cciptypes.Message as observed: (id of its rendering, the message) *)
Definition emsg := (N * ER.msg)%type.
Definition em_hid (x : emsg) : N := fst x.
Definition em_seq (x : emsg) : N := ER.m_seq (snd x).
Definition nonce3 := (N * N * N)%type.        (* source chain, sender, nonce *)

(* exectypes.Observation: CommitReports map[chain][]CommitData, Messages map[chain]map[seq]Message,
   TokenData map[chain]map[seq]MessageTokenData, CostlyMessages []Bytes32 (a slice), Nonces map[chain]map[sender]uint64 *)
Record eobs := mkEobs {
  eo_commits : list (N * list ecommit);
  eo_msgs : list (N * list (N * emsg));
  eo_tokens : list (N * list (N * list EM.tok));
  eo_costly : list N;
  eo_nonces : list (N * list (N * N)) }.

(* a two-level map in another iteration order: the outer map and every inner map may be re-ordered *)
Definition map2_reorder {V} (m m' : list (N * list (N * V))) : Prop :=
  exists m1, NoDup (map fst m) /\
             Forall2 (fun e e1 => fst e = fst e1 /\ map_reorder (snd e) (snd e1)) m m1 /\ Permutation m1 m'.
Definition eobs_reorder (o o' : eobs) : Prop :=
  map_reorder (eo_commits o) (eo_commits o') /\ map2_reorder (eo_msgs o) (eo_msgs o') /\
  map2_reorder (eo_tokens o) (eo_tokens o') /\ eo_costly o = eo_costly o' /\
  map2_reorder (eo_nonces o) (eo_nonces o').

(* ---------- minObservation: the cache after a sequence of Add calls ----------
   one counter per id, holding the FIRST item added under that id and the number of items added under it;
   first-occurrence order stands for the insertion history, the order GetValid ranges in is the runtime's *)
Definition id_eqb {T} (id : T -> N) (a b : T) : bool := N.eqb (id a) (id b).
Definition cache_of {T} (id : T -> N) (items : list T) : cache T :=
  map (fun x => (id x, (x, count (id_eqb id) x items))) (dedup (id_eqb id) items).
(* Add* then GetValid (repaired: ascending id) with the runtime's range order over the cache *)
Definition mo_valid {T} (rtc : cache T -> cache T) (id : T -> N) (thr : N) (items : list T) : list T :=
  get_valid thr (rtc (cache_of id items)).

(* ---------- the merges (execute/plugin_functions.go) ---------- *)
Definition ekeys {V} (m : list (N * V)) : list N := map fst m.
Definition unknown_key {V} (fchain : list (N * Z)) (proj : eobs -> list (N * V)) (aos : list (N * eobs)) : bool :=
  existsb (fun a => existsb (fun k => negb (memN k (ekeys fchain))) (ekeys (proj (snd a)))) aos.

Definition citems (k : N) (aos : list (N * eobs)) : list ecommit :=
  flat_map (fun a => EM.entries k (eo_commits (snd a))) aos.
Definition mitems (k : N) (aos : list (N * eobs)) : list emsg :=
  flat_map (fun a => map snd (EM.entries k (eo_msgs (snd a)))) aos.
Definition ntriples (o : eobs) : list nonce3 :=
  flat_map (fun kv => map (fun sn => (fst kv, fst sn, snd sn)) (snd kv)) (eo_nonces o).
Definition nitems (aos : list (N * eobs)) : list nonce3 := flat_map (fun a => ntriples (snd a)) aos.

(* token data and costly messages: the models of C07 (order plays no role in them: one valid value or the filler;
   a set) *)
Definition to_em (a : N * eobs) : EM.ao := (fst a, EM.mkObs [] [] (eo_tokens (snd a)) (eo_costly (snd a)) []).

Record emerged := mkEmerged {
  em_commits : list (N * list ecommit);        (* chain -> valid commit data, GetValid order *)
  em_msgs : list (N * list (N * emsg));        (* chain -> Header.SequenceNumber -> message *)
  em_tokens : list (N * list (N * list EM.tok));
  em_costly : list N;
  em_nonces : ER.nmap }.                       (* (chain, sender) -> nonce *)

Section ExecSys.
  (* the id of a nonce triplet (sha3 of its rendering) *)
  Variable nid : nonce3 -> N.
  (* the oracles of the report builder (ExecReport.v): the same functions on every oracle *)
  Variable hash : N -> N -> N.
  Variable zero : N.
  Variable leaf_hash : ER.msg -> option N.
  Variable enc_size : ER.creport -> option N.
  Variable tree_gas : N -> N.
  Variable max_size max_gas : N.

  (* the runtime: range order over every minObservation cache, and over every map of the merged observation *)
  Record exec_rt := mkExecRt {
    x_cache : forall T : Type, cache T -> cache T;
    x_merged : emerged -> emerged }.

  Definition merge_commits_rt (rt : exec_rt) (fchain : list (N * Z)) (aos : list (N * eobs)) : list (N * list ecommit) :=
    flat_map (fun kf => match mo_valid (x_cache rt ecommit) ec_id (f_plus_1 (snd kf)) (citems (fst kf) aos) with
                        | [] => []
                        | v => [(fst kf, v)]
                        end) fchain.
  (* results[selector][msg.Header.SequenceNumber] = msg in GetValid order: the last writer wins *)
  Definition merge_msgs_rt (rt : exec_rt) (fchain : list (N * Z)) (aos : list (N * eobs)) : list (N * list (N * emsg)) :=
    flat_map (fun kf => match mo_valid (x_cache rt emsg) em_hid (f_plus_1 (snd kf)) (mitems (fst kf) aos) with
                        | [] => []
                        | v => [(fst kf, last_writer em_seq v [])]
                        end) fchain.
  (* results[source][sender] = nonce in GetValid order *)
  Definition merge_nonces_rt (rt : exec_rt) (fdest : Z) (aos : list (N * eobs)) : ER.nmap :=
    fold_left (fun m t => ER.nupdate (fst (fst t)) (snd (fst t)) (snd t) m)
              (mo_valid (x_cache rt nonce3) nid (f_plus_1 fdest) (nitems aos)) [].

  (* getConsensusObservation *)
  Definition exec_merge_rt (rt : exec_rt) (bigF : Z) (dest : N) (fchain : list (N * Z)) (aos : list (N * eobs))
    : res emerged :=
    if Z.ltb (Z.of_nat (length aos)) bigF then Err
    else if unknown_key fchain eo_commits aos then Err
    else if unknown_key fchain eo_msgs aos then Err
    else match EM.merge_tokens fchain (map to_em aos) with
         | Ok ts =>
             (* commit reports are destination data: every chain key gets the destination's f (repair of F75) *)
             Ok (mkEmerged (merge_commits_rt rt (EM.dest_fchain dest fchain) aos) (merge_msgs_rt rt fchain aos) ts
                           (EM.merge_costly (EM.f_dest dest fchain) (map to_em aos))
                           (merge_nonces_rt rt (EM.f_dest dest fchain) aos))
         | _ => Err
         end.

  (* ---------- the three states (execute/outcome.go) ---------- *)
  Definition lookup1 {V} (k : N) (m : list (N * list V)) : list V :=
    match alookup k m with Some l => l | None => [] end.

  Record eout := mkEout { eo_state : N; eo_pending : list ER.cdata; eo_reports : list ER.creport }.
  (* states: 0 = nil outcome, 1 = GetCommitReports, 2 = GetMessages, 3 = Filter, 4 = Initialized *)

  (* exectypes.newSortedOutcome (Codec.exec_sort_commits / exec_sort_reports; both stable) *)
  Definition sort_pending (l : list ER.cdata) : list ER.cdata :=
    map snd (Codec.exec_sort_commits (map (fun x => (ER.c_src x, ER.c_start x, x)) l)).
  Definition sort_reports (l : list ER.creport) : list ER.creport :=
    map snd (Codec.exec_sort_reports (map (fun r => (ER.r_src r, r)) l)).
  Definition new_outcome (st : N) (pending : list ER.cdata) (reports : list ER.creport) : eout :=
    mkEout st (sort_pending pending) (sort_reports reports).

  (* dropConflictingReports (repair of F76): an agreed report is dropped when another agreed report of its source chain
     has the same root or an overlapping interval; every report conflicts with itself, so "another one" = two or more
     conflicting entries *)
  Definition ec_conflicts (a b : ER.cdata) : bool :=
    N.eqb (ER.c_src a) (ER.c_src b) &&
    (N.eqb (ER.c_root a) (ER.c_root b) || (N.leb (ER.c_start a) (ER.c_end b) && N.leb (ER.c_start b) (ER.c_end a))).
  Definition drop_conflicting (l : list ecommit) : list ecommit :=
    filter (fun a => Nat.leb (length (filter (fun b => ec_conflicts (ec_data a) (ec_data b)) l)) 1) l.
  (* getCommitReportsOutcome: chains ascending, flattened, conflicting reports dropped, stable sort by timestamp *)
  Definition get_commit_reports (m : emerged) : list ER.cdata :=
    let chains := sortN (ekeys (em_commits m)) in
    let all := flat_map (fun c => lookup1 c (em_commits m)) chains in
    map ec_data (sort_by (fun a b => Z.leb (ec_ts a) (ec_ts b)) (drop_conflicting all)).

  (* getCommitReportsOutcome before the repair of F76: conflicting agreed reports kept *)
  Definition get_commit_reports_unfixed (m : emerged) : list ER.cdata :=
    let chains := sortN (ekeys (em_commits m)) in
    let all := flat_map (fun c => lookup1 c (em_commits m)) chains in
    map ec_data (sort_by (fun a b => Z.leb (ec_ts a) (ec_ts b)) all).

  (* observedSeqNumsInRange *)
  Definition in_rng (lo hi s : N) : bool := N.leb lo s && N.leb s hi.
  Definition observed_seqs (m : emerged) (c lo hi : N) : list N :=
    sortN (EM.dedupN (filter (in_rng lo hi) (ekeys (lookup1 c (em_msgs m))) ++
                      filter (in_rng lo hi) (ekeys (lookup1 c (em_tokens m))))).
  Definition tok_pair (t : EM.tok) : bool * N := (EM.t_ready t, EM.t_data t).
  (* getMessagesOutcome, one pending report: Messages and CostlyMessages are rebuilt, MessageTokenData is appended to *)
  Definition fill_report (m : emerged) (cd : ER.cdata) : ER.cdata :=
    let seqs := observed_seqs m (ER.c_src cd) (ER.c_start cd) (ER.c_end cd) in
    let ms := flat_map (fun j => match alookup j (lookup1 (ER.c_src cd) (em_msgs m)) with
                                 | Some x => [snd x] | None => [] end) seqs in
    let costly := flat_map (fun mg => if memN (ER.m_id mg) (em_costly m) then [ER.m_id mg] else []) ms in
    let tds := flat_map (fun j => match alookup j (lookup1 (ER.c_src cd) (em_tokens m)) with
                                  | Some t => [map tok_pair t] | None => [] end) seqs in
    ER.mkCD (ER.c_src cd) (ER.c_root cd) (ER.c_start cd) (ER.c_end cd) (ER.c_exec cd) ms costly (ER.c_td cd ++ tds).

  (* PluginState.Next; an unknown state panics (DecodeOutcome rejects it before) *)
  Definition next_exec_state (s : N) : res N :=
    if N.eqb s 1 then Ok 2%N else if N.eqb s 2 then Ok 3%N
    else if N.eqb s 0 || N.eqb s 3 || N.eqb s 4 then Ok 1%N else Panic.

  Definition state_outcome (m : emerged) (st : N) (prev : list ER.cdata) : res eout :=
    if N.eqb st 1 then Ok (new_outcome 1 (get_commit_reports m) [])
    else if N.eqb st 2 then Ok (new_outcome 2 (map (fill_report m) prev) [])
    else rbind (ER.select_report hash zero leaf_hash enc_size tree_gas (em_nonces m) max_size max_gas prev)
               (fun x => Ok (new_outcome 3 (snd x) (fst x))).

  Record exec_cfg := mkExecCfg { x_F : Z; x_dest : N; x_fchain : list (N * Z); x_init : bool }.
  Record exec_in := mkExecIn { xi_state : N; xi_pending : list ER.cdata; xi_aos : list (N * eobs); xi_cfg : exec_cfg }.
  Definition exec_reorder (i i' : exec_in) : Prop :=
    xi_state i = xi_state i' /\ xi_pending i = xi_pending i' /\ aos_rel eobs_reorder (xi_aos i) (xi_aos i') /\
    x_F (xi_cfg i) = x_F (xi_cfg i') /\ x_dest (xi_cfg i) = x_dest (xi_cfg i') /\
    map_reorder (x_fchain (xi_cfg i)) (x_fchain (xi_cfg i')) /\ x_init (xi_cfg i) = x_init (xi_cfg i').

  (* Outcome.Encode sorts once more *)
  Definition exec_canon (o : eout) : eout := new_outcome (eo_state o) (eo_pending o) (eo_reports o).

  (* execute Plugin.Outcome after decoding (the discovery step is the commit plugin's, A.4) *)
  Definition exec_outcome_canon_rt (rt : exec_rt) (i : exec_in) : res eout :=
    let k := xi_cfg i in
    rbind (exec_merge_rt rt (x_F k) (x_dest k) (x_fchain k) (xi_aos i)) (fun m0 =>
    let m := x_merged rt m0 in
    rbind (next_exec_state (xi_state i)) (fun st =>
    rbind (state_outcome m st (xi_pending i)) (fun o =>
    match eo_pending o, eo_reports o with
    | [], [] => Ok (if x_init k then mkEout 4 [] [] else mkEout 0 [] [])
    | _, _ => Ok (exec_canon o)
    end))).

  Definition exec_rt_id : exec_rt := mkExecRt (fun _ c => c) (fun m => m).
  Definition exec_outcome_canon : exec_in -> res eout := exec_outcome_canon_rt exec_rt_id.

  (* ---------- what a runtime may do ---------- *)
  (* maps are compared through what Go code can do with them: look a key up, range over the keys *)
  Definition same_keys {V W} (m : list (N * V)) (m' : list (N * W)) : Prop :=
    NoDup (ekeys m) /\ NoDup (ekeys m') /\ forall k, In k (ekeys m) <-> In k (ekeys m').
  Definition map1_equiv {V} (m m' : list (N * list V)) : Prop :=
    same_keys m m' /\ forall k, lookup1 k m = lookup1 k m'.
  Definition map2_equiv {V} (m m' : list (N * list (N * V))) : Prop :=
    same_keys m m' /\ forall k, map_reorder (lookup1 k m) (lookup1 k m').
  Definition emerged_equiv (m m' : emerged) : Prop :=
    map1_equiv (em_commits m) (em_commits m') /\ map2_equiv (em_msgs m) (em_msgs m') /\
    map2_equiv (em_tokens m) (em_tokens m') /\ (forall x, In x (em_costly m) <-> In x (em_costly m')) /\
    (forall c s, ER.nlookup c s (em_nonces m) = ER.nlookup c s (em_nonces m')).
  Definition exec_rt_ok (rt : exec_rt) : Prop :=
    (forall T (c : cache T), Permutation c (x_cache rt T c)) /\
    (forall m, emerged_equiv m m -> emerged_equiv m (x_merged rt m)).

  (* sha3 ids are collision free and the rendering shows the whole item: items filed under one id are equal *)
  Definition ids_faithful {T} (id : T -> N) (items : list T) : Prop :=
    forall x y, In x items -> In y items -> id x = id y -> x = y.
  Definition exec_ids_faithful (i : exec_in) : Prop :=
    (forall k, ids_faithful em_hid (mitems k (xi_aos i))) /\ ids_faithful nid (nitems (xi_aos i)).
End ExecSys.

(* ====================================================================================================
   C. reports: the transmission schedule attached to every report is GetTransmissionSchedule of the role map
   (chain -> set of supporting oracles) and of the oracle id set; neither the own oracle id nor the outcome enter
   ==================================================================================================== *)
Definition sup_of_roles (roles : CC.roles_t) (dest o : N) : Transmit.sup_t :=
  match CC.supports_dest roles dest o with
  | None => 2%N                 (* no chain config for the destination: error *)
  | Some true => 1%N
  | Some false => 0%N
  end.
Definition transmission_schedule (roles : CC.roles_t) (dest : N) (oracles : list N) (mult : Z)
  : option (list N * list Z) :=
  Transmit.schedule (sup_of_roles roles dest) oracles mult.
(* the role map in another iteration order: the chain map re-ordered, every oracle set enumerated in another order *)
Definition roles_reorder (roles roles' : CC.roles_t) : Prop :=
  exists r1, NoDup (map fst roles) /\
             Forall2 (fun e e1 => fst e = fst e1 /\ Permutation (snd e) (snd e1)) roles r1 /\ Permutation r1 roles'.

(* Reports of one round: the outcome decides the report content, the role map its schedule *)
Definition commit_reports_canon_rt (rt : commit_rt) (i : commit_in) (roles : CC.roles_t) (oracles : list N) (mult : Z)
  : commit_out * option (list N * list Z) :=
  (commit_outcome_canon_rt rt i, transmission_schedule roles (g_dest (ci_cfg i)) oracles mult).
Definition exec_reports_canon_rt (nid : nonce3 -> N) (hash : N -> N -> N) (zero : N) (leaf_hash : ER.msg -> option N)
           (enc_size : ER.creport -> option N) (tree_gas : N -> N) (max_size max_gas : N)
           (rt : exec_rt) (i : exec_in) (roles : CC.roles_t) (oracles : list N) (mult : Z)
  : res eout * option (list N * list Z) :=
  (exec_outcome_canon_rt nid hash zero leaf_hash enc_size tree_gas max_size max_gas rt i,
   transmission_schedule roles (x_dest (xi_cfg i)) oracles mult).

(* PanicSites.v — the dereference / index / loop sites that decide "error, not crash" (C13), in the res monad:
   Ok v | Err (rejected) | Panic (Go runtime panic) | Spin (loop whose trip count is not bounded by the input size).
   Modelled sites (others live with their owners: RMN responses in Rmn.v, truncation in Truncate.v, bitmap in Pollers.v):
   1. the hand-written JSON unmarshalers of pkg/types/ccipocr3/common_types.go, with Go's slice-bounds checks explicit;
   2. the execute plugin's state decoding + PluginState.Next (execute/exectypes/outcome.go);
   3. the per-report loop of execute/outcome.go:getMessagesOutcome;
   4. consensus.Median and the aggregators built on it when values can be nil big integers. *)
Require Import Verif.Model.Base.

(* ---------- 1. unmarshalers: Go slice expression s[lo:hi] panics unless lo <= hi <= len s ---------- *)
Definition gslice {A} (l : list A) (lo hi : nat) : res (list A) :=
  if Nat.leb lo hi && Nat.leb hi (length l) then Ok (firstn (hi - lo) (skipn lo l)) else Panic.
(* s[lo:] *)
Definition gslice_from {A} (l : list A) (lo : nat) : res (list A) := gslice l lo (length l).

Fixpoint has_prefix (p l : list N) : bool :=
  match p, l with
  | [], _ => true
  | x :: p', y :: l' => N.eqb x y && has_prefix p' l'
  | _, [] => false
  end.
Definition zero_x : list N := [48; 120]%N.   (* "0x" *)

Section Unmarshal.
  (* hex.DecodeString and big.Int.SetString are library oracles: they return a value or an error, never panic *)
  Variable hex_decode : list N -> option (list N).
  Variable parse_decimal : list N -> option Z.

  (* Bytes.UnmarshalJSON *)
  Definition bytes_unmarshal (data : list N) : res (list N) :=
    if Nat.ltb (length data) 2 then Err
    else rbind (gslice data 1 (length data - 1)) (fun v =>
         if negb (has_prefix zero_x v) then Err
         else rbind (gslice_from v 2) (fun h =>
              match hex_decode h with Some b => Ok b | None => Err end)).

  (* Bytes32.UnmarshalJSON: v[1:len-1][2:], then copy into the 32-byte array (truncating / zero padding) *)
  Definition copy32 (b : list N) : list N := firstn 32 (b ++ repeat 0%N 32).
  Definition bytes32_unmarshal (data : list N) : res (list N) :=
    if Nat.ltb (length data) 4 then Err
    else rbind (gslice data 1 (length data - 1)) (fun v =>
         rbind (gslice_from v 2) (fun h =>
         match hex_decode h with Some b => Ok (copy32 b) | None => Err end)).

  (* BigInt.UnmarshalJSON: "null" leaves the value nil *)
  Definition null_lit : list N := [110; 117; 108; 108]%N.
  Definition bigint_unmarshal (p : list N) : res (option Z) :=
    if list_eqb N.eqb p null_lit then Ok None
    else if Nat.ltb (length p) 2 then Err
    else rbind (gslice p 1 (length p - 1)) (fun d =>
         match parse_decimal d with Some z => Ok (Some z) | None => Err end).
End Unmarshal.

(* ---------- 2. execute plugin state ---------- *)
(* states as ids: 0 Unknown "", 1 Initialized, 2 GetCommitReports, 3 GetMessages, 4 Filter; anything else = some other string *)
Definition exec_state_valid (s : N) : bool := N.leb s 4.
Definition exec_next (s : N) : res N :=
  if N.eqb s 2 then Ok 3%N
  else if N.eqb s 3 then Ok 4%N
  else if N.eqb s 0 || N.eqb s 1 || N.eqb s 4 then Ok 2%N
  else Panic.   (* panic("unexpected execute plugin state") *)
(* DecodeOutcome (after the repair) rejects unknown states; Observation / Outcome then call Next *)
Definition exec_decode_state (s : N) : res N := if exec_state_valid s then Ok s else Err.
Definition exec_callback_next (s : N) : res N := rbind (exec_decode_state s) exec_next.
(* before the repair the decoded state went straight into Next *)
Definition exec_callback_next_unfixed (s : N) : res N := exec_next s.

(* ---------- 3. getMessagesOutcome: which sequence numbers of a report's range get their data attached ---------- *)
(* before the repair: for j := start; j <= end; j++ { if observed j then use j }.  uint64 j wraps after 2^64-1. *)
Fixpoint nrange (s : N) (len : nat) : list N :=
  match len with O => [] | S n => s :: nrange (N.succ s) n end.
Definition range_loop_unfixed (observed : list N) (s e : N) : res (list N) :=
  if N.ltb e s then Ok []
  else if N.eqb e max64 then Spin                       (* j <= MaxUint64 is always true *)
  else Ok (filter (fun j => memN j observed) (nrange s (N.to_nat (e - s + 1)))).
(* after the repair: observedSeqNumsInRange — the observed keys inside the range, ascending *)
Definition in_range (s e k : N) : bool := N.leb s k && N.leb k e.
Definition range_loop (observed : list N) (s e : N) : res (list N) :=
  Ok (sortN (filter (in_range s e) observed)).

(* ---------- 4. Median over possibly-nil big integers ---------- *)
(* sort.Slice calls less (x.Cmp(y)) on every element at least once when there are >= 2 elements; Cmp on a nil *big.Int panics *)
Definition all_some (l : list (option Z)) : bool := forallb (fun o => match o with Some _ => true | None => false end) l.
Definition somes (l : list (option Z)) : list Z :=
  flat_map (fun o => match o with Some z => [z] | None => [] end) l.
Definition median_sorted (l : list Z) : Z := nth (Nat.div2 (length l)) (sort_by Z.leb l) 0%Z.
Definition median_res (vals : list (option Z)) : res (option Z) :=
  match vals with
  | [] => Ok None                       (* zero value *)
  | [x] => Ok x                         (* less is never called *)
  | _ => if all_some vals then Ok (Some (median_sorted (somes vals))) else Panic
  end.
(* ChainFeeUpdateAggregator / TimestampedBigAggregator: component-wise medians; a nil update struct member = None *)
Definition agg2_res (xs ys : list (option Z)) : res (option Z * option Z) :=
  rbind (median_res xs) (fun a => rbind (median_res ys) (fun b => Ok (a, b))).
(* validation after the repair of F09: every observed update carries non-nil values *)
Definition validate_updates (xs : list (option Z)) : res unit := if all_some xs then Ok tt else Err.

(* Transmit.v — model of internal/plugincommon/transmitters.go:GetTransmissionSchedule, the candidate-instance
   and destination-writer gates of commit/report.go and execute/plugin.go (ShouldTransmitAcceptedReport), and the
   empty-report gates (Reports / ShouldAcceptAttestedReport). *)
Require Import Verif.Model.Base.

(* SupportsDestChain(oracle) answer: 0 = false, 1 = true, 2 = error *)
Definition sup_t := N.

(* The loop of GetTransmissionSchedule over the oracle ids [ids] (already in iteration order):
   first lookup error aborts, supporters are appended in iteration order. *)
Fixpoint collect (sup : N -> sup_t) (ids : list N) : option (list N) :=
  match ids with
  | [] => Some []
  | o :: ids' =>
      match sup o with
      | 0%N => collect sup ids'
      | 1%N => match collect sup ids' with Some t => Some (o :: t) | None => None end
      | _ => None
      end
  end.

Fixpoint delays_from (mult : Z) (i : Z) (n : nat) : list Z :=
  match n with
  | O => []
  | S n' => (mult * i)%Z :: delays_from mult (i + 1)%Z n'
  end.
(* delays[i] = mult * (i+1) *)
Definition delays (mult : Z) (n : nat) : list Z := delays_from mult 1%Z n.

(* GetTransmissionSchedule: the ids are sorted first (repair of F16), then filtered. *)
Definition schedule (sup : N -> sup_t) (order : list N) (mult : Z) : option (list N * list Z) :=
  match collect sup (sortN order) with
  | None => None
  | Some [] => None
  | Some t => Some (t, delays mult (length t))
  end.

(* The pre-repair function (iteration in the order given), kept for the refutation theorem. *)
Definition schedule_unsorted (sup : N -> sup_t) (order : list N) (mult : Z) : option (list N * list Z) :=
  match collect sup order with
  | None => None
  | Some [] => None
  | Some t => Some (t, delays mult (length t))
  end.

(* ---- transmit / accept gates ---- *)
(* Outcome of a bool,error callback: Ok true / Ok false / Err. *)

(* commit ShouldTransmitAcceptedReport:
   cfgs = None when GetOCRConfigs fails, else Some candidate_digest;
   decode_ok: report decodes; roots_state_ok: ValidateMerkleRootsState returned nil. *)
Definition commit_should_transmit (my : N) (cand : option N) (decode_ok roots_state_ok : bool) : res bool :=
  match cand with
  | None => Err
  | Some c =>
      if N.eqb c my then Ok false
      else if negb decode_ok then Err
      else if negb roots_state_ok then Ok false
      else Ok true
  end.

(* execute ShouldTransmitAcceptedReport: writer = None when the supported-chain lookup fails *)
Definition exec_should_transmit (writer : option bool) (my : N) (cand : option N) (decode_ok : bool) : res bool :=
  match writer with
  | None => Err
  | Some false => Ok false
  | Some true =>
      match cand with
      | None => Err
      | Some c => if N.eqb c my then Ok false else if negb decode_ok then Err else Ok true
      end
  end.

(* commit report emptiness: no roots, no token prices, no gas prices, no RMN signatures *)
Definition commit_report_empty (roots tprices gprices sigs : N) : bool :=
  N.eqb roots 0 && N.eqb tprices 0 && N.eqb gprices 0 && N.eqb sigs 0.

(* commit ShouldAcceptAttestedReport. curse: 0 = not cursed, 1 = cursed, 2 = read error. *)
Definition commit_should_accept (decode_ok : bool) (roots tprices gprices sigs : N)
           (curse : N) (info_ok rmn_enabled : bool) (remoteF : N) : res bool :=
  if negb decode_ok then Err
  else if commit_report_empty roots tprices gprices sigs then Ok false
  else if N.eqb curse 2 then Err
  else if N.eqb curse 1 then Ok false
  else if negb info_ok then Err
  else if rmn_enabled && negb (N.eqb roots 0) && N.ltb sigs (remoteF + 1) then Ok false
  else Ok true.

(* execute ShouldAcceptAttestedReport *)
Definition exec_should_accept (nil_report decode_ok : bool) (chain_reports : N) (curse : N) : res bool :=
  if nil_report then Ok false
  else if negb decode_ok then Err
  else if N.eqb curse 2 then Err
  else if N.eqb curse 1 then Ok false
  else if N.eqb chain_reports 0 then Ok false else Ok true.

(* SeqRange.v — model of pkg/types/ccipocr3/generic_types.go:SeqNumRange.Limit.
   A range is a pair (start, end) of uint64 values, inclusive on both sides. All arithmetic is the Go
   uint64 arithmetic (wrap-around written with add64 / sub64). *)
Require Import Verif.Model.Base.

Definition u64 (x : N) : Prop := (x < two64)%N.
Definition u64b (x : N) : bool := N.ltb x two64.

(* Limit as repaired (fixes/F02.patch):
     if end < start            -> unchanged
     if uint64(end-start) >= n -> newEnd := start + n - 1; if newEnd > end ("overflow") unchanged else (start,newEnd)
     else unchanged *)
Definition limit (s e n : N) : N * N :=
  if N.ltb e s then (s, e)
  else if N.leb n (sub64 e s) then
    let newEnd := sub64 (add64 s n) 1 in
    if N.ltb e newEnd then (s, e) else (s, newEnd)
  else (s, e).

(* Limit as it was before the repair:
     numElems := end - start + 1; if numElems <= 0 (i.e. == 0, unsigned) unchanged;
     if numElems > n { newEnd := start + n - 1; if newEnd > end unchanged else (start,newEnd) } *)
Definition limit_unfixed (s e n : N) : N * N :=
  let numElems := add64 (sub64 e s) 1 in
  if N.leb numElems 0 then (s, e)
  else if N.ltb n numElems then
    let newEnd := sub64 (add64 s n) 1 in
    if N.ltb e newEnd then (s, e) else (s, newEnd)
  else (s, e).

(* number of sequence numbers in a well-formed range (unbounded arithmetic; specification side only) *)
Definition range_size (r : N * N) : N := (snd r - fst r + 1)%N.

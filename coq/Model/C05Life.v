(* C05Life.v — the merkle-root Processor as the LONG-LIVED object commit.Plugin keeps alive: the same Processor runs
   Query / Observation / Outcome round after round while the environment moves between the rounds (RMNRemote signer
   set, F, config version and digest on chain, the RMNHome node set, contract addresses, the leader's bundle).
     commit/merkleroot/observation.go:initializeRMNController     (init_code, init_step)
     commit/merkleroot/observation.go:Observation                 (oracle_obs: initializeRMNController, verifyQuery, getObservation)
     commit/merkleroot/query.go:Query                             (leader_query)
   The only state the Processor keeps between rounds is rmnControllerCfgDigest = the RMNHome digest its RMN controller
   is connected with ([conn]); it decides whether InitConnection is called again and nothing else. Everything else
   that verifyQuery uses is read from the PREVIOUS OUTCOME of the current round: the model below is memoryless in
   the RMN remote configuration, so any memo inside the implementation shows up as a disagreement.
   No proofs in this file. *)
Require Import Verif.Model.Base Verif.Model.SeqRange Verif.Model.CommitMerkle Verif.Model.CommitSM
               Verif.Model.Transmit Verif.Model.CommitRmnGate.

(* ---------- initializeRMNController ----------
   conn  : RMNHome config digest the controller of this oracle is connected with (zero digest at construction)
   dg    : ConfigDigest of the previous outcome's RMNRemoteCfg
   ifail : 0 = RMNHome reader and controller answer, 1 = GetRMNNodesInfo fails, 2 = InitConnection fails
   nodes : the node set the RMNHome reader shows for dg in THIS round (interned) *)
Definition init_code (conn dg ifail : N) : N :=
  if N.eqb conn dg then 0%N else if N.eqb ifail 0 then 1%N else 2%N.

(* one InitConnection call: RMNHome digest, node set *)
Definition init_call := (N * N)%type.

(* the InitConnection call made (if any) and the digest the controller is connected with afterwards *)
Definition init_step (enabled cfg_e : bool) (conn dg ifail nodes : N) : option init_call * N :=
  if negb enabled || cfg_e then (None, conn)
  else if N.eqb conn dg then (None, conn)
  else if N.eqb ifail 1 then (None, conn)
  else if N.eqb ifail 2 then (Some (dg, nodes), conn)
  else (Some (dg, nodes), dg).

(* ---------- a signature scheme for the harness (an INSTANCE of the crypto oracle; the theorems quantify over all) ----
   every signature is made by one key over one report; it is valid for a call iff its key is one of the signer
   addresses handed to VerifyReportSignatures and the report handed over is the one it was made over. The table
   lists, for every signature id of the round, its key's address and the report it signs (None = signs nothing). *)
Definition rmn_report_eqb (a b : rmn_report) : bool :=
  let '(v, ds, ca, off, dg, ls) := a in let '(v', ds', ca', off', dg', ls') := b in
  N.eqb v v' && N.eqb ds ds' && N.eqb ca ca' && N.eqb off off' && N.eqb dg dg' && list_eqb root_eqb ls ls'.
Definition sig_table := list (N * (N * option rmn_report)).
Definition toy_verify (tab : sig_table) (c : verify_call) : bool :=
  let '(sigs, rep, addrs) := c in
  forallb (fun s => match alookup s tab with
                    | Some (a, Some r) => existsb (N.eqb a) addrs && rmn_report_eqb r rep
                    | _ => false
                    end) sigs.

(* what verifyQuery must hand to the crypto oracle in a building round: a function of the previous outcome's RMN
   config (detail d), the destination, the off-ramp address and the bundle — and of nothing else *)
Definition expected_call (d : cfg_detail) (dest off : N) (b : bundle) : option verify_call :=
  match parse_sigs (b_sigs b), parse_lanes (b_lanes b) with
  | Some sigs, Some lanes => Some (sigs, (cd_version d, dest, cd_contract d, off, cd_digest d, lanes), cd_signers d)
  | _, _ => None
  end.

(* the environment of one round as an oracle sees it *)
Record renv := mkREnv {
  e_off : option N;            (* GetContractAddress(OffRamp, dest) now; None = error *)
  e_ifail : N;                 (* see init_code *)
  e_nodes : N;                 (* RMNHome node set for the previous outcome's digest now *)
  e_world : world              (* what the observer reads now *)
}.

Section Life.
  Variable verify_sigs : verify_call -> bool.      (* the crypto oracle *)
  Variable detail_of : rmn_cfg -> cfg_detail.      (* content of an (interned) RMN remote config *)
  Variable enabled : bool.                         (* offchainCfg.RMNEnabled: fixed for the life of the instance *)
  Variables max n dest : N.

  (* Processor.Observation of one oracle whose controller is connected with conn:
     ((result, value returned), the VerifyReportSignatures call, the InitConnection call, conn afterwards) *)
  Definition oracle_obs (prev : outcome) (conn : N) (e : renv) (q : query)
    : (res unit * obs) * option verify_call * option init_call * N :=
    let st := next_state (o_type prev) in
    let cfg_e := cfg_is_empty (o_cfg prev) in
    let d := detail_of (o_cfg prev) in
    let ic := init_code conn (cd_digest d) (e_ifail e) in
    let '(icall, conn') := init_step enabled cfg_e conn (cd_digest d) (e_ifail e) (e_nodes e) in
    (observation_full verify_sigs enabled st cfg_e d dest ic true (e_off e) q (e_world e),
     match verify_args enabled st cfg_e d dest ic true (e_off e) q with Ok c => c | _ => None end,
     icall, conn').

  (* Processor.Query of the leader: the controller is initialised only on the path that asks it *)
  Definition leader_query (prev : outcome) (conn : N) (e : renv) (onramp : N -> option N) (ctrl : ctrl_ans)
    : (res query * option (list lane_req)) * option init_call * N :=
    let st := next_state (o_type prev) in
    let cfg_e := cfg_is_empty (o_cfg prev) in
    let d := detail_of (o_cfg prev) in
    if enabled && state_eqb st Building && negb cfg_e then
      let '(icall, conn') := init_step enabled cfg_e conn (cd_digest d) (e_ifail e) (e_nodes e) in
      (query_model enabled st cfg_e (init_code conn (cd_digest d) (e_ifail e)) (e_off e) (o_ranges prev) onramp ctrl,
       icall, conn')
    else (query_model enabled st cfg_e 0 (e_off e) (o_ranges prev) onramp ctrl, None, conn).

  (* ---------- histories: one honest oracle over a list of rounds ----------
     h_quorum: libocr reached a quorum of valid observations and called Outcome (otherwise the next round starts
     from the same previous outcome); h_co: the consensus over that quorum's observations *)
  Record hround := mkHRound { h_q : query; h_env : renv; h_co : option cons; h_quorum : bool }.
  Definition hstate := (outcome * N)%type.     (* previous outcome carried by libocr, controller connection *)
  Record hevent := mkHEvent {
    ev_prev : outcome; ev_q : query; ev_env : renv; ev_co : option cons;
    ev_call : option verify_call; ev_res : res unit; ev_obs : obs; ev_out : outcome
  }.
  Definition hstep (s : hstate) (r : hround) : hevent * hstate :=
    let '((rr, ob), call, _, conn') := oracle_obs (fst s) (snd s) (h_env r) (h_q r) in
    let out := if h_quorum r then get_outcome max n (fst s) (h_q r) (h_co r) else fst s in
    (mkHEvent (fst s) (h_q r) (h_env r) (h_co r) call rr ob out, (out, conn')).
  Fixpoint htrace (s : hstate) (rs : list hround) : list hevent :=
    match rs with
    | [] => []
    | r :: rs' => fst (hstep s r) :: htrace (snd (hstep s r)) rs'
    end.
  Definition hfinal (s : hstate) (rs : list hround) : hstate := fold_left (fun s r => snd (hstep s r)) rs s.
End Life.

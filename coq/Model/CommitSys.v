(* CommitSys.v — the commit plugin at history level (C04): what reaches the destination chain.
     commit/merkleroot/validate_observation.go:ValidateMerkleRootsState      (roots_state_ok)
     commit/report.go:ShouldTransmitAcceptedReport                            (Transmit.commit_should_transmit, reused)
   together with a model of the destination off-ramp's commit entry point (OffRamp.commit of the CCIP 1.6
   contracts: a merkle root is accepted iff its interval starts at the stored next sequence number of the source
   chain and min <= max; acceptance moves the cursor to max+1; any failing root reverts the whole report).
   The round functions (consensus, interval selection, root observation, report building) are the models of
   C01 / C02 / C03: CommitConsensus.v, CommitMerkle.v, CommitSM.v. *)
Require Import Verif.Model.Base Verif.Model.SeqRange Verif.Model.CommitMerkle.

(* a commit report's merkle-root part: (chain, (start, end), root id) — the on-ramp address rides along *)
Definition rroot := (N * (N * N) * N)%type.
Definition rr_chain (r : rroot) : N := fst (fst r).
Definition rr_start (r : rroot) : N := fst (snd (fst r)).
Definition rr_end (r : rroot) : N := snd (snd (fst r)).

(* the destination's cursor: next expected sequence number per source chain (0 when never configured) *)
Definition cursor := list (N * N).
Definition next_of (c : cursor) (k : N) : N := match alookup k c with Some n => n | None => 0%N end.

(* ---------- ValidateMerkleRootsState ----------
   chains must be distinct; NextSeqNum is asked for the chains in ascending order and may fail (None) or answer
   with a list of another length; every root's start must equal the answer for its chain. *)
Fixpoint all_start_match (chains : list N) (answer : list N) (roots : list rroot) : bool :=
  match chains, answer with
  | [], [] => true
  | k :: chains', a :: answer' =>
      match find (fun r => N.eqb (rr_chain r) k) roots with
      | Some r => N.eqb (rr_start r) a && all_start_match chains' answer' roots
      | None => false
      end
  | _, _ => false
  end.

Definition roots_state_ok (roots : list rroot) (reader : list N -> option (list N)) : bool :=
  match roots with
  | [] => true
  | _ =>
      if negb (nodupb N.eqb (map rr_chain roots)) then false
      else
        let chains := sortN (map rr_chain roots) in
        match reader chains with
        | None => false
        | Some answer =>
            if negb (Nat.eqb (length answer) (length chains)) then false
            else all_start_match chains answer roots
        end
  end.

(* the reader of an honest oracle answers from the destination's current cursor (or fails) *)
Definition honest_next_reader (c : cursor) (fails : bool) (chains : list N) : option (list N) :=
  if fails then None else Some (map (next_of c) chains).

(* ---------- the off-ramp contract ---------- *)
Definition root_acceptable (c : cursor) (r : rroot) : bool :=
  N.eqb (rr_start r) (next_of c (rr_chain r)) && N.leb (rr_start r) (rr_end r).

Fixpoint set_next (c : cursor) (k v : N) : cursor :=
  match c with
  | [] => [(k, v)]
  | (k', v') :: c' => if N.eqb k k' then (k, v) :: c' else (k', v') :: set_next c' k v
  end.

(* roots are processed in order against the evolving cursor; the first failure reverts everything *)
Fixpoint apply_roots (c : cursor) (roots : list rroot) : option cursor :=
  match roots with
  | [] => Some c
  | r :: roots' =>
      if root_acceptable c r then apply_roots (set_next c (rr_chain r) (succ64 (rr_end r))) roots'
      else None
  end.

(* landing a report: accepted -> new cursor and the committed intervals are recorded; rejected -> nothing changes *)
Record dest := mkDest { d_cursor : cursor; d_committed : list (N * (N * N)) }.   (* newest commit first *)
Definition land (d : dest) (roots : list rroot) : dest :=
  match apply_roots (d_cursor d) roots with
  | Some c' => mkDest c' (rev (map fst roots) ++ d_committed d)
  | None => d
  end.

(* ---------- histories ----------
   Land r      : some transmitter's transaction with report r is mined now (late, reordered, duplicated — any r);
   Execute ... : nothing on the commit side; kept out. Source chains growing does not touch [dest]. *)
Definition run_lands (d : dest) (reports : list (list rroot)) : dest := fold_left land reports d.

(* intervals committed for chain k, oldest first *)
Definition committed_for (d : dest) (k : N) : list (N * N) :=
  map snd (filter (fun x => N.eqb (fst x) k) (rev (d_committed d))).

(* consecutive: each interval starts right after the previous one ends, and start <= end *)
Fixpoint contiguous_from (start : N) (l : list (N * N)) : Prop :=
  match l with
  | [] => True
  | (s, e) :: l' => s = start /\ (s <= e)%N /\ contiguous_from (succ64 e) l'
  end.

(* ---------- the truth about a source chain and honest reads ---------- *)
Section Truth.
  Variable h : N -> N -> N.
  Variable zero : N.
  (* the unique finalized message of chain k with sequence number q, if it exists yet; append-only *)
  Variable log : N -> N -> option msg.

  (* a reader is honest when every message it returns for chain k is that chain's message at its sequence number
     (it may return fewer messages than asked for: unfinalized tail, gaps, nothing) *)
  Definition reader_honest (reader : N -> N * N -> option (list msg)) : Prop :=
    forall k rng ms, reader k rng = Some ms -> Forall (fun m => log k (m_seq m) = Some m) ms.

  Fixpoint iota (s : N) (len : nat) : list N :=
    match len with O => [] | S l => s :: iota (s + 1) l end.
  (* the hasher's answers for the true messages of [s, s+len) *)
  Definition true_hashes (k s : N) (len : nat) : list (option N) :=
    map (fun q => match log k q with Some m => m_hash m | None => None end) (iota s len).
  (* r is the true merkle root of chain k over [s,e] *)
  Definition true_root (k s e r : N) : Prop :=
    exists hs, map Some hs = true_hashes k s (N.to_nat (e - s + 1)) /\ mroot h zero hs = Some r.
End Truth.

(* Locks.v — lock-level model of the mutex discipline of a Go receiver type (C18 pollers, C19 queue / cache).

   The action programs of the methods are NOT written by hand: /verif/locks extracts them from the Go sources on
   every run (Gen/LocksGen.v); this file gives them a meaning and defines the decidable check [well_locked].

   - [prog]: finite tree over the action alphabet; if/else, switch and select are [Choice], a loop is an explicit
     [Loop body rest] node whose body ends in [Cont] (next iteration) / [Brk] (leave the loop) / [Ret].
     `defer` is resolved by the extractor: the deferred unlock stands before every [Ret] of the function.
   - semantics: N threads, one sync.RWMutex, a store mapping each guarded field to the VERSION of the write
     section that last wrote it.  Every Lock() draws a fresh version; a Write stores the writer's version.  A Read
     records (field, version seen) in the reading thread's observation list.  Scheduling is arbitrary.
   - [well_locked]: abstract execution of one program over (lock mode held, possible sets of fields written in the
     current write section, fields read in this / in earlier sections).
   No proofs here (Proofs/LocksP.v). *)
Require Import Verif.Model.Base.

(* ------------------------------------------------------------------ alphabet and programs *)
Inductive act : Type :=
| ALock | AUnlock | ARLock | ARUnlock          (* r.mutex.Lock() ... *)
| ADeferUnlock | ADeferRUnlock                 (* position of the defer statement (marker; the unlock itself is at the exits) *)
| ARead (f : N) | AWrite (f : N)               (* one guarded field *)
| AMutate (f : N)                              (* in-place update of the object the field refers to: m[k] = v, delete, s.Add *)
| ACopy (g : N) | AStore (g : N)               (* s := r.state  /  r.state = next : every field of group g *)
| ACall (m : N)                                (* call of method m of the same receiver (marker; the body follows inlined) *)
| AGo (m : N)                                  (* go statement; the started program is listed as a method of its own *)
| ASend (c : N) | ARecv (c : N) | AWait (c : N). (* channel send / receive, WaitGroup.Wait, Sleep: may block for ever *)

Inductive prog : Type :=
| Ret | Cont | Brk
| Act (a : act) (k : prog)
| Choice (p q : prog)
| Loop (body k : prog).

(* a layout lists the snapshot groups: fields that must always be seen / replaced together *)
Definition layout := list (list N).

Definition same_groupb (lay : layout) (f f' : N) : bool := existsb (fun g => memN f g && memN f' g) lay.
Definition same_group (lay : layout) (f f' : N) : Prop := exists g, In g lay /\ In f g /\ In f' g.

(* struct copy / struct store / in-place update become field accesses: Go copies a struct field by field *)
Fixpoint acts_then (l : list act) (k : prog) : prog :=
  match l with [] => k | a :: l' => Act a (acts_then l' k) end.

Fixpoint desugar (lay : layout) (p : prog) : prog :=
  match p with
  | Ret => Ret | Cont => Cont | Brk => Brk
  | Act (ACopy g) k => acts_then (map ARead (nth (N.to_nat g) lay [])) (desugar lay k)
  | Act (AStore g) k => acts_then (map AWrite (nth (N.to_nat g) lay [])) (desugar lay k)
  | Act (AMutate f) k => Act (ARead f) (Act (AWrite f) (desugar lay k))
  | Act a k => Act a (desugar lay k)
  | Choice p q => Choice (desugar lay p) (desugar lay q)
  | Loop b k => Loop (desugar lay b) (desugar lay k)
  end.

(* one unfolding of a loop: Cont leaves of the body go back to the loop, Brk leaves go on with the rest *)
Fixpoint subst (p again after : prog) : prog :=
  match p with
  | Ret => Ret | Cont => again | Brk => after
  | Act a k => Act a (subst k again after)
  | Choice p q => Choice (subst p again after) (subst q again after)
  | Loop b k => Loop b (subst k again after)
  end.

(* ------------------------------------------------------------------ interleaving semantics *)
Record shared := mkSh {
  lk_w : option N;      (* write-locked; the version drawn by that Lock() *)
  lk_r : nat;           (* number of read locks held *)
  store : N -> N;       (* guarded field -> version of the section that wrote it last (0 = initial value) *)
  next : N;             (* next fresh version *)
  fault : bool }.       (* an Unlock / RUnlock of a mutex that is not locked happened (Go: fatal error) *)

Record thread := mkTh {
  t_prog : prog;
  t_ver : N;                 (* version of this thread's latest Lock() *)
  t_obs : list (N * N);      (* what it read: (field, version), latest first *)
  t_label : bool }.          (* inert label: true = claimed to be a consistent reader (checked strictly) *)

Definition upd (s : N -> N) (f v : N) : N -> N := fun x => if N.eqb x f then v else s x.

Fixpoint lookup (f : N) (l : list (N * N)) : option N :=
  match l with [] => None | (k, v) :: l' => if N.eqb k f then Some v else lookup f l' end.

Definition set_prog (t : thread) (p : prog) : thread := mkTh p (t_ver t) (t_obs t) (t_label t).

(* own writes of the current write section are not observations of somebody else's snapshot *)
Definition own_write (sh : shared) (t : thread) (f : N) : bool :=
  match lk_w sh with Some v => N.eqb v (t_ver t) && N.eqb (store sh f) (t_ver t) | None => false end.

(* one step of one thread; [c] resolves Choice / Loop.  None = the thread cannot move (blocked or finished). *)
Definition tstep (c : bool) (sh : shared) (t : thread) : option (shared * thread) :=
  match t_prog t with
  | Ret | Cont | Brk => None
  | Choice p q => Some (sh, set_prog t (if c then p else q))
  | Loop b k => Some (sh, set_prog t (if c then subst b (Loop b k) k else k))
  | Act a k =>
    match a with
    | ALock =>
      match lk_w sh, lk_r sh with
      | None, O => Some (mkSh (Some (next sh)) 0 (store sh) (N.succ (next sh)) (fault sh),
                         mkTh k (next sh) (t_obs t) (t_label t))
      | _, _ => None
      end
    | AUnlock =>
      match lk_w sh with
      | Some _ => Some (mkSh None (lk_r sh) (store sh) (next sh) (fault sh), set_prog t k)
      | None => Some (mkSh None (lk_r sh) (store sh) (next sh) true, set_prog t k)
      end
    | ARLock =>
      match lk_w sh with
      | None => Some (mkSh None (S (lk_r sh)) (store sh) (next sh) (fault sh), set_prog t k)
      | Some _ => None
      end
    | ARUnlock =>
      match lk_r sh with
      | S n => Some (mkSh (lk_w sh) n (store sh) (next sh) (fault sh), set_prog t k)
      | O => Some (mkSh (lk_w sh) 0 (store sh) (next sh) true, set_prog t k)
      end
    | ARead f =>
      if own_write sh t f then Some (sh, set_prog t k)
      else Some (sh, mkTh k (t_ver t) ((f, store sh f) :: t_obs t) (t_label t))
    | AWrite f => Some (mkSh (lk_w sh) (lk_r sh) (upd (store sh) f (t_ver t)) (next sh) (fault sh), set_prog t k)
    | _ => Some (sh, set_prog t k)
    end
  end.

Record state := mkSt { st_sh : shared; st_ths : list thread }.

Definition step (s s' : state) : Prop :=
  exists pre t post c sh' t',
    st_ths s = pre ++ t :: post /\ tstep c (st_sh s) t = Some (sh', t') /\ s' = mkSt sh' (pre ++ t' :: post).

Inductive reachable (s0 : state) : state -> Prop :=
| reach_refl : reachable s0 s0
| reach_step : forall s s', reachable s0 s -> step s s' -> reachable s0 s'.

(* executable scheduler, for the explicit interleavings of the refutations: thread index and choice bit *)
Definition gstep (s : state) (ic : nat * bool) : option state :=
  match nth_error (st_ths s) (fst ic) with
  | Some t =>
    match tstep (snd ic) (st_sh s) t with
    | Some (sh', t') => Some (mkSt sh' (firstn (fst ic) (st_ths s) ++ t' :: skipn (S (fst ic)) (st_ths s)))
    | None => None
    end
  | None => None
  end.

Fixpoint grun (s : state) (sched : list (nat * bool)) : option state :=
  match sched with
  | [] => Some s
  | ic :: rest => match gstep s ic with Some s' => grun s' rest | None => None end
  end.

Definition sh0 : shared := mkSh None 0 (fun _ => 0%N) 1%N false.
Definition th0 (lp : bool * prog) : thread := mkTh (snd lp) 0%N [] (fst lp).
Definition init (lps : list (bool * prog)) : state := mkSt sh0 (map th0 lps).

(* ------------------------------------------------------------------ what is claimed of reachable states *)
(* a reader's view: two fields of one group never carry different versions *)
Definition obs_consistent (lay : layout) (obs : list (N * N)) : Prop :=
  forall f1 f2 v1 v2, same_group lay f1 f2 -> lookup f1 obs = Some v1 -> lookup f2 obs = Some v2 -> v1 = v2.
Definition obs_consistentb (lay : layout) (obs : list (N * N)) : bool :=
  forallb (fun g => forallb (fun f1 => forallb (fun f2 =>
    match lookup f1 obs, lookup f2 obs with Some v1, Some v2 => N.eqb v1 v2 | _, _ => true end) g) g) lay.

(* the store outside write sections: every group is one version *)
Definition store_consistent (lay : layout) (sh : shared) : Prop :=
  lk_w sh = None -> forall f f', same_group lay f f' -> store sh f = store sh f'.

Definition head_act (t : thread) : option act := match t_prog t with Act a _ => Some a | _ => None end.
Definition accesses (t : thread) (f : N) : Prop := head_act t = Some (ARead f) \/ head_act t = Some (AWrite f).
Definition writes (t : thread) (f : N) : Prop := head_act t = Some (AWrite f).

(* data race: two different threads are both about to access the same field, one of them writing *)
Definition race (s : state) : Prop :=
  exists l1 t1 l2 t2 l3 f, st_ths s = l1 ++ t1 :: l2 ++ t2 :: l3 /\
    ((writes t1 f /\ accesses t2 f) \/ (accesses t1 f /\ writes t2 f)).

Definition finished (t : thread) : Prop := t_prog t = Ret.
(* waiting for the mutex *)
Definition waiting (sh : shared) (t : thread) : Prop :=
  (head_act t = Some ALock \/ head_act t = Some ARLock) /\ forall c, tstep c sh t = None.
(* may wait for ever on something that is not the mutex *)
Definition may_block (t : thread) : Prop :=
  exists c, head_act t = Some (ASend c) \/ head_act t = Some (ARecv c) \/ head_act t = Some (AWait c).
(* can certainly move *)
Definition runnable (sh : shared) (t : thread) : Prop := (exists c r, tstep c sh t = Some r) /\ ~ may_block t.

(* everything that is claimed of a reachable state *)
Definition locks_safe (lay : layout) (s : state) : Prop :=
  (* no Unlock / RUnlock of an unlocked mutex *)
  fault (st_sh s) = false /\
  (* no data race *)
  ~ race s /\
  (* outside write sections every group of the store is one snapshot *)
  store_consistent lay (st_sh s) /\
  (* every thread labelled as a consistent reader has seen, per group, one snapshot only *)
  (forall t, In t (st_ths s) -> t_label t = true -> obs_consistent lay (t_obs t)) /\
  (* when every thread has returned the mutex is free *)
  ((forall t, In t (st_ths s) -> finished t) -> lk_w (st_sh s) = None /\ lk_r (st_sh s) = 0) /\
  (* whenever the mutex is held, some thread can move and is not about to wait on a channel / WaitGroup; in
     particular: whenever a thread waits for the mutex *)
  ((lk_w (st_sh s) <> None \/ lk_r (st_sh s) <> 0) -> exists t', In t' (st_ths s) /\ runnable (st_sh s) t') /\
  ((exists t, In t (st_ths s) /\ waiting (st_sh s) t) -> exists t', In t' (st_ths s) /\ runnable (st_sh s) t').

(* ------------------------------------------------------------------ the check *)
Inductive mode : Type := MN | MR | MW.
Definition mode_eqb (a b : mode) : bool :=
  match a, b with MN, MN | MR, MR | MW, MW => true | _, _ => false end.

Record ast := mkA {
  a_strict : bool;           (* also require: all fields of a group are read within one section *)
  a_mode : mode;
  a_wr : list (list N);      (* MW: the possible sets of fields written so far in this section *)
  a_cur : list N;            (* fields read in the current section *)
  a_stale : list N }.        (* fields read in an earlier section *)

Definition inclb (l1 l2 : list N) : bool := forallb (fun x => memN x l2) l1.
Definition memL (s : list N) (ll : list (list N)) : bool := existsb (list_eqb N.eqb s) ll.
Definition inclLb (l1 l2 : list (list N)) : bool := forallb (fun s => memL s l2) l1.
Definition unionN (l1 l2 : list N) : list N := l1 ++ filter (fun x => negb (memN x l1)) l2.
Definition unionL (l1 l2 : list (list N)) : list (list N) := l1 ++ filter (fun x => negb (memL x l1)) l2.

Definition addN (f : N) (s : list N) : list N := if memN f s then s else f :: s.

Definition leb (a b : ast) : bool :=
  Bool.eqb (a_strict a) (a_strict b) && mode_eqb (a_mode a) (a_mode b) &&
  inclLb (a_wr a) (a_wr b) && inclb (a_cur a) (a_cur b) && inclb (a_stale a) (a_stale b).

Definition join (a b : ast) : ast :=
  mkA (a_strict a) (a_mode a) (unionL (a_wr a) (a_wr b)) (unionN (a_cur a) (a_cur b)) (unionN (a_stale a) (a_stale b)).

(* a write section wrote all fields of a group or none of them, whichever path it took *)
Definition all_or_none (lay : layout) (wr : list (list N)) : bool :=
  forallb (fun s => forallb (fun g => forallb (fun f => negb (memN f s)) g || forallb (fun f => memN f s) g) lay) wr.

(* no other field of f's group was read in an earlier section *)
Definition fresh_group (lay : layout) (stale : list N) (f : N) : bool :=
  forallb (fun g => negb (memN f g) || forallb (fun f' => N.eqb f' f || negb (memN f' stale)) g) lay.

Definition tr (lay : layout) (a : ast) (x : act) : option ast :=
  match x with
  | ALock => match a_mode a with
             | MN => Some (mkA (a_strict a) MW [[]] [] (a_stale a ++ a_cur a)) | _ => None end
  | ARLock => match a_mode a with
              | MN => Some (mkA (a_strict a) MR [] [] (a_stale a ++ a_cur a)) | _ => None end
  | AUnlock => match a_mode a with
               | MW => if all_or_none lay (a_wr a)
                       then Some (mkA (a_strict a) MN [] [] (a_stale a ++ a_cur a)) else None
               | _ => None end
  | ARUnlock => match a_mode a with
                | MR => Some (mkA (a_strict a) MN [] [] (a_stale a ++ a_cur a)) | _ => None end
  | ARead f => match a_mode a with
               | MN => None
               | _ => if negb (a_strict a) || fresh_group lay (a_stale a) f
                      then Some (mkA (a_strict a) (a_mode a) (a_wr a) (f :: a_cur a) (a_stale a)) else None
               end
  | AWrite f => match a_mode a with
                | MW => Some (mkA (a_strict a) MW (map (addN f) (a_wr a)) (a_cur a) (a_stale a)) | _ => None end
  | ADeferUnlock | ADeferRUnlock => Some a
  | ACall _ => Some a
  | AGo _ | ASend _ | ARecv _ | AWait _ => match a_mode a with MN => Some a | _ => None end
  | AMutate _ | ACopy _ | AStore _ => None        (* removed by [desugar] *)
  end.

Fixpoint iter {A} (n : nat) (f : A -> A) (x : A) : A := match n with O => x | S n' => iter n' f (f x) end.

Definition loop_fuel : nat := 6.

(* abstract execution: None = rejected; Some ls = accepted, ls = abstract states at the Cont / Brk leaves *)
Fixpoint ax (lay : layout) (a : ast) (p : prog) {struct p} : option (list ast) :=
  match p with
  | Ret => match a_mode a with MN => Some [] | _ => None end
  | Cont | Brk => Some [a]
  | Act x k => match tr lay a x with Some a' => ax lay a' k | None => None end
  | Choice p q => match ax lay a p, ax lay a q with Some l1, Some l2 => Some (l1 ++ l2) | _, _ => None end
  | Loop b k =>
    let inv := iter loop_fuel (fun i => match ax lay i b with Some ls => fold_left join ls i | None => i end) a in
    match ax lay inv b with
    | Some ls => if leb a inv && forallb (fun l => leb l inv) ls then ax lay inv k else None
    | None => None
    end
  end.

Definition a0 (strict : bool) : ast := mkA strict MN [] [] [].

(* locks_ok: accesses under the right lock mode, balanced on every path, no nested acquisition, nothing that may
   block while the mutex is held, every write section all-or-none per group.
   well_locked: in addition, a group is never read across two sections (consistent reader). *)
Definition checked (strict : bool) (lay : layout) (p : prog) : bool :=
  match ax lay (a0 strict) (desugar lay p) with Some [] => true | _ => false end.
Definition locks_ok := checked false.
Definition well_locked := checked true.

(* a receiver type as extracted: its groups and its methods (name, program) *)
Record object := mkObj { o_layout : layout; o_methods : list (N * prog) }.
Definition failing (strict : bool) (o : object) : list N :=
  map fst (filter (fun m => negb (checked strict (o_layout o) (snd m))) (o_methods o)).
Definition well_locked_obj (o : object) : bool := forallb (fun m => well_locked (o_layout o) (snd m)) (o_methods o).
Definition locks_ok_obj (o : object) : bool := forallb (fun m => locks_ok (o_layout o) (snd m)) (o_methods o).
(* all methods strictly checked except the listed ones, which still pass the lock discipline *)
Definition well_locked_except (ex : list N) (o : object) : bool :=
  forallb (fun m => if memN (fst m) ex then locks_ok (o_layout o) (snd m) else well_locked (o_layout o) (snd m))
          (o_methods o).
Definition threads_of (ex : list N) (o : object) : list (bool * prog) :=
  map (fun m => (negb (memN (fst m) ex), desugar (o_layout o) (snd m))) (o_methods o).

(* ------------------------------------------------------------------ small programs used as witnesses *)
Definition lay2 : layout := [[1; 2]]%N.
Definition pseq (l : list act) : prog := acts_then l Ret.
Definition w_good : prog := pseq [ALock; AWrite 1; AWrite 2; AUnlock]%N.
Definition r_good : prog := pseq [ARLock; ARead 1; ARead 2; ARUnlock]%N.
Definition r_copy : prog := pseq [ARLock; ADeferRUnlock; ACopy 0; ARUnlock]%N.
(* (a) the second field is assigned after Unlock *)
Definition w_late : prog := pseq [ALock; AWrite 1; AUnlock; AWrite 2]%N.
(* (b) a read without RLock *)
Definition r_bare : prog := pseq [ARead 1]%N.
(* (c) two fields of the group read in two separate read sections *)
Definition r_twice : prog := pseq [ARLock; ARead 1; ARUnlock; ARLock; ARead 2; ARUnlock]%N.
(* (d) the writer takes the read lock *)
Definition w_rlock : prog := pseq [ARLock; AWrite 1; AWrite 2; ARUnlock]%N.
(* (e) an early return that forgets RUnlock *)
Definition r_leak : prog := Act ARLock (Act (ARead 1%N) (Choice Ret (Act (ARead 2%N) (Act ARUnlock Ret)))).
(* (f) two write sections for one group *)
Definition w_split : prog := pseq [ALock; AWrite 1; AUnlock; ALock; AWrite 2; AUnlock]%N.
(* check-then-act: membership is read in a read section, the update made in a later write section *)
Definition q_enq : prog := pseq [ARLock; ARead 2; ARUnlock; ALock; ARead 1; AWrite 1; AMutate 2; AUnlock]%N.
(* a poll loop: for { Lock; counter++; Unlock }  with an early return, counter = a group of its own *)
Definition lay3 : layout := [[1; 2]; [3]]%N.
Definition p_loop : prog :=
  Loop (Choice (pseq [ALock; AWrite 3; AUnlock]%N)
               (Act ALock (Act (AMutate 3%N) (Act AUnlock Cont)))) Ret.

(* which fields the methods of an object read / write (sanity of an extraction: nothing was dropped) *)
Fixpoint prog_acts (p : prog) : list act :=
  match p with
  | Ret | Cont | Brk => []
  | Act a k => a :: prog_acts k
  | Choice p q => prog_acts p ++ prog_acts q
  | Loop b k => prog_acts b ++ prog_acts k
  end.
Definition obj_acts (o : object) : list act :=
  flat_map (fun m => prog_acts (desugar (o_layout o) (snd m))) (o_methods o).
Definition obj_reads (o : object) (f : N) : bool :=
  existsb (fun a => match a with ARead g => N.eqb f g | _ => false end) (obj_acts o).
Definition obj_writes (o : object) (f : N) : bool :=
  existsb (fun a => match a with AWrite g => N.eqb f g | _ => false end) (obj_acts o).
Definition all_fields_used (o : object) : bool :=
  forallb (fun g => forallb (fun f => obj_reads o f && obj_writes o f) g) (o_layout o).

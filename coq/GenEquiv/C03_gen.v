(* C03_gen.v — commit/merkleroot/types.go Outcome.NextState as regenerated on this run (switch over the OutcomeType
   constants, both iota blocks read from the source), against Model/CommitSM.v next_state.
   The generated function returns the numeric value of the Go State constant; [state_code] is the (injective)
   numbering of the model's three states by exactly those generated constants. *)
Require Import Verif.Model.Base Verif.Proofs.BaseP Verif.Model.SeqRange Verif.Model.CommitMerkle Verif.Model.CommitSM
               Verif.Proofs.CommitSMP.
Require Import VerifGen.Leaf VerifGen.GenTac.
From Coq Require Import ZArith NArith Bool Lia ZifyN ZifyNat ZifyBool.
Ltac Zify.zify_post_hook ::= Z.div_mod_to_equations.

Definition state_code (s : state) : Z :=
  match s with
  | Selecting => gen_const_merkleroot_SelectingRangesForReport
  | Building => gen_const_merkleroot_BuildingReport
  | Waiting => gen_const_merkleroot_WaitingForReportTransmission
  end.

(* the two const blocks of the source still number the outcome types / states the way the model does *)
Theorem gen_commit_constants :
  gen_const_merkleroot_ReportIntervalsSelected = T_selected /\ gen_const_merkleroot_ReportGenerated = T_generated /\
  gen_const_merkleroot_ReportEmpty = T_empty /\ gen_const_merkleroot_ReportInFlight = T_inflight /\
  gen_const_merkleroot_ReportTransmitted = T_transmitted /\ gen_const_merkleroot_ReportTransmissionFailed = T_failed /\
  (forall a b, state_code a = state_code b -> a = b).
Proof.
  repeat split.
  intros a b. destruct a, b; unfold state_code; autounfold with gen; intros H;
    first [ reflexivity | discriminate H ].
Qed.
Print Assumptions gen_commit_constants.

(* (a) generated = modelled, for every integer in the outcome-type field (also those outside the enumeration) *)
Theorem gen_next_state_eq : forall t, gen_next_state t = state_code (next_state t).
Proof. intros. unfold next_state, state_code. gen_auto. Qed.
Print Assumptions gen_next_state_eq.

(* (b) C03_next_state_total over the generated definition and the generated constants *)
Theorem C03_next_state_total_gen : forall t,
  (t = gen_const_merkleroot_ReportIntervalsSelected /\ gen_next_state t = gen_const_merkleroot_BuildingReport) \/
  ((t = gen_const_merkleroot_ReportGenerated \/ t = gen_const_merkleroot_ReportInFlight) /\
   gen_next_state t = gen_const_merkleroot_WaitingForReportTransmission) \/
  (t <> gen_const_merkleroot_ReportIntervalsSelected /\ t <> gen_const_merkleroot_ReportGenerated /\
   t <> gen_const_merkleroot_ReportInFlight /\ gen_next_state t = gen_const_merkleroot_SelectingRangesForReport).
Proof.
  intros t. rewrite gen_next_state_eq.
  destruct (next_state_cases t) as [[H1 H2]|[[H1 H2]|[H1 [H3 [H4 H2]]]]]; rewrite H2; unfold state_code;
    autounfold with gen; lia.
Qed.
Print Assumptions C03_next_state_total_gen.

Example C03_gen_nonvacuous :
  gen_next_state 1 = 2%Z /\ gen_next_state 2 = 3%Z /\ gen_next_state 4 = 3%Z /\ gen_next_state 5 = 1%Z /\
  gen_next_state 0 = 1%Z /\ gen_next_state (-7) = 1%Z.
Proof. vm_compute. repeat split. Qed.

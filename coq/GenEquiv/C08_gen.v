(* C08_gen.v — internal/libs/slicelib/bits.go BoolsToBitFlags / BitFlagsToBools (the proof flag bits of an execute
   report, execute/report/report.go) as regenerated on this run, against Model/Merkle.v bools_to_flags /
   flags_to_bools.  big.Int.SetBit / Bit panic on a negative position: both generated functions are in the res
   monad and the theorems show they are always Ok.
   (checkMessage itself is outside the translator's subset: logger and interface calls, maps, builder state.) *)
Require Import Verif.Model.Base Verif.Model.Merkle Verif.Proofs.MerkleP.
Require Import VerifGen.Leaf VerifGen.GenTac.
From Coq Require Import ZArith NArith Bool Lia ZifyN ZifyNat ZifyBool.
Ltac Zify.zify_post_hook ::= Z.div_mod_to_equations.

Lemma setbit_above : forall a i, (0 <= i)%Z -> (0 <= a < 2 ^ i)%Z -> Z.setbit a i = (a + 2 ^ i)%Z.
Proof.
  intros a i Hi Ha. rewrite Z.setbit_spec'.
  assert (L : Z.land a (2 ^ i) = 0%Z).
  { apply Z.bits_inj'. intros n Hn. rewrite Z.land_spec, Z.bits_0, Z.pow2_bits_eqb by lia.
    destruct (Z.eqb_spec i n) as [->|Hne]; [|apply andb_false_r].
    rewrite andb_true_r. destruct (Z.eq_dec a 0) as [->|Hz]; [apply Z.bits_0|].
    apply Z.bits_above_log2; [lia|]. apply Z.log2_lt_pow2; lia. }
  rewrite <- Z.lxor_lor by exact L. symmetry. apply Z.add_nocarry_lxor. exact L.
Qed.

Lemma bools_to_flags_nonneg : forall l, (0 <= bools_to_flags l)%Z.
Proof. induction l as [|b l IH]; cbn [bools_to_flags]; [lia|]. destruct b; lia. Qed.

(* (a) generated = modelled; the loops are found through their call markers *)
Theorem gen_bools_to_bit_flags_eq : forall l, gen_bools_to_bit_flags l = Ok (bools_to_flags l).
Proof.
  intros l0. gen_open.
  lazymatch goal with
  | |- context [gen_loop3 ?f _ _ _] =>
      assert (L : forall l i acc, (0 <= i)%Z -> (0 <= acc < 2 ^ i)%Z ->
                    f l i acc = Ok (acc + 2 ^ i * bools_to_flags l)%Z)
  end.
  { induction l as [|b l IH]; intros i acc Hi Ha;
      lazymatch goal with |- ?lhs = _ => let h := gen_head lhs in cbn [h]; cbv zeta end; cbn [bools_to_flags].
    - f_equal. lia.
    - assert (P : (2 ^ (i + 1) = 2 * 2 ^ i)%Z) by (rewrite Z.pow_add_r by lia; lia).
      pose proof (bools_to_flags_nonneg l) as Hl.
      (* whatever the shape of the test on the element: split on every condition, drop the impossible branches *)
      repeat (gen_case; try solve [exfalso; gen_lin]);
        rewrite ?setbit_above by assumption; rewrite IH by lia; f_equal; rewrite ?P; lia. }
  unfold gen_loop3. rewrite L by lia. f_equal. change (2 ^ 0)%Z with 1%Z. lia.
Qed.
Print Assumptions gen_bools_to_bit_flags_eq.

Theorem gen_bit_flags_to_bools_eq : forall z size,
  gen_bit_flags_to_bools z size = Ok (flags_to_bools z (Z.to_nat size)).
Proof.
  intros z size. gen_open.
  lazymatch goal with
  | |- context [gen_loop3 ?f _ _ _] =>
      assert (L : forall n i acc, (0 <= i)%Z -> f n i acc = Ok (acc ++ flags_to_bools (Z.shiftr z i) n))
  end.
  { induction n as [|n IH]; intros i acc Hi;
      lazymatch goal with |- ?lhs = _ => let h := gen_head lhs in cbn [h]; cbv zeta end; cbn [flags_to_bools].
    - now rewrite app_nil_r.
    - repeat (gen_case; try solve [exfalso; gen_lin]);
        rewrite IH by lia; rewrite <- app_assoc; cbn [app];
        rewrite Z.div2_spec, Z.shiftr_shiftr by lia; rewrite <- Z.testbit_odd;
        repeat match goal with H : Z.testbit _ _ = _ |- _ => rewrite H end; reflexivity. }
  unfold gen_loop3. rewrite L by lia. cbn [app]. rewrite Z.shiftr_0_r, ?Z.sub_0_r. reflexivity.
Qed.
Print Assumptions gen_bit_flags_to_bools_eq.

(* (b) the flags written into a report are read back unchanged (flags_roundtrip), over both generated functions *)
Theorem C08_flags_roundtrip_gen : forall l,
  exists z, gen_bools_to_bit_flags l = Ok z /\
            gen_bit_flags_to_bools z (Z.of_nat (length l)) = Ok l.
Proof.
  intros l. exists (bools_to_flags l). split; [apply gen_bools_to_bit_flags_eq|].
  rewrite gen_bit_flags_to_bools_eq, Nat2Z.id, flags_roundtrip. reflexivity.
Qed.
Print Assumptions C08_flags_roundtrip_gen.

Example C08_gen_nonvacuous :
  gen_bools_to_bit_flags [true; false; true; true] = Ok 13%Z /\
  gen_bit_flags_to_bools 13 4 = Ok [true; false; true; true] /\ gen_bit_flags_to_bools 13 (-1) = Ok [].
Proof. vm_compute. repeat split. Qed.

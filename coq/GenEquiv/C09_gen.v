(* C09_gen.v — execute/plugin_functions.go computeRanges as regenerated on this run, against Model/ExecPending.v
   compute_ranges.  A CommitData is, for this function, its SequenceNumberRange (start, end); the result
   ([]SeqNumRange, error) is res (list (N * N)) with errOverlappingRanges = Err.
   (filterOutExecutedMessages is outside the translator's subset: nested loops that move an index of the outer
   slice, in-place updates of slice elements and a counting loop over uint64 bounds; see docs/design/translator.md.) *)
Require Import Verif.Model.Base Verif.Model.ExecPending Verif.Proofs.ExecPendingP.
Require Import VerifGen.Leaf VerifGen.GenTac.
From Coq Require Import ZArith NArith Bool Lia ZifyN ZifyNat ZifyBool.
Ltac Zify.zify_post_hook ::= Z.div_mod_to_equations.

(* (a) generated = modelled, on every list of ranges.  The loop (found through its call marker) carries the index,
   the running range and the finished ranges; once the first report has initialised the running range (i > 0) it is
   compute_ranges_from. *)
Theorem gen_compute_ranges_eq : forall l, gen_compute_ranges l = compute_ranges l.
Proof.
  intros l0. gen_open.
  first
  [ (* A: one loop over all reports, the first one recognised by its index *)
    lazymatch goal with
    | |- context [gen_loop4 ?f _ _ _ _] =>
        assert (L : forall l i cur acc, (0 < i)%Z -> f l i cur acc = compute_ranges_from cur acc l)
    end;
    [ induction l as [|r l IH]; intros i [cs ce] acc Hi;
        lazymatch goal with |- ?lhs = _ => let h := gen_head lhs in cbn [h]; cbv zeta end;
        cbn [compute_ranges_from]; [reflexivity|];
      destruct r as [rs re]; unfold r_start, r_end, succ64; gen_open;
      repeat (gen_case; try solve [exfalso; gen_lin]); try reflexivity; try (apply IH; lia)
    | destruct l0 as [|[rs re] l]; unfold compute_ranges; cbn [length];
        [repeat (gen_case; try solve [exfalso; gen_lin]); reflexivity|];
      unfold gen_loop4;
      repeat (gen_case; try solve [exfalso; gen_lin]);
      lazymatch goal with |- ?lhs = _ => let h := gen_head lhs in cbn [h]; cbv zeta end;
      gen_open; cbn [Z.eqb]; apply L; lia ]
  | (* B: the first report taken by index, the loop over the rest (reports[1:]) *)
    lazymatch goal with
    | |- context [gen_loop3 ?f _ _ _] =>
        assert (L : forall l cur acc, f l cur acc = compute_ranges_from cur acc l)
    end;
    [ induction l as [|r l IH]; intros [cs ce] acc;
        lazymatch goal with |- ?lhs = _ => let h := gen_head lhs in cbn [h]; cbv zeta end;
        cbn [compute_ranges_from]; [reflexivity|];
      destruct r as [rs re]; unfold r_start, r_end, succ64; gen_open;
      repeat (gen_case; try solve [exfalso; gen_lin]); try reflexivity; try apply IH
    | destruct l0 as [|[rs re] l]; unfold compute_ranges; cbn [length];
        [repeat (gen_case; try solve [exfalso; gen_lin]); reflexivity|];
      unfold gen_loop3; autounfold with gen_pre; cbn [length nth_error skipn Z.to_nat Z.ltb Z.compare orb];
      repeat (gen_case; try solve [exfalso; gen_lin]; try discriminate);
      repeat match goal with H : Some _ = Some _ |- _ => inversion H; subst; clear H end;
      cbn [fst snd]; try apply L; exfalso; lia ] ].
Qed.
Print Assumptions gen_compute_ranges_eq.

(* (b) C09_compute_ranges over the generated definition *)
Theorem C09_compute_ranges_gen : forall r l,
  (fst r <= snd r)%N -> (snd r < max64)%N -> asc_from (snd r) l ->
  exists outs,
    gen_compute_ranges (r :: l) = Ok outs /\
    (forall s, in_union outs s <-> in_union (r :: l) s) /\
    match outs with o :: rest => fst o = fst r /\ (fst o <= snd o)%N /\ gap_above (snd o) rest | [] => False end.
Proof. intros r l H1 H2 H3. rewrite gen_compute_ranges_eq. apply compute_ranges_spec; assumption. Qed.
Print Assumptions C09_compute_ranges_gen.

Example C09_gen_nonvacuous :
  gen_compute_ranges [(1, 3); (4, 6); (9, 10)]%N = Ok [(1, 6); (9, 10)]%N /\
  gen_compute_ranges [(1, 5); (3, 6)]%N = Err /\ gen_compute_ranges [] = Ok [] /\
  gen_compute_ranges [(7, 7)]%N = Ok [(7, 7)]%N.
Proof. vm_compute. repeat split. Qed.

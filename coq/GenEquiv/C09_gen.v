(* C09_gen.v — execute/plugin_functions.go computeRanges as regenerated on this run, against Model/ExecPending.v
   compute_ranges.  A CommitData is, for this function, its SequenceNumberRange (start, end); the result
   ([]SeqNumRange, error) is res (list (N * N)) with errOverlappingRanges = Err.
   (filterOutExecutedMessages is outside the translator's subset: nested loops that move an index of the outer
   slice, in-place updates of slice elements and a counting loop over uint64 bounds; see docs/design/translator.md.) *)
Require Import Verif.Model.Base Verif.Model.ExecPending Verif.Proofs.ExecPendingP.
Require Import VerifGen.Leaf VerifGen.GenTac.
From Coq Require Import ZArith NArith Bool Lia ZifyN ZifyNat ZifyBool.
Ltac Zify.zify_post_hook ::= Z.div_mod_to_equations.

(* the loop, once the first report has initialised the running range (i > 0) *)
Lemma gen_compute_ranges_loop_spec : forall l i cur acc,
  (0 < i)%Z -> gen_compute_ranges_loop l i cur acc = compute_ranges_from cur acc l.
Proof.
  induction l as [|r l IH]; intros i [cs ce] acc Hi; gen_step gen_compute_ranges_loop; cbn [compute_ranges_from];
    [reflexivity|].
  destruct r as [rs re]. unfold r_start, r_end, succ64. autounfold with gen. cbv zeta. cbn [fst snd].
  destruct (Z.eqb_spec i 0); [lia|].
  destruct (N.eqb (add64 ce 1) rs); [apply IH; lia|].
  destruct (N.ltb rs ce); [reflexivity|]. apply IH; lia.
Qed.

(* (a) generated = modelled, on every list of ranges *)
Theorem gen_compute_ranges_eq : forall l, gen_compute_ranges l = compute_ranges l.
Proof.
  intros [|[rs re] l]; unfold gen_compute_ranges, compute_ranges; cbv zeta; cbn [length]; [reflexivity|].
  destruct (Z.eqb_spec (Z.of_nat (S (length l))) 0); [lia|].
  gen_step gen_compute_ranges_loop. autounfold with gen. cbv zeta. cbn [fst snd Z.eqb].
  apply gen_compute_ranges_loop_spec. lia.
Qed.
Print Assumptions gen_compute_ranges_eq.

(* (b) C09_compute_ranges over the generated definition *)
Theorem C09_compute_ranges_gen : forall r l,
  (fst r <= snd r)%N -> (snd r < max64)%N -> asc_from (snd r) l ->
  exists outs,
    gen_compute_ranges (r :: l) = Ok outs /\
    (forall s, in_union outs s <-> in_union (r :: l) s) /\
    match outs with o :: rest => fst o = fst r /\ (fst o <= snd o)%N /\ gap_above (snd o) rest | [] => False end.
Proof. intros r l H1 H2 H3. rewrite gen_compute_ranges_eq. apply compute_ranges_spec; assumption. Qed.
Print Assumptions C09_compute_ranges_gen.

Example C09_gen_nonvacuous :
  gen_compute_ranges [(1, 3); (4, 6); (9, 10)]%N = Ok [(1, 6); (9, 10)]%N /\
  gen_compute_ranges [(1, 5); (3, 6)]%N = Err /\ gen_compute_ranges [] = Ok [] /\
  gen_compute_ranges [(7, 7)]%N = Ok [(7, 7)]%N.
Proof. vm_compute. repeat split. Qed.

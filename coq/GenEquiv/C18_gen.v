(* C18_gen.v — pkg/reader/rmn_home.go IsNodeObserver as regenerated on this run, against Model/Pollers.v
   is_node_observer.  The bitmap is the only field of SourceChain the function reads; it is a *big.Int that may be
   nil (option Z; a method call on nil is the Panic of the res monad); (bool, error) is res bool with every
   non-nil error = Err.  uint(totalNodes) / uint(nodeIndex) are to_u64 (mod 2^64), the identity on the guarded
   range. *)
Require Import Verif.Model.Base Verif.Model.Pollers Verif.Proofs.PollersP.
Require Import VerifGen.Leaf VerifGen.GenTac.
From Coq Require Import ZArith NArith Bool Lia ZifyN ZifyNat ZifyBool.
Ltac Zify.zify_post_hook ::= Z.div_mod_to_equations.

(* (a) generated = modelled, for every bitmap (nil included), index and committee size *)
Theorem gen_is_node_observer_eq : forall b j n, gen_is_node_observer b j n = is_node_observer b j n.
Proof. intros. unfold is_node_observer, rmn_max_committee. gen_auto. Qed.
Print Assumptions gen_is_node_observer_eq.

(* (b) C18_bitmap / C18_bitmap_refusals over the generated definition *)
Theorem C18_bitmap_gen : forall b j n,
  (1 <= n <= 256)%Z -> (0 <= j < n)%Z -> (0 <= b < 2 ^ n)%Z ->
  gen_is_node_observer (Some b) j n = Ok (Z.testbit b j).
Proof. intros b j n Hn Hj Hb. rewrite gen_is_node_observer_eq. apply bitmap_spec; assumption. Qed.
Print Assumptions C18_bitmap_gen.

Theorem C18_bitmap_refusals_gen : forall b j n,
  ((n > 256 \/ n <= 0)%Z -> gen_is_node_observer b j n = Err) /\
  ((1 <= n <= 256)%Z -> (j < 0 \/ j >= n)%Z -> gen_is_node_observer b j n = Err) /\
  ((1 <= n <= 256)%Z -> (0 <= j < n)%Z -> b = None -> gen_is_node_observer b j n = Panic) /\
  (forall z, (1 <= n <= 256)%Z -> (0 <= j < n)%Z -> b = Some z -> (2 ^ n <= z)%Z -> gen_is_node_observer b j n = Err).
Proof. intros b j n. rewrite gen_is_node_observer_eq. apply bitmap_refusals. Qed.
Print Assumptions C18_bitmap_refusals_gen.

Example C18_gen_nonvacuous :
  gen_is_node_observer (Some 5%Z) 0 3 = Ok true /\ gen_is_node_observer (Some 5%Z) 1 3 = Ok false /\
  gen_is_node_observer (Some 8%Z) 1 3 = Err /\ gen_is_node_observer None 1 3 = Panic /\
  gen_is_node_observer (Some 5%Z) 3 3 = Err /\ gen_is_node_observer (Some 5%Z) 0 257 = Err.
Proof. vm_compute. repeat split. Qed.

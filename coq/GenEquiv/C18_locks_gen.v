(* C18_locks_gen.v — the lock discipline of homeChainPoller (internal/reader/home_chain.go) and rmnHomePoller
   (pkg/reader/rmn_home.go) as extracted from the Go sources on this run (Gen/LocksGen.v, written by /verif/locks),
   checked by the decidable predicate of Model/Locks.v, and the general theorem of Proofs/LocksP.v instantiated with
   it: for ANY number of goroutines, each running ANY of the extracted methods (poll loop, setState, every getter,
   Ready, HealthReport, Start, Close), in EVERY interleaving of their individual lock operations and field accesses. *)
Require Import Verif.Model.Base Verif.Model.Locks Verif.Proofs.LocksP.
Require Import VerifGen.LocksGen.

(* which methods fail the check (the error message of a failing run names them by number, see LocksGen.v) *)
Theorem C18_home_poller_no_failing_method : failing true gen_home_chain_poller = [].
Proof. vm_compute. reflexivity. Qed.
Print Assumptions C18_home_poller_no_failing_method.

Theorem C18_home_poller_well_locked : well_locked_obj gen_home_chain_poller = true.
Proof. vm_compute. reflexivity. Qed.
Print Assumptions C18_home_poller_well_locked.

Theorem C18_rmn_poller_no_failing_method : failing true gen_rmn_home_poller = [].
Proof. vm_compute. reflexivity. Qed.
Print Assumptions C18_rmn_poller_no_failing_method.

Theorem C18_rmn_poller_well_locked : well_locked_obj gen_rmn_home_poller = true.
Proof. vm_compute. reflexivity. Qed.
Print Assumptions C18_rmn_poller_well_locked.

(* the extraction is not empty: the groups are the ones of the table, and every guarded field is read by some
   method and written by some method *)
Theorem C18_extraction_covers_fields :
  o_layout gen_home_chain_poller = [[1; 2; 3; 4]; [5]]%N /\ all_fields_used gen_home_chain_poller = true /\
  o_layout gen_rmn_home_poller = [[1; 2; 3]; [4]]%N /\ all_fields_used gen_rmn_home_poller = true.
Proof. vm_compute. repeat split. Qed.
Print Assumptions C18_extraction_covers_fields.

(* every interleaving: no unlock of an unlocked mutex, no data race, the stored views are one snapshot whenever no
   write section is open, every method sees per group ONE snapshot (never a mixture), returned methods hold nothing,
   and whenever the mutex is held (in particular: whenever somebody waits for it) a thread can move that is not
   about to wait on a channel *)
Theorem C18_snapshot_all_interleavings_gen : forall lps s,
  (forall lp, In lp lps -> In lp (threads_of [] gen_home_chain_poller)) ->
  reachable (init lps) s -> locks_safe (o_layout gen_home_chain_poller) s.
Proof.
  intros lps s Hsub Hr. apply locks_object with (ex := []) (lps := lps); [| exact Hsub | exact Hr].
  apply well_locked_obj_except. exact C18_home_poller_well_locked.
Qed.
Print Assumptions C18_snapshot_all_interleavings_gen.

Theorem C18_rmn_snapshot_all_interleavings_gen : forall lps s,
  (forall lp, In lp lps -> In lp (threads_of [] gen_rmn_home_poller)) ->
  reachable (init lps) s -> locks_safe (o_layout gen_rmn_home_poller) s.
Proof.
  intros lps s Hsub Hr. apply locks_object with (ex := []) (lps := lps); [| exact Hsub | exact Hr].
  apply well_locked_obj_except. exact C18_rmn_poller_well_locked.
Qed.
Print Assumptions C18_rmn_snapshot_all_interleavings_gen.

(* the hypotheses are satisfiable: the extracted poll loop, setState and three getters running together *)
Example C18_locks_gen_nonvacuous :
  let lps := [(true, desugar (o_layout gen_home_chain_poller) gen_home_chain_poller_m_poll);
              (true, desugar (o_layout gen_home_chain_poller) gen_home_chain_poller_m_setState);
              (true, desugar (o_layout gen_home_chain_poller) gen_home_chain_poller_m_GetChainConfig);
              (true, desugar (o_layout gen_home_chain_poller) gen_home_chain_poller_m_GetFChain);
              (true, desugar (o_layout gen_home_chain_poller) gen_home_chain_poller_m_GetFChain)] in
  (forall lp, In lp lps -> In lp (threads_of [] gen_home_chain_poller)) /\ length (st_ths (init lps)) = 5.
Proof.
  split; [| reflexivity].
  intros lp Hin. vm_compute in Hin. vm_compute.
  repeat (destruct Hin as [Hin | Hin]; [subst lp; tauto |]). contradiction.
Qed.

(* C06_gen.v — consensus.GteFPlusOne / LtFPlusOne as regenerated on this run, against the copies the RMN controller
   model uses (Model/Rmn.v gte_f_plus_one / lt_f_plus_one).  Go int = Z, overflow of f+1 not modelled. *)
Require Import Verif.Model.Base Verif.Model.Rmn.
Require Import VerifGen.Leaf VerifGen.GenTac.
From Coq Require Import ZArith NArith Bool Lia ZifyN ZifyNat ZifyBool.
Ltac Zify.zify_post_hook ::= Z.div_mod_to_equations.

Theorem gen_gte_f_plus_one_eq : forall f v, gen_gte_f_plus_one f v = Rmn.gte_f_plus_one f v.
Proof. intros. unfold Rmn.gte_f_plus_one. gen_auto. Qed.
Print Assumptions gen_gte_f_plus_one_eq.

Theorem gen_lt_f_plus_one_eq : forall f v, gen_lt_f_plus_one f v = Rmn.lt_f_plus_one f v.
Proof. intros. unfold Rmn.lt_f_plus_one. gen_auto. Qed.
Print Assumptions gen_lt_f_plus_one_eq.

(* what the controller relies on: "enough" is f+1 or more, and the two tests are complementary *)
Theorem C06_threshold_tests_gen : forall f v,
  (gen_gte_f_plus_one f v = true <-> (f < v)%Z) /\ gen_lt_f_plus_one f v = negb (gen_gte_f_plus_one f v).
Proof. intros. split; gen_auto. Qed.
Print Assumptions C06_threshold_tests_gen.

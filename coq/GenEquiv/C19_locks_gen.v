(* C19_locks_gen.v — the lock discipline of msgQueue and inMemTokenDataCache (execute/tokendata/observer_background.go)
   as extracted from the Go sources on this run, and the general theorem of Proofs/LocksP.v instantiated with it.
   Group of the queue: {msgs, msgIDs} (queue and dedupe set change together); group of the cache:
   {inMemTokenData, expiresAt}.  Two programs are checked for the lock discipline only (not as consistent readers):
   - enqueue: it asks containsMsg in a read section and appends in a later write section (check-then-act; see
     Proofs/LocksP.v check_then_act_refuted and docs/design/locks.md);
   - the expiration goroutine: a for/select loop whose iterations each open a fresh write section (it returns
     nothing; what one iteration saw is not used by the next). *)
Require Import Verif.Model.Base Verif.Model.Locks Verif.Proofs.LocksP.
Require Import VerifGen.LocksGen.

Theorem C19_msg_queue_locks_ok : locks_ok_obj gen_msg_queue = true.
Proof. vm_compute. reflexivity. Qed.
Print Assumptions C19_msg_queue_locks_ok.

(* dequeue, containsMsg, size and the signal sender are consistent readers; enqueue passes the lock discipline *)
Theorem C19_msg_queue_well_locked : well_locked_except [gen_msg_queue_id_enqueue] gen_msg_queue = true.
Proof. vm_compute. reflexivity. Qed.
Print Assumptions C19_msg_queue_well_locked.

Theorem C19_token_cache_locks_ok : locks_ok_obj gen_token_cache = true.
Proof. vm_compute. reflexivity. Qed.
Print Assumptions C19_token_cache_locks_ok.

Theorem C19_token_cache_well_locked :
  well_locked_except [gen_token_cache_id_runExpirationLoop_go1] gen_token_cache = true.
Proof. vm_compute. reflexivity. Qed.
Print Assumptions C19_token_cache_well_locked.

Theorem C19_extraction_covers_fields :
  o_layout gen_msg_queue = [[1; 2]]%N /\ all_fields_used gen_msg_queue = true /\
  o_layout gen_token_cache = [[1; 2]]%N /\ all_fields_used gen_token_cache = true.
Proof. vm_compute. repeat split. Qed.
Print Assumptions C19_extraction_covers_fields.

(* every interleaving of any number of enqueue / dequeue / containsMsg / size calls and signal senders: no race, the
   id set and the queue are always of one version outside write sections (they change together or not at all),
   no channel operation and no goroutine start while the mutex is held (so a holder can always move), ... *)
Theorem C19_queue_all_interleavings_gen : forall lps s,
  (forall lp, In lp lps -> In lp (threads_of [gen_msg_queue_id_enqueue] gen_msg_queue)) ->
  reachable (init lps) s -> locks_safe (o_layout gen_msg_queue) s.
Proof.
  intros lps s Hsub Hr.
  apply locks_object with (ex := [gen_msg_queue_id_enqueue]) (lps := lps); [| exact Hsub | exact Hr].
  exact C19_msg_queue_well_locked.
Qed.
Print Assumptions C19_queue_all_interleavings_gen.

Theorem C19_cache_all_interleavings_gen : forall lps s,
  (forall lp, In lp lps -> In lp (threads_of [gen_token_cache_id_runExpirationLoop_go1] gen_token_cache)) ->
  reachable (init lps) s -> locks_safe (o_layout gen_token_cache) s.
Proof.
  intros lps s Hsub Hr.
  apply locks_object with (ex := [gen_token_cache_id_runExpirationLoop_go1]) (lps := lps); [| exact Hsub | exact Hr].
  exact C19_token_cache_well_locked.
Qed.
Print Assumptions C19_cache_all_interleavings_gen.

(* C16_gen.v — internal/plugincommon/transmitters.go GetTransmissionSchedule as regenerated on this run, against
   Model/Transmit.v schedule.  The ChainSupport interface is read as the function [sup] of its one method that is
   called (SupportsDestChain : oracle id -> res bool); oracle ids are only compared and sorted; time.Duration is Z;
   the result *TransmissionSchedule is the pair (Transmitters, TransmissionDelays). *)
Require Import Verif.Model.Base Verif.Proofs.BaseP Verif.Model.Transmit Verif.Proofs.TransmitP.
Require Import VerifGen.Leaf VerifGen.GenTac.
From Coq Require Import ZArith NArith Bool Lia ZifyN ZifyNat ZifyBool Sorting.Sorted.
Ltac Zify.zify_post_hook ::= Z.div_mod_to_equations.

(* what the function does once the transmitters [t] and the delay slice [d] are there *)
Definition sched_fin (t : list N) (d : list Z) : res (list N * list Z) :=
  if Z.eqb (Z.of_nat (length t)) 0 then Err
  else if negb (Z.eqb (Z.of_nat (length t)) (Z.of_nat (length d))) then Err
  else Ok (t, d).

Definition sched_done (mult : Z) (t : list N) : res (list N * list Z) :=
  match t with [] => Err | _ => Ok (t, delays mult (length t)) end.

Lemma sched_fin_delays : forall mult t, sched_fin t (delays mult (length t)) = sched_done mult t.
Proof.
  intros mult t. unfold sched_fin, sched_done, delays. rewrite delays_from_length.
  destruct t as [|x t]; [reflexivity|]. cbn [length].
  destruct (Z.eqb_spec (Z.of_nat (S (length t))) 0); [lia|]. rewrite Z.eqb_refl. reflexivity.
Qed.

Lemma delays_from_app : forall mult n i, delays_from mult i (S n) = delays_from mult i n ++ [(mult * (i + Z.of_nat n))%Z].
Proof.
  intros mult. induction n as [|n IH]; intros i.
  - cbn [delays_from app]. do 2 f_equal. lia.
  - change (delays_from mult i (S (S n))) with ((mult * i)%Z :: delays_from mult (i + 1) (S n)).
    rewrite IH. cbn [delays_from app]. do 3 f_equal. lia.
Qed.

Section Sched.
  Variable sup : N -> res bool.
  (* SupportsDestChain answers or fails; it does not crash the plugin *)
  Hypothesis sup_total : forall o, sup o = Err \/ exists b, sup o = Ok b.

  Definition sup_of (o : N) : sup_t :=
    match sup o with Ok false => 0%N | Ok true => 1%N | _ => 2%N end.

  (* (a) generated = modelled.  Two shapes of the Go function are known:
     A  one function: the filter loop, then a delay slice of the right length filled by index, then the checks;
     B  the filter loop in a helper that returns (writers, error); the empty check first; delays appended one by one.
     In both the loops are found through their call markers. *)
  Theorem gen_schedule_eq : forall order mult,
    gen_schedule sup order mult =
    match schedule sup_of order mult with Some p => Ok p | None => Err end.
  Proof.
    intros order mult. gen_open. unfold schedule, sortN.
    first
    [ (* ---- A ---- *)
      lazymatch goal with
      | |- context [gen_loop2 ?f _ _] =>
          assert (L : forall l acc, f l acc =
                        match collect sup_of l with None => Err | Some t => sched_done mult (acc ++ t) end)
      end;
      [ induction l as [|o l IH]; intros acc;
          lazymatch goal with |- ?lhs = _ => let h := gen_head lhs in cbn [h]; cbv zeta end; cbn [collect];
          [ (* end of the filter loop: the delay loop *)
            rewrite app_nil_r;
            lazymatch goal with
            | |- context [gen_loop3 ?g ?n0 _ ?d0] =>
                assert (L2 : forall n i d, (0 <= i)%Z -> Z.of_nat (length d) = (i + Z.of_nat n)%Z ->
                               g n i d = sched_fin acc (firstn (Z.to_nat i) d ++ delays_from mult (i + 1) n));
                [ induction n as [|n IHn]; intros i d Hi Hlen;
                    lazymatch goal with |- ?lhs = _ => let h := gen_head lhs in cbn [h]; cbv zeta end;
                    cbn [delays_from];
                    [ rewrite app_nil_r, firstn_all2 by lia; reflexivity
                    | rewrite slice_set_spec by lia;
                      set (k := Z.to_nat i);
                      match goal with |- context [firstn k d ++ ?x :: skipn (S k) d] => set (v := x) end;
                      assert (Hv : v = (mult * (i + 1))%Z) by (unfold v; lia);
                      assert (Hk : (k < length d)%nat) by (unfold k; lia);
                      assert (Hfk : length (firstn k d) = k) by (apply firstn_length_le; lia);
                      rewrite IHn;
                      [ replace (Z.to_nat (i + 1)) with (S k) by (unfold k; lia);
                        rewrite firstn_app, Hfk, (firstn_all2 (firstn k d)) by lia;
                        replace (S k - k)%nat with 1%nat by lia; cbn [firstn];
                        rewrite <- app_assoc, Hv; reflexivity
                      | lia
                      | rewrite app_length, Hfk; cbn [length]; rewrite skipn_length; lia ] ]
                | unfold gen_loop3; rewrite L2 by (rewrite ?repeat_length; lia);
                  cbn [Z.to_nat firstn app]; rewrite ?repeat_length, ?Nat2Z.id;
                  apply sched_fin_delays ]
            end
          | unfold sup_of at 1; destruct (sup_total o) as [E|[b E]]; rewrite E; [reflexivity|];
            destruct b; cbn [negb]; rewrite IH; destruct (collect sup_of l); try reflexivity;
            now rewrite <- app_assoc ]
      | unfold gen_loop2; rewrite L;
        destruct (collect sup_of (sort_by N.leb order)) as [[|x t]|]; reflexivity ]
    | (* ---- B ---- *)
      lazymatch goal with
      | |- context [gen_loop2 ?f _ _] =>
          assert (L : forall l acc, f l acc =
                        match collect sup_of l with None => Err | Some t => Ok (acc ++ t) end)
      end;
      [ induction l as [|o l IH]; intros acc;
          lazymatch goal with |- ?lhs = _ => let h := gen_head lhs in cbn [h]; cbv zeta end; cbn [collect];
          [ now rewrite app_nil_r
          | unfold sup_of at 1; destruct (sup_total o) as [E|[b E]]; rewrite E; [reflexivity|];
            destruct b; cbn [negb]; rewrite IH; destruct (collect sup_of l); try reflexivity;
            now rewrite <- app_assoc ]
      | unfold gen_loop2 at 1; rewrite L; cbn [app];
        destruct (collect sup_of (sort_by N.leb order)) as [t|]; [|reflexivity];
        lazymatch goal with
        | |- context [gen_loop3 ?g _ _ _] =>
            assert (L2 : forall l i d, (0 <= i)%Z -> Z.of_nat (length d) = i ->
                           g l i d = (if negb (Z.eqb (Z.of_nat (length d + length l)) (Z.of_nat (length t))) then Err
                                      else Ok (t, d ++ delays_from mult (i + 1) (length l))))
        end;
        [ induction l as [|x l IH]; intros i d Hi Hd;
            lazymatch goal with |- ?lhs = _ => let h := gen_head lhs in cbn [h]; cbv zeta end;
            cbn [length delays_from];
            [ rewrite app_nil_r, Nat.add_0_r; reflexivity
            | rewrite IH by (rewrite ?app_length; cbn [length]; lia);
              rewrite app_length; cbn [length];
              replace (length d + 1 + length l)%nat with (length d + S (length l))%nat by lia;
              rewrite <- app_assoc; cbn [app];
              first [ reflexivity | (repeat f_equal; lia) ] ]
        | unfold gen_loop3; rewrite L2 by (cbn [length]; lia); cbn [length app Nat.add];
          unfold delays; destruct t as [|x t]; [reflexivity|]; cbn [length];
          repeat (gen_case; try solve [exfalso; gen_lin]); try reflexivity; exfalso; lia ] ] ].
  Qed.

  (* (b) C16_schedule_order / C16_schedule_members over the generated definition *)
  Theorem C16_schedule_order_gen : forall order order' mult,
    Permutation order order' -> gen_schedule sup order mult = gen_schedule sup order' mult.
  Proof. intros. rewrite !gen_schedule_eq. now rewrite (schedule_order_indep sup_of order order' mult). Qed.

  Theorem C16_schedule_members_gen : forall order mult t d,
    NoDup order ->
    gen_schedule sup order mult = Ok (t, d) ->
    Permutation t (writers sup_of order) /\ NoDup t /\ StronglySorted N.le t /\
    (forall o, In o t <-> In o order /\ sup o = Ok true) /\
    length d = length t /\
    (forall k, (k < length t)%nat -> nth k d 0%Z = (mult * (Z.of_nat k + 1))%Z).
  Proof.
    intros order mult t d ND H. rewrite gen_schedule_eq in H.
    destruct (schedule sup_of order mult) as [p|] eqn:E; [|discriminate]. inversion H; subst p.
    destruct (schedule_members sup_of order mult t d ND E) as [H1 [H2 [H3 [H4 [H5 H6]]]]].
    assert (Hs : forall o, sup_of o = 1%N <-> sup o = Ok true).
    { intros o. unfold sup_of. destruct (sup o) as [[|]| | |]; split; congruence. }
    repeat split; try assumption.
    - apply H4. assumption.
    - apply Hs, H4. assumption.
    - intros [Ho1 Ho2]. apply H4. split; [exact Ho1|]. apply Hs, Ho2.
  Qed.

  Theorem C16_schedule_error_gen : forall order mult,
    gen_schedule sup order mult = Err <-> (has_err sup_of order = true \/ writers sup_of order = []).
  Proof.
    intros order mult. rewrite gen_schedule_eq, <- (schedule_none_iff sup_of order mult).
    destruct (schedule sup_of order mult); split; congruence.
  Qed.
End Sched.
Print Assumptions gen_schedule_eq.
Print Assumptions C16_schedule_order_gen.
Print Assumptions C16_schedule_members_gen.
Print Assumptions C16_schedule_error_gen.

Example C16_gen_nonvacuous :
  gen_schedule (fun o => Ok (negb (N.eqb o 2))) [3; 1; 2]%N 5 = Ok ([1; 3]%N, [5; 10]%Z) /\
  gen_schedule (fun o => if N.eqb o 2 then Err else Ok true) [3; 1; 2]%N 5 = Err /\
  gen_schedule (fun o => Ok false) [3; 1; 2]%N 5 = Err.
Proof. vm_compute. repeat split. Qed.

(* C01_gen.v — the threshold functions of internal/plugincommon/consensus/threshold.go (TwoFPlus1, FPlus1,
   GteFPlusOne, LtFPlusOne, LtTwoFPlusOne) as regenerated on this run, against Model/Consensus.v.
   Go int = Z (overflow of 2*f+1 in the int is NOT modelled: the statements bound f), Threshold(x) = x mod 2^64.
   C06 and C07 have their own files for the models they use; the value theorems here serve C01 / C07 / C14. *)
Require Import Verif.Model.Base Verif.Model.Consensus Verif.Model.CommitConsensus Verif.Proofs.CommitConsensusP
               Verif.Proofs.ConsensusP.
Require Import VerifGen.Leaf VerifGen.GenTac.
From Coq Require Import ZArith NArith Bool Lia ZifyN ZifyNat ZifyBool.
Ltac Zify.zify_post_hook ::= Z.div_mod_to_equations.

(* (a) generated = modelled, for every Z (negative f included: the conversion wraps on both sides) *)
Theorem gen_two_f_plus_1_eq : forall f, gen_two_f_plus_1 f = two_f_plus_1 f.
Proof. intros. unfold two_f_plus_1, to_uint. gen_auto. Qed.
Print Assumptions gen_two_f_plus_1_eq.

Theorem gen_f_plus_1_eq : forall f, gen_f_plus_1 f = f_plus_1 f.
Proof. intros. unfold f_plus_1, to_uint. gen_auto. Qed.
Print Assumptions gen_f_plus_1_eq.

(* (b) C01_threshold_value over the generated definition: exactly 2f+1 (f+1) wherever the int does not overflow *)
Theorem C01_threshold_value_gen : forall f, (0 <= f < 2 ^ 63)%Z -> gen_two_f_plus_1 f = Z.to_N (2 * f + 1).
Proof. intros f H. rewrite gen_two_f_plus_1_eq. apply two_f_plus_1_int. exact H. Qed.
Print Assumptions C01_threshold_value_gen.

Theorem C01_f_plus_1_value_gen : forall f, (0 <= f < 2 ^ 63)%Z -> gen_f_plus_1 f = Z.to_N (f + 1).
Proof. gen_auto. Qed.
Print Assumptions C01_f_plus_1_value_gen.

(* the three predicates are the plain comparisons; Lt is the negation of Gte *)
Theorem C01_threshold_predicates_gen : forall f v,
  (gen_gte_f_plus_one f v = true <-> (f + 1 <= v)%Z) /\
  (gen_lt_f_plus_one f v = true <-> (v < f + 1)%Z) /\
  (gen_lt_two_f_plus_one f v = true <-> (v < 2 * f + 1)%Z) /\
  gen_lt_f_plus_one f v = negb (gen_gte_f_plus_one f v).
Proof. intros. repeat split; gen_auto. Qed.
Print Assumptions C01_threshold_predicates_gen.

(* ================= second tier: the chain-list validators of commit/merkleroot/validate_observation.go =================
   validateObservedMerkleRoots / OnRampMaxSeqNums / OffRampMaxSeqNums look at the chain selector of every entry only;
   mapset sets are lists with membership (NewSet, Add, Contains).  Model: CommitConsensus.chains_ok and the
   off-ramp clause of validate_obs. *)
Lemma not_seen_cons : forall (x : N) seen l,
  forallb (fun c => negb (memN c (x :: seen))) l =
  negb (existsb (N.eqb x) l) && forallb (fun c => negb (memN c seen)) l.
Proof.
  intros x seen. induction l as [|c l IH]; [reflexivity|].
  cbn [forallb existsb]. rewrite IH. unfold memN at 1. cbn [existsb]. fold (memN c seen).
  rewrite (N.eqb_sym x c).
  destruct (N.eqb c x), (memN c seen), (existsb (N.eqb x) l), (forallb (fun c0 => negb (memN c0 seen)) l); reflexivity.
Qed.

(* the loop of all three validators, with [sup] = None when support is not looked at *)
Definition chains_loop_spec (sup : option (list N)) (l seen : list N) : res unit :=
  if forallb (fun c => match sup with Some s => memN c s | None => true end) l &&
     nodupb N.eqb l && forallb (fun c => negb (memN c seen)) l
  then Ok tt else Err.

Lemma not_seen_nil : forall l : list N, forallb (fun c => negb (memN c [])) l = true.
Proof. induction l as [|c l IH]; [reflexivity|]. cbn [forallb]. rewrite IH. reflexivity. Qed.

Lemma forallb_true : forall l : list N, forallb (fun _ => true) l = true.
Proof. induction l as [|c l IH]; [reflexivity|]. cbn [forallb]. exact IH. Qed.

(* The loop of a validator, found through its call marker: f l seen = chains_loop_spec sup l seen.  One step of the
   generated loop is split on every test it makes (in whatever order and spelling); what remains is an equation
   between boolean atoms. *)
Ltac chains_loop_lemma f sup :=
  assert (L : forall l seen, f l seen = chains_loop_spec sup l seen)
    by (let l := fresh "l" in intro l; induction l as [|? ? IH]; intro; gen_loop_step f; [reflexivity|];
        (* helpers the step calls (a visit-and-insert method, ...) are opened; the tests of the step are split while
           the specification is still folded, so that the recursive call comes out of any destructuring let *)
        gen_open; gen_bool_split; cbn [fst snd];
        rewrite ?IH; unfold chains_loop_spec; rewrite ?not_seen_cons; cbn [forallb nodupb]; gen_bools).

(* (a) generated = modelled, for every list of chains, observer and supported set *)
Theorem gen_validate_roots_chains_eq : forall cs o sup,
  gen_validate_roots_chains cs o sup = if chains_ok sup cs then Ok tt else Err.
Proof.
  intros cs o sup. gen_open.
  lazymatch goal with |- context [gen_loop2 ?f _ _] => chains_loop_lemma f (Some sup) end.
  unfold gen_loop2. rewrite L. unfold chains_loop_spec, chains_ok. rewrite not_seen_nil, andb_true_r.
  destruct cs; [reflexivity|]. cbn [length]. repeat gen_case; try reflexivity; lia.
Qed.
Print Assumptions gen_validate_roots_chains_eq.

Theorem gen_validate_onramp_chains_eq : forall cs o sup,
  gen_validate_onramp_chains cs o sup = if chains_ok sup cs then Ok tt else Err.
Proof.
  intros cs o sup. gen_open.
  lazymatch goal with |- context [gen_loop2 ?f _ _] => chains_loop_lemma f (Some sup) end.
  unfold gen_loop2. rewrite L. unfold chains_loop_spec, chains_ok. rewrite not_seen_nil, andb_true_r.
  destruct cs; [reflexivity|]. cbn [length]. repeat gen_case; try reflexivity; lia.
Qed.
Print Assumptions gen_validate_onramp_chains_eq.

(* the off-ramp clause of validate_obs: nothing observed, or the observer writes the destination and no chain twice.
   Two shapes are known: the duplicate scan inside the function (its loop returns the error), or in a helper that
   returns (first repeated chain, found). *)
Theorem gen_validate_offramp_chains_eq : forall cs o sd,
  gen_validate_offramp_chains cs o sd =
  if (match cs with [] => true | _ => sd && nodupb N.eqb cs end) then Ok tt else Err.
Proof.
  intros cs o sd. gen_open.
  first
  [ (* the loop returns res unit *)
    lazymatch goal with |- context [gen_loop2 ?f _ _] => chains_loop_lemma f (@None (list N)) end;
    unfold gen_loop2; rewrite L; unfold chains_loop_spec; rewrite not_seen_nil, forallb_true, andb_true_r
  | (* the loop returns (chain, found) *)
    lazymatch goal with |- context [gen_loop2 ?f _ _] =>
      assert (L : forall l seen, snd (f l seen) = negb (nodupb N.eqb l && forallb (fun c => negb (memN c seen)) l))
        by (induction l as [|c l IH]; intros seen; gen_loop_step f; [reflexivity|];
            cbn [nodupb forallb]; gen_open; rewrite ?IH, ?not_seen_cons;
            gen_bool_split; cbn [snd]; rewrite ?IH, ?not_seen_cons; cbn [snd]; gen_bools);
      unfold gen_loop2;
      let H := fresh "H" in pose proof (L cs (@nil N)) as H; rewrite not_seen_nil, andb_true_r in H;
      destruct (f cs (@nil N)) as [dup found]; cbn [snd] in H; subst found
    end ];
  (destruct cs; [reflexivity|]); cbn [length];
  destruct sd; cbn [negb andb]; repeat gen_case; try reflexivity; try lia; try congruence.
Qed.
Print Assumptions gen_validate_offramp_chains_eq.

(* (b) what is accepted, stated directly: every chain supported by the observer, no chain twice *)
Theorem C01_validate_chains_gen : forall cs o sup,
  gen_validate_roots_chains cs o sup = Ok tt <->
  (forall c, In c cs -> In c sup) /\ NoDup cs.
Proof.
  intros cs o sup. rewrite gen_validate_roots_chains_eq. unfold chains_ok.
  assert (Hm : forall (x : N) l, memN x l = true <-> In x l).
  { intros x l. unfold memN. rewrite existsb_exists. split.
    - intros [y [Hy E]]. apply N.eqb_eq in E. now subst.
    - intros H. exists x. split; [exact H|apply N.eqb_refl]. }
  assert (Hn : forall l : list N, nodupb N.eqb l = true <-> NoDup l).
  { induction l as [|x l IH]; cbn [nodupb]; [split; [constructor|reflexivity]|].
    rewrite andb_true_iff, negb_true_iff, IH. fold (memN x l). split.
    - intros [H1 H2]. constructor; [|exact H2]. intros Hin. apply Hm in Hin. congruence.
    - intros H. inversion H; subst. split; [|assumption]. destruct (memN x l) eqn:E; [|reflexivity].
      apply Hm in E. contradiction. }
  destruct (forallb (fun c => memN c sup) cs && nodupb N.eqb cs) eqn:E.
  - apply andb_true_iff in E. destruct E as [E1 E2]. split; [intros _|reflexivity]. split; [|now apply Hn].
    intros c Hc. rewrite forallb_forall in E1. apply Hm, E1, Hc.
  - split; [discriminate|]. intros [H1 H2]. exfalso.
    assert (forallb (fun c => memN c sup) cs = true) by (apply forallb_forall; intros c Hc; apply Hm, H1, Hc).
    assert (nodupb N.eqb cs = true) by now apply Hn. rewrite H, H0 in E. discriminate.
Qed.
Print Assumptions C01_validate_chains_gen.

Example C01_gen_nonvacuous :
  gen_two_f_plus_1 1 = 3%N /\ gen_f_plus_1 2 = 3%N /\ gen_f_plus_1 (-1) = 0%N /\
  gen_lt_two_f_plus_one 1 2 = true /\ gen_lt_two_f_plus_one 1 3 = false /\ gen_gte_f_plus_one 1 2 = true.
Proof. vm_compute. repeat split. Qed.

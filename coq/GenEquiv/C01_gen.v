(* C01_gen.v — the threshold functions of internal/plugincommon/consensus/threshold.go (TwoFPlus1, FPlus1,
   GteFPlusOne, LtFPlusOne, LtTwoFPlusOne) as regenerated on this run, against Model/Consensus.v.
   Go int = Z (overflow of 2*f+1 in the int is NOT modelled: the statements bound f), Threshold(x) = x mod 2^64.
   C06 and C07 have their own files for the models they use; the value theorems here serve C01 / C07 / C14. *)
Require Import Verif.Model.Base Verif.Model.Consensus Verif.Model.CommitConsensus Verif.Proofs.CommitConsensusP
               Verif.Proofs.ConsensusP.
Require Import VerifGen.Leaf VerifGen.GenTac.
From Coq Require Import ZArith NArith Bool Lia ZifyN ZifyNat ZifyBool.
Ltac Zify.zify_post_hook ::= Z.div_mod_to_equations.

(* (a) generated = modelled, for every Z (negative f included: the conversion wraps on both sides) *)
Theorem gen_two_f_plus_1_eq : forall f, gen_two_f_plus_1 f = two_f_plus_1 f.
Proof. intros. unfold two_f_plus_1, to_uint. gen_auto. Qed.
Print Assumptions gen_two_f_plus_1_eq.

Theorem gen_f_plus_1_eq : forall f, gen_f_plus_1 f = f_plus_1 f.
Proof. intros. unfold f_plus_1, to_uint. gen_auto. Qed.
Print Assumptions gen_f_plus_1_eq.

(* (b) C01_threshold_value over the generated definition: exactly 2f+1 (f+1) wherever the int does not overflow *)
Theorem C01_threshold_value_gen : forall f, (0 <= f < 2 ^ 63)%Z -> gen_two_f_plus_1 f = Z.to_N (2 * f + 1).
Proof. intros f H. rewrite gen_two_f_plus_1_eq. apply two_f_plus_1_int. exact H. Qed.
Print Assumptions C01_threshold_value_gen.

Theorem C01_f_plus_1_value_gen : forall f, (0 <= f < 2 ^ 63)%Z -> gen_f_plus_1 f = Z.to_N (f + 1).
Proof. gen_auto. Qed.
Print Assumptions C01_f_plus_1_value_gen.

(* the three predicates are the plain comparisons; Lt is the negation of Gte *)
Theorem C01_threshold_predicates_gen : forall f v,
  (gen_gte_f_plus_one f v = true <-> (f + 1 <= v)%Z) /\
  (gen_lt_f_plus_one f v = true <-> (v < f + 1)%Z) /\
  (gen_lt_two_f_plus_one f v = true <-> (v < 2 * f + 1)%Z) /\
  gen_lt_f_plus_one f v = negb (gen_gte_f_plus_one f v).
Proof. intros. repeat split; gen_auto. Qed.
Print Assumptions C01_threshold_predicates_gen.

Example C01_gen_nonvacuous :
  gen_two_f_plus_1 1 = 3%N /\ gen_f_plus_1 2 = 3%N /\ gen_f_plus_1 (-1) = 0%N /\
  gen_lt_two_f_plus_one 1 2 = true /\ gen_lt_two_f_plus_one 1 3 = false /\ gen_gte_f_plus_one 1 2 = true.
Proof. vm_compute. repeat split. Qed.

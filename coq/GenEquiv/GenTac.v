(* GenTac.v — tactics shared by the <Pid>_gen.v files.  Compiled on every run, after the freshly generated
   VerifGen.Leaf (lib/gentranslate.py); deliberately not part of _CoqProject.

   The proofs in the _gen files do not look at the shape of the generated terms: [gen_auto] unfolds every generated
   definition (hint database [gen], filled by Leaf.v itself), reduces the let-bindings, brings comparisons to one
   spelling, splits on every conditional that occurs anywhere in the goal or in a hypothesis (dropping impossible
   branches as it goes), and leaves linear arithmetic (with the div / mod equations) to [lia].  A rewrite of the
   Go function that keeps its input/output behaviour changes the shape only; an edit that changes the behaviour
   leaves an unprovable arithmetic goal, and [gen_auto] fails. *)
Require Import Verif.Model.Base VerifGen.Leaf.
From Coq Require Import ZArith NArith Bool Lia ZifyN ZifyNat ZifyBool.
Ltac Zify.zify_post_hook ::= Z.div_mod_to_equations.

(* ---------- comparisons through big.Int.Cmp / BitLen / Sign, brought to the direct comparison ---------- *)
Lemma big_cmp_gt0 a b : Z.ltb 0 (big_cmp a b) = Z.ltb b a.
Proof. unfold big_cmp. destruct (Z.ltb a b) eqn:E1; [|destruct (Z.eqb a b) eqn:E2]; lia. Qed.
Lemma big_cmp_ge0 a b : Z.leb 0 (big_cmp a b) = Z.leb b a.
Proof. unfold big_cmp. destruct (Z.ltb a b) eqn:E1; [|destruct (Z.eqb a b) eqn:E2]; lia. Qed.
Lemma big_cmp_lt0 a b : Z.ltb (big_cmp a b) 0 = Z.ltb a b.
Proof. unfold big_cmp. destruct (Z.ltb a b) eqn:E1; [|destruct (Z.eqb a b) eqn:E2]; lia. Qed.
Lemma big_cmp_le0 a b : Z.leb (big_cmp a b) 0 = Z.leb a b.
Proof. unfold big_cmp. destruct (Z.ltb a b) eqn:E1; [|destruct (Z.eqb a b) eqn:E2]; lia. Qed.
Lemma big_cmp_eq0 a b : Z.eqb (big_cmp a b) 0 = Z.eqb a b.
Proof. unfold big_cmp. destruct (Z.ltb a b) eqn:E1; [|destruct (Z.eqb a b) eqn:E2]; lia. Qed.
Lemma big_cmp_eq1 a b : Z.eqb (big_cmp a b) 1 = Z.ltb b a.
Proof. unfold big_cmp. destruct (Z.ltb a b) eqn:E1; [|destruct (Z.eqb a b) eqn:E2]; lia. Qed.
Lemma big_cmp_eqm1 a b : Z.eqb (big_cmp a b) (-1) = Z.ltb a b.
Proof. unfold big_cmp. destruct (Z.ltb a b) eqn:E1; [|destruct (Z.eqb a b) eqn:E2]; lia. Qed.
Lemma big_bitlen_eq0 a : Z.eqb (big_bitlen a) 0 = Z.eqb a 0.
Proof.
  unfold big_bitlen. destruct (Z.eqb a 0) eqn:E; [reflexivity|].
  pose proof (Z.log2_nonneg (Z.abs a)). lia.
Qed.
Lemma sgn_eq0 a : Z.eqb (Z.sgn a) 0 = Z.eqb a 0.
Proof. destruct a; reflexivity. Qed.
Lemma sgn_lt0 a : Z.ltb (Z.sgn a) 0 = Z.ltb a 0.
Proof. destruct a; reflexivity. Qed.
Lemma sgn_gt0 a : Z.ltb 0 (Z.sgn a) = Z.ltb 0 a.
Proof. destruct a; reflexivity. Qed.

Ltac gen_compare :=
  rewrite ?big_cmp_gt0, ?big_cmp_ge0, ?big_cmp_lt0, ?big_cmp_le0, ?big_cmp_eq0, ?big_cmp_eq1, ?big_cmp_eqm1,
          ?big_bitlen_eq0, ?sgn_eq0, ?sgn_lt0, ?sgn_gt0, ?Z.gtb_ltb, ?Z.geb_leb in *.

Ltac gen_unfold :=
  autounfold with gen in *;
  unfold to_u64, add64, sub64, mul64, succ64, two64, max64 in *;
  cbv zeta in *;
  cbn [fst snd] in *.

(* one split: an option scrutinee, or the condition of an if, in the goal or in a hypothesis *)
Ltac gen_case :=
  match goal with
  | |- context [match ?c with None => _ | Some _ => _ end] => destruct c eqn:?
  | |- context [if ?c then _ else _] => destruct c eqn:?
  | H : context [match ?c with None => _ | Some _ => _ end] |- _ => destruct c eqn:?
  | H : context [if ?c then _ else _] |- _ => destruct c eqn:?
  end.

(* quotients by something that is not a literal are opaque to linear arithmetic: name them, so that lia is not
   handed their (non-linear) defining equations when it does not need them *)
Ltac gen_absdiv :=
  repeat match goal with
  | |- context [Z.div ?a ?b] =>
      lazymatch b with Zpos _ => fail | Zneg _ => fail | Z0 => fail
      | _ => let q := fresh "q" in set (q := Z.div a b) in *; clearbody q end
  | H : context [Z.div ?a ?b] |- _ =>
      lazymatch b with Zpos _ => fail | Zneg _ => fail | Z0 => fail
      | _ => let q := fresh "q" in set (q := Z.div a b) in *; clearbody q end
  end.

(* facts lia does not know by itself, and constants hidden under Z.of_N *)
Ltac gen_facts :=
  repeat match goal with
  | |- context [Z.of_N (Npos ?p)] => change (Z.of_N (Npos p)) with (Zpos p) in *
  | H : context [Z.of_N (Npos ?p)] |- _ => change (Z.of_N (Npos p)) with (Zpos p) in *
  end;
  repeat match goal with
  | |- context [Z.log2 ?t] =>
      lazymatch goal with
      | _ : (0 <= Z.log2 t)%Z |- _ => fail
      | _ => pose proof (Z.log2_nonneg t)
      end
  | H : context [Z.log2 ?t] |- _ =>
      lazymatch goal with
      | _ : (0 <= Z.log2 t)%Z |- _ => fail
      | _ => pose proof (Z.log2_nonneg t)
      end
  end.

(* every quotient and remainder named: what is left is plain linear arithmetic over opaque atoms.  Used where the
   answer is expected to follow from the branch conditions alone (pruning, range side conditions) *)
Ltac gen_absall :=
  repeat match goal with
  | |- context [Z.div ?a ?b] => let q := fresh "q" in set (q := Z.div a b) in *; clearbody q
  | |- context [Z.modulo ?a ?b] => let q := fresh "q" in set (q := Z.modulo a b) in *; clearbody q
  | |- context [N.div ?a ?b] => let q := fresh "q" in set (q := N.div a b) in *; clearbody q
  | |- context [N.modulo ?a ?b] => let q := fresh "q" in set (q := N.modulo a b) in *; clearbody q
  | H : context [Z.div ?a ?b] |- _ => let q := fresh "q" in set (q := Z.div a b) in *; clearbody q
  | H : context [Z.modulo ?a ?b] |- _ => let q := fresh "q" in set (q := Z.modulo a b) in *; clearbody q
  | H : context [N.div ?a ?b] |- _ => let q := fresh "q" in set (q := N.div a b) in *; clearbody q
  | H : context [N.modulo ?a ?b] |- _ => let q := fresh "q" in set (q := N.modulo a b) in *; clearbody q
  end.
Ltac gen_lin := gen_absall; lia.

(* conversions that are the identity under the hypotheses at hand, also below uninterpreted symbols (shifts);
   [tac] proves the range side condition *)
Ltac gen_small_with tac :=
  repeat match goal with
  | |- context [Z.modulo ?t ?c] => rewrite (Z.mod_small t c) in * by tac
  | H : context [Z.modulo ?t ?c] |- _ => rewrite (Z.mod_small t c) in * by tac
  | |- context [Z.of_N (Z.to_N ?t)] => rewrite (Z2N.id t) in * by tac
  | H : context [Z.of_N (Z.to_N ?t)] |- _ => rewrite (Z2N.id t) in * by tac
  end.
Ltac gen_small := gen_small_with lia.

Ltac gen_fin :=
  first [ reflexivity
        | solve [ gen_absdiv; first [ lia | (f_equal; lia) | (exfalso; lia) ] ]
        | lia
        | congruence
        | (f_equal; lia)
        | (repeat f_equal; lia)
        | (exfalso; lia) ].

(* split everything; a branch whose conditions contradict each other (as linear facts) is closed at once.
   Comparisons are brought to one spelling before every split (a rewrite cannot go below the binder of a match, so
   this is repeated as the matches disappear); conversions that are the identity here are removed as soon as the
   conditions say so. *)
Ltac gen_prune := try solve [ exfalso; gen_lin ].
Ltac gen_split := repeat (gen_compare; gen_case; gen_prune; gen_small_with gen_lin).

Ltac gen_auto :=
  intros; gen_unfold;
  gen_split;                                   (* with big_cmp / big_bitlen still folded: see gen_compare *)
  gen_compare; autounfold with gen_pre in *; cbv zeta in *;
  gen_split;                                   (* the conditionals inside big_div, big_cmp, ... *)
  gen_facts; gen_small; gen_fin.

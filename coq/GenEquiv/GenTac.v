(* GenTac.v — tactics shared by the <Pid>_gen.v files.  Compiled on every run, after the freshly generated
   VerifGen.Leaf (lib/gentranslate.py); deliberately not part of _CoqProject.

   The proofs in the _gen files do not look at the shape of the generated terms: [gen_auto] unfolds every generated
   definition (hint database [gen], filled by Leaf.v itself), reduces the let-bindings, brings comparisons to one
   spelling, splits on every conditional that occurs anywhere in the goal or in a hypothesis (dropping impossible
   branches as it goes), and leaves linear arithmetic (with the div / mod equations) to [lia].  A rewrite of the
   Go function that keeps its input/output behaviour changes the shape only; an edit that changes the behaviour
   leaves an unprovable arithmetic goal, and [gen_auto] fails. *)
Require Import Verif.Model.Base VerifGen.Leaf.
From Coq Require Import ZArith NArith Bool Lia ZifyN ZifyNat ZifyBool.
Ltac Zify.zify_post_hook ::= Z.div_mod_to_equations.

(* ---------- comparisons through big.Int.Cmp / BitLen / Sign, brought to the direct comparison ---------- *)
Lemma big_cmp_gt0 a b : Z.ltb 0 (big_cmp a b) = Z.ltb b a.
Proof. unfold big_cmp. destruct (Z.ltb a b) eqn:E1; [|destruct (Z.eqb a b) eqn:E2]; lia. Qed.
Lemma big_cmp_ge0 a b : Z.leb 0 (big_cmp a b) = Z.leb b a.
Proof. unfold big_cmp. destruct (Z.ltb a b) eqn:E1; [|destruct (Z.eqb a b) eqn:E2]; lia. Qed.
Lemma big_cmp_lt0 a b : Z.ltb (big_cmp a b) 0 = Z.ltb a b.
Proof. unfold big_cmp. destruct (Z.ltb a b) eqn:E1; [|destruct (Z.eqb a b) eqn:E2]; lia. Qed.
Lemma big_cmp_le0 a b : Z.leb (big_cmp a b) 0 = Z.leb a b.
Proof. unfold big_cmp. destruct (Z.ltb a b) eqn:E1; [|destruct (Z.eqb a b) eqn:E2]; lia. Qed.
Lemma big_cmp_eq0 a b : Z.eqb (big_cmp a b) 0 = Z.eqb a b.
Proof. unfold big_cmp. destruct (Z.ltb a b) eqn:E1; [|destruct (Z.eqb a b) eqn:E2]; lia. Qed.
Lemma big_cmp_eq1 a b : Z.eqb (big_cmp a b) 1 = Z.ltb b a.
Proof. unfold big_cmp. destruct (Z.ltb a b) eqn:E1; [|destruct (Z.eqb a b) eqn:E2]; lia. Qed.
Lemma big_cmp_eqm1 a b : Z.eqb (big_cmp a b) (-1) = Z.ltb a b.
Proof. unfold big_cmp. destruct (Z.ltb a b) eqn:E1; [|destruct (Z.eqb a b) eqn:E2]; lia. Qed.
Lemma big_bitlen_eq0 a : Z.eqb (big_bitlen a) 0 = Z.eqb a 0.
Proof.
  unfold big_bitlen. destruct (Z.eqb a 0) eqn:E; [reflexivity|].
  pose proof (Z.log2_nonneg (Z.abs a)). lia.
Qed.
Lemma sgn_eq0 a : Z.eqb (Z.sgn a) 0 = Z.eqb a 0.
Proof. destruct a; reflexivity. Qed.
Lemma sgn_lt0 a : Z.ltb (Z.sgn a) 0 = Z.ltb a 0.
Proof. destruct a; reflexivity. Qed.
Lemma sgn_gt0 a : Z.ltb 0 (Z.sgn a) = Z.ltb 0 a.
Proof. destruct a; reflexivity. Qed.

(* a single bit tested through a mask: (b & (1 << j)) == (1 << j)  is  b.Bit(j) *)
Lemma land_mask_testbit a j : (0 <= j)%Z -> Z.eqb (Z.land a (Z.shiftl 1 j)) (Z.shiftl 1 j) = Z.testbit a j.
Proof.
  intros Hj. rewrite Z.shiftl_1_l.
  destruct (Z.testbit a j) eqn:T.
  - apply Z.eqb_eq. apply Z.bits_inj'. intros n Hn. rewrite Z.land_spec, Z.pow2_bits_eqb by lia.
    destruct (Z.eqb_spec j n) as [->|Hne]; [now rewrite T|apply andb_false_r].
  - apply Z.eqb_neq. intros E. apply (f_equal (fun z => Z.testbit z j)) in E.
    rewrite Z.land_spec, Z.pow2_bits_true, T in E by lia. discriminate E.
Qed.

Ltac gen_compare :=
  rewrite ?big_cmp_gt0, ?big_cmp_ge0, ?big_cmp_lt0, ?big_cmp_le0, ?big_cmp_eq0, ?big_cmp_eq1, ?big_cmp_eqm1,
          ?big_bitlen_eq0, ?sgn_eq0, ?sgn_lt0, ?sgn_gt0, ?Z.gtb_ltb, ?Z.geb_leb in *.

Ltac gen_unfold :=
  autounfold with gen in *;
  unfold to_u64, add64, sub64, mul64, succ64, two64, max64 in *;
  cbv zeta in *;
  cbn [fst snd] in *.

(* one split: an option scrutinee, or the condition of an if, in the goal or in a hypothesis *)
Ltac gen_case :=
  match goal with
  | |- context [match ?c with None => _ | Some _ => _ end] => destruct c eqn:?
  | |- context [if ?c then _ else _] => destruct c eqn:?
  | H : context [match ?c with None => _ | Some _ => _ end] |- _ => destruct c eqn:?
  | H : context [if ?c then _ else _] |- _ => destruct c eqn:?
  end.

(* quotients by something that is not a literal are opaque to linear arithmetic: name them, so that lia is not
   handed their (non-linear) defining equations when it does not need them *)
Ltac gen_absdiv :=
  repeat match goal with
  | |- context [Z.div ?a ?b] =>
      lazymatch b with Zpos _ => fail | Zneg _ => fail | Z0 => fail
      | _ => let q := fresh "q" in set (q := Z.div a b) in *; clearbody q end
  | H : context [Z.div ?a ?b] |- _ =>
      lazymatch b with Zpos _ => fail | Zneg _ => fail | Z0 => fail
      | _ => let q := fresh "q" in set (q := Z.div a b) in *; clearbody q end
  end.

(* facts lia does not know by itself, and constants hidden under Z.of_N *)
Ltac gen_facts :=
  repeat match goal with
  | |- context [Z.of_N (Npos ?p)] => change (Z.of_N (Npos p)) with (Zpos p) in *
  | H : context [Z.of_N (Npos ?p)] |- _ => change (Z.of_N (Npos p)) with (Zpos p) in *
  end;
  repeat match goal with
  | |- context [Z.log2 ?t] =>
      lazymatch goal with
      | _ : (0 <= Z.log2 t)%Z |- _ => fail
      | _ => pose proof (Z.log2_nonneg t)
      end
  | H : context [Z.log2 ?t] |- _ =>
      lazymatch goal with
      | _ : (0 <= Z.log2 t)%Z |- _ => fail
      | _ => pose proof (Z.log2_nonneg t)
      end
  end.

(* every quotient and remainder named: what is left is plain linear arithmetic over opaque atoms.  Used where the
   answer is expected to follow from the branch conditions alone (pruning, range side conditions) *)
Ltac gen_absall :=
  repeat match goal with
  | |- context [Z.div ?a ?b] => let q := fresh "q" in set (q := Z.div a b) in *; clearbody q
  | |- context [Z.modulo ?a ?b] => let q := fresh "q" in set (q := Z.modulo a b) in *; clearbody q
  | |- context [N.div ?a ?b] => let q := fresh "q" in set (q := N.div a b) in *; clearbody q
  | |- context [N.modulo ?a ?b] => let q := fresh "q" in set (q := N.modulo a b) in *; clearbody q
  | H : context [Z.div ?a ?b] |- _ => let q := fresh "q" in set (q := Z.div a b) in *; clearbody q
  | H : context [Z.modulo ?a ?b] |- _ => let q := fresh "q" in set (q := Z.modulo a b) in *; clearbody q
  | H : context [N.div ?a ?b] |- _ => let q := fresh "q" in set (q := N.div a b) in *; clearbody q
  | H : context [N.modulo ?a ?b] |- _ => let q := fresh "q" in set (q := N.modulo a b) in *; clearbody q
  end.
Ltac gen_lin := gen_absall; lia.

(* conversions that are the identity under the hypotheses at hand, also below uninterpreted symbols (shifts);
   [tac] proves the range side condition *)
Ltac gen_small_with tac :=
  repeat match goal with
  | |- context [Z.modulo ?t ?c] => rewrite (Z.mod_small t c) in * by tac
  | H : context [Z.modulo ?t ?c] |- _ => rewrite (Z.mod_small t c) in * by tac
  | |- context [Z.of_N (Z.to_N ?t)] => rewrite (Z2N.id t) in * by tac
  | H : context [Z.of_N (Z.to_N ?t)] |- _ => rewrite (Z2N.id t) in * by tac
  | |- context [Z.eqb (Z.land ?a (Z.shiftl 1 ?j)) (Z.shiftl 1 ?j)] => rewrite (land_mask_testbit a j) in * by tac
  | H : context [Z.eqb (Z.land ?a (Z.shiftl 1 ?j)) (Z.shiftl 1 ?j)] |- _ => rewrite (land_mask_testbit a j) in * by tac
  end.
Ltac gen_small := gen_small_with lia.

Ltac gen_fin :=
  first [ reflexivity
        | solve [ gen_absdiv; first [ lia | (f_equal; lia) | (exfalso; lia) ] ]
        | lia
        | congruence
        | (f_equal; lia)
        | (repeat f_equal; lia)
        | (exfalso; lia) ].

(* split everything; a branch whose conditions contradict each other (as linear facts) is closed at once.
   Comparisons are brought to one spelling before every split (a rewrite cannot go below the binder of a match, so
   this is repeated as the matches disappear); conversions that are the identity here are removed as soon as the
   conditions say so. *)
Ltac gen_prune := try solve [ exfalso; gen_lin ].
Ltac gen_split := repeat (gen_compare; gen_case; gen_prune; gen_small_with gen_lin).

Ltac gen_auto :=
  intros; gen_unfold;
  gen_split;                                   (* with big_cmp / big_bitlen still folded: see gen_compare *)
  gen_compare; autounfold with gen_pre in *; cbv zeta in *;
  gen_split;                                   (* the conditionals inside big_div, big_cmp, ... *)
  gen_facts; gen_small; gen_fin.

(* ================= second tier: loops over slices ================= *)
(* General facts about the list operations the translator emits.  The loop lemmas of the _gen files are inductions
   over the list (or the count) with the accumulators generalised; [gen_step] does one step of a generated loop
   function without touching the recursive call. *)

Lemma sort_by_ext {A} (le le' : A -> A -> bool) l :
  (forall a b, le a b = le' a b) -> sort_by le l = sort_by le' l.
Proof.
  intros H. induction l as [|x l IH]; cbn [sort_by]; [reflexivity|]. rewrite IH.
  generalize (sort_by le' l). intros s. induction s as [|y s IHs]; cbn [insert_by]; [reflexivity|].
  rewrite H. destruct (le' x y); [reflexivity|]. now rewrite IHs.
Qed.

Lemma insert_by_map {A B} (f : A -> B) (le : A -> A -> bool) (le' : B -> B -> bool) x l :
  (forall a b, le' (f a) (f b) = le a b) -> map f (insert_by le x l) = insert_by le' (f x) (map f l).
Proof.
  intros H. induction l as [|y l IH]; cbn [insert_by map]; [reflexivity|].
  rewrite H. destruct (le x y); cbn [map]; [reflexivity|]. now rewrite IH.
Qed.

Lemma sort_by_map {A B} (f : A -> B) (le : A -> A -> bool) (le' : B -> B -> bool) l :
  (forall a b, le' (f a) (f b) = le a b) -> map f (sort_by le l) = sort_by le' (map f l).
Proof.
  intros H. induction l as [|x l IH]; cbn [sort_by map]; [reflexivity|].
  rewrite (insert_by_map f le le' x (sort_by le l) H). now rewrite IH.
Qed.

Lemma forallb_map' {A B} (f : B -> bool) (g : A -> B) l : forallb f (map g l) = forallb (fun x => f (g x)) l.
Proof. induction l as [|x l IH]; cbn [map forallb]; [reflexivity|]. now rewrite IH. Qed.

Lemma slice_copy_fresh {A} (z : A) (l : list A) : slice_copy (repeat z (length l)) l = l.
Proof.
  unfold slice_copy. rewrite repeat_length, firstn_all.
  rewrite skipn_all2 by (rewrite repeat_length; apply Nat.le_refl). apply app_nil_r.
Qed.

Lemma list_set_spec {A} (l : list A) n v :
  (n < length l)%nat -> list_set l n v = Some (firstn n l ++ v :: skipn (S n) l).
Proof.
  revert n. induction l as [|h t IH]; intros n Hn; cbn [length] in Hn; [lia|].
  destruct n as [|n]; cbn [list_set firstn skipn app]; [reflexivity|].
  rewrite IH by lia. reflexivity.
Qed.

Lemma slice_set_spec {A} (l : list A) i v :
  (0 <= i < Z.of_nat (length l))%Z ->
  slice_set l i v = Some (firstn (Z.to_nat i) l ++ v :: skipn (S (Z.to_nat i)) l).
Proof.
  intros H. unfold slice_set. destruct (Z.ltb_spec i 0); [lia|]. apply list_set_spec. lia.
Qed.

Lemma slice_at_spec {A} (l : list A) i d :
  (0 <= i < Z.of_nat (length l))%Z -> slice_at l i = Some (nth (Z.to_nat i) l d).
Proof.
  intros H. unfold slice_at. destruct (Z.ltb_spec i 0); [lia|]. apply nth_error_nth'. lia.
Qed.

Lemma half_nat n : Z.to_nat (Z.quot (Z.of_nat n) 2) = Nat.div2 n.
Proof.
  rewrite Z.quot_div_nonneg by lia. rewrite Nat.div2_div.
  change 2%Z with (Z.of_nat 2). rewrite <- Nat2Z.inj_div. apply Nat2Z.id.
Qed.

(* one step of a generated loop function [f] on a list / count that is a constructor application *)
Ltac gen_step f := cbn [f]; cbv zeta.

(* ---------- loops, found through their call marker ----------
   Leaf.v writes the call of a loop function as  gen_loop<k> f a1 .. ak  with f = the loop function applied to its
   invariant parameters.  The _gen files state the loop lemma over that f (whatever its name and invariants are):

     lazymatch goal with |- context [gen_loop2 ?f _ _] =>
       assert (L : forall l acc, f l acc = ...) by (induction l; intros; gen_loop_step f; ...) end

   [gen_loop_step f] unfolds the loop function once (on a constructor) and nothing else. *)
Ltac gen_head t := lazymatch t with ?f _ => gen_head f | _ => t end.
Ltac gen_loop_step f := let h := gen_head f in cbn [h]; cbv zeta.
Ltac gen_unmark := unfold gen_loop1, gen_loop2, gen_loop3, gen_loop4, gen_loop5, gen_loop6 in *.
(* unfold the wrappers (every generated Definition), keep loops and big-integer helpers folded *)
Ltac gen_open := autounfold with gen in *; cbv zeta in *; cbn [fst snd] in *.
(* a goal that is an equation between nests of conditionals over boolean atoms: case analysis on every atom *)
Ltac gen_atom b :=
  lazymatch b with
  | andb _ _ => fail | orb _ _ => fail | negb _ => fail | (if _ then _ else _) => fail
  | true => fail | false => fail | _ => idtac
  end.
Ltac gen_bool_split :=
  repeat (cbn [negb andb orb]; cbv beta iota;
          match goal with
          | |- context [andb ?a _] => gen_atom a; destruct a eqn:?
          | |- context [andb _ ?a] => gen_atom a; destruct a eqn:?
          | |- context [orb ?a _] => gen_atom a; destruct a eqn:?
          | |- context [orb _ ?a] => gen_atom a; destruct a eqn:?
          | |- context [negb ?a] => gen_atom a; destruct a eqn:?
          | |- context [if ?a then _ else _] => gen_atom a; destruct a eqn:?
          end);
  cbn [negb andb orb]; cbv beta iota.
Ltac gen_bools := gen_bool_split; try reflexivity; try congruence.

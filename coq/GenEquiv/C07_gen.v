(* C07_gen.v — consensus.FPlus1 / GteFPlusOne and SeqNumRange.Overlaps as regenerated on this run, against the
   definitions the execute merge model uses (Model/Consensus.v f_plus_1, Model/ExecMerge.v gte_f_plus_one, overlaps). *)
Require Import Verif.Model.Base Verif.Model.Consensus Verif.Model.ExecMerge Verif.Proofs.ConsensusP.
Require Import VerifGen.Leaf VerifGen.GenTac.
From Coq Require Import ZArith NArith Bool Lia ZifyN ZifyNat ZifyBool.
Ltac Zify.zify_post_hook ::= Z.div_mod_to_equations.

Theorem gen_f_plus_1_eq : forall f, gen_f_plus_1 f = f_plus_1 f.
Proof. intros. unfold f_plus_1, to_uint. gen_auto. Qed.
Print Assumptions gen_f_plus_1_eq.

(* the model's count is an N (a length); the Go call passes it as an int *)
Theorem gen_gte_f_plus_one_eq : forall f v, gen_gte_f_plus_one f (Z.of_N v) = ExecMerge.gte_f_plus_one f v.
Proof. intros. unfold ExecMerge.gte_f_plus_one. gen_auto. Qed.
Print Assumptions gen_gte_f_plus_one_eq.

Theorem gen_overlaps_eq : forall a b, gen_overlaps a b = ExecMerge.overlaps a b.
Proof. intros [s e] [s' e']. unfold ExecMerge.overlaps. gen_auto. Qed.
Print Assumptions gen_overlaps_eq.

(* the f+1 merge threshold is f+1 wherever the int does not overflow; the costly-message test agrees with it *)
Theorem C07_f_plus_1_gen : forall f v,
  (0 <= f < 2 ^ 62)%Z ->
  gen_f_plus_1 f = Z.to_N (f + 1) /\
  (gen_gte_f_plus_one f (Z.of_N v) = true <-> (gen_f_plus_1 f <= v)%N).
Proof. intros f v H. split; gen_auto. Qed.
Print Assumptions C07_f_plus_1_gen.

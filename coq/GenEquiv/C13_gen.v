(* C13_gen.v — execute/exectypes/outcome.go PluginState.Next / IsValid and SeqNumRange.Contains as regenerated on
   this run, against Model/PanicSites.v (exec_next, exec_state_valid, in_range).
   PluginState is a string type: a value is the position of its string in the const block (0 Unknown "" ,
   1 Initialized, 2 GetCommitReports, 3 GetMessages, 4 Filter — read from the source), any other number stands for
   any other string.  panic(...) is the Panic of the res monad. *)
Require Import Verif.Model.Base Verif.Model.PanicSites Verif.Proofs.PanicSitesP.
Require Import VerifGen.Leaf VerifGen.GenTac.
From Coq Require Import ZArith NArith Bool Lia ZifyN ZifyNat ZifyBool.
Ltac Zify.zify_post_hook ::= Z.div_mod_to_equations.

(* (a) generated = modelled *)
Theorem gen_exec_next_eq : forall s, gen_exec_next s = exec_next s.
Proof. intros. unfold exec_next. gen_auto. Qed.
Print Assumptions gen_exec_next_eq.

Theorem gen_exec_state_valid_eq : forall s, gen_exec_state_valid s = exec_state_valid s.
Proof. intros. unfold exec_state_valid. gen_auto. Qed.
Print Assumptions gen_exec_state_valid_eq.

Theorem gen_contains_eq : forall s e k, gen_contains (s, e) k = in_range s e k.
Proof. intros. unfold in_range. gen_auto. Qed.
Print Assumptions gen_contains_eq.

(* (b) C13_exec_state_never_panics over the generated definitions: a decoded state is passed to Next only after
   IsValid accepted it (DecodeOutcome, as repaired), and then Next does not panic; Next alone does *)
Definition gen_exec_callback_next (s : N) : res N :=
  rbind (if gen_exec_state_valid s then Ok s else Err) gen_exec_next.

Theorem C13_exec_state_never_panics_gen : forall s,
  gen_exec_callback_next s = exec_callback_next s /\
  gen_exec_callback_next s <> Panic /\ gen_exec_callback_next s <> Spin.
Proof.
  intros s.
  assert (E : gen_exec_callback_next s = exec_callback_next s).
  { unfold gen_exec_callback_next, exec_callback_next, exec_decode_state.
    rewrite gen_exec_state_valid_eq. destruct (exec_state_valid s); cbn [rbind]; [apply gen_exec_next_eq | reflexivity]. }
  split; [exact E|]. rewrite E. apply exec_callback_next_no_panic.
Qed.
Print Assumptions C13_exec_state_never_panics_gen.

Theorem C13_exec_next_valid_iff_no_panic_gen : forall s,
  gen_exec_state_valid s = true <-> gen_exec_next s <> Panic.
Proof. intros s. gen_unfold. repeat gen_case; split; intros; first [ congruence | lia ]. Qed.
Print Assumptions C13_exec_next_valid_iff_no_panic_gen.

Example C13_gen_nonvacuous :
  gen_exec_next 0 = Ok 2%N /\ gen_exec_next 2 = Ok 3%N /\ gen_exec_next 3 = Ok 4%N /\ gen_exec_next 4 = Ok 2%N /\
  gen_exec_next 5 = Panic /\ gen_exec_callback_next 5 = Err.
Proof. vm_compute. repeat split. Qed.

(* C14_gen.v — mathslib.Deviates, mathslib.CalculateUsdPerUnitGas (internal/libs/mathslib/calc.go),
   chainfee ComponentsUSDPrices.ToPackedFee (commit/chainfee/types.go) and consensus.TwoFPlus1 as regenerated on
   this run, against Model/Prices.v and the C14 statements.  big.Int = Z, big.Int.Div = Euclidean division. *)
Require Import Verif.Model.Base Verif.Proofs.BaseP Verif.Model.Consensus Verif.Model.CommitConsensus
               Verif.Proofs.CommitConsensusP Verif.Model.Prices Verif.Proofs.PricesP.
Require Import VerifGen.Leaf VerifGen.GenTac.
From Coq Require Import ZArith NArith Bool Lia ZifyN ZifyNat ZifyBool.
Ltac Zify.zify_post_hook ::= Z.div_mod_to_equations.

(* ---------- (a) generated = modelled, on every input ---------- *)
Theorem gen_deviates_eq : forall x1 x2 ppb, gen_deviates x1 x2 ppb = deviates x1 x2 ppb.
Proof. intros. unfold deviates, ediv, ppb_unit. gen_auto. Qed.
Print Assumptions gen_deviates_eq.

Theorem gen_usd_per_unit_gas_eq : forall g p, gen_usd_per_unit_gas g p = usd_per_unit_gas g p.
Proof. intros. unfold usd_per_unit_gas, ediv, e18. gen_auto. Qed.
Print Assumptions gen_usd_per_unit_gas_eq.

Theorem gen_to_packed_eq : forall da ex, gen_to_packed da ex = to_packed da ex.
Proof. intros. unfold to_packed. gen_auto. Qed.
Print Assumptions gen_to_packed_eq.

Theorem gen_two_f_plus_1_eq : forall f, gen_two_f_plus_1 f = two_f_plus_1 f.
Proof. intros. unfold two_f_plus_1, to_uint. gen_auto. Qed.
Print Assumptions gen_two_f_plus_1_eq.

(* ---------- (b) the C14 statements over the generated definitions ---------- *)
Theorem C14_deviates_spec_gen : forall x1 x2 ppb,
  (0 < x2 <= x1)%Z ->
  (gen_deviates x1 x2 ppb = true <-> (ppb + 1) * x2 <= (x1 - x2) * 1000000000)%Z.
Proof. intros x1 x2 ppb H. rewrite gen_deviates_eq. apply deviates_spec. exact H. Qed.
Print Assumptions C14_deviates_spec_gen.

Theorem C14_deviates_sym_zero_gen : forall x1 x2 ppb,
  gen_deviates x1 x2 ppb = gen_deviates x2 x1 ppb /\
  (gen_deviates 0 x1 ppb = true <-> x1 <> 0%Z) /\ (gen_deviates x1 0 ppb = true <-> x1 <> 0%Z).
Proof.
  intros x1 x2 ppb. rewrite !gen_deviates_eq. split; [apply deviates_sym | apply deviates_zero].
Qed.
Print Assumptions C14_deviates_sym_zero_gen.

Theorem C14_units_usd_gen : forall fee price,
  let u := gen_usd_per_unit_gas fee price in
  (u * 1000000000000000000 <= fee * price < (u + 1) * 1000000000000000000)%Z.
Proof. intros fee price. cbv zeta. rewrite gen_usd_per_unit_gas_eq. apply usd_per_unit_gas_spec. Qed.
Print Assumptions C14_units_usd_gen.

Theorem C14_units_packing_gen : forall da ex,
  (0 <= ex < 2 ^ 112)%Z -> (0 <= da)%Z ->
  gen_to_packed da ex = (da * 2 ^ 112 + ex)%Z /\ from_packed (gen_to_packed da ex) = (ex, da).
Proof. intros da ex He Hd. rewrite gen_to_packed_eq. apply units_packing; assumption. Qed.
Print Assumptions C14_units_packing_gen.

Theorem C14_threshold_value_gen : forall f,
  (0 <= f < 2 ^ 62)%Z -> agg_thr (gen_two_f_plus_1 f) = Z.to_N (2 * f + 1).
Proof. intros f H. unfold agg_thr. gen_auto. Qed.
Print Assumptions C14_threshold_value_gen.

Example C14_gen_nonvacuous :
  gen_deviates 1010 1000 9999999 = true /\ gen_deviates 1010 1000 10000000 = false /\
  gen_deviates 0 5 1 = true /\ gen_deviates 0 0 1 = false /\
  gen_usd_per_unit_gas 2000000000 3000000000000000000000 = 6000000000000%Z /\
  gen_two_f_plus_1 3 = 7%N /\ gen_two_f_plus_1 (-1) = max64.
Proof. vm_compute. repeat split. Qed.

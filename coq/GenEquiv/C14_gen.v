(* C14_gen.v — mathslib.Deviates, mathslib.CalculateUsdPerUnitGas (internal/libs/mathslib/calc.go),
   chainfee ComponentsUSDPrices.ToPackedFee (commit/chainfee/types.go) and consensus.TwoFPlus1 as regenerated on
   this run, against Model/Prices.v and the C14 statements.  big.Int = Z, big.Int.Div = Euclidean division. *)
Require Import Verif.Model.Base Verif.Proofs.BaseP Verif.Model.Consensus Verif.Model.CommitConsensus
               Verif.Proofs.CommitConsensusP Verif.Model.Prices Verif.Proofs.PricesP.
Require Import VerifGen.Leaf VerifGen.GenTac.
From Coq Require Import ZArith NArith Bool Lia ZifyN ZifyNat ZifyBool.
Ltac Zify.zify_post_hook ::= Z.div_mod_to_equations.

(* ---------- (a) generated = modelled, on every input ---------- *)
Theorem gen_deviates_eq : forall x1 x2 ppb, gen_deviates x1 x2 ppb = deviates x1 x2 ppb.
Proof. intros. unfold deviates, ediv, ppb_unit. gen_auto. Qed.
Print Assumptions gen_deviates_eq.

Theorem gen_usd_per_unit_gas_eq : forall g p, gen_usd_per_unit_gas g p = usd_per_unit_gas g p.
Proof. intros. unfold usd_per_unit_gas, ediv, e18. gen_auto. Qed.
Print Assumptions gen_usd_per_unit_gas_eq.

Theorem gen_to_packed_eq : forall da ex, gen_to_packed da ex = to_packed da ex.
Proof. intros. unfold to_packed. gen_auto. Qed.
Print Assumptions gen_to_packed_eq.

Theorem gen_two_f_plus_1_eq : forall f, gen_two_f_plus_1 f = two_f_plus_1 f.
Proof. intros. unfold two_f_plus_1, to_uint. gen_auto. Qed.
Print Assumptions gen_two_f_plus_1_eq.

(* ---------- (b) the C14 statements over the generated definitions ---------- *)
Theorem C14_deviates_spec_gen : forall x1 x2 ppb,
  (0 < x2 <= x1)%Z ->
  (gen_deviates x1 x2 ppb = true <-> (ppb + 1) * x2 <= (x1 - x2) * 1000000000)%Z.
Proof. intros x1 x2 ppb H. rewrite gen_deviates_eq. apply deviates_spec. exact H. Qed.
Print Assumptions C14_deviates_spec_gen.

Theorem C14_deviates_sym_zero_gen : forall x1 x2 ppb,
  gen_deviates x1 x2 ppb = gen_deviates x2 x1 ppb /\
  (gen_deviates 0 x1 ppb = true <-> x1 <> 0%Z) /\ (gen_deviates x1 0 ppb = true <-> x1 <> 0%Z).
Proof.
  intros x1 x2 ppb. rewrite !gen_deviates_eq. split; [apply deviates_sym | apply deviates_zero].
Qed.
Print Assumptions C14_deviates_sym_zero_gen.

Theorem C14_units_usd_gen : forall fee price,
  let u := gen_usd_per_unit_gas fee price in
  (u * 1000000000000000000 <= fee * price < (u + 1) * 1000000000000000000)%Z.
Proof. intros fee price. cbv zeta. rewrite gen_usd_per_unit_gas_eq. apply usd_per_unit_gas_spec. Qed.
Print Assumptions C14_units_usd_gen.

Theorem C14_units_packing_gen : forall da ex,
  (0 <= ex < 2 ^ 112)%Z -> (0 <= da)%Z ->
  gen_to_packed da ex = (da * 2 ^ 112 + ex)%Z /\ from_packed (gen_to_packed da ex) = (ex, da).
Proof. intros da ex He Hd. rewrite gen_to_packed_eq. apply units_packing; assumption. Qed.
Print Assumptions C14_units_packing_gen.

Theorem C14_threshold_value_gen : forall f,
  (0 <= f < 2 ^ 62)%Z -> agg_thr (gen_two_f_plus_1 f) = Z.to_N (2 * f + 1).
Proof. intros f H. unfold agg_thr. gen_auto. Qed.
Print Assumptions C14_threshold_value_gen.

(* ================= second tier: FromPackedFee and consensus.Median =================
   FromPackedFee (commit/chainfee/types.go) builds its mask with `for i := 0; i < 112; i++ { SetBit }`; the result
   struct is the pair (ExecutionFeePriceUSD, DataAvFeePriceUSD).  A negative bit position would panic: the generated
   function is in the res monad and the theorem shows it is always Ok.
   Median (internal/plugincommon/consensus/consensus.go) is generic: the comparator is a parameter, the zero value
   of the type parameter too; sort.Slice is read as the framework's sort_by with "a <= b := not (b < a)";
   vals[len/2] is a checked index (Panic when out of range): the theorem shows it is always Ok. *)
Fixpoint ones_acc (n : nat) (i acc : Z) : Z :=
  match n with O => acc | S n' => ones_acc n' (i + 1) (Z.setbit acc i) end.

(* Two shapes are known: the mask built by a counting loop of SetBit calls (found through its call marker), or a
   package-level constant mask (2^112 - 1 computed from its initialiser). *)
Theorem gen_from_packed_eq : forall p, gen_from_packed p = Ok (from_packed p).
Proof.
  intros p. gen_open. unfold from_packed, ones112.
  first
  [ lazymatch goal with
    | |- context [gen_loop3 ?f _ _ _] =>
        assert (L : forall n i acc, (0 <= i)%Z ->
                      f n i acc = Ok (Z.land p (ones_acc n i acc), Z.shiftr p 112))
          by (induction n as [|n IH]; intros i acc Hi; gen_loop_step f; cbn [ones_acc]; [reflexivity|];
              repeat (gen_case; try solve [exfalso; gen_lin]); apply IH; lia);
        unfold gen_loop3; rewrite L by lia
    end;
    replace (ones_acc (Z.to_nat (112 - 0)) 0 0) with (2 ^ 112 - 1)%Z by (vm_compute; reflexivity);
    reflexivity
  | (* no loop: the mask is a constant *)
    lazymatch goal with
    | |- context [gen_loop3 _ _ _ _] => fail
    | _ => first [ reflexivity | (repeat f_equal; vm_compute; reflexivity) ]
    end ].
Qed.
Print Assumptions gen_from_packed_eq.

(* C14_units_packing with both generated functions: unpacking what was packed gives the two prices back *)
Theorem C14_units_roundtrip_gen : forall da ex,
  (0 <= ex < 2 ^ 112)%Z -> (0 <= da)%Z -> gen_from_packed (gen_to_packed da ex) = Ok (ex, da).
Proof.
  intros da ex He Hd. rewrite gen_from_packed_eq, gen_to_packed_eq.
  f_equal. apply units_packing; assumption.
Qed.
Print Assumptions C14_units_roundtrip_gen.

(* ---------- Median ---------- *)
Theorem gen_median_spec : forall (T : Type) (zero : T) (less : T -> T -> bool) (vals : list T),
  gen_median zero vals less =
  Ok (nth (Nat.div2 (length vals)) (sort_by (fun a b => negb (less b a)) vals) zero).
Proof.
  intros T zero less vals. unfold gen_median. cbv zeta.
  destruct vals as [|v vals].
  - reflexivity.
  - set (l := v :: vals). cbn [length]. destruct (Z.eqb_spec (Z.of_nat (S (length vals))) 0); [lia|].
    rewrite Nat2Z.id. change (S (length vals)) with (length l). rewrite slice_copy_fresh.
    set (s := sort_by (fun a b => negb (less b a)) l).
    assert (Hl : length s = length l) by apply sort_by_length.
    rewrite (slice_at_spec s _ zero).
    + rewrite half_nat, Hl. reflexivity.
    + rewrite Hl. unfold l. cbn [length]. rewrite Z.quot_div_nonneg by lia.
      split; [apply Z.div_pos; lia|apply Z.div_lt_upper_bound; lia].
Qed.
Print Assumptions gen_median_spec.

(* (a) at big integers with the comparator the callers pass (a.Cmp(b) == -1, i.e. a < b): the modelled medianZ *)
Theorem gen_median_eq : forall l, gen_median 0%Z l Z.ltb = Ok (medianZ l).
Proof.
  intros l. rewrite gen_median_spec. unfold medianZ.
  rewrite (sort_by_ext (fun a b => negb (Z.ltb b a)) Z.leb); [reflexivity|].
  intros a b. lia.
Qed.
Print Assumptions gen_median_eq.

(* (b) C14_median_robust over the generated definition: with at most f faulty values among at least 2f+1, the
   median lies between honest values *)
Theorem C14_median_robust_gen : forall (xs hs bs : list Z) (f : nat) (lo hi : Z),
  Permutation xs (hs ++ bs) -> (length bs <= f)%nat -> (2 * f + 1 <= length xs)%nat ->
  (forall h, In h hs -> lo <= h <= hi)%Z ->
  exists m, gen_median 0%Z xs Z.ltb = Ok m /\ (lo <= m <= hi)%Z.
Proof.
  intros xs hs bs f lo hi P Hb Hn Hh. exists (medianZ xs). split; [apply gen_median_eq|].
  exact (median_robust xs hs bs f lo hi P Hb Hn Hh).
Qed.
Print Assumptions C14_median_robust_gen.

Example C14_gen_nonvacuous :
  gen_deviates 1010 1000 9999999 = true /\ gen_deviates 1010 1000 10000000 = false /\
  gen_deviates 0 5 1 = true /\ gen_deviates 0 0 1 = false /\
  gen_usd_per_unit_gas 2000000000 3000000000000000000000 = 6000000000000%Z /\
  gen_two_f_plus_1 3 = 7%N /\ gen_two_f_plus_1 (-1) = max64.
Proof. vm_compute. repeat split. Qed.

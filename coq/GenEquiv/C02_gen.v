(* C02_gen.v — SeqNumRange.Limit / Contains / Overlaps as regenerated from pkg/types/ccipocr3/generic_types.go on
   this run (VerifGen.Leaf) against the hand-written model (Model/SeqRange.v) and the C02 statements.
   A SeqNumRange is the pair (start, end); all values are N, the Go uint64 operators are add64 / sub64. *)
Require Import Verif.Model.Base Verif.Proofs.BaseP Verif.Model.SeqRange Verif.Proofs.SeqRangeP.
Require Import VerifGen.Leaf VerifGen.GenTac.
From Coq Require Import ZArith NArith Bool Lia ZifyN ZifyNat ZifyBool.
Ltac Zify.zify_post_hook ::= Z.div_mod_to_equations.

(* (a) the generated function is the modelled one, on every input (no precondition: both sides wrap alike) *)
Theorem gen_limit_eq : forall s e n, gen_limit (s, e) n = limit s e n.
Proof. intros. unfold limit. gen_auto. Qed.
Print Assumptions gen_limit_eq.

(* (b) C02_limit over the generated definition: for every well-formed uint64 range and n >= 1 the result is
   [s, min(e, s+n-1)], the right-hand side in unbounded arithmetic (so nothing wrapped) *)
Theorem C02_limit_gen : forall s e n,
  (s <= e)%N -> u64 e -> (1 <= n)%N -> gen_limit (s, e) n = (s, N.min e (s + n - 1)).
Proof. intros s e n Hse He Hn. rewrite gen_limit_eq. apply limit_spec; assumption. Qed.
Print Assumptions C02_limit_gen.

Theorem C02_limit_bounds_gen : forall s e n,
  (s <= e)%N -> u64 e -> (1 <= n)%N ->
  let r := gen_limit (s, e) n in
  fst r = s /\ (s <= snd r <= e)%N /\ (range_size r <= n)%N /\
  ((range_size (s, e) <= n)%N -> r = (s, e)) /\
  ((n < range_size (s, e))%N -> range_size r = n).
Proof.
  intros s e n Hse He Hn. cbv zeta. rewrite (C02_limit_gen s e n Hse He Hn).
  unfold range_size. cbn [fst snd]. repeat split; try lia. intros H. f_equal. lia.
Qed.
Print Assumptions C02_limit_bounds_gen.

(* the start never moves (any arguments), inverted ranges come back unchanged *)
Theorem C02_limit_start_inverted_gen : forall s e n,
  fst (gen_limit (s, e) n) = s /\ ((e < s)%N -> gen_limit (s, e) n = (s, e)).
Proof. intros. split; [gen_unfold; repeat gen_case; reflexivity | gen_auto]. Qed.
Print Assumptions C02_limit_start_inverted_gen.

(* Contains / Overlaps: plain interval tests, no arithmetic that could wrap *)
Theorem gen_contains_spec : forall s e x, gen_contains (s, e) x = true <-> (s <= x <= e)%N.
Proof. gen_auto. Qed.
Print Assumptions gen_contains_spec.

Theorem gen_overlaps_spec : forall s e s' e',
  gen_overlaps (s, e) (s', e') = true <-> (s <= e' /\ s' <= e)%N.
Proof. gen_auto. Qed.
Print Assumptions gen_overlaps_spec.

Example C02_gen_nonvacuous :
  gen_limit (100, 110)%N 10 = (100, 109)%N /\ gen_limit (0%N, max64) 256 = (0, 255)%N /\
  gen_limit ((max64 - 3)%N, max64) 256 = ((max64 - 3)%N, max64) /\ gen_limit (7, 7)%N 1 = (7, 7)%N.
Proof. vm_compute. repeat split. Qed.

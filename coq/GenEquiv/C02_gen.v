(* C02_gen.v — SeqNumRange.Limit / Contains / Overlaps as regenerated from pkg/types/ccipocr3/generic_types.go on
   this run (VerifGen.Leaf) against the hand-written model (Model/SeqRange.v) and the C02 statements.
   A SeqNumRange is the pair (start, end); all values are N, the Go uint64 operators are add64 / sub64. *)
Require Import Verif.Model.Base Verif.Proofs.BaseP Verif.Model.SeqRange Verif.Proofs.SeqRangeP
               Verif.Model.CommitMerkle Verif.Proofs.CommitMerkleP.
Require Import VerifGen.Leaf VerifGen.GenTac.
From Coq Require Import ZArith NArith Bool Lia ZifyN ZifyNat ZifyBool.
Ltac Zify.zify_post_hook ::= Z.div_mod_to_equations.

(* (a) the generated function is the modelled one, on every input (no precondition: both sides wrap alike) *)
Theorem gen_limit_eq : forall s e n, gen_limit (s, e) n = limit s e n.
Proof. intros. unfold limit. gen_auto. Qed.
Print Assumptions gen_limit_eq.

(* (b) C02_limit over the generated definition: for every well-formed uint64 range and n >= 1 the result is
   [s, min(e, s+n-1)], the right-hand side in unbounded arithmetic (so nothing wrapped) *)
Theorem C02_limit_gen : forall s e n,
  (s <= e)%N -> u64 e -> (1 <= n)%N -> gen_limit (s, e) n = (s, N.min e (s + n - 1)).
Proof. intros s e n Hse He Hn. rewrite gen_limit_eq. apply limit_spec; assumption. Qed.
Print Assumptions C02_limit_gen.

Theorem C02_limit_bounds_gen : forall s e n,
  (s <= e)%N -> u64 e -> (1 <= n)%N ->
  let r := gen_limit (s, e) n in
  fst r = s /\ (s <= snd r <= e)%N /\ (range_size r <= n)%N /\
  ((range_size (s, e) <= n)%N -> r = (s, e)) /\
  ((n < range_size (s, e))%N -> range_size r = n).
Proof.
  intros s e n Hse He Hn. cbv zeta. rewrite (C02_limit_gen s e n Hse He Hn).
  unfold range_size. cbn [fst snd]. repeat split; try lia. intros H. f_equal. lia.
Qed.
Print Assumptions C02_limit_bounds_gen.

(* the start never moves (any arguments), inverted ranges come back unchanged *)
Theorem C02_limit_start_inverted_gen : forall s e n,
  fst (gen_limit (s, e) n) = s /\ ((e < s)%N -> gen_limit (s, e) n = (s, e)).
Proof. intros. split; [gen_unfold; repeat gen_case; reflexivity | gen_auto]. Qed.
Print Assumptions C02_limit_start_inverted_gen.

(* Contains / Overlaps: plain interval tests, no arithmetic that could wrap *)
Theorem gen_contains_spec : forall s e x, gen_contains (s, e) x = true <-> (s <= x <= e)%N.
Proof. gen_auto. Qed.
Print Assumptions gen_contains_spec.

Theorem gen_overlaps_spec : forall s e s' e',
  gen_overlaps (s, e) (s', e') = true <-> (s <= e' /\ s' <= e)%N.
Proof. gen_auto. Qed.
Print Assumptions gen_overlaps_spec.

(* ================= second tier: msgsCoverRange and the hashing loop of computeMerkleRoot =================
   commit/merkleroot/observation.go.  A message is, for msgsCoverRange, its sequence number; for computeMerkleRoot
   the pair (sequence number, identity of the rest) and the message hasher is a function [hash] of that pair.
   computeMerkleRoot is translated up to the call of merklemulti.NewTree (table: Cut) and yields the leaf hashes. *)

(* ---------- msgsCoverRange ---------- *)
(* (a) generated = modelled.  len(msgs) is a Go int: the list is shorter than 2^63.
   The loop is found through its call marker; its lemma is stated over whatever the loop function is. *)
Theorem gen_msgs_cover_range_eq : forall (ms : list msg) s e,
  (Z.of_nat (length ms) < 2 ^ 63)%Z ->
  gen_msgs_cover_range (map m_seq ms) (s, e) = if covers ms s e then Ok tt else Err.
Proof.
  intros ms s e Hlen. gen_open.
  lazymatch goal with
  | |- context [gen_loop1 ?f _] =>
      assert (L : forall l, f l = if forallb (fun q => N.leb s q && N.leb q e) l then Ok tt else Err)
        by (induction l as [|q l IH]; gen_loop_step f; [reflexivity|]; rewrite IH; cbn [forallb]; gen_auto);
      unfold gen_loop1; rewrite L; clear L
  end.
  rewrite ?map_length, forallb_map'. unfold covers.
  destruct ms as [|m ms']; [cbn [length map forallb]; gen_auto|].
  cbn [length] in *. destruct (forallb (fun x : msg => N.leb s (m_seq x) && N.leb (m_seq x) e) (m :: ms')); gen_auto.
Qed.
Print Assumptions gen_msgs_cover_range_eq.

(* (b) what an accepted read is, over the generated definition (covers_iff) *)
Theorem C02_covers_gen : forall (ms : list msg) s e,
  u64 e -> (Z.of_nat (length ms) < 2 ^ 63)%Z ->
  (gen_msgs_cover_range (map m_seq ms) (s, e) = Ok tt <->
   (s <= e)%N /\ N.of_nat (length ms) = (e - s + 1)%N /\ Forall (fun m => (s <= m_seq m <= e)%N) ms).
Proof.
  intros ms s e He Hlen. rewrite (gen_msgs_cover_range_eq ms s e Hlen), <- (covers_iff ms s e He).
  destruct (covers ms s e); split; congruence.
Qed.
Print Assumptions C02_covers_gen.

(* ---------- computeMerkleRoot up to the tree ---------- *)
Section Hashes.
  Variable hash : N * N -> res N.
  (* the message hasher either answers or fails; it does not crash the plugin *)
  Hypothesis hash_total : forall m, hash m = Err \/ exists x, hash m = Ok x.

  Definition to_msg (m : N * N) : msg :=
    (fst m, 0%N, match hash m with Ok x => Some x | _ => None end).

  (* the loop: the index says whether there is a previous message; [prev] is that message *)
  Ltac root_loop_lemma f :=
    assert (L : forall l i prev acc,
      (0 <= i)%Z -> ((0 < i)%Z <-> prev <> None) ->
      f l i prev acc =
      match hash_consecutive (option_map fst prev) (map to_msg l) with
      | Some hs => Ok (acc ++ hs)
      | None => Err
      end).

  (* (a) generated = modelled: sort by sequence number, consecutive under the uint64 successor, hash in order *)
  Theorem gen_compute_root_hashes_eq : forall ms,
    gen_compute_root_hashes hash ms =
    match hash_consecutive None (sort_by seq_le (map to_msg ms)) with Some hs => Ok hs | None => Err end.
  Proof.
    intros ms. gen_open.
    lazymatch goal with
    | |- context [gen_loop4 ?f _ _ _ _] => root_loop_lemma f
    end.
    { induction l as [|m l IH]; intros i prev acc Hi Hp;
        lazymatch goal with |- ?lhs = _ => let h := gen_head lhs in cbn [h]; cbv zeta end;
        cbn [map hash_consecutive].
      - now rewrite app_nil_r.
      - assert (Hn : forall a, _ = match hash_consecutive (Some (fst m)) (map to_msg l) with
                                   | Some hs => Ok (a ++ hs) | None => Err end)
          by (intros a; apply (IH (Z.add i 1) (Some m) a); [lia|split; [discriminate|lia]]).
        unfold m_seq, m_hash, to_msg at 1 2 3. cbn [fst snd]. unfold succ64.
        destruct (Z.ltb_spec 0 i) as [Hpos|Hz].
        + destruct prev as [p|]; [|exfalso; apply (proj1 Hp Hpos); reflexivity].
          cbn [option_map].
          destruct (N.eqb (fst m) (add64 (fst p) 1)); cbn [negb]; [|reflexivity].
          destruct (hash_total m) as [E|[x E]]; rewrite E; [reflexivity|].
          rewrite Hn. destruct (hash_consecutive (Some (fst m)) (map to_msg l)); [|reflexivity].
          now rewrite <- app_assoc.
        + destruct prev as [p|]; [exfalso; assert (0 < i)%Z by (apply Hp; discriminate); lia|].
          cbn [option_map].
          destruct (hash_total m) as [E|[x E]]; rewrite E; [reflexivity|].
          rewrite Hn. destruct (hash_consecutive (Some (fst m)) (map to_msg l)); [|reflexivity].
          now rewrite <- app_assoc. }
    unfold gen_loop4. rewrite L; [|lia|split; [lia|intros H; now elim H]].
    cbn [option_map app].
    rewrite (sort_by_map to_msg (fun a b => N.leb (fst a) (fst b)) seq_le); [reflexivity|].
    intros a b. reflexivity.
  Qed.

  (* (b) the leaf hashes are returned exactly for a gap-free read, in sequence order (hash_consecutive_iff) *)
  Theorem C02_hashes_gen : forall ms hs,
    gen_compute_root_hashes hash ms = Ok hs <->
    (map m_hash (sort_by seq_le (map to_msg ms)) = map Some hs /\
     chain_ok None (map m_seq (sort_by seq_le (map to_msg ms)))).
  Proof.
    intros ms hs. rewrite gen_compute_root_hashes_eq, <- hash_consecutive_iff.
    destruct (hash_consecutive None (sort_by seq_le (map to_msg ms))); split; congruence.
  Qed.

  (* (b') C02_root_exact with both generated checks in place of the modelled ones: the observation of one range *)
  Definition gen_observe_one (h : N -> N -> N) (zero k s e : N) (ms : list (N * N)) (addr : option N) : option root_obs :=
    match gen_msgs_cover_range (map fst ms) (s, e) with
    | Ok tt =>
        match gen_compute_root_hashes hash ms with
        | Ok hs => match mroot h zero hs with
                   | Some r => match addr with Some a => Some (k, (s, e), a, r) | None => None end
                   | None => None
                   end
        | _ => None
        end
    | _ => None
    end.

  Theorem C02_root_exact_gen : forall h zero k s e ms addr k' s' e' a r,
    u64 e -> (Z.of_nat (length ms) < 2 ^ 63)%Z ->
    (gen_observe_one h zero k s e ms addr = Some (k', (s', e'), a, r) <->
     k' = k /\ s' = s /\ e' = e /\ addr = Some a /\
     exists hs, complete_read (map to_msg ms) s e hs /\ mroot h zero hs = Some r).
  Proof.
    intros h zero k s e ms addr k' s' e' a r He Hlen.
    rewrite <- (observe_one_iff h zero k s e (map to_msg ms) addr k' s' e' a r He).
    unfold gen_observe_one, observe_one, observe_one_with, compute_root. cbn [andb].
    replace (map fst ms) with (map m_seq (map to_msg ms)) by (rewrite map_map; reflexivity).
    rewrite gen_msgs_cover_range_eq by (rewrite map_length; exact Hlen).
    rewrite gen_compute_root_hashes_eq.
    destruct (covers (map to_msg ms) s e); cbn [negb]; [|tauto].
    destruct (hash_consecutive None (sort_by seq_le (map to_msg ms))); tauto.
  Qed.
End Hashes.
Print Assumptions gen_compute_root_hashes_eq.
Print Assumptions C02_hashes_gen.
Print Assumptions C02_root_exact_gen.

Example C02_gen_nonvacuous :
  gen_limit (100, 110)%N 10 = (100, 109)%N /\ gen_limit (0%N, max64) 256 = (0, 255)%N /\
  gen_limit ((max64 - 3)%N, max64) 256 = ((max64 - 3)%N, max64) /\ gen_limit (7, 7)%N 1 = (7, 7)%N.
Proof. vm_compute. repeat split. Qed.

Example C02_gen_loops_nonvacuous :
  gen_msgs_cover_range [5; 7; 6]%N (5, 7)%N = Ok tt /\ gen_msgs_cover_range [5; 6]%N (5, 7)%N = Err /\
  gen_msgs_cover_range [5; 6; 8]%N (5, 7)%N = Err /\
  gen_compute_root_hashes (fun m => Ok (snd m)) [(6, 60); (5, 50); (7, 70)]%N = Ok [50; 60; 70]%N /\
  gen_compute_root_hashes (fun m => Ok (snd m)) [(5, 50); (5, 51); (7, 70)]%N = Err /\
  gen_compute_root_hashes (fun m => Ok (snd m)) [(5, 50); (7, 70)]%N = Err.
Proof. vm_compute. repeat split. Qed.

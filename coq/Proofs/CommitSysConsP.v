(* CommitSysConsP.v — C04, the round level: consensus (C01) + honest root observation (C02) =>
   every agreed merkle root is the true root of its chain over its interval. *)
Require Import Verif.Model.Base Verif.Proofs.BaseP Verif.Model.Consensus Verif.Proofs.ConsensusP
               Verif.Model.SeqRange Verif.Model.CommitMerkle Verif.Proofs.CommitMerkleP
               Verif.Model.CommitConsensus Verif.Proofs.CommitConsensusP
               Verif.Model.CommitSys Verif.Proofs.CommitSysP.

(* MerkleRootChain as carried in observations (chain, address, interval, root) vs. as produced by ObserveMerkleRoots *)
Definition as_observed (v : root_t) : root_obs :=
  let '(c, a, (s, e), r) := v in (c, (s, e), a, r).

Section RoundTruth.
  Variable h : N -> N -> N.
  Variable zero : N.
  Variable log : N -> N -> option msg.

  (* the observation of an oracle outside the Byzantine set: its merkle roots are what ObserveMerkleRoots returns
     over SOME honest reader (each oracle has its own reader, supported set and bound addresses; readers may lag,
     fail, return prefixes) for SOME requested intervals ending below 2^64 *)
  Definition honest_roots (ob : obs) : Prop :=
    exists supported ranges reader addr,
      reader_honest log reader /\
      (forall k s e, In (k, (s, e)) ranges -> u64 e) /\
      forall v, In v (o_roots ob) -> In (as_observed v) (observe_roots h zero supported ranges reader addr).

  Theorem agreed_root_is_true_root retry roles known dest aos F c k f B :
    valid_input retry roles known dest aos ->
    get_consensus F dest aos = Ok c ->
    alookup k (c_fchain c) = Some f -> (f < 2^63)%Z ->
    NoDup B -> (length B <= Z.to_nat f)%nat ->
    (forall o ob, In (o, ob) aos -> ~ In o B -> honest_roots ob) ->
    forall ch a s e r, alookup k (c_roots c) = Some (ch, a, (s, e), r) ->
      ch = k /\ true_root h zero log k s e r.
  Proof.
    intros Hv Hc Hf Hlt NDB HB Hhon ch a s e r Hr.
    destruct (byzantine retry roles known dest aos F c Hv Hc k f B Hf Hlt NDB HB) as [Hroots _].
    destruct (Hroots _ Hr) as [hs [_ [Hlen Hall]]].
    destruct hs as [|o hs]; [cbn in Hlen; lia|].
    destruct (Hall o (or_introl eq_refl)) as [[ob [Hin Hkv]] HnB].
    unfold roots_kv in Hkv. apply in_map_iff in Hkv. destruct Hkv as [v [Ev Hv']].
    assert (Evv : v = (ch, a, (s, e), r)) by congruence.
    assert (Ek : root_chain v = k) by congruence.
    subst v. cbn in Ek. clear Ev.
    split; [exact Ek|].
    destruct (Hhon _ _ Hin HnB) as [sup [ranges [reader [addr [Hrh [Hu Hobs]]]]]].
    specialize (Hobs _ Hv'). cbn in Hobs. subst ch.
    exact (proj2 (honest_observed_root_true h zero log _ _ _ _ _ _ _ _ _ Hrh Hu Hobs)).
  Qed.
End RoundTruth.

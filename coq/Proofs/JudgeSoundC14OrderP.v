(* JudgeSoundC14OrderP.v — the order clause of C14 ("prices are listed in key order") for EVERY sink of Check/C14_check.v
   whose output is a price list: cf, tp (Outcome result), pplug / pplugh (outcome gas + token prices, report
   GasPriceUpdates + TokenPriceUpdates), cfh / tph (Outcome result and the prices carried to the next round).
   Each executable property has the conjunct [strictly_asc (map fst _)] on the implementation's own lists, so the clause
   needs NO premise on the input (unlike the value clauses, which go through the equality with cf_spec / tp_spec).
   Key order: gas prices by chain selector (Go: gasPrices[i].ChainSel < gasPrices[j].ChainSel, uint64), token prices by
   token id (Go: tokenPrices[i].TokenID < tokenPrices[j].TokenID, string comparison; the model's token ids are numbers
   whose numeric order is that string order - harness: fixed-width hex, spec 'trusted'); both are N.lt on the model keys. *)
Require Import Verif.Model.Base Verif.Proofs.BaseP Verif.Model.Prices Verif.Proofs.PricesP Verif.Model.PricesHist.
Require Import Verif.Check.C14_check Verif.Proofs.JudgeSoundC14P.
From Coq Require Import Sorting.Sorted.

Definition by_key (l : prices) : Prop := StronglySorted (fun a b : N * Z => (fst a < fst b)%N) l.

Lemma asc_by_key (l : prices) : strictly_asc (map fst l) = true <-> by_key l.
Proof. exact (strictly_asc_keys l). Qed.

(* what "sorted by key" gives: the keys are pairwise distinct, and an earlier entry has the smaller key *)
Lemma by_key_nodup (l : prices) : by_key l -> NoDup (map fst l).
Proof. exact (keys_strict_nodup l). Qed.

Lemma by_key_positions (l : prices) : by_key l ->
  forall i j a b, (i < j)%nat -> nth_error l i = Some a -> nth_error l j = Some b -> (fst a < fst b)%N.
Proof.
  induction 1 as [|x l Hs IH Hall]; intros i j a b Hij Hi Hj.
  - destruct i; discriminate.
  - destruct j as [|j]; [inversion Hij|]. cbn [nth_error] in Hj. destruct i as [|i]; cbn [nth_error] in Hi.
    + inversion Hi; subst a. rewrite Forall_forall in Hall. apply Hall. eapply nth_error_In. exact Hj.
    + apply (IH i j a b); [apply Nat.succ_lt_mono; exact Hij|exact Hi|exact Hj].
Qed.

(* ---------- cf / tp: the Outcome result ---------- *)
Lemma cf_sound_order : forall freq feeinfo F dest roles known aos o out,
  cf_ok (freq, feeinfo, F, dest, roles, known, aos) o = true -> snd o = Ok out -> by_key out.
Proof.
  intros freq feeinfo F dest roles known aos o out H E. unfold cf_ok in H. rewrite !andb_true_iff in H.
  destruct H as [_ H]. rewrite E in H. now apply asc_by_key.
Qed.

Lemma tp_sound_order : forall freq tokeninfo feedchain F dest roles known aos o out,
  tp_ok (freq, tokeninfo, feedchain, F, dest, roles, known, aos) o = true -> snd o = Ok out -> by_key out.
Proof.
  intros freq tokeninfo feedchain F dest roles known aos o out H E. unfold tp_ok in H. rewrite !andb_true_iff in H.
  destruct H as [_ H]. rewrite E in H. now apply asc_by_key.
Qed.

(* ---------- pplug / pplugh: outcome lists and report lists ---------- *)
Lemma pplug_sound_order : forall gfreq feeinfo tfreq tokeninfo feedchain F dest roles known aos o,
  pplug_ok (gfreq, feeinfo, tfreq, tokeninfo, feedchain, F, dest, roles, known, aos) o = true ->
  exists gas tok, snd o = Ok (gas, tok, (gas, tok)) /\ by_key gas /\ by_key tok.
Proof.
  intros gfreq feeinfo tfreq tokeninfo feedchain F dest roles known aos [vs r] H. unfold pplug_ok in H. cbn [fst snd] in H.
  rewrite !andb_true_iff in H. destruct H as [_ H].
  destruct r as [[[gas tok] [rgas rtok]]| | |]; try discriminate.
  rewrite !andb_true_iff in H. destruct H as [[[[[Hg Ht] Sg] St] _] _].
  apply prices_eqb_eq in Hg. apply prices_eqb_eq in Ht. subst rgas rtok.
  exists gas, tok. cbn [snd]. split; [reflexivity|]. split; now apply asc_by_key.
Qed.

Lemma pplugh_sound_order : forall prev gfreq feeinfo tfreq tokeninfo feedchain F dest roles known aos o,
  pplugh_ok (prev, (gfreq, feeinfo, tfreq, tokeninfo, feedchain, F, dest, roles, known, aos)) o = true ->
  exists gas tok, snd o = Ok (gas, tok, (gas, tok)) /\ by_key gas /\ by_key tok.
Proof. intros prev gfreq feeinfo tfreq tokeninfo feedchain F dest roles known aos o H. unfold pplugh_ok in H. cbn [snd] in H. now apply pplug_sound_order in H. Qed.

(* ---------- cfh / tph: the Outcome result and the prices handed to the next round ---------- *)
Lemma cfh_sound_order : forall prev freq feeinfo F dest roles known aos vs r car,
  cfh_ok (prev, (freq, feeinfo, F, dest, roles, known, aos)) (vs, r, car) = true ->
  by_key car /\ forall out, r = Ok out -> by_key out.
Proof.
  intros prev freq feeinfo F dest roles known aos vs r car H. unfold cfh_ok in H. cbn [snd] in H.
  rewrite !andb_true_iff in H. destruct H as [[[Hcf _] _] Hc]. split; [now apply asc_by_key|].
  intros out E. exact (cf_sound_order _ _ _ _ _ _ _ (vs, r) out Hcf E).
Qed.

Lemma tph_sound_order : forall prev freq tokeninfo feedchain F dest roles known aos vs r car,
  tph_ok (prev, (freq, tokeninfo, feedchain, F, dest, roles, known, aos)) (vs, r, car) = true ->
  by_key car /\ forall out, r = Ok out -> by_key out.
Proof.
  intros prev freq tokeninfo feedchain F dest roles known aos vs r car H. unfold tph_ok in H. cbn [snd] in H.
  rewrite !andb_true_iff in H. destruct H as [[[Htp _] _] Hc]. split; [now apply asc_by_key|].
  intros out E. exact (tp_sound_order _ _ _ _ _ _ _ _ (vs, r) out Htp E).
Qed.

(* ---------- the hypotheses are satisfiable by outputs with two keys; the same prices in the other order are rejected
   (observations list chain 6 / token 18 FIRST: the order is the processors' sort, not the input order) ---------- *)
Definition ord_cf_raw : cf_raw :=
  mkCfRaw [(6%N, (Some 40000000000, Some 3000000)%Z); (5%N, (Some 30000000000, Some 1000000)%Z)]
          [(6%N, Some 1000000000000000000000%Z); (5%N, Some 2000000000000000000000%Z)]
          [] [(9%N, 1%Z); (6%N, 1%Z); (5%N, 1%Z)] 100%Z.
Definition ord_cf_in : cf_in :=
  (60%Z, [(5%N, (1000000, 1000000)%Z)], 1%Z, 9%N,
   [(5%N, [0; 1; 2; 3]%N); (6%N, [0; 1; 2; 3]%N); (9%N, [0; 1; 2; 3]%N)], [0; 1; 2; 3]%N,
   map (fun o => (o, ord_cf_raw)) [0; 1; 2; 3]%N).
Definition ord_g5 : N * Z := (5%N, 10384593717069655257060992658500192000000000%Z).
Definition ord_g6 : N * Z := (6%N, 15576890575604482885591488987700288000000000%Z).
Definition ord_tp_raw (p q : Z) : tp_raw :=
  mkTpRaw [(18%N, Some q); (17%N, Some p)] [] [(9%N, 1%Z); (5%N, 1%Z)] 100%Z.
Definition ord_tp_in : tp_in :=
  (60%Z, [(17%N, 1000000%Z)], 5%N, 1%Z, 9%N, [(5%N, [0; 1; 2; 3]%N); (9%N, [0; 1; 2; 3]%N)], [0; 1; 2; 3]%N,
   [(0%N, ord_tp_raw 1001 77); (1%N, ord_tp_raw 1002 78); (2%N, ord_tp_raw 1003 79); (3%N, ord_tp_raw 5000000 80)]).
Definition ord_topf : list (N * Z) := [(9%N, 1%Z); (6%N, 1%Z); (5%N, 1%Z)].
Definition ord_pplug_in : pplug_in :=
  (60%Z, [(5%N, (1000000, 1000000)%Z)], 60%Z, [(17%N, 1000000%Z)], 5%N, 1%Z, 9%N,
   [(5%N, [0; 1; 2; 3]%N); (6%N, [0; 1; 2; 3]%N); (9%N, [0; 1; 2; 3]%N)], [0; 1; 2; 3]%N,
   [(0%N, (ord_cf_raw, ord_tp_raw 1001 77, ord_topf)); (1%N, (ord_cf_raw, ord_tp_raw 1002 78, ord_topf));
    (2%N, (ord_cf_raw, ord_tp_raw 1003 79, ord_topf)); (3%N, (ord_cf_raw, ord_tp_raw 5000000 80, ord_topf))]).
Definition ord_vs : list bool := [true; true; true; true].

Example cf_order_ex :
  cf_ok ord_cf_in (ord_vs, Ok [ord_g5; ord_g6]) = true /\ cf_ok ord_cf_in (ord_vs, Ok [ord_g6; ord_g5]) = false.
Proof. vm_compute. split; reflexivity. Qed.
Example tp_order_ex :
  tp_ok ord_tp_in (ord_vs, Ok [(17%N, 1003%Z); (18%N, 79%Z)]) = true /\
  tp_ok ord_tp_in (ord_vs, Ok [(18%N, 79%Z); (17%N, 1003%Z)]) = false.
Proof. vm_compute. split; reflexivity. Qed.
Example pplug_order_ex :
  let g := [ord_g5; ord_g6] in let t := [(17%N, 1003%Z); (18%N, 79%Z)] in
  pplug_ok ord_pplug_in (ord_vs, pp_out g t g t) = true /\
  pplug_ok ord_pplug_in (ord_vs, pp_out g t (rev g) t) = false /\
  pplug_ok ord_pplug_in (ord_vs, pp_out g t g (rev t)) = false /\
  pplug_ok ord_pplug_in (ord_vs, pp_out (rev g) (rev t) (rev g) (rev t)) = false /\
  pplugh_ok ([(7%N, 1%Z)], [(99%N, 5%Z)], ord_pplug_in) (ord_vs, pp_out g t g t) = true.
Proof. vm_compute. repeat split. Qed.
Example cfh_order_ex :
  cfh_ok ([(7%N, 1%Z)], ord_cf_in) (hist_o ord_vs (Ok [ord_g5; ord_g6]) [ord_g5; ord_g6]) = true /\
  cfh_ok ([(7%N, 1%Z)], ord_cf_in) (hist_o ord_vs (Ok [ord_g5; ord_g6]) [ord_g6; ord_g5]) = false.
Proof. vm_compute. split; reflexivity. Qed.
Example tph_order_ex :
  tph_ok ([(99%N, 5%Z)], ord_tp_in) (hist_o ord_vs (Ok [(17%N, 1003%Z); (18%N, 79%Z)]) [(17%N, 1003%Z); (18%N, 79%Z)]) = true /\
  tph_ok ([(99%N, 5%Z)], ord_tp_in) (hist_o ord_vs (Ok [(17%N, 1003%Z); (18%N, 79%Z)]) [(18%N, 79%Z); (17%N, 1003%Z)]) = false.
Proof. vm_compute. split; reflexivity. Qed.

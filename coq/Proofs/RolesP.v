(* RolesP.v — theorems about Model/Roles.v (C12: role checks of validation; C11: honest observe/validate pairs) *)
Require Import Verif.Model.Base Verif.Proofs.BaseP Verif.Model.Roles.
From Coq Require Import Btauto.

(* ---------- small boolean / list helpers ---------- *)
Lemma forallb_tag (P : fclass * N -> bool) c l : forallb P (tag c l) = forallb (fun x => P (c, x)) l.
Proof. unfold tag. induction l as [|x l IH]; cbn [map forallb]; [reflexivity| now rewrite IH]. Qed.

Lemma forallb_tag1 (P : fclass * N -> bool) c b ch : forallb P (tag1 c b ch) = (negb b || P (c, ch)).
Proof. unfold tag1. destruct b; cbn [forallb negb orb]; [now rewrite andb_true_r|reflexivity]. Qed.

Lemma forallb_map {A B} (f : A -> B) (P : B -> bool) l : forallb P (map f l) = forallb (fun x => P (f x)) l.
Proof. induction l as [|x l IH]; cbn [map forallb]; [reflexivity| now rewrite IH]. Qed.

Lemma forallb_ext_in {A} (P Q : A -> bool) l : (forall x, In x l -> P x = Q x) -> forallb P l = forallb Q l.
Proof.
  induction l as [|x l IH]; intros H; cbn [forallb]; [reflexivity|].
  rewrite (H x (or_introl eq_refl)), IH; [reflexivity|]. intros y Hy. apply H. now right.
Qed.

Lemma forallb_flat_map {A B} (f : A -> list B) (P : B -> bool) l :
  forallb P (flat_map f l) = forallb (fun x => forallb P (f x)) l.
Proof. induction l as [|x l IH]; cbn [flat_map forallb]; [reflexivity| now rewrite forallb_app, IH]. Qed.

Lemma forallb_In {A} (P : A -> bool) l x : forallb P l = true -> In x l -> P x = true.
Proof. intros H. rewrite forallb_forall in H. apply H. Qed.

Lemma forallb_false_In {A} (P : A -> bool) l x : In x l -> P x = false -> forallb P l = false.
Proof.
  intros Hin Hp. destruct (forallb P l) eqn:E; [|reflexivity].
  rewrite (forallb_In P l x E Hin) in Hp. discriminate.
Qed.

(* what a field must satisfy for validation: recorded (unchecked) classes pass, every other one needs the role *)
Definition field_pass (g : cfg) (o : N) (p : fclass * N) : bool := known_class (fst p) || reads g o (snd p).

Lemma designated_known g o c : known_oracle g o = true -> designated g o c = reads g o c.
Proof. intros H. unfold designated. now rewrite H. Qed.

(* ---------- discovery ---------- *)
Lemma disc_entry_factor g o e :
  validate_disc_entry g o e =
  (dname_own (fst e) || dname_dest (fst e)) &&
  forallb (field_pass g o)
    (if dname_own (fst e) then tag FDiscovered (snd e)
     else if dname_dest (fst e) then [(FDiscovered, c_dest g)] else []).
Proof.
  unfold validate_disc_entry. destruct (dname_own (fst e)); cbn [orb andb].
  - rewrite forallb_tag. reflexivity.
  - destruct (dname_dest (fst e)); cbn [andb forallb]; [|reflexivity].
    unfold field_pass. cbn [fst snd known_class orb]. now rewrite andb_true_r.
Qed.

Lemma disc_factor g o d :
  forallb (validate_disc_entry g o) d = wf_disc d && forallb (field_pass g o) (dfields g d).
Proof.
  unfold wf_disc, dfields. rewrite forallb_flat_map.
  induction d as [|e d IH]; cbn [forallb]; [reflexivity|].
  rewrite IH, disc_entry_factor.
  destruct (dname_own (fst e) || dname_dest (fst e)); cbn [andb]; [|reflexivity].
  destruct (forallb (field_pass g o) _); cbn [andb]; [reflexivity|].
  now rewrite andb_false_r.
Qed.

(* ---------- factorisation of commit validation:
   verdict = observer known /\ destination configured /\ role-independent well-formedness /\ every field outside the
   recorded classes is about a chain the observer reads ---------- *)
Lemma supports_dest_known g o :
  known_oracle g o = true -> dest_configured g = true ->
  supports_dest g o = Some (reads g o (c_dest g)).
Proof.
  unfold supports_dest, dest_configured, reads. intros Hk Hd.
  destruct (alookup (c_dest g) (c_chains g)) as [[f ns]|]; [|discriminate]. now rewrite Hk.
Qed.

Lemma supports_dest_none g o :
  known_oracle g o = true -> dest_configured g = false -> supports_dest g o = None.
Proof.
  unfold supports_dest, dest_configured. intros _ Hd.
  destruct (alookup (c_dest g) (c_chains g)) as [[f ns]|]; [discriminate|reflexivity].
Qed.

Lemma validate_keyed_factor rd l : validate_keyed rd l = nodupb N.eqb l && forallb rd l.
Proof. unfold validate_keyed. apply andb_comm. Qed.

Theorem validate_commit_factor g retry o ob :
  validate_commit g retry o ob =
  known_oracle g o && dest_configured g && wf_commit retry ob && forallb (field_pass g o) (cfields g ob).
Proof.
  destruct ob as [m t f d fc]. destruct m as [roots onr offr rmn mfc]. destruct t as [feed fq tfc].
  destruct f as [comp nat upd ffc].
  unfold validate_commit, wf_commit, cfields, validate_merkle, validate_token, validate_chainfee, validate_discovery.
  cbn [co_m co_t co_f co_d co_fchain m_roots m_onramp m_offramp m_rmn m_fchain t_feed t_fq t_fchain
       f_comp f_native f_upd f_fchain].
  destruct (known_oracle g o) eqn:Hk; cbn [negb andb];
    [| destruct (fchain_ok fc); cbn [andb]; [|reflexivity];
       destruct (retry && negb _); [reflexivity|]; destruct (negb (fchain_ok mfc)); reflexivity ].
  destruct (dest_configured g) eqn:Hd; cbn [andb].
  2:{ rewrite (supports_dest_none g o Hk Hd).
      destruct (fchain_ok fc); cbn [andb]; [|reflexivity].
      destruct (retry && negb _); [reflexivity|]. destruct (negb (fchain_ok mfc)); reflexivity. }
  rewrite (supports_dest_known g o Hk Hd).
  rewrite !forallb_app, !forallb_tag, !forallb_tag1, !forallb_map, disc_factor.
  unfold field_pass. cbn [fst snd known_class orb].
  change (fun x : N => reads g o x) with (reads g o).
  rewrite !validate_keyed_factor. unfold validate_offramp, validate_rmn.
  destruct (retry && negb (mobs_empty _)); cbn [negb]; [btauto|].
  destruct (fchain_ok mfc); cbn [negb]; [|btauto].
  destruct offr as [|x offr]; cbn [is_nil]; [cbn [nodupb]|]; btauto.
Qed.

(* ---------- factorisation of execute validation ---------- *)
Lemma eligibility_factor g o msgs :
  validate_eligibility g o msgs = forallb (reads g o) (nonempty_keys msgs).
Proof.
  unfold validate_eligibility, nonempty_keys.
  induction msgs as [|[c n] msgs IH]; cbn [forallb filter map fst snd]; [reflexivity|].
  rewrite IH. destruct (N.eqb n 0); cbn [negb orb map forallb fst]; reflexivity.
Qed.

Theorem validate_exec_factor g o ob :
  validate_exec g o ob =
  known_oracle g o && wf_exec ob && forallb (field_pass g o) (efields g ob) && chains_known g ob.
Proof.
  unfold validate_exec. set (CK := chains_known g ob). clearbody CK.
  destruct ob as [cr msgs kok tk costly nonces d].
  unfold validate_exec, validate_data_eligibility, wf_exec, efields, validate_discovery.
  cbn [e_commit e_msgs e_keys_ok e_tokens e_costly e_nonces e_d].
  rewrite !forallb_app, !forallb_tag, !forallb_tag1, disc_factor, !eligibility_factor.
  unfold field_pass. cbn [fst snd known_class orb].
  change (fun x : N => reads g o x) with (reads g o).
  btauto.
Qed.

(* ---------- C12: a field outside the recorded classes about a chain the observer is not designated for
   rejects the whole observation ---------- *)
Lemma field_pass_false g o cl c :
  known_oracle g o = true -> known_class cl = false -> designated g o c = false -> field_pass g o (cl, c) = false.
Proof.
  intros Hk Hc Hd. unfold field_pass. cbn [fst snd]. rewrite Hc. cbn [orb].
  now rewrite <- (designated_known g o c Hk).
Qed.

Lemma commit_reject_field g retry o ob cl c :
  In (cl, c) (cfields g ob) -> known_class cl = false -> designated g o c = false ->
  validate_commit g retry o ob = false.
Proof.
  intros Hin Hc Hd. rewrite validate_commit_factor.
  destruct (known_oracle g o) eqn:Hk; [|reflexivity].
  rewrite (forallb_false_In _ _ _ Hin (field_pass_false g o cl c Hk Hc Hd)). now rewrite andb_false_r.
Qed.

Lemma exec_reject_field g o ob cl c :
  In (cl, c) (efields g ob) -> known_class cl = false -> designated g o c = false ->
  validate_exec g o ob = false.
Proof.
  intros Hin Hc Hd. rewrite validate_exec_factor.
  destruct (known_oracle g o) eqn:Hk; [|reflexivity].
  rewrite (forallb_false_In _ _ _ Hin (field_pass_false g o cl c Hk Hc Hd)). now rewrite andb_false_r.
Qed.

Lemma in_tag c x l : In x l -> In (c, x) (tag c l).
Proof. intros H. unfold tag. now apply (in_map (fun y => (c, y))). Qed.
Lemma in_tag1 c b ch : b = true -> In (c, ch) (tag1 c b ch).
Proof. intros ->. now left. Qed.
Lemma not_nil_true {A} (l : list A) : l <> [] -> negb (is_nil l) = true.
Proof. destruct l; [congruence|reflexivity]. Qed.

Ltac in_apps := repeat first [ apply in_or_app; left; solve [in_apps_leaf] | apply in_or_app; right ]
with in_apps_leaf := first [ apply in_tag; assumption | apply in_tag1; assumption ].

Section CommitClasses.
  Variables (g : cfg) (retry : bool) (o : N) (ob : cobs).
  Let V := validate_commit g retry o ob.

  Theorem reject_merkle_roots c :
    In c (m_roots (co_m ob)) -> designated g o c = false -> V = false.
  Proof.
    intros Hin. apply (commit_reject_field g retry o ob FRoots c); [|reflexivity].
    unfold cfields. apply in_or_app; left. now apply in_tag.
  Qed.

  Theorem reject_onramp_seqnums c :
    In c (m_onramp (co_m ob)) -> designated g o c = false -> V = false.
  Proof.
    intros Hin. apply (commit_reject_field g retry o ob FOnRamp c); [|reflexivity].
    unfold cfields. apply in_or_app; right. apply in_or_app; left. now apply in_tag.
  Qed.

  Theorem reject_offramp_seqnums :
    m_offramp (co_m ob) <> [] -> designated g o (c_dest g) = false -> V = false.
  Proof.
    intros Hne. apply (commit_reject_field g retry o ob FOffRamp (c_dest g)); [|reflexivity].
    unfold cfields. do 2 (apply in_or_app; right). apply in_or_app; left. apply in_tag1. now apply not_nil_true.
  Qed.

  Theorem reject_rmn_remote_config :
    rmn_empty (m_rmn (co_m ob)) = false -> designated g o (c_dest g) = false -> V = false.
  Proof.
    intros Hne. apply (commit_reject_field g retry o ob FRmnCfg (c_dest g)); [|reflexivity].
    unfold cfields. do 3 (apply in_or_app; right). apply in_or_app; left. apply in_tag1. now rewrite Hne.
  Qed.

  Theorem reject_fee_components c :
    In c (map fst (f_comp (co_f ob))) -> designated g o c = false -> V = false.
  Proof.
    intros Hin. apply (commit_reject_field g retry o ob FFeeComp c); [|reflexivity].
    unfold cfields. do 6 (apply in_or_app; right). apply in_or_app; left. now apply in_tag.
  Qed.

  Theorem reject_native_prices c :
    In c (map fst (f_native (co_f ob))) -> designated g o c = false -> V = false.
  Proof.
    intros Hin. apply (commit_reject_field g retry o ob FNative c); [|reflexivity].
    unfold cfields. do 7 (apply in_or_app; right). apply in_or_app; left. now apply in_tag.
  Qed.

  Theorem reject_feed_prices :
    t_feed (co_t ob) <> [] -> designated g o (c_feed g) = false -> V = false.
  Proof.
    intros Hne. apply (commit_reject_field g retry o ob FFeedPrice (c_feed g)); [|reflexivity].
    unfold cfields. do 4 (apply in_or_app; right). apply in_or_app; left. apply in_tag1. now apply not_nil_true.
  Qed.

  Theorem reject_fq_token_updates :
    t_fq (co_t ob) <> [] -> designated g o (c_dest g) = false -> V = false.
  Proof.
    intros Hne. apply (commit_reject_field g retry o ob FFqUpdate (c_dest g)); [|reflexivity].
    unfold cfields. do 5 (apply in_or_app; right). apply in_or_app; left. apply in_tag1. now apply not_nil_true.
  Qed.

  Theorem reject_chain_fee_updates :
    f_upd (co_f ob) <> [] -> designated g o (c_dest g) = false -> V = false.
  Proof.
    intros Hne. apply (commit_reject_field g retry o ob FChainFeeUpd (c_dest g)); [|reflexivity].
    unfold cfields. do 8 (apply in_or_app; right). apply in_or_app; left. apply in_tag1. now apply not_nil_true.
  Qed.
End CommitClasses.

(* discovered addresses: a FeeQuoter / Router address is data of the chain it is filed under, the other four
   contracts are read on the destination *)
Definition disc_about (g : cfg) (d : dobs) (c : N) : Prop :=
  exists n chains, In (n, chains) d /\
    ((dname_own n = true /\ In c chains) \/ (dname_own n = false /\ dname_dest n = true /\ c = c_dest g)).

Lemma disc_about_in g d c : disc_about g d c -> In (FDiscovered, c) (dfields g d).
Proof.
  intros [n [chains [Hin H]]]. unfold dfields. apply in_flat_map. exists (n, chains). split; [exact Hin|].
  cbn [fst snd]. destruct H as [[Ho Hc]|[Ho [Hd ->]]]; rewrite Ho.
  - now apply in_tag.
  - rewrite Hd. now left.
Qed.

Theorem reject_discovered_commit g retry o ob c :
  disc_about g (co_d ob) c -> designated g o c = false -> validate_commit g retry o ob = false.
Proof.
  intros H. apply (commit_reject_field g retry o ob FDiscovered c); [|reflexivity].
  unfold cfields. do 9 (apply in_or_app; right). now apply disc_about_in.
Qed.

Theorem reject_messages g o ob c n :
  In (c, n) (e_msgs ob) -> n <> 0%N -> designated g o c = false -> validate_exec g o ob = false.
Proof.
  intros Hin Hn. apply (exec_reject_field g o ob FMessages c); [|reflexivity].
  unfold efields. apply in_or_app; left. apply in_tag. unfold nonempty_keys.
  change c with (fst (c, n)). apply in_map. apply filter_In. split; [exact Hin|].
  cbn [snd]. destruct (N.eqb_spec n 0); [contradiction|reflexivity].
Qed.

Theorem reject_discovered_exec g o ob c :
  disc_about g (e_d ob) c -> designated g o c = false -> validate_exec g o ob = false.
Proof.
  intros H. apply (exec_reject_field g o ob FDiscovered c); [|reflexivity].
  unfold efields. do 5 (apply in_or_app; right). now apply disc_about_in.
Qed.

(* ---------- accepted observations: every field outside the recorded classes comes from a designated observer ---------- *)
Theorem commit_accepted_designated g retry o ob :
  validate_commit g retry o ob = true ->
  forall cl c, In (cl, c) (cfields g ob) -> known_class cl = false -> designated g o c = true.
Proof.
  intros Hv cl c Hin Hc. destruct (designated g o c) eqn:E; [reflexivity|].
  rewrite (commit_reject_field g retry o ob cl c Hin Hc E) in Hv. discriminate.
Qed.

Theorem exec_accepted_designated g o ob :
  validate_exec g o ob = true ->
  forall cl c, In (cl, c) (efields g ob) -> known_class cl = false -> designated g o c = true.
Proof.
  intros Hv cl c Hin Hc. destruct (designated g o c) eqn:E; [reflexivity|].
  rewrite (exec_reject_field g o ob cl c Hin Hc E) in Hv. discriminate.
Qed.

(* ---------- C12_accept: role-conformant, otherwise well-formed observations are accepted ---------- *)
Lemma fields_pass_designated g o fs :
  known_oracle g o = true ->
  (forall cl c, In (cl, c) fs -> designated g o c = true) -> forallb (field_pass g o) fs = true.
Proof.
  intros Hk H. apply forallb_forall. intros [cl c] Hin. unfold field_pass. cbn [fst snd].
  rewrite <- (designated_known g o c Hk), (H cl c Hin). apply orb_true_r.
Qed.

Theorem accept_commit g retry o ob :
  known_oracle g o = true -> dest_configured g = true -> wf_commit retry ob = true ->
  (forall cl c, In (cl, c) (cfields g ob) -> designated g o c = true) ->
  validate_commit g retry o ob = true.
Proof.
  intros Hk Hd Hw H. rewrite validate_commit_factor, Hk, Hd, Hw. cbn [andb].
  now apply fields_pass_designated.
Qed.

Theorem accept_exec g o ob :
  known_oracle g o = true -> wf_exec ob = true -> chains_known g ob = true ->
  (forall cl c, In (cl, c) (efields g ob) -> designated g o c = true) ->
  validate_exec g o ob = true.
Proof.
  intros Hk Hw Hck H. rewrite validate_exec_factor, Hk, Hw, Hck. cbn [andb]. rewrite andb_true_r.
  now apply fields_pass_designated.
Qed.

(* ---------- witnesses ---------- *)
(* oracles 0..3; destination 9 and feed chain 7 read by 0,1,2; source 5 read by everybody; oracle 3 reads only 5 *)
Definition g_ex : cfg :=
  mkCfg [0; 1; 2; 3]%N [(9, (1%Z, [0; 1; 2])); (5, (1%Z, [0; 1; 2; 3])); (7, (1%Z, [0; 1; 2]))]%N 9%N 7%N.
Definition fc_ex : list (N * Z) := [(9, 1%Z); (5, 1%Z); (7, 1%Z)]%N.
Definition mobs0 : mobs := mkMobs [] [] [] rmn_none [].
Definition tobs0 : tobs := mkTobs [] [] [].
Definition fobs0 : fobs := mkFobs [] [] [] [].
Definition cobs0 : cobs := mkCobs mobs0 tobs0 fobs0 [] [].
Definition eobs0 : eobs := mkEobs [] [] true [] 0 [] [].
Definition rmn_ex : rmncfg := mkRmn false false [(false, 0%N); (false, 1%N)] 1 false false.

(* a full observation by oracle 0 (reads every chain): hypotheses of accept_commit / accept_exec are satisfiable *)
Definition cobs_full : cobs :=
  mkCobs (mkMobs [5%N] [5%N] [5%N] rmn_ex fc_ex)
         (mkTobs [(1%N, false); (2%N, false)] [1%N] fc_ex)
         (mkFobs [(5%N, (Some 3%Z, Some 0%Z)); (9%N, (Some 1%Z, Some 2%Z))] [(5%N, Some 7%Z)] [5%N] fc_ex)
         [(0%N, [5%N]); (2%N, [9%N]); (4%N, [5%N; 9%N]); (5%N, [9%N])] fc_ex.
Definition eobs_full : eobs :=
  mkEobs [(5%N, [mkCdata 1 1 4 [2%N]; mkCdata 2 5 8 []])] [(5%N, 3%N)] true [(5%N, 3%N)] 1 [(5%N, 2%N)]
         [(0%N, [5%N]); (5%N, [9%N])].

Example accept_commit_example :
  known_oracle g_ex 0 = true /\ dest_configured g_ex = true /\ wf_commit false cobs_full = true /\
  forallb (fun p => designated g_ex 0 (snd p)) (cfields g_ex cobs_full) = true /\
  length (cfields g_ex cobs_full) = 15%nat /\ validate_commit g_ex false 0 cobs_full = true.
Proof. vm_compute. repeat split. Qed.

Example accept_exec_example :
  known_oracle g_ex 0 = true /\ wf_exec eobs_full = true /\ chains_known g_ex eobs_full = true /\
  forallb (fun p => designated g_ex 0 (snd p)) (efields g_ex eobs_full) = true /\
  length (efields g_ex eobs_full) = 7%nat /\ validate_exec g_ex 0 eobs_full = true.
Proof. vm_compute. repeat split. Qed.

(* the reject theorems are not vacuous: the same observation sent by oracle 3 (reads only chain 5) is rejected,
   and each checked class on its own is enough *)
Example reject_examples :
  designated g_ex 3 9 = false /\
  validate_commit g_ex false 3 cobs_full = false /\
  validate_commit g_ex false 3 (mkCobs (mkMobs [9%N] [] [] rmn_none []) tobs0 fobs0 [] []) = false /\
  validate_commit g_ex false 3 (mkCobs (mkMobs [] [] [5%N] rmn_none []) tobs0 fobs0 [] []) = false /\
  validate_commit g_ex false 3 (mkCobs mobs0 tobs0 (mkFobs [] [(9%N, Some 1%Z)] [] []) [] []) = false /\
  validate_commit g_ex false 3 (mkCobs mobs0 tobs0 fobs0 [(3%N, [9%N])] []) = false /\
  validate_commit g_ex false 3 (mkCobs (mkMobs [5%N] [5%N] [] rmn_none fc_ex) tobs0 fobs0 [(4%N, [5%N])] fc_ex) = true /\
  validate_exec g_ex 3 (mkEobs [] [(9%N, 1%N)] true [] 0 [] []) = false /\
  validate_exec g_ex 3 (mkEobs [] [(9%N, 0%N); (5%N, 2%N)] true [] 0 [] []) = true.
Proof. vm_compute. repeat split. Qed.

(* ---------- refuted classes: the current code accepts them from a non-designated observer ---------- *)
Definition class_refuted_commit (cl : fclass) : Prop :=
  exists g retry o ob c, In (cl, c) (cfields g ob) /\ designated g o c = false /\ validate_commit g retry o ob = true.
Definition class_refuted_exec (cl : fclass) : Prop :=
  exists g o ob c, In (cl, c) (efields g ob) /\ designated g o c = false /\ validate_exec g o ob = true.

(* before the repairs of F05 (second half) and F06 the commit plugin accepted these three classes *)
Definition class_refuted_commit_unfixed (cl : fclass) : Prop :=
  exists g retry o ob c, In (cl, c) (cfields g ob) /\ designated g o c = false /\
                         validate_commit_unfixed g retry o ob = true.

Theorem feed_prices_unfixed_refuted : class_refuted_commit_unfixed FFeedPrice.
Proof.
  exists g_ex, false, 3%N, (mkCobs mobs0 (mkTobs [(1%N, false)] [] []) fobs0 [] fc_ex), 7%N.
  vm_compute. repeat split. now left.
Qed.

Theorem fq_token_updates_unfixed_refuted : class_refuted_commit_unfixed FFqUpdate.
Proof.
  exists g_ex, false, 3%N, (mkCobs mobs0 (mkTobs [] [1%N] []) fobs0 [] fc_ex), 9%N.
  vm_compute. repeat split. now left.
Qed.

Theorem chain_fee_updates_unfixed_refuted : class_refuted_commit_unfixed FChainFeeUpd.
Proof.
  exists g_ex, false, 3%N, (mkCobs mobs0 tobs0 (mkFobs [] [] [5%N] fc_ex) [] fc_ex), 9%N.
  vm_compute. repeat split. now left.
Qed.

Theorem commit_reports_refuted : class_refuted_exec FCommitReports.
Proof.
  exists g_ex, 3%N, (mkEobs [(5%N, [mkCdata 1 1 4 []])] [] true [] 0 [] []), 9%N.
  vm_compute. repeat split. now left.
Qed.

(* before the repair of F07 the execute plugin accepted nonces, token data and costly flags from anybody *)
Definition class_refuted_exec_unfixed (cl : fclass) : Prop :=
  exists g o ob c, In (cl, c) (efields g ob) /\ designated g o c = false /\ validate_exec_unfixed g o ob = true.

Theorem nonces_unfixed_refuted : class_refuted_exec_unfixed FNonces.
Proof.
  exists g_ex, 3%N, (mkEobs [] [] true [] 0 [(5%N, 1%N)] []), 9%N.
  vm_compute. repeat split. now left.
Qed.

Theorem token_data_unfixed_refuted : class_refuted_exec_unfixed FTokenData.
Proof.
  exists g_ex, 3%N, (mkEobs [] [] true [(9%N, 1%N)] 0 [] []), 9%N.
  vm_compute. repeat split. now left.
Qed.

Theorem costly_flags_unfixed_refuted : class_refuted_exec_unfixed FCostly.
Proof.
  exists g_ex, 3%N, (mkEobs [] [] true [] 2 [] []), 9%N.
  vm_compute. repeat split. now left.
Qed.

Theorem reject_nonces g o ob c n :
  In (c, n) (e_nonces ob) -> n <> 0%N -> designated g o (c_dest g) = false -> validate_exec g o ob = false.
Proof.
  intros Hin Hn. apply (exec_reject_field g o ob FNonces (c_dest g)); [|reflexivity].
  unfold efields. do 2 (apply in_or_app; right). apply in_or_app; left. apply in_tag1.
  assert (Hk : In c (nonempty_keys (e_nonces ob))).
  { unfold nonempty_keys. change c with (fst (c, n)). apply in_map. apply filter_In. split; [exact Hin|].
    cbn [snd]. destruct (N.eqb_spec n 0); [contradiction|reflexivity]. }
  destruct (nonempty_keys (e_nonces ob)); [contradiction|reflexivity].
Qed.

Theorem reject_token_data g o ob c n :
  In (c, n) (e_tokens ob) -> n <> 0%N -> designated g o c = false -> validate_exec g o ob = false.
Proof.
  intros Hin Hn. apply (exec_reject_field g o ob FTokenData c); [|reflexivity].
  unfold efields. do 3 (apply in_or_app; right). apply in_or_app; left. apply in_tag. unfold nonempty_keys.
  change c with (fst (c, n)). apply in_map. apply filter_In. split; [exact Hin|].
  cbn [snd]. destruct (N.eqb_spec n 0); [contradiction|reflexivity].
Qed.

Theorem reject_costly_flags g o ob :
  e_costly ob <> 0%N -> designated g o (c_dest g) = false -> validate_exec g o ob = false.
Proof.
  intros Hn. apply (exec_reject_field g o ob FCostly (c_dest g)); [|reflexivity].
  unfold efields. do 4 (apply in_or_app; right). apply in_or_app; left. apply in_tag1.
  destruct (N.eqb_spec (e_costly ob) 0); [contradiction|reflexivity].
Qed.

(* before the repair of F04 neither plugin validated discovered addresses *)
Theorem discovered_unfixed_refuted :
  (exists g retry o ob c, disc_about g (co_d ob) c /\ designated g o c = false /\
                          validate_commit_unfixed g retry o ob = true) /\
  (exists g o ob c, disc_about g (e_d ob) c /\ designated g o c = false /\ validate_exec_unfixed g o ob = true).
Proof.
  split.
  - exists g_ex, false, 3%N, (mkCobs mobs0 tobs0 fobs0 [(0%N, [5%N])] []), 9%N.
    split; [|vm_compute; split; reflexivity].
    exists 0%N, [5%N]. split; [now left|]. right. vm_compute. repeat split.
  - exists g_ex, 3%N, (mkEobs [] [] true [] 0 [] [(3%N, [9%N])]), 9%N.
    split; [|vm_compute; split; reflexivity].
    exists 3%N, [9%N]. split; [now left|]. right. vm_compute. repeat split.
Qed.

(* before the repair of F05 (first half) a role-conformant observation was rejected on role grounds: the
   token-price FChain (home-chain data every oracle reports) had to list only chains the observer reads *)
Theorem accept_commit_unfixed_refuted :
  exists g retry o ob,
    known_oracle g o = true /\ dest_configured g = true /\ wf_commit retry ob = true /\
    (forall cl c, In (cl, c) (cfields g ob) -> designated g o c = true) /\
    validate_commit_unfixed g retry o ob = false.
Proof.
  exists g_ex, false, 3%N, (mkCobs (mkMobs [] [5%N] [] rmn_none fc_ex) (mkTobs [] [] fc_ex) fobs0 [] fc_ex).
  repeat split; try (vm_compute; reflexivity).
  intros cl c Hin. vm_compute in Hin. destruct Hin as [Hin|[]]. inversion Hin; subst. vm_compute. reflexivity.
Qed.

(* ---------- the executable form of C12 used by the correspondence check (evaluated on the implementation's verdict) ---------- *)
Definition bad_fields (g : cfg) (o : N) (fs : list (fclass * N)) : list (fclass * N) :=
  filter (fun p => negb (designated g o (snd p))) fs.

(* v = verdict returned by the implementation *)
Definition commit_prop_check (g : cfg) (retry : bool) (o : N) (ob : cobs) (v : bool) : bool :=
  if is_nil (bad_fields g o (cfields g ob))
  then (if known_oracle g o && dest_configured g && wf_commit retry ob then v else true)
  else negb v.
Definition exec_prop_check (g : cfg) (o : N) (ob : eobs) (v : bool) : bool :=
  if is_nil (bad_fields g o (efields g ob))
  then (if known_oracle g o && wf_exec ob && chains_known g ob then v else true)
  else negb v.
(* 0, or the code of the recorded class when every non-designated field belongs to a recorded class *)
Definition known_code (bad : list (fclass * N)) : N :=
  if existsb (fun p => negb (known_class (fst p))) bad then 0%N
  else match bad with [] => 0%N | p :: _ => fclass_code (fst p) end.

Lemma bad_nil_iff g o fs :
  is_nil (bad_fields g o fs) = true <-> (forall cl c, In (cl, c) fs -> designated g o c = true).
Proof.
  unfold bad_fields. split.
  - intros H cl c Hin. destruct (designated g o c) eqn:E; [reflexivity|].
    assert (Hf : In (cl, c) (filter (fun p => negb (designated g o (snd p))) fs)).
    { apply filter_In. split; [exact Hin|]. cbn [snd]. now rewrite E. }
    destruct (filter _ fs); [contradiction|discriminate].
  - intros H. destruct (filter _ fs) as [|[cl c] l] eqn:E; [reflexivity|].
    assert (Hf : In (cl, c) (filter (fun p => negb (designated g o (snd p))) fs)) by (rewrite E; now left).
    apply filter_In in Hf. destruct Hf as [Hin Hb]. cbn [snd] in Hb. rewrite (H cl c Hin) in Hb. discriminate.
Qed.

Theorem commit_prop_check_sound g retry o ob v :
  commit_prop_check g retry o ob v = true ->
  ((exists cl c, In (cl, c) (cfields g ob) /\ designated g o c = false) -> v = false) /\
  (known_oracle g o = true -> dest_configured g = true -> wf_commit retry ob = true ->
   (forall cl c, In (cl, c) (cfields g ob) -> designated g o c = true) -> v = true).
Proof.
  unfold commit_prop_check. intros H. split.
  - intros [cl [c [Hin Hd]]].
    destruct (is_nil (bad_fields g o (cfields g ob))) eqn:E.
    + rewrite (proj1 (bad_nil_iff g o _) E cl c Hin) in Hd. discriminate.
    + now destruct v.
  - intros Hk Hd Hw Hall. rewrite (proj2 (bad_nil_iff g o _) Hall), Hk, Hd, Hw in H. exact H.
Qed.

Theorem exec_prop_check_sound g o ob v :
  exec_prop_check g o ob v = true ->
  ((exists cl c, In (cl, c) (efields g ob) /\ designated g o c = false) -> v = false) /\
  (known_oracle g o = true -> wf_exec ob = true -> chains_known g ob = true ->
   (forall cl c, In (cl, c) (efields g ob) -> designated g o c = true) -> v = true).
Proof.
  unfold exec_prop_check. intros H. split.
  - intros [cl [c [Hin Hd]]].
    destruct (is_nil (bad_fields g o (efields g ob))) eqn:E.
    + rewrite (proj1 (bad_nil_iff g o _) E cl c Hin) in Hd. discriminate.
    + now destruct v.
  - intros Hk Hw Hck Hall. rewrite (proj2 (bad_nil_iff g o _) Hall), Hk, Hw, Hck in H. exact H.
Qed.

(* outside the recorded classes the model itself satisfies the executable property *)
Lemma known_code_zero_inv bad :
  known_code bad = 0%N -> bad = [] \/ exists cl c, In (cl, c) bad /\ known_class cl = false.
Proof.
  unfold known_code. destruct (existsb _ bad) eqn:E.
  - intros _. right. apply existsb_exists in E. destruct E as [[cl c] [Hin Hb]].
    exists cl, c. split; [exact Hin|]. cbn [fst] in Hb. now destruct (known_class cl).
  - destruct bad as [|[cl c] l]; [now left|]. cbn [fst]. destruct cl; cbn; discriminate.
Qed.

Theorem commit_prop_check_model g retry o ob :
  known_code (bad_fields g o (cfields g ob)) = 0%N ->
  commit_prop_check g retry o ob (validate_commit g retry o ob) = true.
Proof.
  intros Hk. unfold commit_prop_check. destruct (known_code_zero_inv _ Hk) as [Hnil|[cl [c [Hin Hc]]]].
  - rewrite Hnil. cbn [is_nil].
    destruct (known_oracle g o && dest_configured g && wf_commit retry ob) eqn:E; [|reflexivity].
    apply andb_true_iff in E. destruct E as [E Hw]. apply andb_true_iff in E. destruct E as [Hko Hd].
    apply accept_commit; try assumption. apply bad_nil_iff. now rewrite Hnil.
  - assert (Hne : is_nil (bad_fields g o (cfields g ob)) = false).
    { destruct (bad_fields g o (cfields g ob)); [contradiction|reflexivity]. }
    rewrite Hne. unfold bad_fields in Hin. apply filter_In in Hin. destruct Hin as [Hin Hb]. cbn [snd] in Hb.
    rewrite (commit_reject_field g retry o ob cl c Hin Hc); [reflexivity|]. now destruct (designated g o c).
Qed.

Theorem exec_prop_check_model g o ob :
  known_code (bad_fields g o (efields g ob)) = 0%N ->
  exec_prop_check g o ob (validate_exec g o ob) = true.
Proof.
  intros Hk. unfold exec_prop_check. destruct (known_code_zero_inv _ Hk) as [Hnil|[cl [c [Hin Hc]]]].
  - rewrite Hnil. cbn [is_nil].
    destruct (known_oracle g o && wf_exec ob && chains_known g ob) eqn:E; [|reflexivity].
    apply andb_true_iff in E. destruct E as [E Hck]. apply andb_true_iff in E. destruct E as [Hko Hw].
    apply accept_exec; try assumption. apply bad_nil_iff. now rewrite Hnil.
  - assert (Hne : is_nil (bad_fields g o (efields g ob)) = false).
    { destruct (bad_fields g o (efields g ob)); [contradiction|reflexivity]. }
    rewrite Hne. unfold bad_fields in Hin. apply filter_In in Hin. destruct Hin as [Hin Hb]. cbn [snd] in Hb.
    rewrite (exec_reject_field g o ob cl c Hin Hc); [reflexivity|]. now destruct (designated g o c).
Qed.

(* ====================================================================================================
   C11 — honest observations pass validation
   ==================================================================================================== *)
Lemma nodupb_filter (f : N -> bool) l : nodupb N.eqb l = true -> nodupb N.eqb (filter f l) = true.
Proof.
  induction l as [|x l IH]; cbn [nodupb filter]; [reflexivity|].
  intros H. apply andb_true_iff in H. destruct H as [Hx Hl].
  destruct (f x); cbn [nodupb]; [|now apply IH].
  rewrite (IH Hl), andb_true_r.
  destruct (existsb (N.eqb x) (filter f l)) eqn:E; [|reflexivity].
  apply existsb_exists in E. destruct E as [y [Hy He]]. apply filter_In in Hy.
  assert (Hex : existsb (N.eqb x) l = true) by (apply existsb_exists; exists y; tauto).
  rewrite Hex in Hx. discriminate.
Qed.

Lemma forallb_filter {A} (P f : A -> bool) l : forallb P l = true -> forallb P (filter f l) = true.
Proof.
  intros H. apply forallb_forall. intros x Hx. apply filter_In in Hx. exact (forallb_In P l x H (proj1 Hx)).
Qed.

Lemma forallb_filter_self {A} (f : A -> bool) l : forallb f (filter f l) = true.
Proof. apply forallb_forall. intros x Hx. apply filter_In in Hx. tauto. Qed.

Lemma role_reads g i c : In c (role g i) -> reads g i c = true.
Proof. unfold role. intros H. apply filter_In in H. tauto. Qed.

Lemma own_sources_reads g i c : In c (own_sources g i) -> reads g i c = true.
Proof. unfold own_sources. intros H. apply filter_In in H. apply role_reads. tauto. Qed.

Lemma supports_dest_true_reads g i : supports_dest g i = Some true -> reads g i (c_dest g) = true.
Proof.
  unfold supports_dest, reads. destruct (alookup (c_dest g) (c_chains g)) as [[f ns]|]; [|discriminate].
  destruct (known_oracle g i); [|discriminate]. now intros [= ->].
Qed.

Lemma map_fst_pairs {B} (b : B) (l : list N) : map fst (map (fun t => (t, b)) l) = l.
Proof. induction l as [|x l IH]; cbn [map fst]; [reflexivity| now rewrite IH]. Qed.

Section Honest.
  Variables (g : cfg) (i : N) (st : rstate).
  Hypothesis Hcfg : cfg_ok g i = true.
  Hypothesis Hval : values_ok st = true.

  Let Hk : known_oracle g i = true.
  Proof. pose proof Hcfg as H. unfold cfg_ok in H. repeat (apply andb_true_iff in H; destruct H as [H ?]). exact H. Qed.
  Let Hd : dest_configured g = true.
  Proof. pose proof Hcfg as H. unfold cfg_ok in H. repeat (apply andb_true_iff in H; destruct H as [H ?]). assumption. Qed.
  Let Hnd : nodupb N.eqb (home_chains g) = true.
  Proof. pose proof Hcfg as H. unfold cfg_ok in H. repeat (apply andb_true_iff in H; destruct H as [H ?]). assumption. Qed.
  Let Hfc : fchain_ok (home_fchain g) = true.
  Proof. pose proof Hcfg as H. unfold cfg_ok in H. repeat (apply andb_true_iff in H; destruct H as [H ?]). assumption. Qed.

  Lemma sd_reads : supports_dest g i = Some (reads g i (c_dest g)).
  Proof. now apply supports_dest_known. Qed.

  (* ---- discovery ---- *)
  Lemma insert_dest_reads hasd src c :
    (hasd = true -> reads g i (c_dest g) = true) -> (forall x, In x src -> reads g i x = true) ->
    In c (insert_dest hasd (c_dest g) src) -> reads g i c = true.
  Proof.
    intros Hh Hs. unfold insert_dest. destruct hasd; [|apply Hs].
    intros Hin. apply (Permutation_in _ (sortN_perm_self _)) in Hin.
    destruct Hin as [<-|Hin]; [now apply Hh| now apply Hs].
  Qed.

  Lemma dentry_pass n chains :
    (dname_own n = true /\ (forall c, In c chains -> reads g i c = true)) \/
    (dname_own n = false /\ dname_dest n = true /\ reads g i (c_dest g) = true) ->
    forallb (validate_disc_entry g i) (dentry n chains) = true.
  Proof.
    unfold dentry. destruct (is_nil chains); [reflexivity|]. cbn [forallb]. rewrite andb_true_r.
    unfold validate_disc_entry. cbn [fst snd]. intros [[Ho Hc]|[Ho [Hde Hr]]]; rewrite Ho.
    - apply forallb_forall. exact Hc.
    - now rewrite Hde.
  Qed.

  Lemma observe_disc_valid : validate_discovery g i (observe_disc g i st) = true.
  Proof.
    unfold validate_discovery. rewrite Hk. cbn [andb]. unfold observe_disc.
    destruct (reads g i (c_dest g) && rs_fail st K_DISC (c_dest g)); [reflexivity|].
    destruct (rs_init st && _); [reflexivity|].
    set (src := if rs_init st then own_sources g i else []).
    assert (Hsrc : forall x, In x src -> reads g i x = true).
    { subst src. destruct (rs_init st); [apply own_sources_reads| intros x []]. }
    rewrite !forallb_app. apply andb_true_iff. split; [|apply andb_true_iff; split].
    - destruct (reads g i (c_dest g)) eqn:Hr; [|reflexivity].
      rewrite forallb_app. apply andb_true_iff. split.
      + apply dentry_pass. right. repeat split; exact Hr.
      + cbn [forallb]. unfold validate_disc_entry. cbn [fst snd dname_own dname_dest N.eqb N.leb orb].
        cbn. now rewrite Hr.
    - apply dentry_pass. left. split; [reflexivity|]. intros c. apply insert_dest_reads; [tauto|exact Hsrc].
    - apply dentry_pass. left. split; [reflexivity|]. intros c. apply insert_dest_reads; [|exact Hsrc].
      intros H. apply andb_true_iff in H. tauto.
  Qed.

  (* ---- merkle ---- *)
  Lemma sources_nodup : nodupb N.eqb (sources g) = true.
  Proof. unfold sources. now apply nodupb_filter. Qed.

  Lemma observe_offramp_valid :
    validate_offramp (reads g i (c_dest g)) (observe_offramp g i st) = true.
  Proof.
    unfold validate_offramp, observe_offramp. rewrite sd_reads.
    destruct (reads g i (c_dest g)) eqn:Hr; [|reflexivity].
    destruct (rs_fail st K_CURSE (c_dest g)); [reflexivity|].
    destruct (rs_cursed_all st); [reflexivity|].
    destruct (rs_fail st K_NEXTSEQ (c_dest g)); [reflexivity|].
    destruct (forallb _ _); [|reflexivity].
    cbn [andb]. rewrite (nodupb_filter _ _ sources_nodup). apply orb_true_r.
  Qed.

  Lemma observe_onramp_valid : validate_keyed (reads g i) (observe_onramp g i st) = true.
  Proof.
    unfold validate_keyed, observe_onramp. destruct (existsb _ _); [reflexivity|].
    rewrite forallb_filter_self. cbn [andb]. apply nodupb_filter, sources_nodup.
  Qed.

  Lemma values_rmn : rmn_empty (rs_rmn st) || rmn_wellformed (rs_rmn st) = true.
  Proof. pose proof Hval as H. unfold values_ok in H. repeat (apply andb_true_iff in H; destruct H as [H ?]). exact H. Qed.
  Lemma values_ranges : nodupb N.eqb (rs_ranges st) = true.
  Proof. pose proof Hval as H. unfold values_ok in H. repeat (apply andb_true_iff in H; destruct H as [H ?]). assumption. Qed.
  Lemma values_tokens : nodupb N.eqb (rs_tokens st) = true.
  Proof. pose proof Hval as H. unfold values_ok in H. repeat (apply andb_true_iff in H; destruct H as [H ?]). assumption. Qed.
  Lemma values_comp : forallb (fun p => pos_z (fst (snd p)) && nonneg_z (snd (snd p))) (rs_comp st) = true.
  Proof. pose proof Hval as H. unfold values_ok in H. repeat (apply andb_true_iff in H; destruct H as [H ?]). assumption. Qed.
  Lemma values_native : forallb (fun p => Z.ltb 0 (snd p)) (rs_native st) = true.
  Proof. pose proof Hval as H. unfold values_ok in H. repeat (apply andb_true_iff in H; destruct H as [H ?]). assumption. Qed.
  Lemma values_reports : seqnums_ok (rs_reports st) = true.
  Proof. pose proof Hval as H. unfold values_ok in H. repeat (apply andb_true_iff in H; destruct H as [H ?]). assumption. Qed.
  Lemma values_pending : seqnums_ok (rs_pending st) = true.
  Proof. pose proof Hval as H. unfold values_ok in H. repeat (apply andb_true_iff in H; destruct H as [H ?]). assumption. Qed.

  Lemma observe_rmn_valid : validate_rmn (reads g i (c_dest g)) (observe_rmn g i st) = true.
  Proof.
    unfold validate_rmn, observe_rmn. destruct (reads g i (c_dest g)); [|reflexivity].
    destruct (rs_fail st K_RMN (c_dest g)); [reflexivity|]. cbn [andb]. exact values_rmn.
  Qed.

  Lemma observe_roots_valid : validate_keyed (reads g i) (observe_roots g i st) = true.
  Proof.
    unfold validate_keyed, observe_roots. apply andb_true_iff. split.
    - apply forallb_forall. intros c Hc. apply filter_In in Hc. destruct Hc as [_ Hc].
      apply andb_true_iff in Hc. tauto.
    - apply nodupb_filter, values_ranges.
  Qed.

  Lemma observe_merkle_valid phase retry :
    (retry = true -> phase = 1%N) -> validate_merkle g retry i (observe_merkle g i st phase retry) = true.
  Proof.
    intros Hr. unfold validate_merkle. rewrite Hk, sd_reads. cbn [negb].
    assert (Hnil : validate_keyed (reads g i) [] = true) by reflexivity.
    assert (Hoff0 : validate_offramp (reads g i (c_dest g)) [] = true) by reflexivity.
    assert (Hrmn0 : validate_rmn (reads g i (c_dest g)) rmn_none = true) by reflexivity.
    unfold observe_merkle.
    destruct (N.eqb_spec phase 0) as [->|H0].
    { destruct retry; [specialize (Hr eq_refl); discriminate|]. cbn [andb m_fchain m_roots m_onramp m_offramp m_rmn].
      rewrite Hfc. cbn [negb]. now rewrite Hnil, observe_onramp_valid, observe_offramp_valid, observe_rmn_valid. }
    destruct (N.eqb_spec phase 1) as [->|H1].
    { destruct retry; cbn [andb m_fchain m_roots m_onramp m_offramp m_rmn]; [reflexivity|].
      rewrite Hfc. cbn [negb]. now rewrite observe_roots_valid, Hnil, Hoff0, Hrmn0. }
    destruct retry; [specialize (Hr eq_refl); contradiction|]. cbn [andb].
    destruct (N.eqb_spec phase 2) as [->|H2]; cbn [m_fchain m_roots m_onramp m_offramp m_rmn].
    - rewrite Hfc. cbn [negb]. now rewrite Hnil, observe_offramp_valid, Hrmn0.
    - cbn [fchain_ok forallb negb]. now rewrite Hnil, Hoff0, Hrmn0.
  Qed.

  (* ---- token prices (after the repair of F05) ---- *)
  Lemma observe_token_valid : validate_token g i (observe_token g i st) = true.
  Proof.
    unfold validate_token, observe_token. destruct (is_nil (c_chains g)); [cbn; now rewrite Hk|].
    cbn [t_fchain t_feed t_fq]. rewrite Hfc, Hk. cbn [andb].
    assert (Hfq : is_nil (match supports_dest g i with
                          | Some true => if rs_fail st K_FQ (c_dest g) then [] else rs_fq st
                          | _ => [] end) || reads g i (c_dest g) = true).
    { rewrite sd_reads. destruct (reads g i (c_dest g)); [apply orb_true_r|reflexivity]. }
    rewrite Hfq, andb_true_r.
    destruct (reads g i (c_feed g)) eqn:Hrf; cbn [andb]; [|reflexivity].
    rewrite orb_true_r. cbn [andb].
    destruct (negb (rs_fail st K_FEED (c_feed g))); [|reflexivity].
    unfold validate_feed_prices. rewrite map_fst_pairs, values_tokens. cbn [andb].
    rewrite forallb_map. apply forallb_forall. reflexivity.
  Qed.

  (* ---- chain fee ---- *)
  Lemma observe_comp_keys c : In c (map fst (observe_comp g i st)) -> reads g i c = true.
  Proof.
    unfold observe_comp. intros H. apply in_map_iff in H. destruct H as [[c' v] [<- H]]. cbn [fst].
    apply in_flat_map in H. destruct H as [x [Hx H]]. destruct (alookup x (rs_comp st)); [|contradiction].
    destruct (rs_fail st K_FEECOMP x); [contradiction|]. destruct H as [[= <- _]|[]]. now apply role_reads.
  Qed.
  Lemma observe_comp_values :
    forallb (fun p => pos_z (fst (snd p)) && nonneg_z (snd (snd p))) (observe_comp g i st) = true.
  Proof.
    apply forallb_forall. intros [c v] H. unfold observe_comp in H.
    apply in_flat_map in H. destruct H as [x [Hx H]]. destruct (alookup x (rs_comp st)) as [v'|] eqn:E; [|contradiction].
    destruct (rs_fail st K_FEECOMP x); [contradiction|]. destruct H as [[= <- <-]|[]].
    exact (forallb_In _ _ _ values_comp (alookup_In _ _ _ E)).
  Qed.
  Lemma observe_native_keys c : In c (map fst (observe_native g i st)) -> reads g i c = true.
  Proof.
    unfold observe_native. intros H. apply in_map_iff in H. destruct H as [[c' v] [<- H]]. cbn [fst].
    apply in_flat_map in H. destruct H as [x [Hx H]]. destruct (alookup x (rs_native st)); [|contradiction].
    destruct (rs_fail st K_NATIVE x); [contradiction|]. destruct H as [[= <- _]|[]]. now apply role_reads.
  Qed.
  Lemma observe_native_values : forallb (fun p => pos_z (snd p)) (observe_native g i st) = true.
  Proof.
    apply forallb_forall. intros [c v] H. unfold observe_native in H.
    apply in_flat_map in H. destruct H as [x [Hx H]]. destruct (alookup x (rs_native st)) as [p|] eqn:E; [|contradiction].
    destruct (rs_fail st K_NATIVE x); [contradiction|]. destruct H as [[= <- <-]|[]].
    exact (forallb_In _ _ _ values_native (alookup_In _ _ _ E)).
  Qed.

  Lemma observe_chainfee_valid u :
    (u <> [] -> reads g i (c_dest g) = true) ->
    validate_chainfee g i (mkFobs (observe_comp g i st) (observe_native g i st) u (home_fchain g)) = true.
  Proof.
    intros Hu. unfold validate_chainfee. cbn [f_fchain f_comp f_native f_upd].
    rewrite Hfc, Hk, observe_comp_values, observe_native_values.
    cbn [andb]. rewrite !andb_true_r. apply andb_true_iff. split.
    - apply forallb_forall. intros c Hc. apply in_app_or in Hc.
      destruct Hc; [now apply observe_comp_keys| now apply observe_native_keys].
    - destruct u as [|x u]; [reflexivity|]. cbn [is_nil orb]. apply Hu. discriminate.
  Qed.

  (* ---- C11_commit ---- *)
  Theorem commit_honest_valid phase retry :
    (retry = true -> phase = 1%N) ->
    exists ob, observe_commit g i st phase retry = Ok ob /\ validate_commit g retry i ob = true.
  Proof.
    intros Hr. unfold observe_commit, observe_commit_with.
    destruct (rs_init st); cbn [negb].
    - unfold observe_chainfee_with, observe_upd.
      destruct (reads g i (c_dest g)) eqn:Hrd; cbn [rbind]; eexists; (split; [reflexivity|]);
        unfold validate_commit; cbn [co_fchain co_m co_t co_f co_d];
        rewrite Hfc, (observe_merkle_valid phase retry Hr), observe_token_valid, observe_disc_valid,
                observe_chainfee_valid; try reflexivity; [intros _; exact Hrd| intros H; now contradiction H].
    - eexists. split; [reflexivity|]. unfold validate_commit. cbn [co_fchain co_m co_t co_f co_d].
      rewrite observe_disc_valid. unfold validate_merkle. rewrite Hk, sd_reads.
      unfold validate_chainfee, validate_token. rewrite Hk. cbn.
      destruct retry; reflexivity.
  Qed.

  (* ---- execute ---- *)
  Lemma seqnums_ok_filter (f : N * list cdata -> bool) l : seqnums_ok l = true -> seqnums_ok (filter f l) = true.
  Proof. unfold seqnums_ok. apply forallb_filter. Qed.

  Lemma eobs_base_valid : validate_exec g i (eobs_base (observe_disc g i st)) = true.
  Proof.
    unfold validate_exec, validate_data_eligibility, chains_known, eobs_base.
    cbn [e_msgs e_commit e_keys_ok e_tokens e_nonces e_costly e_d]. rewrite Hk, observe_disc_valid.
    cbn. now rewrite orb_true_r.
  Qed.

  Lemma read_all_messages_eligible msgs :
    read_all_messages g i st = Ok msgs -> validate_eligibility g i msgs = true.
  Proof.
    unfold read_all_messages. destruct (existsb _ _); [discriminate|]. intros [= <-].
    unfold validate_eligibility. apply forallb_forall. intros [c n] H. cbn [fst snd].
    apply filter_In in H. destruct H as [H _]. apply in_map_iff in H. destruct H as [[c' l] [[= <- _] H]].
    apply filter_In in H. cbn [fst] in H. destruct H as [_ ->]. apply orb_true_r.
  Qed.

  Lemma read_all_messages_keys msgs c :
    read_all_messages g i st = Ok msgs -> In c (map fst msgs) -> In c (map fst (rs_pending st)).
  Proof.
    unfold read_all_messages. destruct (existsb _ _); [discriminate|]. intros [= <-] H.
    apply in_map_iff in H. destruct H as [[c' n] [<- H]]. cbn [fst].
    apply filter_In in H. destruct H as [H _]. apply in_map_iff in H. destruct H as [[c'' l] [[= <- _] H]].
    apply filter_In in H. destruct H as [H _]. cbn [fst]. change c'' with (fst (c'', l)). now apply in_map.
  Qed.

  Lemma observe_costly_zero msgs n : observe_costly g i st msgs = Ok n -> n = 0%N.
  Proof.
    unfold observe_costly, observe_costly_unfixed. destruct (negb (reads g i (c_dest g))); [now intros [= <-]|].
    cbn [negb]. repeat match goal with |- (if ?b then _ else _) = _ -> _ => destruct b; try discriminate end;
    now intros [= <-].
  Qed.

  Lemma sources_home c : memN c (sources g) = true -> memN c (home_chains g) = true.
  Proof. rewrite !memN_In. unfold sources. intros H. apply filter_In in H. tauto. Qed.

  (* [pending_known]: the stable-home-configuration hypothesis, needed in the GetMessages phase only *)
  Theorem exec_honest_valid phase ob :
    pending_known g st = true ->
    observe_exec g i st phase = Ok ob -> validate_exec g i ob = true.
  Proof.
    intros Hpk. unfold observe_exec, observe_exec_with. destruct (rs_init st); cbn [negb].
    2:{ intros [= <-]. apply eobs_base_valid. }
    destruct (N.eqb phase 0).
    { unfold observe_commit_reports_with. cbn [andb].
      destruct (negb (reads g i (c_dest g))); [intros [= <-]; apply eobs_base_valid|].
      destruct (rs_fail st K_CURSE (c_dest g)); [intros [= <-]; apply eobs_base_valid|].
      destruct (rs_cursed_all st); [intros [= <-]; apply eobs_base_valid|].
      destruct (rs_fail st K_REPORTS (c_dest g)); [discriminate|].
      destruct (existsb _ (rs_reports st)); [discriminate|].
      intros [= <-]. unfold validate_exec, validate_data_eligibility, chains_known.
      cbn [e_msgs e_commit e_keys_ok e_tokens e_nonces e_costly e_d].
      rewrite Hk, observe_disc_valid, (seqnums_ok_filter _ _ values_reports). cbn [map app].
      rewrite app_nil_r. cbn. rewrite orb_true_r. cbn [andb].
      rewrite forallb_map. apply forallb_forall. intros p Hp. apply filter_In in Hp. destruct Hp as [_ Hp].
      apply andb_true_iff in Hp. apply sources_home. tauto. }
    destruct (N.eqb phase 1).
    { unfold observe_messages_with.
      destruct (is_nil (rs_pending st)); [intros [= <-]; apply eobs_base_valid|].
      destruct (read_all_messages g i st) as [msgs| | |] eqn:E; cbn [rbind]; try discriminate.
      destruct (observe_costly g i st msgs) as [costly| | |] eqn:Ec; cbn [rbind]; try discriminate.
      intros [= <-]. unfold validate_exec, validate_data_eligibility, chains_known.
      cbn [e_msgs e_commit e_keys_ok e_tokens e_nonces e_costly e_d].
      rewrite Hk, observe_disc_valid, values_pending, (read_all_messages_eligible msgs E),
              (observe_costly_zero msgs costly Ec). cbn [nonempty_keys filter map is_nil N.eqb andb].
      rewrite orb_true_r. cbn [andb].
      assert (Hp : forall c, In c (map fst (rs_pending st)) -> memN c (home_chains g) = true).
      { intros c Hc. apply in_map_iff in Hc. destruct Hc as [p [<- Hp]].
        exact (forallb_In _ _ _ Hpk Hp). }
      apply forallb_forall. intros c Hc. apply in_app_or in Hc. destruct Hc as [Hc|Hc]; [now apply Hp|].
      apply in_app_or in Hc. destruct Hc as [Hc|Hc]; apply Hp; now apply (read_all_messages_keys msgs c E). }
    destruct (N.eqb phase 2); [|discriminate].
    unfold observe_filter.
    destruct (reads g i (c_dest g)) eqn:Hr; cbn [negb]; [|intros [= <-]; apply eobs_base_valid].
    destruct (existsb _ (rs_pending st)); [discriminate|].
    intros [= <-]. unfold validate_exec, validate_data_eligibility, chains_known.
    cbn [e_msgs e_commit e_keys_ok e_tokens e_nonces e_costly e_d].
    now rewrite Hk, observe_disc_valid, Hr.
  Qed.
End Honest.

Theorem exec_no_panic g i st phase : observe_exec g i st phase <> Panic.
Proof.
  unfold observe_exec, observe_exec_with. destruct (rs_init st); cbn [negb]; [|discriminate].
  destruct (N.eqb phase 0).
  { unfold observe_commit_reports_with. cbn [andb].
    repeat match goal with |- (if ?b then _ else _) <> _ => destruct b; try discriminate end. }
  destruct (N.eqb phase 1).
  { unfold observe_messages_with. destruct (is_nil (rs_pending st)); [discriminate|].
    unfold read_all_messages, observe_costly, observe_costly_unfixed.
    destruct (existsb _ _); cbn [rbind]; [discriminate|].
    destruct (negb (reads g i (c_dest g))); cbn [rbind]; [discriminate|].
    destruct (rs_fail st K_LINK (c_dest g)); cbn [rbind]; [discriminate|].
    destruct (is_nil _); cbn [rbind]; [discriminate|].
    destruct (negb (dest_priced g st)); cbn [rbind]; [discriminate|].
    destruct (rs_fail st K_FEECOMP (c_dest g) || rs_fail st K_NATIVE (c_dest g)); cbn [rbind]; discriminate. }
  destruct (N.eqb phase 2); [|discriminate].
  unfold observe_filter.
  repeat match goal with |- (if ?b then _ else _) <> _ => destruct b; try discriminate end.
Qed.

Lemma existsb_all_false {A} (f : A -> bool) l : (forall x, f x = false) -> existsb f l = false.
Proof. intros H. induction l as [|x l IH]; cbn [existsb]; [reflexivity| now rewrite H, IH]. Qed.

(* with every call succeeding an observation is produced, for every role (since the repairs of F18b, F18c, F18d) *)
Theorem exec_produced g i st phase :
  no_failures st -> dest_priced g st = true -> (phase <= 2)%N ->
  exists ob, observe_exec g i st phase = Ok ob.
Proof.
  intros Hnf Hpr Hp. unfold observe_exec, observe_exec_with.
  destruct (rs_init st); cbn [negb]; [|eexists; reflexivity].
  destruct (N.eqb_spec phase 0) as [->|H0].
  { unfold observe_commit_reports_with. cbn [andb]. rewrite !Hnf.
    destruct (negb (reads g i (c_dest g))); [eexists; reflexivity|].
    destruct (rs_cursed_all st); [eexists; reflexivity|].
    assert (He : existsb (fun p : N * list cdata => rs_fail st K_EXECUTED (fst p)) (rs_reports st) = false).
    { apply existsb_all_false. intros p. apply Hnf. }
    rewrite He. eexists; reflexivity. }
  destruct (N.eqb_spec phase 1) as [->|H1].
  { unfold observe_messages_with.
    destruct (is_nil (rs_pending st)); [eexists; reflexivity|].
    unfold read_all_messages, observe_costly, observe_costly_unfixed. rewrite Hpr, !Hnf. cbn [negb orb].
    assert (He : existsb (fun p : N * list cdata => rs_fail st K_MSGS (fst p))
                         (filter (fun p => reads g i (fst p)) (rs_pending st)) = false).
    { apply existsb_all_false. intros p. apply Hnf. }
    rewrite He. cbn [rbind].
    destruct (reads g i (c_dest g)); cbn [negb rbind]; [|eexists; reflexivity].
    destruct (is_nil _); cbn [rbind]; eexists; reflexivity. }
  destruct (N.eqb_spec phase 2) as [->|H2]; [|lia].
  unfold observe_filter.
  destruct (negb (reads g i (c_dest g))); [eexists; reflexivity|].
  assert (He : existsb (fun p : N * list cdata => rs_fail st K_NONCES (fst p) &&
                                                  negb (N.eqb (cnt (rs_senders st) (fst p)) 0)) (rs_pending st) = false).
  { apply existsb_all_false. intros p. now rewrite Hnf. }
  rewrite He. eexists; reflexivity.
Qed.

(* ---------- C11 witnesses ---------- *)
(* oracles 0..3; sources 5 and 6, feed 7, destination 9; oracle 0 reads everything, 1 everything but source 6,
   2 only the sources, 3 only source 5 *)
Definition g_c11 : cfg :=
  mkCfg [0; 1; 2; 3]%N
        [(5, (1%Z, [0; 1; 2; 3])); (6, (1%Z, [0; 2])); (7, (1%Z, [0; 1])); (9, (1%Z, [0; 1]))]%N 9%N 7%N.
Definition st_c11 : rstate :=
  mkRs true (fun _ _ => false) false [] [5; 6]%N rmn_ex [5; 6]%N [1; 2]%N [1%N]
       [(5%N, (Some 3%Z, Some 0%Z)); (6%N, (Some 4%Z, Some 1%Z)); (9%N, (Some 2%Z, Some 2%Z))]
       [(5%N, 7%Z); (9%N, 8%Z)] [5; 6]%N
       [(5%N, [mkCdata 1 1 4 []]); (6%N, [mkCdata 2 1 2 []])]
       [(5%N, [mkCdata 1 1 4 []]); (6%N, [mkCdata 2 1 2 []])]
       [(5%N, 4%N); (6%N, 2%N)] [(5%N, 2%N); (6%N, 1%N)].

(* the hypotheses of the C11 theorems are satisfiable and the observations are not trivial: oracle 3 (one source
   chain, no destination, no feed) produces on-ramp numbers, fee components, a native price and discovered addresses
   for chain 5 and its observation passes; oracle 0 fills every field *)
Example c11_commit_example :
  cfg_ok g_c11 3 = true /\ values_ok st_c11 = true /\
  observe_commit g_c11 3 st_c11 0 false =
    Ok (mkCobs (mkMobs [] [5%N] [] rmn_none (home_fchain g_c11)) (mkTobs [] [] (home_fchain g_c11))
               (mkFobs [(5%N, (Some 3%Z, Some 0%Z))] [(5%N, Some 7%Z)] [] (home_fchain g_c11))
               [(4%N, [5%N]); (5%N, [5%N])] (home_fchain g_c11)) /\
  (exists ob, observe_commit g_c11 0 st_c11 0 false = Ok ob /\ length (cfields g_c11 ob) = 23%nat /\
              validate_commit g_c11 false 3 ob = false).
Proof.
  repeat split; try (vm_compute; reflexivity).
  eexists. split; [vm_compute; reflexivity|]. vm_compute. split; reflexivity.
Qed.

Example c11_exec_example :
  observe_exec g_c11 0 st_c11 1 =
    Ok (mkEobs (rs_pending st_c11) [(5%N, 4%N); (6%N, 2%N)] true [(5%N, 4%N); (6%N, 2%N)] 0 []
               (observe_disc g_c11 0 st_c11)) /\
  observe_exec g_c11 1 st_c11 1 =
    Ok (mkEobs (rs_pending st_c11) [(5%N, 4%N)] true [(5%N, 4%N)] 0 [] (observe_disc g_c11 1 st_c11)) /\
  observe_exec g_c11 0 st_c11 2 =
    Ok (mkEobs [] [] true [] 0 [(5%N, 2%N); (6%N, 1%N)] (observe_disc g_c11 0 st_c11)) /\
  (* oracle 2 (sources only): messages of its chains, every pending report, no costly flags *)
  observe_exec g_c11 2 st_c11 1 =
    Ok (mkEobs (rs_pending st_c11) [(5%N, 4%N); (6%N, 2%N)] true [(5%N, 4%N); (6%N, 2%N)] 0 []
               (observe_disc g_c11 2 st_c11)) /\
  (* oracle 1 (destination, not source 6): the reports of both sources *)
  observe_exec g_c11 1 st_c11 0 = Ok (mkEobs (rs_reports st_c11) [] true [] 0 [] (observe_disc g_c11 1 st_c11)) /\
  no_failures st_c11 /\ dest_priced g_c11 st_c11 = true.
Proof. repeat split; try (vm_compute; reflexivity). Qed.

(* before the repair of F18a an honest oracle without destination access crashed in the chain-fee observation;
   before the repair of F05 its observation was rejected by everybody *)
Theorem commit_unfixed_refuted :
  (exists g i st phase retry, cfg_ok g i = true /\ values_ok st = true /\ no_failures st /\
                              observe_commit_unfixed g i st phase retry = Panic) /\
  (exists g i st phase retry ob, cfg_ok g i = true /\ values_ok st = true /\ no_failures st /\
                                 observe_commit g i st phase retry = Ok ob /\
                                 validate_commit_unfixed g retry i ob = false).
Proof.
  split.
  - exists g_c11, 3%N, st_c11, 0%N, false. repeat split; try (vm_compute; reflexivity).
  - exists g_c11, 3%N, st_c11, 0%N, false. eexists. repeat split; try (vm_compute; reflexivity).
Qed.

(* F18b: before the repair the GetMessages observation of oracle 1 (reads the destination and source 5, not source 6)
   failed because a report of source 6 was pending *)
Theorem exec_unfixed_refuted :
  exists g i st, cfg_ok g i = true /\ values_ok st = true /\ no_failures st /\
                 reads g i (c_dest g) = true /\ observe_exec_unfixed g i st 1 = Err.
Proof. exists g_c11, 1%N, st_c11. repeat split; try (vm_compute; reflexivity). Qed.

(* F18c / F18d: before the repairs, with every call succeeding, oracle 2 (no destination access) produced no GetMessages
   observation and oracle 1 (destination, not source 6) no GetCommitReports observation *)
Theorem exec_unfixed_cd_refuted :
  (exists g i st, cfg_ok g i = true /\ values_ok st = true /\ no_failures st /\ dest_priced g st = true /\
                  f18c_class g i st 1 = true /\ observe_exec_unfixed_c g i st 1 = Err) /\
  (exists g i st, cfg_ok g i = true /\ values_ok st = true /\ no_failures st /\ dest_priced g st = true /\
                  f18d_class g i st 0 = true /\ observe_exec_unfixed_d g i st 0 = Err).
Proof.
  split.
  - exists g_c11, 2%N, st_c11. repeat split; try (vm_compute; reflexivity).
  - exists g_c11, 1%N, st_c11. repeat split; try (vm_compute; reflexivity).
Qed.

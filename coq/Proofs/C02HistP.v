(* C02HistP.v — history-level theorems of C02: what a selecting round selects is a function of that round's agreed
   maps only (no field of the previous outcome, no earlier round enters), and the intervals a building round reads are
   exactly those some earlier selecting round of the same history selected. *)
Require Import Verif.Model.Base Verif.Proofs.BaseP Verif.Model.Consensus Verif.Model.SeqRange Verif.Proofs.SeqRangeP
               Verif.Model.CommitMerkle Verif.Proofs.CommitMerkleP Verif.Model.CommitSM Verif.Proofs.CommitSMP
               Verif.Model.C02Hist.

(* ---------- one round ---------- *)

(* in the selecting state nothing of the previous outcome and nothing of the query enters the outcome *)
Lemma select_round_memoryless max n prev q c :
  next_state (o_type prev) = Selecting ->
  get_outcome max n prev q (Some c) = select_outcome c n.
Proof.
  intros H. unfold get_outcome, get_outcome_with. rewrite H. cbn [state_eqb andb]. reflexivity.
Qed.

Lemma select_outcome_fields c n :
  (o_ranges (select_outcome c n), o_off (select_outcome c n)) = report_ranges (c_on c) (c_off c) n /\
  o_type (select_outcome c n) = T_selected /\ o_roots (select_outcome c n) = [] /\
  o_attempts (select_outcome c n) = 0%N /\ o_sigs (select_outcome c n) = [].
Proof.
  unfold select_outcome, select_outcome_with, report_ranges.
  destruct (report_ranges_with limit (c_on c) (c_off c) n) as [rs os]. cbn. repeat split.
Qed.

Lemma run_snoc max n prev rs r : run max n prev (rs ++ [r]) = run_step max n (run max n prev rs) r.
Proof. unfold run. rewrite fold_left_app. reflexivity. Qed.

(* ---------- histories: selection ---------- *)

(* For every history rs from every first outcome: if the history ends in the selecting state, the round that follows
   writes exactly report_ranges of ITS agreed maps (and the type / empty fields of a fresh selection). *)
Theorem hist_selection_exact max n prev0 rs q c :
  next_state (o_type (run max n prev0 rs)) = Selecting ->
  let o := run max n prev0 (rs ++ [(q, Some c)]) in
  (o_ranges o, o_off o) = report_ranges (c_on c) (c_off c) n /\
  o_type o = T_selected /\ o_roots o = [] /\ o_attempts o = 0%N /\ o_sigs o = [].
Proof.
  intros H. cbn zeta. rewrite run_snoc. unfold run_step. cbn [fst snd].
  rewrite (select_round_memoryless max n _ q c H). apply select_outcome_fields.
Qed.

(* Independence: two arbitrary histories (different first outcomes, different rounds, different attempt limits,
   different queries) that both end in the selecting state produce the SAME outcome from the same agreed maps. *)
Theorem hist_selection_indep max max' n prev0 prev0' rs rs' q q' c :
  next_state (o_type (run max n prev0 rs)) = Selecting ->
  next_state (o_type (run max' n prev0' rs')) = Selecting ->
  run max n prev0 (rs ++ [(q, Some c)]) = run max' n prev0' (rs' ++ [(q', Some c)]).
Proof.
  intros H H'. rewrite !run_snoc. unfold run_step. cbn [fst snd].
  rewrite (select_round_memoryless max n _ q c H), (select_round_memoryless max' n _ q' c H'). reflexivity.
Qed.

(* The C02 interval clause at history level: whatever the history left behind, chain k gets the interval [a,b] iff a
   is THIS round's agreed off-ramp next of k, this round has an agreed on-ramp latest m >= a, and b = min(m, a+n-1);
   in particular a chain lacking either agreed number in this round gets no interval. *)
Theorem hist_selection_characterised max n prev0 rs q c :
  next_state (o_type (run max n prev0 rs)) = Selecting ->
  NoDup (map fst (c_off c)) -> (forall k m, alookup k (c_on c) = Some m -> u64 m) -> (1 <= n)%N ->
  let o := run max n prev0 (rs ++ [(q, Some c)]) in
  (forall k a b, In (k, (a, b)) (o_ranges o) <->
     exists m, In (k, a) (c_off c) /\ alookup k (c_on c) = Some m /\ (a <= m)%N /\ b = N.min m (a + n - 1)) /\
  (forall k, (alookup k (c_on c) = None \/ ~ In k (map fst (c_off c))) -> ~ In k (map fst (o_ranges o))) /\
  NoDup (map fst (o_ranges o)) /\
  (forall k v, In (k, v) (o_off o) <-> In (k, v) (c_off c) /\ alookup k (c_on c) <> None).
Proof.
  intros H ND U Hn. cbn zeta.
  destruct (hist_selection_exact max n prev0 rs q c H) as [E _].
  set (o := run max n prev0 (rs ++ [(q, Some c)])) in *.
  destruct (report_ranges_exact (c_on c) (c_off c) n (o_ranges o) (o_off o) ND U Hn (eq_sym E))
    as [A [_ [B [_ [C _]]]]].
  split; [exact A|]. split; [|split; [exact B|exact C]].
  intros k Hk. apply (report_ranges_omitted (c_on c) (c_off c) n (o_ranges o) (o_off o) k ND U Hn (eq_sym E)).
  destruct Hk as [Hk|Hk]; [right; left; exact Hk|right; right; exact Hk].
Qed.

(* ---------- histories: where the intervals of a building round come from ---------- *)

Lemma check_transmission_type max prev c : o_type (check_transmission max prev c) <> T_selected.
Proof.
  unfold check_transmission.
  destruct (off_updated (o_off prev) (c_off c)); [cbn; discriminate|].
  destruct (N.leb max (add64 (o_attempts prev) 1)); cbn; discriminate.
Qed.

Lemma build_report_not_selected q c prev : o_type (build_report q c prev) <> T_selected.
Proof.
  destruct (build_report_type q c prev) as [E|[[E _]|[E _]]]; rewrite E; cbn; discriminate.
Qed.

(* one step: an outcome of type ReportIntervalsSelected is either this round's fresh selection or (retry) the
   unchanged previous outcome *)
Lemma step_selected max n prev r :
  o_type (run_step max n prev r) = T_selected ->
  (exists c, snd r = Some c /\ run_step max n prev r = select_outcome c n) \/
  (run_step max n prev r = prev /\ o_type prev = T_selected).
Proof.
  unfold run_step, get_outcome, get_outcome_with. destruct r as [q co]. cbn [fst snd].
  destruct (state_eqb (next_state (o_type prev)) Building && q_retry q) eqn:R.
  - intros H. right. split; [reflexivity|exact H].
  - destruct co as [c|]; [|cbn; discriminate].
    destruct (next_state (o_type prev)) eqn:S.
    + intros _. left. exists c. split; reflexivity.
    + intros H. exfalso. exact (build_report_not_selected q c prev H).
    + intros H. exfalso. exact (check_transmission_type max prev c H).
Qed.

(* Invariant over every history: an outcome that sends the next round to the building state carries the intervals
   (and the cursor) that some round OF THIS HISTORY selected from its own agreed maps — unless it is the history's
   first outcome handed in from outside. *)
Theorem hist_ranges_provenance max n prev0 rs :
  o_type prev0 <> T_selected ->
  let o := run max n prev0 rs in
  o_type o = T_selected ->
  exists q c, In (q, Some c) rs /\ (o_ranges o, o_off o) = report_ranges (c_on c) (c_off c) n.
Proof.
  intros H0. cbn zeta. induction rs as [|r rs IH] using rev_ind.
  - cbn. intros H. contradiction.
  - rewrite run_snoc. intros H. destruct (step_selected max n _ r H) as [[c [Er Es]]|[Es Et]].
    + exists (fst r), c. split.
      * apply in_or_app. right. left. destruct r as [q co]. cbn [fst snd] in *. rewrite Er. reflexivity.
      * rewrite Es. apply select_outcome_fields.
    + rewrite Es. destruct (IH Et) as [q [c [HI E]]]. exists q, c. split; [|exact E].
      apply in_or_app. left. exact HI.
Qed.

(* ---------- the observation of a building round ---------- *)
Section Obs.
  Variable h : N -> N -> N.
  Variable zero : N.

  (* merkle roots are observed only in a (non-retry) building round, only for intervals the previous outcome
     recorded, and only from a complete read of that interval in THIS round's reader answer, with THIS round's
     address binding and chain support *)
  Theorem observation_roots_sound supported known sd curse next expected reader addr fch prev retry k s e a r :
    (forall k s e, In (k, (s, e)) (o_ranges prev) -> u64 e) ->
    In (k, (s, e), a, r)
       (ob_roots (get_observation h zero supported known sd curse next expected reader addr fch prev retry)) ->
    next_state (o_type prev) = Building /\ retry = false /\
    exists sup ms hs,
      supported = Some sup /\ In k sup /\ In (k, (s, e)) (o_ranges prev) /\
      reader k (s, e) = Some ms /\ addr k = Some a /\ complete_read ms s e hs /\ mroot h zero hs = Some r.
  Proof.
    intros Hu. unfold get_observation. destruct (next_state (o_type prev)); cbn [ob_roots]; try contradiction.
    destruct retry; cbn [ob_roots empty_observation]; [contradiction|].
    intros HI. split; [reflexivity|]. split; [reflexivity|].
    exact (observe_roots_sound h zero supported (o_ranges prev) reader addr k s e a r Hu HI).
  Qed.

  (* composed with the provenance invariant: in every history that does not start in the building state, a root
     observed after the history is a root of an interval selected by a round of that history from its agreed maps *)
  Theorem hist_roots_for_selected max n prev0 rs supported known sd curse next expected reader addr fch retry k s e a r :
    o_type prev0 <> T_selected ->
    let prev := run max n prev0 rs in
    (forall k s e, In (k, (s, e)) (o_ranges prev) -> u64 e) ->
    In (k, (s, e), a, r)
       (ob_roots (get_observation h zero supported known sd curse next expected reader addr fch prev retry)) ->
    exists q c ms hs,
      In (q, Some c) rs /\ In (k, (s, e)) (fst (report_ranges (c_on c) (c_off c) n)) /\
      reader k (s, e) = Some ms /\ complete_read ms s e hs /\ mroot h zero hs = Some r /\ addr k = Some a.
  Proof.
    intros H0. cbn zeta. intros Hu HI.
    destruct (observation_roots_sound _ _ _ _ _ _ _ _ _ _ _ _ _ _ _ _ Hu HI)
      as [HB [_ [sup [ms [hs [_ [_ [Hr [HR [HA [HC HM]]]]]]]]]]].
    assert (Ht : o_type (run max n prev0 rs) = T_selected).
    { destruct (next_state_cases (o_type (run max n prev0 rs))) as [[E _]|[[_ E]|[_ [_ [_ E]]]]];
        [exact E| |]; rewrite E in HB; discriminate. }
    destruct (hist_ranges_provenance max n prev0 rs H0 Ht) as [q [c [HIn E]]].
    exists q, c, ms, hs. split; [exact HIn|]. rewrite <- E. cbn [fst].
    repeat (split; [assumption|]). assumption.
  Qed.
End Obs.

(* ---------- non-vacuity ---------- *)

(* a history ending in ReportEmpty whose outcome still carries the cursor of the earlier selecting round for chains
   1 and 2 and stray intervals; in the next round chain 2 has an agreed on-ramp latest but no agreed off-ramp next:
   only chain 1 gets an interval, starting at this round's agreed number (11, not the carried 10) *)
Definition ex_left : outcome := mkOutcome T_selected [(1, (10, 12)); (2, (20, 21))]%N [] [(1, 10); (2, 20)]%N 0 [] cfg_empty.
Definition ex_rounds : list round_in :=
  [(mkQuery false None, Some (mkCons [] [] [] cfg_empty))].          (* building round, no root agreed -> ReportEmpty *)
Definition ex_cons : cons := mkCons [] [(1, 14); (2, 25)]%N [(1, 11)]%N cfg_empty.

Example hist_selection_nonvacuous :
  next_state (o_type (run 3 256 ex_left ex_rounds)) = Selecting /\
  o_off (run 3 256 ex_left ex_rounds) = [(1, 10); (2, 20)]%N /\
  o_ranges (run 3 256 ex_left (ex_rounds ++ [(mkQuery false None, Some ex_cons)])) = [(1, (11, 14))]%N /\
  NoDup (map fst (c_off ex_cons)) /\ (forall k m, alookup k (c_on ex_cons) = Some m -> u64 m).
Proof.
  split; [vm_compute; reflexivity|]. split; [vm_compute; reflexivity|]. split; [vm_compute; reflexivity|].
  split.
  - cbn. constructor; [intros []|constructor].
  - intros k m. cbn. destruct (N.eqb k 1); [intros E; inversion E; vm_compute; reflexivity|].
    destruct (N.eqb k 2); [intros E; inversion E; vm_compute; reflexivity|discriminate].
Qed.

(* a history from the empty outcome: select, then a retry round; the outcome still sends the next round to building
   and its intervals are those of the history's selecting round *)
Example hist_ranges_provenance_nonvacuous :
  let rs := [(mkQuery false None, Some ex_cons); (mkQuery true None, None)] in
  o_type empty_outcome <> T_selected /\
  o_type (run 3 256 empty_outcome rs) = T_selected /\
  o_ranges (run 3 256 empty_outcome rs) = [(1, (11, 14))]%N.
Proof. cbn zeta. split; [cbn; discriminate|]. split; vm_compute; reflexivity. Qed.

(* a building round over those intervals with a reader that holds 11..14 of chain 1 observes one root *)
Example observation_roots_nonvacuous :
  let prev := run 3 256 empty_outcome [(mkQuery false None, Some ex_cons)] in
  let reader := fun (k : N) (_ : N * N) => Some [(11, 1, Some 5); (12, 1, Some 6); (13, 1, Some 7); (14, 1, Some 8)]%N in
  ob_roots (get_observation (fun a b => a * 100 + b)%N 0%N (Some [1%N]) None None None (fun _ => None) (fun _ => None)
                            reader (fun _ => Some 9%N) None prev false)
  = [(1, (11, 14), 9, 51308)]%N.
Proof. vm_compute. reflexivity. Qed.

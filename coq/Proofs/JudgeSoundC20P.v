(* JudgeSoundC20P.v — the executable properties of Check/C20_check.v (leaf_ok, struct_ok, jprint_ok, jparse_ok, sort_ok)
   tied to the Prop-level clauses of Props/C20.v. *)
Require Import Verif.Model.Base Verif.Proofs.BaseP Verif.Model.Codec Verif.Proofs.CodecP.
Require Import Verif.Model.JsonText Verif.Proofs.JsonTextP Verif.Check.C20_check Verif.Proofs.CodecDecP.

(* ---------- reflection of the boolean equalities of the case types ---------- *)
Lemma js20_option_eqb_eq {A} (e : A -> A -> bool) : (forall a b, e a b = true <-> a = b) ->
  forall x y, option_eqb e x y = true <-> x = y.
Proof.
  intros He [a|] [b|]; cbn [option_eqb]; try (split; [discriminate|discriminate]); [|split; reflexivity].
  rewrite He. split; [intros ->; reflexivity|intros H; now inversion H].
Qed.
Lemma js20_list_eqb_eq {A} (e : A -> A -> bool) :
  (forall a b, e a b = true <-> a = b) -> forall l1 l2, list_eqb e l1 l2 = true <-> l1 = l2.
Proof.
  intros He. induction l1 as [|x l1 IH]; intros [|y l2]; cbn [list_eqb]; try (split; [discriminate|discriminate]).
  - split; reflexivity.
  - rewrite andb_true_iff, He, IH. split; [intros [-> ->]; reflexivity| intros H; inversion H; split; reflexivity].
Qed.
Lemma js20_pair_eqb_eq {A B} (ea : A -> A -> bool) (eb : B -> B -> bool) :
  (forall a b, ea a b = true <-> a = b) -> (forall a b, eb a b = true <-> a = b) ->
  forall p q, pair_eqb ea eb p q = true <-> p = q.
Proof.
  intros Ha Hb [a b] [a' b']. unfold pair_eqb. cbn [fst snd]. rewrite andb_true_iff, Ha, Hb.
  split; [intros [-> ->]; reflexivity| intros H; inversion H; split; reflexivity].
Qed.

Lemma json_eqb_eq : forall a b, json_eqb a b = true <-> a = b.
Proof.
  induction a as [| | |s|s|l IHl|l IHl] using json_ind'; intros b; destruct b as [| | |s'|s'|l'|l'];
    cbn [json_eqb]; try (split; [discriminate|discriminate]); try (split; reflexivity).
  - rewrite text_eqb_eq. split; [intros ->; reflexivity|intros H; now inversion H].
  - rewrite text_eqb_eq. split; [intros ->; reflexivity|intros H; now inversion H].
  - revert l'. induction IHl as [|x l Hx _ IH]; intros [|y l']; try (split; [discriminate|discriminate]).
    + split; reflexivity.
    + rewrite andb_true_iff. split.
      * intros [H1 H2]. apply Hx in H1. apply IH in H2. inversion H2. now subst.
      * intros H. inversion H; subst. split; [now apply Hx|now apply IH].
  - revert l'. induction IHl as [|x l Hx _ IH]; intros [|y l']; try (split; [discriminate|discriminate]).
    + split; reflexivity.
    + rewrite !andb_true_iff. split.
      * intros [[H0 H1] H2]. apply text_eqb_eq in H0. apply Hx in H1. apply IH in H2. inversion H2.
        destruct x, y; cbn [fst snd] in *. now subst.
      * intros H. inversion H; subst. split; [split; [now apply text_eqb_eq|now apply Hx]|now apply IH].
Qed.

Lemma val_ind' (P : val -> Prop) :
  (forall n, P (VU n)) -> (forall z, P (VZ z)) -> (forall b, P (VBool b)) -> (forall s, P (VStr s)) ->
  (forall b, P (VBytes b)) -> (forall l, P (VB32 l)) -> (forall z, P (VBig z)) -> (forall j, P (VOpq j)) ->
  (forall l, match l with Some l => Forall P l | None => True end -> P (VList l)) ->
  (forall l, Forall P l -> P (VArr l)) ->
  (forall m, match m with Some m => Forall (fun kv => P (snd kv)) m | None => True end -> P (VMap m)) ->
  (forall p, match p with Some x => P x | None => True end -> P (VPtr p)) ->
  (forall l, Forall P l -> P (VRec l)) -> forall v, P v.
Proof.
  intros H1 H2 H3 H4 H5 H6 H7 H8 H9 H10 H11 H12 H13. fix IH 1. intros v.
  destruct v as [n|z|b|s|b|l|z|j|l|l|m|p|l].
  - apply H1.
  - apply H2.
  - apply H3.
  - apply H4.
  - apply H5.
  - apply H6.
  - apply H7.
  - apply H8.
  - apply H9. destruct l as [l|]; [|exact I]. induction l as [|x l IHl]; constructor; [apply IH|exact IHl].
  - apply H10. induction l as [|x l IHl]; constructor; [apply IH|exact IHl].
  - apply H11. destruct m as [m|]; [|exact I]. induction m as [|x m IHm]; constructor; [apply IH|exact IHm].
  - apply H12. destruct p as [x|]; [apply IH|exact I].
  - apply H13. induction l as [|x l IHl]; constructor; [apply IH|exact IHl].
Qed.

Lemma js20_vals_eqb (l : list val) :
  Forall (fun x => forall b, val_eqb x b = true <-> x = b) l ->
  forall l', (fix go (l l' : list val) : bool :=
                match l, l' with
                | [], [] => true
                | x :: r, y :: r' => val_eqb x y && go r r'
                | _, _ => false
                end) l l' = true <-> l = l'.
Proof.
  induction 1 as [|x l Hx _ IH]; intros [|y l']; try (split; [discriminate|discriminate]).
  - split; reflexivity.
  - rewrite andb_true_iff. split.
    + intros [H1 H2]. apply Hx in H1. apply IH in H2. now subst.
    + intros H. inversion H; subst. split; [now apply Hx|now apply IH].
Qed.

Lemma val_eqb_eq : forall a b, val_eqb a b = true <-> a = b.
Proof.
  induction a as [n|z|x|s|x|l|z|j|l IHl|l IHl|m IHm|p IHp|l IHl] using val_ind'; intros b;
    destruct b as [n'|z'|x'|s'|x'|l'|z'|j'|l'|l'|m'|p'|l']; cbn [val_eqb];
    try solve [split; [discriminate|discriminate] | destruct l; split; discriminate
              | destruct m; split; discriminate | destruct p; split; discriminate].
  - rewrite N.eqb_eq. split; [intros ->; reflexivity|intros H; now inversion H].
  - rewrite Z.eqb_eq. split; [intros ->; reflexivity|intros H; now inversion H].
  - rewrite Bool.eqb_true_iff. split; [intros ->; reflexivity|intros H; now inversion H].
  - rewrite text_eqb_eq. split; [intros ->; reflexivity|intros H; now inversion H].
  - rewrite (js20_option_eqb_eq _ text_eqb_eq). split; [intros ->; reflexivity|intros H; now inversion H].
  - rewrite text_eqb_eq. split; [intros ->; reflexivity|intros H; now inversion H].
  - rewrite (js20_option_eqb_eq _ Z.eqb_eq). split; [intros ->; reflexivity|intros H; now inversion H].
  - rewrite json_eqb_eq. split; [intros ->; reflexivity|intros H; now inversion H].
  - destruct l as [l|], l' as [l'|]; try (split; [discriminate|discriminate]); [|split; reflexivity].
    rewrite (js20_vals_eqb l IHl l'). split; [intros ->; reflexivity|intros H; now inversion H].
  - rewrite (js20_vals_eqb l IHl l'). split; [intros ->; reflexivity|intros H; now inversion H].
  - destruct m as [m|], m' as [m'|]; try (split; [discriminate|discriminate]); [|split; reflexivity].
    assert (G : (fix go (l l' : list (text * val)) : bool :=
                   match l, l' with
                   | [], [] => true
                   | x :: r, y :: r' => text_eqb (fst x) (fst y) && val_eqb (snd x) (snd y) && go r r'
                   | _, _ => false
                   end) m m' = true <-> m = m').
    { revert m'. induction IHm as [|x m Hx _ IH]; intros [|y m']; try (split; [discriminate|discriminate]).
      - split; reflexivity.
      - rewrite !andb_true_iff. split.
        + intros [[H0 H1] H2]. apply text_eqb_eq in H0. apply Hx in H1. apply IH in H2.
          destruct x, y; cbn [fst snd] in *. now subst.
        + intros H. inversion H; subst. split; [split; [now apply text_eqb_eq|now apply Hx]|now apply IH]. }
    rewrite G. split; [intros ->; reflexivity|intros H; now inversion H].
  - destruct p as [x|], p' as [y|]; try (split; [discriminate|discriminate]); [|split; reflexivity].
    rewrite (IHp y). split; [intros ->; reflexivity|intros H; now inversion H].
  - rewrite (js20_vals_eqb l IHl l'). split; [intros ->; reflexivity|intros H; now inversion H].
Qed.

(* ---------- sinks jprint / jparse: the text layer against encoding/json ---------- *)
Lemma js20_json_opt_eq x y : option_eqb json_eqb x y = true <-> x = y.
Proof. apply js20_option_eqb_eq. exact json_eqb_eq. Qed.

(* (a) for every tree of the modelled subset *)
Theorem jprint_model_passes j : wf_json j = true -> jprint_ok j (jprint_model j) = true.
Proof.
  intros Hw. unfold jprint_ok, jprint_model. rewrite Hw. cbn [andb]. apply js20_json_opt_eq. now apply parse_print.
Qed.
(* (b) C20_text_parse_print with Go's bytes in place of [print j]: the bytes parse back to the tree *)
Theorem jprint_sound j b : jprint_ok j b = true -> wf_json j = true /\ parse b = Some j.
Proof.
  unfold jprint_ok. rewrite andb_true_iff, js20_json_opt_eq. tauto.
Qed.
Example jprint_ok_example :
  jprint_ok (JObj [([97]%N, JArr [JNum [49]%N; JTrue])]) [123; 34; 97; 34; 58; 91; 49; 44; 116; 114; 117; 101; 93; 125]%N = true.
Proof. vm_compute. reflexivity. Qed.

(* (a) premise-free *)
Theorem jparse_model_passes i : jparse_ok i (jparse_model i) = true.
Proof.
  destruct i as [acc s]. unfold jparse_ok, jparse_model. destruct acc; [reflexivity|].
  destruct (parse s) as [j|] eqn:E; [|reflexivity].
  rewrite (parse_wf s j E). cbn [andb]. apply js20_json_opt_eq. exact (print_parse_idem s j E).
Qed.
(* (b) C20_text_parse_wf / C20_text_print_parse_idem on the tree Go built (any tree, from any input): it lies in
   the subset and printing then parsing gives it back.  Whether Go ACCEPTS the input (PAcc, PTree None) is not part of
   the executable property - the model comparison alone speaks of that. *)
Theorem jparse_sound i j : jparse_ok i (PTree (Some j)) = true -> wf_json j = true /\ parse (print j) = Some j.
Proof.
  unfold jparse_ok. rewrite andb_true_iff, js20_json_opt_eq. tauto.
Qed.
Example jparse_ok_example :
  jparse_ok (false, [32; 91; 49; 44; 32; 110; 117; 108; 108; 93]%N) (PTree (Some (JArr [JNum [49]%N; JNull]))) = true.
Proof. vm_compute. reflexivity. Qed.

(* ---------- sink sort: canonical order of the outcome encoders ---------- *)
Lemma pN_eqb_eq a b : pN_eqb a b = true <-> a = b.
Proof. apply js20_pair_eqb_eq; exact N.eqb_eq. Qed.
Lemma tN_eqb_eq a b : tN_eqb a b = true <-> a = b.
Proof. apply js20_pair_eqb_eq; [exact pN_eqb_eq|exact N.eqb_eq]. Qed.
Lemma mr_eqb_eq (a b : mr_lists N N N) : mr_eqb a b = true <-> a = b.
Proof.
  destruct a as [a1 a2 a3], b as [b1 b2 b3]. unfold mr_eqb. cbn [mr_ranges mr_roots mr_offramp].
  rewrite !andb_true_iff, !(js20_list_eqb_eq _ pN_eqb_eq).
  split; [intros [[-> ->] ->]; reflexivity|intros H; inversion H; repeat split].
Qed.
Lemma js20_nodupb_NoDup {A} (e : A -> A -> bool) (He : forall a b, e a b = true <-> a = b) (l : list A) :
  nodupb e l = true -> NoDup l.
Proof.
  induction l as [|x l IH]; cbn [nodupb]; intros H; [constructor|].
  apply andb_true_iff in H. destruct H as [Hn Hd]. constructor; [|now apply IH].
  intros Hi. apply negb_true_iff in Hn. assert (existsb (e x) l = true); [|congruence].
  apply existsb_exists. exists x. split; [exact Hi|now apply He].
Qed.

(* the arrangements of one case hold the same items *)
Definition sort_same_items (i : sort_in) : Prop :=
  match i with
  | SCommit a b => Permutation (mr_ranges a) (mr_ranges b) /\ Permutation (mr_roots a) (mr_roots b) /\
                   Permutation (mr_offramp a) (mr_offramp b)
  | SExec c c' r r' => Permutation c c' /\ Permutation r r' /\ Forall cd_bounded c
  end.

(* (a) outside the recorded class F29 (a sort key twice) *)
Theorem sort_model_passes i : sort_known i = 0%N -> sort_same_items i -> sort_ok i (sort_model i) = true.
Proof.
  destruct i as [a b|c c' r r']; cbn [sort_known sort_same_items sort_ok sort_model].
  - destruct (uniq_keys (mr_ranges a) && uniq_keys (mr_roots a) && uniq_keys (mr_offramp a)) eqn:U; [|discriminate].
    intros _ (P1 & P2 & P3). rewrite !andb_true_iff in U. destruct U as [[U1 U2] U3].
    apply (js20_nodupb_NoDup _ N.eqb_eq) in U1, U2, U3.
    rewrite (mr_sort_canonical a b U1 U2 U3 P1 P2 P3). rewrite andb_true_iff. split; now apply mr_eqb_eq.
  - destruct (uniq_pairs c && uniq_keys r) eqn:U; [|discriminate].
    intros _ (P1 & P2 & HB). rewrite andb_true_iff in U. destruct U as [U1 U2].
    apply (js20_nodupb_NoDup _ pN_eqb_eq) in U1. apply (js20_nodupb_NoDup _ N.eqb_eq) in U2.
    rewrite (exec_sort_commits_canonical c c' HB U1 P1), (exec_sort_reports_canonical r r' U2 P2).
    rewrite !andb_true_iff. repeat split; try (now apply (js20_list_eqb_eq _ tN_eqb_eq)); now apply (js20_list_eqb_eq _ pN_eqb_eq).
Qed.

(* (b) the canonical-order clause on the implementation's answer: the two arrangements gave the same bytes (as the
   harness compared them) and the same order of items was found in both *)
Theorem sort_sound i o : sort_ok i o = true ->
  match i, o with
  | SCommit _ _, SOCommit oa ob same => same = true /\ oa = ob
  | SExec _ _ _ _, SOExec oc oc' orr orr' same => same = true /\ oc = oc' /\ orr = orr'
  | _, _ => False
  end.
Proof.
  destruct i, o; cbn [sort_ok]; try discriminate; rewrite !andb_true_iff.
  - intros [H1 H2]. split; [exact H1|now apply mr_eqb_eq].
  - intros [[H1 H2] H3]. split; [exact H1|]. split; [now apply (js20_list_eqb_eq _ tN_eqb_eq)|now apply (js20_list_eqb_eq _ pN_eqb_eq)].
Qed.
Example sort_ok_example :
  sort_ok (SExec [(2, 5, 1); (1, 9, 2)]%N [(1, 9, 2); (2, 5, 1)]%N [(3, 1)]%N [(3, 1)]%N)
          (SOExec [(1, 9, 2); (2, 5, 1)]%N [(1, 9, 2); (2, 5, 1)]%N [(3, 1)]%N [(3, 1)]%N true) = true.
Proof. vm_compute. reflexivity. Qed.

(* ---------- sink struct: Encode / Decode of the wire types at byte level ---------- *)
Lemma js20_val_opt_eq x y : option_eqb val_eqb x y = true <-> x = y.
Proof. apply js20_option_eqb_eq. exact val_eqb_eq. Qed.

(* the C20 wire clauses on the implementation's own answer (bytes b, decoded value d, re-encode flag fl) *)
Definition struct_spec (i : struct_in) (o : struct_out) : Prop :=
  let '(t, v, f) := i in let '(b, d, fl) := o in
  wf_ty t = true /\
  match f with
  | None =>      (* C20_wire_roundtrip with the implementation's bytes and the implementation's decoder *)
      wt t v = true /\ wf_json (enc t v) = true /\ fl = true /\
      d = Some (norm t v) /\ decode_text t b = Some (norm t v)
  | Some _ =>    (* C20_wire_idempotent on accepted foreign bytes *)
      forall v', d = Some v' ->
        wt t v' = true /\ wf_json (enc t v') = true /\ fl = true /\
        b = encode_text t v' /\ decode_text t b = Some (norm t v')
  end.

Theorem struct_sound i o : struct_ok i o = true -> struct_spec i o.
Proof.
  destruct i as [[t v] f], o as [[b d] fl]. unfold struct_ok, struct_spec. rewrite andb_true_iff. intros [Hwf H].
  split; [exact Hwf|]. destruct f as [fb|].
  - intros v' ->. rewrite !andb_true_iff, text_eqb_eq, js20_val_opt_eq in H. tauto.
  - rewrite !andb_true_iff, js20_val_opt_eq in H. destruct H as [[[[H1 H2] H3] H4] H5].
    destruct d as [v'|]; [|discriminate]. apply val_eqb_eq in H4. subst v'. tauto.
Qed.

(* (a) honest values: the hypotheses of C20_wire_roundtrip *)
Theorem struct_model_passes_honest t v :
  wf_ty t = true -> wt t v = true -> wf_json (enc t v) = true ->
  struct_ok (t, v, None) (struct_model (t, v, None)) = true.
Proof.
  intros Hwf Hwt Hj. unfold struct_ok, struct_model. rewrite Hwf, Hwt, Hj, (text_roundtrip t v Hwf Hwt Hj).
  cbn [andb]. rewrite (proj2 (val_eqb_eq _ _) eq_refl). cbn [andb]. now apply js20_val_opt_eq.
Qed.
(* (a) foreign bytes: what the model's decoder accepts must be a well-typed value of the subset (no theorem of
   Proofs/CodecP.v states that of [dec]; it is an explicit premise here) *)
Theorem struct_model_passes_foreign t v fb :
  wf_ty t = true ->
  (forall v', decode_text t fb = Some v' -> wt t v' = true /\ wf_json (enc t v') = true) ->
  struct_ok (t, v, Some fb) (struct_model (t, v, Some fb)) = true.
Proof.
  intros Hwf Hd. unfold struct_ok, struct_model. rewrite Hwf. cbn [andb].
  destruct (decode_text t fb) as [v'|] eqn:E; [|reflexivity].
  destruct (Hd v' eq_refl) as [Hwt Hj]. rewrite Hwt, Hj. cbn [andb].
  rewrite (proj2 (text_eqb_eq _ _) eq_refl). cbn [andb]. apply js20_val_opt_eq. now apply text_roundtrip.
Qed.
(* (a) foreign bytes, premise discharged (Proofs/CodecDecP.v: the model decoder yields a well-typed value of the subset
   for EVERY byte string it accepts).  What remains are facts of the Go type descriptor alone: member names distinct
   after case folding ([wf_ty], tested by struct_ok itself), opaque zero tokens scalar and member names ASCII ([ty_ok]),
   nesting below the scanner's limit of 10000 - the harness derives the descriptor from the Go type by reflection
   (zero tokens "0001-01-01T00:00:00Z", 0, "0s", null; Go identifiers as member names; nesting below 20). *)
Theorem struct_model_passes_foreign_all t v fb :
  wf_ty t = true -> ty_ok t = true -> (ty_depth t <= max_depth)%N ->
  struct_ok (t, v, Some fb) (struct_model (t, v, Some fb)) = true.
Proof.
  intros Hwf Hok Hd. apply struct_model_passes_foreign; [exact Hwf|]. intros v' E.
  destruct (decode_text_wt t fb v' Hok Hd E) as (W & _ & J). now split.
Qed.
(* both kinds of case at once, with side conditions on the descriptor and (honest cases) on the value only *)
Theorem struct_model_passes_all t v f :
  wf_ty t = true -> ty_ok t = true -> (ty_depth t <= max_depth)%N ->
  (f = None -> wt t v = true /\ txt_ok t v = true) ->
  struct_ok (t, v, f) (struct_model (t, v, f)) = true.
Proof.
  intros Hwf Hok Hd Hv. destruct f as [fb|]; [now apply struct_model_passes_foreign_all|].
  destruct (Hv eq_refl) as [W T]. apply struct_model_passes_honest; [exact Hwf|exact W|now apply enc_wf_json].
Qed.
(* (b) for foreign bytes, without trusting the three tests struct_ok makes on the decoded value: whenever the
   implementation's decoder agrees with the model's on the accepted bytes, those tests are consequences *)
Theorem struct_foreign_agree_sound t fb v' :
  wf_ty t = true -> ty_ok t = true -> (ty_depth t <= max_depth)%N -> decode_text t fb = Some v' ->
  wt t v' = true /\ wf_json (enc t v') = true /\
  decode_text t (encode_text t v') = Some (norm t v') /\ encode_text t (norm t v') = encode_text t v'.
Proof.
  intros Hwf Hok Hd E. destruct (decode_text_wt t fb v' Hok Hd E) as (W & _ & J).
  destruct (text_idempotent_all t fb v' Hwf Hok Hd E) as [R1 R2]. repeat split; assumption.
Qed.
Example struct_ok_foreign_example :
  let t := TStruct [([97]%N, TUint 255); ([98]%N, TSlice (TPtr TBool))] in
  let fb := [123; 32; 34; 65; 34; 58; 55; 44; 34; 98; 34; 58; 91; 116; 114; 117; 101; 44; 110; 117; 108; 108; 93; 125]%N in
  wf_ty t = true /\ ty_ok t = true /\ (ty_depth t <= max_depth)%N /\
  struct_model (t, VRec [], Some fb) =
    (encode_text t (VRec [VU 7; VList (Some [VPtr (Some (VBool true)); VPtr None])]),
     Some (VRec [VU 7; VList (Some [VPtr (Some (VBool true)); VPtr None])]), true).
Proof. vm_compute. repeat split; try reflexivity. discriminate. Qed.
Example struct_ok_example :
  struct_ok (TStruct [([97]%N, TUint 255); ([98]%N, TSlice TBool)], VRec [VU 7; VList None], None)
            (encode_text (TStruct [([97]%N, TUint 255); ([98]%N, TSlice TBool)]) (VRec [VU 7; VList None]),
             Some (VRec [VU 7; VList None]), true) = true.
Proof. vm_compute. reflexivity. Qed.

(* ---------- sink leaf: the custom marshalers ---------- *)
Lemma js20_text_opt_eq x y : option_eqb text_eqb x y = true <-> x = y.
Proof. apply js20_option_eqb_eq. exact text_eqb_eq. Qed.
Lemma js20_N_opt_eq x y : option_eqb N.eqb x y = true <-> x = y.
Proof. apply js20_option_eqb_eq. exact N.eqb_eq. Qed.
Lemma js20_Zopt_opt_eq x y : option_eqb (option_eqb Z.eqb) x y = true <-> x = y.
Proof. apply js20_option_eqb_eq. apply js20_option_eqb_eq. exact Z.eqb_eq. Qed.
Lemma byte_list_ok l : byte_list l = true <-> bytes_ok l.
Proof.
  split; [apply forallb_Forall_bytes|]. unfold byte_list, bytes_ok. rewrite forallb_forall, Forall_forall.
  intros H x Hx. apply N.ltb_lt. now apply H.
Qed.

(* the C20 leaf clauses on the implementation's own answer.
   decoders (any accepted token): the value is a byte string of the right length / a number in range and re-encodes
   (model encoder) to a token that decodes to it again - C20_bytes_idempotent, C20_bytes32_idempotent,
   C20_uint_dec_idempotent, C20_bigint_idempotent with the implementation's value;
   encoders: the emitted text decodes (model decoder) to the value that was encoded - C20_bytes_roundtrip,
   C20_bytes32_roundtrip, C20_bigint_roundtrip, C20_uint_roundtrip with the implementation's text.
   An error answer of a decoder / constructor is always allowed (which inputs are rejected is the model comparison). *)
Definition leaf_spec (i : leaf_in) (o : leaf_out) : Prop :=
  match i, o with
  | LBytesDec _, OErr | LBytesStr _, OErr | LB32Dec _ _, OErr | LB32Str _, OErr
  | LBigDec _ _, OErr | LUintQ _, OErr | LUintKey _, OErr | LUintNum _, OErr => True
  | LBytesDec _, OBytes n l | LBytesStr _, OBytes n l =>
      n = false /\ bytes_ok l /\ bytes_dec (bytes_enc (Some l)) = Some l
  | LB32Dec prev _, OBytes n l =>
      length l = length prev /\ bytes_ok l /\ bytes32_dec prev (bytes32_enc l) = Some l
  | LB32Str _, OBytes n l => length l = 32%nat /\ bytes32_dec zero32 (bytes32_enc l) = Some l
  | LBigDec prev _, OBig z => bigint_dec None (bigint_enc z) = Some z
  | LBytesEnc b, OText t => bytes_dec t = Some (bytes_content b)
  | LB32Enc b, OText t => bytes32_dec zero32 t = Some b
  | LBigEnc b, OText t => bigint_dec None t = Some b
  | LSeqStr n, OText t => uint_parse max64 t = Some n
  | LUintQ _, ON n | LUintKey _, ON n | LUintNum _, ON n =>
      (n <= max64)%N /\ uint_dec max64 0 (dec_enc n) = Some n
  | _, _ => False
  end.

Theorem leaf_sound i o : leaf_ok i o = true -> leaf_spec i o.
Proof.
  destruct i, o; cbn [leaf_ok leaf_spec]; try discriminate; try (intros _; exact I);
    rewrite ?andb_true_iff, ?negb_true_iff, ?js20_text_opt_eq, ?js20_N_opt_eq, ?js20_Zopt_opt_eq,
            ?byte_list_ok, ?Nat.eqb_eq, ?N.leb_le; tauto.
Qed.

(* premises of (a): the hypotheses of the round-trip theorems (the harness hands Go byte slices and uint64 values,
   which satisfy them); LUintNum goes through the text layer, its range premise is on the model's answer *)
Definition leaf_pre (i : leaf_in) : Prop :=
  match i with
  | LBytesEnc b => bytes_ok (bytes_content b)
  | LB32Dec prev _ => bytes_ok prev
  | LB32Enc b => bytes_ok b /\ length b = 32%nat
  | LSeqStr n => (n <= max64)%N
  | LUintNum s => forall n, leaf_model (LUintNum s) = ON n -> (n <= max64)%N
  | _ => True
  end.

Lemma bytes_from_string_ok s l : bytes_from_string s = Some l -> bytes_ok l.
Proof.
  unfold bytes_from_string. destruct (Nat.ltb (length s) 2); [discriminate|].
  destruct (has0x s); [|discriminate]. intros H. eapply hex_dec_bytes in H; [tauto|reflexivity].
Qed.
Lemma bytes32_from_string_shape s l : bytes32_from_string s = Some l -> bytes_ok l /\ length l = 32%nat.
Proof.
  unfold bytes32_from_string. destruct (Nat.ltb (length s) 2); [discriminate|].
  destruct (has0x s); [|discriminate]. destruct (hex_dec (skipn 2 s)) as [bs|] eqn:E; [|discriminate].
  intros H. assert (Hl : l = copy_over zero32 bs) by congruence. clear H. subst l. split.
  - apply copy_over_ok; [apply zero32_ok|]. eapply hex_dec_bytes in E; [tauto|reflexivity].
  - rewrite copy_over_length. reflexivity.
Qed.
Lemma uint_parse_le maxv s n : uint_parse maxv s = Some n -> (n <= maxv)%N.
Proof.
  unfold uint_parse. destruct (parse_digits s) as [k|]; [|discriminate].
  destruct (N.leb_spec k maxv); [intros H0; inversion H0; now subst|discriminate].
Qed.
Lemma uint_dec_le maxv prev s n : (prev <= maxv)%N -> uint_dec maxv prev s = Some n -> (n <= maxv)%N.
Proof.
  intros Hp. unfold uint_dec. destruct (text_eqb s null_tok); [intros H; inversion H; now subst|apply uint_parse_le].
Qed.
Lemma leaf_num_ok n : (n <= max64)%N ->
  N.leb n max64 && option_eqb N.eqb (uint_dec max64 0 (dec_enc n)) (Some n) = true.
Proof.
  intros H. apply andb_true_iff. split; [now apply N.leb_le|]. apply js20_N_opt_eq. now apply uint_dec_roundtrip.
Qed.

Theorem leaf_model_passes i : leaf_pre i -> leaf_ok i (leaf_model i) = true.
Proof.
  destruct i as [tok|b|s|prev tok|b|s|prev tok|b|n|s|s|s]; cbn [leaf_pre leaf_model]; intros Hp.
  - destruct (bytes_dec tok) as [l|] eqn:E; cbn [obytes leaf_ok]; [|reflexivity].
    rewrite (proj2 (byte_list_ok l) (bytes_dec_ok _ _ E)), (bytes_idempotent _ _ E). cbn [negb andb].
    now apply js20_text_opt_eq.
  - cbn [leaf_ok]. apply js20_text_opt_eq. now apply bytes_roundtrip.
  - destruct (bytes_from_string s) as [l|] eqn:E; cbn [obytes leaf_ok]; [|reflexivity].
    pose proof (bytes_from_string_ok _ _ E) as Hl.
    rewrite (proj2 (byte_list_ok l) Hl), (bytes_roundtrip (Some l) Hl). cbn [negb andb bytes_content].
    now apply js20_text_opt_eq.
  - destruct (bytes32_dec prev tok) as [l|] eqn:E; cbn [obytes leaf_ok]; [|reflexivity].
    destruct (bytes32_dec_shape _ _ _ Hp E) as [Hl Hn].
    rewrite (proj2 (byte_list_ok l) Hl), (bytes32_idempotent _ _ _ Hp E), Hn, Nat.eqb_refl. cbn [andb].
    now apply js20_text_opt_eq.
  - cbn [leaf_ok]. destruct Hp as [Hb Hl]. apply js20_text_opt_eq. apply bytes32_roundtrip; [exact Hb|].
    rewrite Hl. reflexivity.
  - destruct (bytes32_from_string s) as [l|] eqn:E; cbn [obytes leaf_ok]; [|reflexivity].
    destruct (bytes32_from_string_shape _ _ E) as [Hl Hn]. rewrite Hn. cbn [Nat.eqb andb].
    apply js20_text_opt_eq. apply bytes32_roundtrip; [exact Hl|]. rewrite Hn. reflexivity.
  - destruct (bigint_dec prev tok) as [z|]; cbn [leaf_ok]; [|reflexivity].
    apply js20_Zopt_opt_eq. apply bigint_roundtrip.
  - cbn [leaf_ok]. apply js20_Zopt_opt_eq. apply bigint_roundtrip.
  - cbn [leaf_ok]. apply js20_N_opt_eq. now apply uint_roundtrip.
  - destruct (uint_dec max64 0 s) as [n|] eqn:E; cbn [leaf_ok]; [|reflexivity].
    apply leaf_num_ok. eapply uint_dec_le; [|exact E]. unfold max64. lia.
  - destruct (uint_parse max64 s) as [n|] eqn:E; cbn [leaf_ok]; [|reflexivity].
    apply leaf_num_ok. eapply uint_parse_le; exact E.
  - cbn [leaf_model] in Hp.
    destruct (decode_text nonce_ty ([123; 34; 110; 111; 110; 99; 101; 34; 58]%N ++ s ++ [125]%N)) as [[| | | | | | | | | | | |[|[n| | | | | | | | | | | |] [|]]]|];
      cbn [leaf_ok]; try reflexivity.
    apply leaf_num_ok. now apply Hp.
Qed.

Example leaf_ok_example : leaf_ok (LBytesEnc (Some [171; 1]%N)) (OText [34; 48; 120; 97; 98; 48; 49; 34]%N) = true.
Proof. vm_compute. reflexivity. Qed.

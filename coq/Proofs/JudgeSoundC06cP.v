(* JudgeSoundC06cP.v — the liveness clause of the executable property of Check/C06_check.v ([live_test_from]):
   the test evaluates the hypotheses of C06_liveness (Proofs/RmnP.v [liveness]) for every schedule and every event list
   the model allows for the case; [live_test_sound] = it really is those hypotheses, [live_test_success] = hence every
   outcome of the model's set is a success when the test holds (so the clause cannot raise a false alarm on an output
   that agrees with the model). *)
Require Import Verif.Model.Base Verif.Model.Rmn Verif.Proofs.BaseP Verif.Proofs.RmnP.
From Coq Require Import Sorting.Sorted.
Require Import Verif.Check.C06_check Verif.Proofs.JudgeSoundC06bP Verif.Proofs.JudgeSoundC06aP.

Lemma in_ids_in id h ids : in_ids id h ids = true <-> In (id, h) ids.
Proof.
  unfold in_ids. rewrite existsb_exists. split.
  - intros ([a b] & Hin & E). cbn [fst snd] in E. apply andb_true_iff in E as [E1 E2]. apply N.eqb_eq in E1, E2. now subst.
  - intros H. exists (id, h). split; [exact H|]. cbn [fst snd]. now rewrite !N.eqb_refl.
Qed.

Lemma good_answerb_sound cfg us rho h p :
  good_answerb cfg us rho h p = true -> good_answer edv_c cfg us rho h p.
Proof.
  unfold good_answerb. destruct (validate_obs edv_c fixed cfg h us p) as [votes| | |] eqn:Ev; try discriminate.
  intros H. exists votes. split; [exact Ev|]. intros u Hu Hh. rewrite forallb_forall in H. specialize (H u Hu).
  apply memN_in in Hh. rewrite Hh in H. cbn [negb orb] in H. apply existsb_exists in H as ([c rv] & Hin & E).
  cbn [fst snd] in E. apply andb_true_iff in E as [E1 E2]. apply N.eqb_eq in E1. subst c.
  destruct rv as [| |r|]; try discriminate. apply N.eqb_eq in E2. now subst r.
Qed.
Lemma good_sigb_sound cfg rep h p : good_sigb cfg rep h p = true -> good_sig vrs_c cfg rep h p.
Proof.
  unfold good_sigb. destruct (find_signer cfg h) as [sg|] eqn:Ef; [|discriminate].
  destruct p as [| |[e|]]; try discriminate. intros H. apply andb_true_iff in H as [H1 H2].
  exists sg, e. auto.
Qed.

Section Live.
  Variable cfg : config.
  Variable sc : sched.
  Notation stp := (step1 cfg sc).
  Notation runM := (run edv_c vrs_c fixed cfg sc).

  Lemma collect_sound f evs : forall g h,
    In h (collect cfg sc f g evs) ->
    exists e1 e2 id p, evs = e1 ++ Resp h (BMsg id p) :: e2 /\ f (fold_left stp e1 g) h id p = true.
  Proof.
    induction evs as [|e r IH]; intros g h H; [destruct H|].
    assert (Hrec : In h (collect cfg sc f (stp g e) r) ->
                   exists e1 e2 id p, e :: r = e1 ++ Resp h (BMsg id p) :: e2 /\ f (fold_left stp e1 g) h id p = true).
    { intros H'. destruct (IH _ _ H') as (e1 & e2 & id & p & E & Hf). exists (e :: e1), e2, id, p.
      split; [cbn; now rewrite E|exact Hf]. }
    destruct e as [n [|id p]| |]; cbn [collect] in H; auto.
    destruct (f g n id p) eqn:Ef; auto. destruct H as [<-|H]; auto.
    exists [], r, id, p. split; [reflexivity|exact Ef].
  Qed.
  Lemma collect_complete f evs : forall g h e1 e2 id p,
    evs = e1 ++ Resp h (BMsg id p) :: e2 -> f (fold_left stp e1 g) h id p = true -> In h (collect cfg sc f g evs).
  Proof.
    induction evs as [|e r IH]; intros g h e1 e2 id p E Hf; [now destruct e1|].
    destruct e1 as [|e0 e1]; cbn [app] in E; inversion E; subst.
    - cbn [collect]. cbn [fold_left] in Hf. rewrite Hf. now left.
    - cbn [fold_left] in Hf. specialize (IH (stp g e0) h e1 e2 id p eq_refl Hf).
      destruct e0 as [n [|id0 p0]| |]; cbn [collect]; auto. destruct (f g n id0 p0); [now right|exact IH].
  Qed.

  (* the hypotheses of C06_liveness about one schedule and one event list *)
  Definition live_premises (us : list upd) (rho : chain -> root) (evs : list event) : Prop :=
    exists (hon : node -> bool) (q : upd -> list node) (qs : list node),
      honest_quorums us hon q /\
      (forall u, In u us -> (zlen (filter (fun n => negb (hon n)) (u_nodes u)) <= u_F u)%Z) /\
      (NoDup qs /\ (c_remoteF cfg + 1 <= zlen qs)%Z /\ (0 <= c_remoteF cfg)%Z /\
       forall h, In h qs -> hon h = true /\ In h (signer_nodes cfg) /\ is_home cfg h = true) /\
      honest_run edv_c vrs_c cfg sc us hon rho evs /\
      ~ In CtxDone evs /\
      (forall u h, In u us -> In h (q u) -> answered_A edv_c vrs_c cfg sc evs h) /\
      (forall h, In h qs -> answered_B edv_c vrs_c cfg sc evs h).

  Lemma live_hyp_reflect us rho evs : live_hyp cfg sc us rho evs = true -> live_premises us rho evs.
  Proof.
    intros H. unfold live_hyp in H. cbv zeta in H.
    set (g0 := ginit cfg sc) in *.
    set (bad := collect cfg sc (fun g h id p => negb (hon_okb cfg us rho g h id p)) g0 evs) in *.
    set (hon := fun h => negb (memN h bad)) in *.
    set (aA := collect cfg sc ansAb g0 evs) in *. set (aB := collect cfg sc ansBb g0 evs) in *.
    apply andb_true_iff in H as [H H5]. apply andb_true_iff in H as [H H4]. apply andb_true_iff in H as [H1 H2].
    rewrite forallb_forall in H2. apply Z.leb_le in H4, H5.
    exists hon, (fun u => dedupN (filter (fun h => hon h && memN h aA) (u_nodes u))),
           (dedupN (filter (fun h => hon h && memN h aB && is_home cfg h) (signer_nodes cfg))).
    split; [|split; [|split; [|split; [|split; [|split]]]]].
    - intros u Hu. specialize (H2 u Hu). apply andb_true_iff in H2 as [H2 _]. apply andb_true_iff in H2 as [A B].
      apply Z.leb_le in A, B. split; [apply dedupN_nodup|]. split; [exact A|]. split; [exact B|].
      intros h Hh. apply dedupN_in, filter_In in Hh as [Hn Hb]. apply andb_true_iff in Hb as [Hb _]. auto.
    - intros u Hu. specialize (H2 u Hu). apply andb_true_iff in H2 as [_ C]. now apply Z.leb_le in C.
    - split; [apply dedupN_nodup|]. split; [exact H4|]. split; [exact H5|].
      intros h Hh. apply dedupN_in, filter_In in Hh as [Hn Hb]. apply andb_true_iff in Hb as [Hb Hc].
      apply andb_true_iff in Hb as [Hb _]. auto.
    - intros e1 e e2 E h id p -> Hh.
      assert (Ho : hon_okb cfg us rho (runM e1) h id p = true).
      { destruct (hon_okb cfg us rho (runM e1) h id p) eqn:Eo; [reflexivity|]. exfalso.
        unfold hon in Hh. apply negb_true_iff, memN_false in Hh. apply Hh. unfold bad.
        eapply collect_complete; [exact E|]. change (negb (hon_okb cfg us rho (runM e1) h id p) = true). now rewrite Eo. }
      unfold hon_okb in Ho. destruct (runM e1) as [us1 s1|s1|f1 l1]; [| |exact Logic.I].
      + intros Hin. apply in_ids_in in Hin. rewrite Hin in Ho. now apply good_answerb_sound.
      + intros Hin. apply in_ids_in in Hin. rewrite Hin in Ho. now apply good_sigb_sound.
    - intros Hin. apply negb_true_iff in H1. assert (existsb is_ctx evs = true); [|congruence].
      apply existsb_exists. now exists CtxDone.
    - intros u h Hu Hh. apply dedupN_in, filter_In in Hh as [_ Hb]. apply andb_true_iff in Hb as [_ Hb].
      apply memN_in in Hb. destruct (collect_sound _ _ _ _ Hb) as (e1 & e2 & id & p & E & Hf).
      exists e1, e2, id, p. split; [exact E|]. change (ansAb (runM e1) h id p = true) in Hf. unfold ansAb in Hf.
      destruct (runM e1); [now apply in_ids_in|exact Logic.I|exact Logic.I].
    - intros h Hh. apply dedupN_in, filter_In in Hh as [_ Hb]. apply andb_true_iff in Hb as [Hb _].
      apply andb_true_iff in Hb as [_ Hb].
      apply memN_in in Hb. destruct (collect_sound _ _ _ _ Hb) as (e1 & e2 & id & p & E & Hf).
      exists e1, e2, id, p. split; [exact E|]. change (ansBb (runM e1) h id p = true) in Hf. unfold ansBb in Hf.
      destruct (runM e1); [discriminate|now apply in_ids_in|exact Logic.I].
  Qed.

  (* C06_liveness applied *)
  Lemma live_premises_success us rho evs :
    NoDup (map sg_node (c_signers cfg)) -> prepare cfg = inl (Ok us) -> c_dest_known cfg = true ->
    (forall k, s_fail sc k = false) -> (forall i j, s_id sc i = s_id sc j -> i = j) ->
    (forall u, In u us -> rho (u_chain u) <> 0%N) ->
    live_premises us rho evs ->
    exists sigs rep log, runM evs = GFinal (Success sigs rep) log.
  Proof.
    intros ND P Dk Nf Fr Hr (hon & q & qs & Hq & Hb & Hqs & Hrun & Hc & HA & HB).
    exact (liveness edv_c vrs_c cfg sc us ND P Dk Nf Fr hon rho Hr q Hq Hb qs Hqs evs Hrun Hc HA HB).
  Qed.

  (* the event lists behind the outcomes of [eager_acc] *)
  Lemma tf_settle g : fold_left stp (if g_due g then [TimerFire] else []) g = settle cfg sc g.
  Proof. unfold settle. destruct (g_due g); reflexivity. Qed.

  Lemma eager_evs_acc its : forall g acc x,
    In x (eager_acc cfg sc g acc its) ->
    exists evs, In evs (eager_evs cfg sc g its) /\ fst x = fold_left stp evs g.
  Proof.
    induction its as [|it r IH]; intros g acc x Hx.
    - cbn [eager_acc] in Hx. destruct Hx as [<-|[]]. cbn [fst eager_evs]. eexists. split; [now left|].
      symmetry. apply tf_settle.
    - assert (Hs : forall e acc' x, In x (eager_acc cfg sc (stp (settle cfg sc g) e) acc' r) ->
                   exists evs, In evs (map (fun l => (if g_due g then [TimerFire] else []) ++ e :: l)
                                            (eager_evs cfg sc (stp (settle cfg sc g) e) r)) /\
                               fst x = fold_left stp evs g).
      { intros e acc' y Hy. destruct (IH _ _ _ Hy) as (evs & Hin & E). eexists. split; [apply in_map, Hin|].
        rewrite fold_left_app, tf_settle. exact E. }
      assert (Hn : forall e acc' x, In x (eager_acc cfg sc (stp g e) acc' r) ->
                   exists evs, In evs (map (fun l => e :: l) (eager_evs cfg sc (stp g e) r)) /\
                               fst x = fold_left stp evs g).
      { intros e acc' y Hy. destruct (IH _ _ _ Hy) as (evs & Hin & E). eexists. split; [apply in_map, Hin|]. exact E. }
      destruct it as [n b|n b| |]; cbn [eager_acc eager_evs] in Hx |- *; cbv zeta in Hx |- *.
      + exact (Hs _ _ _ Hx).
      + destruct (g_due g) eqn:Ed.
        * apply in_app_iff in Hx as [Hx|Hx].
          -- destruct (Hs _ _ _ Hx) as (evs & Hin & E). exists evs. split; [|exact E].
             apply in_app_iff. now left.
          -- destruct (Hn _ _ _ Hx) as (evs & Hin & E). exists evs. split; [|exact E]. apply in_app_iff. now right.
        * exact (Hn _ _ _ Hx).
      + exact (Hs _ _ _ Hx).
      + destruct (g_due g) eqn:Ed.
        * apply in_app_iff in Hx as [Hx|Hx].
          -- destruct (Hs _ _ _ Hx) as (evs & Hin & E). exists evs. split; [|exact E].
             apply in_app_iff. now left.
          -- destruct (Hn _ _ _ Hx) as (evs & Hin & E). exists evs. split; [|exact E]. apply in_app_iff. now right.
        * exact (Hn _ _ _ Hx).
  Qed.
End Live.

Lemma nth_all_false (l : list bool) k : forallb negb l = true -> nth k l false = false.
Proof.
  revert k. induction l as [|b l IH]; intros k H; [destruct k; reflexivity|].
  cbn [forallb] in H. apply andb_true_iff in H as [Hb Hl]. destruct k; cbn [nth]; [now apply negb_true_iff in Hb|auto].
Qed.

(* ---------- the test is the hypothesis of C06_liveness, for every schedule / event list of the model's set ---------- *)
Definition live_facts (off : nat) (i : c06_in) (us : list upd) (rho : chain -> root) : Prop :=
  prepare (i_cfg i) = inl (Ok us) /\ c_dest_known (i_cfg i) = true /\
  (forall u, In u us -> rho (u_chain u) <> 0%N) /\
  forall order1 ro, In order1 (rotations (i_asked i)) -> In ro (rootords_of i) ->
    (forall k, s_fail (sched_of off i order1 ro) k = false) /\
    (forall a b, s_id (sched_of off i order1 ro) a = s_id (sched_of off i order1 ro) b -> a = b) /\
    forall evs, In evs (eager_evs (i_cfg i) (sched_of off i order1 ro) (ginit (i_cfg i) (sched_of off i order1 ro)) (i_items i)) ->
      live_premises (i_cfg i) (sched_of off i order1 ro) us rho evs.

Theorem live_test_sound off i : live_test_from off i = true -> exists us rho, live_facts off i us rho.
Proof.
  intros H. unfold live_test_from in H. cbv zeta in H.
  destruct (prepare (i_cfg i)) as [[us| | |]|f] eqn:P; try discriminate.
  match type of H with (if ?c then _ else _) = true => destruct c eqn:St; [|discriminate] end.
  apply andb_true_iff in St as [St S4]. apply andb_true_iff in St as [St S3]. apply andb_true_iff in St as [S1 S2].
  exists us, (rho_of (map (fun u => (u_chain u, best_root (i_cfg i) u (i_items i))) us)).
  split; [exact P|]. split; [exact S1|]. split.
  { intros u Hu. rewrite forallb_forall in S4. specialize (S4 u Hu). now apply negb_true_iff, N.eqb_neq in S4. }
  intros order1 ro Ho Hr. rewrite forallb_forall in H. specialize (H order1 Ho).
  rewrite forallb_forall in H. specialize (H ro Hr). split; [|split].
  - intros k. unfold sched_of, mk_sched. cbn [s_fail]. now apply nth_all_false.
  - intros a b E. unfold sched_of, mk_sched in E. cbn [s_id] in E. apply Nat2N.inj in E. lia.
  - intros evs Hevs. rewrite forallb_forall in H. apply live_hyp_reflect. exact (H evs Hevs).
Qed.

(* (a): when the test holds every outcome the model allows is a success *)
Theorem live_test_success off i x :
  cfg_wf (i_cfg i) -> live_test_from off i = true -> In x (c06_model_from off i) -> o_kind x = 0%N.
Proof.
  intros WF H Hx. destruct (live_test_sound off i H) as (us & rho & P & Dk & Hr & Hall).
  destruct (model_outcome_reach off i x WF Hx) as (order1 & ro & g & acc & Ho & Hro & Hga & -> & _).
  destruct (Hall order1 ro Ho Hro) as (Nf & Fr & Hev).
  destruct (eager_evs_acc _ _ _ _ _ _ Hga) as (evs & Hin & E). cbn [fst] in E.
  destruct (live_premises_success (i_cfg i) (sched_of off i order1 ro) us rho evs (proj1 WF) P Dk Nf Fr Hr (Hev evs Hin))
    as (sigs & rep & log & Er).
  unfold run in Er. unfold step1 in E. rewrite Er in E. subst g. reflexivity.
Qed.

(* non-vacuity: the honest two-observer / two-signer script satisfies the test (so an output of that case that reports
   a failure is rejected); with the second signer silent it does not *)
Example live_test_example :
  live_test_from 0 (mkIn Witness.cfg [1; 2]%N [] [1; 2]%N [] []
                      [IResp 1 (BMsg 1 (Witness.obs_of 21 105)); IResp 2 (BMsg 2 (Witness.obs_of 22 105));
                       IResp 2 (BMsg 4 (Witness.sig_of 1201)); IResp 1 (BMsg 3 (Witness.sig_of 1101))]%N) = true /\
  live_test_from 0 (mkIn Witness.cfg [1; 2]%N [] [1; 2]%N [] []
                      [IResp 1 (BMsg 1 (Witness.obs_of 21 105)); IResp 2 (BMsg 2 (Witness.obs_of 22 105));
                       IResp 2 (BMsg 4 (Witness.sig_of 1201))]%N) = false.
Proof. split; vm_compute; reflexivity. Qed.

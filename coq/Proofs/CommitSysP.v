Require Import Verif.Model.Base Verif.Proofs.BaseP Verif.Model.SeqRange Verif.Model.CommitMerkle
               Verif.Proofs.CommitMerkleP Verif.Model.CommitSys.
From Coq Require Import Sorting.Sorted.

Lemma nodupb_NoDupN l : nodupb N.eqb l = true <-> NoDup l.
Proof.
  induction l as [|x l IH]; cbn [nodupb]; [split; [constructor|reflexivity]|].
  rewrite andb_true_iff, negb_true_iff, IH. split.
  - intros [Hn Hd]. constructor; [|exact Hd]. intros Hi.
    assert (E : existsb (N.eqb x) l = true) by (apply existsb_exists; exists x; split; [exact Hi|apply N.eqb_refl]).
    congruence.
  - intros ND. inversion ND as [|? ? Hn Hd]; subst. split; [|exact Hd].
    destruct (existsb (N.eqb x) l) eqn:E; [|reflexivity]. exfalso. apply Hn.
    apply existsb_exists in E. destruct E as [y [Hy He]]. apply N.eqb_eq in He. now subst.
Qed.

(* ---------- the transmit-time re-check ---------- *)
Lemma all_start_match_sound chains : forall answer roots,
  all_start_match chains answer roots = true ->
  length answer = length chains /\
  forall i k, nth_error chains i = Some k ->
    exists r a, find (fun r => N.eqb (rr_chain r) k) roots = Some r /\ nth_error answer i = Some a /\ rr_start r = a.
Proof.
  induction chains as [|k chains IH]; intros answer roots H; destruct answer as [|a answer]; cbn [all_start_match] in H;
    try discriminate.
  - split; [reflexivity|]. intros i k Hn. destruct i; discriminate.
  - destruct (find (fun r => N.eqb (rr_chain r) k) roots) as [r|] eqn:Ef; [|discriminate].
    apply andb_prop in H. destruct H as [Hs Hrest]. apply N.eqb_eq in Hs.
    destruct (IH _ _ Hrest) as [Hl Hall]. split; [cbn; congruence|].
    intros i k' Hn. destruct i as [|i]; cbn [nth_error] in *.
    + inversion Hn as [Ek]. rewrite <- Ek. exists r, a. repeat split; assumption.
    + apply Hall. exact Hn.
Qed.

(* ShouldTransmitAcceptedReport's state check against an honest reader of the destination: every root of the report
   starts exactly at the destination's current cursor, and no chain occurs twice *)
Theorem roots_state_ok_sound roots c fails :
  roots_state_ok roots (honest_next_reader c fails) = true ->
  NoDup (map rr_chain roots) /\
  forall r, In r roots -> rr_start r = next_of c (rr_chain r).
Proof.
  unfold roots_state_ok. destruct roots as [|r0 roots0]; [intros _; split; [constructor|intros ? []]|].
  set (roots := r0 :: roots0).
  destruct (nodupb N.eqb (map rr_chain roots)) eqn:ND; cbn [negb]; [|discriminate].
  apply nodupb_NoDupN in ND.
  unfold honest_next_reader. destruct fails; [discriminate|].
  destruct (Nat.eqb _ _); cbn [negb]; [|discriminate].
  intros H. split; [exact ND|]. intros r Hr.
  apply all_start_match_sound in H. destruct H as [_ Hall].
  assert (Hk : In (rr_chain r) (sortN (map rr_chain roots))).
  { eapply Permutation_in; [symmetry; apply sortN_perm_self|]. now apply in_map. }
  apply In_nth_error in Hk. destruct Hk as [i Hi].
  destruct (Hall _ _ Hi) as [r' [a [Hf [Ha Hs]]]].
  rewrite nth_error_map, Hi in Ha. cbn in Ha. inversion Ha as [Ea]. rewrite <- Hs in Ea.
  (* find returns the unique root of that chain, which is r *)
  apply find_some in Hf. destruct Hf as [Hin' He]. apply N.eqb_eq in He.
  assert (r' = r).
  { clear - ND Hr Hin' He. induction roots as [|x l IH]; [contradiction|].
    cbn [map] in ND. inversion ND as [|? ? Hn ND']; subst.
    destruct Hr as [->|Hr], Hin' as [->|Hin']; try reflexivity.
    - exfalso. apply Hn. rewrite <- He. now apply in_map.
    - exfalso. apply Hn. rewrite He. now apply in_map.
    - now apply IH. }
  subst r'. congruence.
Qed.

(* a failing read of the destination never lets a report with roots through *)
Theorem roots_state_reader_failure r roots c :
  roots_state_ok (r :: roots) (honest_next_reader c true) = false.
Proof. unfold roots_state_ok, honest_next_reader. destruct (nodupb _ _); reflexivity. Qed.

(* ---------- no stale sends: what an honest oracle agrees to transmit is what the off-ramp accepts now ---------- *)
Lemma next_of_set_next_same c k v : next_of (set_next c k v) k = v.
Proof.
  unfold next_of. induction c as [|[k' v'] c IH]; cbn [set_next alookup].
  - now rewrite N.eqb_refl.
  - destruct (N.eqb_spec k k') as [->|Hne]; cbn [alookup].
    + now rewrite N.eqb_refl.
    + destruct (N.eqb_spec k k'); [contradiction|exact IH].
Qed.

Lemma next_of_set_next_other c k v k' : k' <> k -> next_of (set_next c k v) k' = next_of c k'.
Proof.
  intros Hne. unfold next_of. induction c as [|[k0 v0] c IH]; cbn [set_next alookup].
  - destruct (N.eqb_spec k' k); [contradiction|reflexivity].
  - destruct (N.eqb_spec k k0) as [->|H0]; cbn [alookup].
    + destruct (N.eqb_spec k' k0); [contradiction|reflexivity].
    + destruct (N.eqb_spec k' k0); [reflexivity|exact IH].
Qed.

Theorem transmit_not_stale roots c fails :
  (forall r, In r roots -> (rr_start r <= rr_end r)%N) ->
  roots_state_ok roots (honest_next_reader c fails) = true ->
  exists c', apply_roots c roots = Some c'.
Proof.
  intros Hwf H. apply roots_state_ok_sound in H. destruct H as [ND Hs].
  revert c Hs. induction roots as [|r roots IH]; intros c Hs; cbn [apply_roots]; [now eexists|].
  unfold root_acceptable. rewrite (Hs r (or_introl eq_refl)), N.eqb_refl.
  destruct (N.leb_spec (next_of c (rr_chain r)) (rr_end r)) as [_|Hlt].
  - cbn [andb]. cbn [map] in ND. inversion ND as [|? ? Hn ND']; subst. apply IH.
    + intros x Hx. apply Hwf. now right.
    + exact ND'.
    + intros x Hx. rewrite next_of_set_next_other; [apply Hs; now right|].
      intros E. apply Hn. rewrite <- E. now apply in_map.
  - exfalso. specialize (Hwf r (or_introl eq_refl)). rewrite (Hs r (or_introl eq_refl)) in Hwf. lia.
Qed.

(* ---------- the off-ramp keeps every chain contiguous under ANY sequence of landing reports ---------- *)
Definition cursor_consistent (d : dest) (init : cursor) : Prop :=
  forall k, contiguous_from (next_of init k) (committed_for d k) /\
            next_of (d_cursor d) k =
              match rev (committed_for d k) with [] => next_of init k | (_, e) :: _ => succ64 e end.

Lemma contiguous_from_app start l s e :
  contiguous_from start l ->
  (match rev l with [] => start | (_, e0) :: _ => succ64 e0 end = s) -> (s <= e)%N ->
  contiguous_from start (l ++ [(s, e)]).
Proof.
  revert start. induction l as [|[s0 e0] l IH]; intros start Hc Hlast Hse; cbn [app contiguous_from].
  - cbn in Hlast. subst. split; [reflexivity|]. split; [exact Hse|exact I].
  - destruct Hc as [E [Hle Hc]]. split; [exact E|]. split; [exact Hle|].
    apply IH; try assumption.
    cbn [rev] in Hlast. destruct (rev l) as [|[s1 e1] rl] eqn:Er; cbn [app] in Hlast; exact Hlast.
Qed.

Lemma committed_for_land_step c comm (r : rroot) k :
  committed_for (mkDest c (fst r :: comm)) k =
  committed_for (mkDest c comm) k ++ (if N.eqb (rr_chain r) k then [snd (fst r)] else []).
Proof.
  unfold committed_for. cbn [d_committed rev]. rewrite filter_app, map_app. cbn [filter map].
  unfold rr_chain. destruct (N.eqb (fst (fst r)) k); reflexivity.
Qed.

Lemma apply_roots_consistent init : forall roots c comm c',
  cursor_consistent (mkDest c comm) init ->
  apply_roots c roots = Some c' ->
  cursor_consistent (mkDest c' (rev (map fst roots) ++ comm)) init.
Proof.
  induction roots as [|r roots IH]; intros c comm c' Hc H; cbn [apply_roots] in H.
  - inversion H; subst. exact Hc.
  - unfold root_acceptable in H. destruct (N.eqb_spec (rr_start r) (next_of c (rr_chain r))) as [Es|]; [|discriminate].
    destruct (N.leb_spec (rr_start r) (rr_end r)) as [Hle|]; [|discriminate]. cbn [andb] in H.
    cbn [map rev]. rewrite <- app_assoc. cbn [app].
    apply (IH (set_next c (rr_chain r) (succ64 (rr_end r))) (fst r :: comm) c'); [|exact H].
    intros k. destruct (Hc k) as [Hcont Hnext]. cbn [d_cursor] in *.
    rewrite committed_for_land_step.
    destruct (N.eqb_spec (rr_chain r) k) as [Ek|Ek].
    + subst k. split.
      * destruct r as [[k0 [s e]] rt]. cbn in *. apply contiguous_from_app; try assumption.
        rewrite <- Hnext. symmetry. exact Es.
      * rewrite next_of_set_next_same, rev_app_distr. cbn. destruct r as [[k0 [s e]] rt]. reflexivity.
    + rewrite app_nil_r. split; [exact Hcont|].
      rewrite next_of_set_next_other by congruence. exact Hnext.
Qed.

Theorem lands_contiguous init reports :
  let d := run_lands (mkDest init []) reports in
  forall k, contiguous_from (next_of init k) (committed_for d k).
Proof.
  cbn zeta. assert (G : forall d, cursor_consistent d init -> cursor_consistent (run_lands d reports) init).
  { induction reports as [|r reports IH]; intros d Hd; cbn [run_lands fold_left]; [exact Hd|].
    apply IH. unfold land. destruct (apply_roots (d_cursor d) r) as [c'|] eqn:E; [|exact Hd].
    destruct d as [c comm]. cbn [d_cursor d_committed] in *. eapply apply_roots_consistent; eauto. }
  intros k. apply G. intros k'. split; cbn; [exact I|reflexivity].
Qed.

(* ---------- honest observations carry the true root ---------- *)
Section TruthP.
  Variable h : N -> N -> N.
  Variable zero : N.
  Variable log : N -> N -> option msg.

  Lemma iota_eq s len : iota s len = iotaN s len.
  Proof. revert s; induction len; intros; cbn; [reflexivity|now rewrite IHlen]. Qed.

  Lemma map_Some_inj (a b : list N) : map Some a = map Some b -> a = b.
  Proof.
    revert b; induction a as [|x a IH]; intros [|y b] H; cbn in H; try discriminate; [reflexivity|].
    inversion H; subst. f_equal. now apply IH.
  Qed.

  Theorem true_root_unique k s e r r' : true_root h zero log k s e r -> true_root h zero log k s e r' -> r = r'.
  Proof.
    intros [hs [H1 H2]] [hs' [H1' H2']]. rewrite <- H1' in H1. apply map_Some_inj in H1. subst. congruence.
  Qed.

  (* every root an honest oracle observes (C02: it read one message per sequence number of the interval) is the
     true root of the chain's log over that interval *)
  Theorem honest_observed_root_true supported ranges reader addr k s e a r :
    reader_honest log reader ->
    (forall k s e, In (k, (s, e)) ranges -> u64 e) ->
    In (k, (s, e), a, r) (observe_roots h zero supported ranges reader addr) ->
    In (k, (s, e)) ranges /\ true_root h zero log k s e r.
  Proof.
    intros Hh Hu Hin.
    destruct (observe_roots_sound h zero _ _ _ _ _ _ _ _ _ Hu Hin) as [sup [ms [hs [_ [_ [Hr [Hread [_ [Hc Hm]]]]]]]]].
    split; [exact Hr|]. exists hs. split; [|exact Hm].
    destruct Hc as [Hse [Hlen [Hseq Hhash]]].
    specialize (Hh _ _ _ Hread).
    assert (Hs : Forall (fun m => log k (m_seq m) = Some m) (sort_by seq_le ms)).
    { rewrite Forall_forall in *. intros m Hm'. apply Hh. now apply sort_by_in in Hm'. }
    unfold true_hashes. rewrite iota_eq.
    assert (El : N.to_nat (e - s + 1) = length ms) by lia.
    rewrite El, <- Hseq, <- Hhash, map_map.
    apply map_ext_in. intros m Hm'. rewrite Forall_forall in Hs. now rewrite (Hs _ Hm').
  Qed.
End TruthP.

(* non-vacuity: a destination at cursor {5 -> 10} receives, in this order, a stale report, the right one, a replay *)
Example lands_example :
  let d := run_lands (mkDest [(5, 10)]%N [])
             [[((5, (8, 12)), 1)]; [((5, (10, 12)), 2)]; [((5, (10, 12)), 2)]; [((5, (13, 13)), 3)]]%N in
  committed_for d 5%N = [(10, 12); (13, 13)]%N /\ next_of (d_cursor d) 5%N = 14%N.
Proof. vm_compute. split; reflexivity. Qed.

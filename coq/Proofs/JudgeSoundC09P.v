(* JudgeSoundC09P.v — the executable properties of Check/C09_check.v (ranges_ok, filter_ok, pend_ok, hist_ok, cyc_ok)
   tied to the Prop-level clauses of Props/C09.v.  For every sink: the model's own output passes the judge (code 2
   never fires on an agreeing case), and an ARBITRARY output that passes the judge satisfies the property clause.
   The executable properties are written with plain interval arithmetic (merge_runs / clip / pending_spec), not with
   the model; the first half of this file gives that arithmetic its meaning in the vocabulary of the theorems
   (in_union, in_runs, all_executed, gap_above). *)
Require Import Verif.Model.Base Verif.Proofs.BaseP Verif.Model.ExecPending Verif.Proofs.ExecPendingP
               Verif.Model.ExecCycles Verif.Proofs.ExecCyclesP.
Require Import Verif.Check.C09_check.
From Coq Require Import ZifyN ZifyNat ZifyBool Sorting.Sorted.
Ltac Zify.zify_post_hook ::= Z.div_mod_to_equations.
Local Open Scope N_scope.

(* ---------- reflection of the boolean equalities of the case types ---------- *)
Lemma js09_list_eqb_F2 {A} (e : A -> A -> bool) (R : A -> A -> Prop) :
  (forall a b, e a b = true -> R a b) -> forall l1 l2, list_eqb e l1 l2 = true -> Forall2 R l1 l2.
Proof.
  intros He. induction l1 as [|x l1 IH]; intros [|y l2] H; cbn [list_eqb] in H; try discriminate; [constructor|].
  apply andb_prop in H. destruct H as [H1 H2]. constructor; [now apply He|now apply IH].
Qed.

Lemma js09_F2_list_eqb {A} (e : A -> A -> bool) (R : A -> A -> Prop) :
  (forall a b, R a b -> e a b = true) -> forall l1 l2, Forall2 R l1 l2 -> list_eqb e l1 l2 = true.
Proof.
  intros He l1 l2 H. induction H as [|x y l1 l2 Hxy _ IH]; [reflexivity|]. cbn [list_eqb]. now rewrite (He _ _ Hxy), IH.
Qed.

Lemma js09_list_eqb_eq {A} (e : A -> A -> bool) :
  (forall a b, e a b = true -> a = b) -> forall l1 l2, list_eqb e l1 l2 = true -> l1 = l2.
Proof.
  intros He l1 l2 H. apply (js09_list_eqb_F2 e eq He) in H. induction H as [|x y l1 l2 Hxy _ IH]; [reflexivity|]. now subst.
Qed.

Lemma js09_list_eqb_refl {A} (e : A -> A -> bool) : (forall a, e a a = true) -> forall l, list_eqb e l l = true.
Proof. intros He l. induction l as [|x l IH]; [reflexivity|]. cbn [list_eqb]. now rewrite He, IH. Qed.

Lemma F2_in_l {A B} (R : A -> B -> Prop) l1 l2 x : Forall2 R l1 l2 -> In x l1 -> exists y, In y l2 /\ R x y.
Proof.
  induction 1 as [|a b l1 l2 Hab _ IH]; intros Hi; [contradiction|]. destruct Hi as [<-|Hi].
  - exists b. split; [now left|exact Hab].
  - destruct (IH Hi) as [y [Hy Hr]]. exists y. split; [now right|exact Hr].
Qed.
Lemma F2_in_r {A B} (R : A -> B -> Prop) l1 l2 y : Forall2 R l1 l2 -> In y l2 -> exists x, In x l1 /\ R x y.
Proof.
  induction 1 as [|a b l1 l2 Hab _ IH]; intros Hi; [contradiction|]. destruct Hi as [<-|Hi].
  - exists a. split; [now left|exact Hab].
  - destruct (IH Hi) as [x [Hx Hr]]. exists x. split; [now right|exact Hr].
Qed.
Lemma F2_map_eq {A B C} (R : A -> B -> Prop) (f : A -> C) (g : B -> C) l1 l2 :
  (forall a b, R a b -> f a = g b) -> Forall2 R l1 l2 -> map f l1 = map g l2.
Proof. intros H. induction 1 as [|a b l1 l2 Hab _ IH]; [reflexivity|]. cbn [map]. now rewrite (H _ _ Hab), IH. Qed.

Lemma range_eqb_eq a b : range_eqb a b = true -> a = b.
Proof.
  unfold range_eqb. destruct a as [a1 a2], b as [b1 b2]. cbn [fst snd]. rewrite andb_true_iff, !N.eqb_eq.
  intros [-> ->]. reflexivity.
Qed.
Lemma range_eqb_refl a : range_eqb a a = true.
Proof. unfold range_eqb. now rewrite !N.eqb_refl. Qed.
Lemma ranges_eqb_eq l1 l2 : list_eqb range_eqb l1 l2 = true -> l1 = l2.
Proof. apply js09_list_eqb_eq. exact range_eqb_eq. Qed.
Lemma ranges_eqb_refl l : list_eqb range_eqb l l = true.
Proof. apply js09_list_eqb_refl. exact range_eqb_refl. Qed.

(* ---------- the interval arithmetic of the executable properties ---------- *)
Definition wf_runs (runs : list range) : Prop := forall run, In run runs -> fst run <= snd run.
(* ascending non-empty runs, two apart at least (maximal runs), the first at or above [low] *)
Fixpoint asc_gap (low : N) (l : list range) : Prop :=
  match l with
  | [] => True
  | r :: rest => low <= fst r /\ fst r <= snd r /\ asc_gap (snd r + 2) rest
  end.
(* starts never go down *)
Fixpoint starts_from (p : N) (l : list range) : Prop :=
  match l with
  | [] => True
  | e :: rest => p <= fst e /\ starts_from (fst e) rest
  end.

Lemma asc_gap_above p l : asc_gap (p + 2) l <-> gap_above p l.
Proof.
  revert p. induction l as [|r l IH]; intros p; cbn [asc_gap gap_above]; [tauto|]. rewrite IH.
  split; intros [H1 [H2 H3]]; (split; [lia|split; [exact H2|exact H3]]).
Qed.

Lemma asc_gap_weaken p p' l : p <= p' -> asc_gap p' l -> asc_gap p l.
Proof. destruct l as [|r l]; [trivial|]. cbn [asc_gap]. intros; intuition lia. Qed.

Lemma asc_gap_low p l s : asc_gap p l -> in_runs l s -> p <= s.
Proof.
  revert p. induction l as [|[a b] l IH]; intros p H Hs; [destruct Hs as [x [[] _]]|].
  cbn [asc_gap fst snd] in H. destruct H as [H1 [H2 H3]]. apply in_runs_cons in Hs. destruct Hs as [Hs|Hs]; [lia|].
  specialize (IH _ H3 Hs). lia.
Qed.

Lemma asc_gap_wf p l : asc_gap p l -> wf_runs l.
Proof.
  revert p. induction l as [|r l IH]; intros p H run Hi; [contradiction|]. cbn [asc_gap] in H.
  destruct Hi as [<-|Hi]; [tauto|]. eapply IH; [|exact Hi]. apply H.
Qed.

(* maximal runs are a normal form of the set of numbers *)
Lemma asc_gap_unique l1 : forall l2 p, asc_gap p l1 -> asc_gap p l2 ->
  (forall s, in_runs l1 s <-> in_runs l2 s) -> l1 = l2.
Proof.
  induction l1 as [|[a b] l1 IH]; intros [|[c d] l2] p H1 H2 Hs.
  - reflexivity.
  - cbn [asc_gap fst snd] in H2. destruct (proj2 (Hs c)) as [x [[] _]]. apply in_runs_cons. left. lia.
  - cbn [asc_gap fst snd] in H1. destruct (proj1 (Hs a)) as [x [[] _]]. apply in_runs_cons. left. lia.
  - cbn [asc_gap fst snd] in H1, H2. destruct H1 as [Pa [Hab G1]]. destruct H2 as [Pc [Hcd G2]].
    assert (L1 : forall s, in_runs ((a, b) :: l1) s -> a <= s).
    { intros s Hin. apply in_runs_cons in Hin. destruct Hin as [Hin|Hin]; [lia|]. pose proof (asc_gap_low _ _ _ G1 Hin). lia. }
    assert (L2 : forall s, in_runs ((c, d) :: l2) s -> c <= s).
    { intros s Hin. apply in_runs_cons in Hin. destruct Hin as [Hin|Hin]; [lia|]. pose proof (asc_gap_low _ _ _ G2 Hin). lia. }
    assert (Eac : a = c).
    { assert (c <= a) by (apply L2, Hs, in_runs_cons; left; lia).
      assert (a <= c) by (apply L1, Hs, in_runs_cons; left; lia). lia. }
    subst c.
    assert (Ebd : b = d).
    { destruct (N.lt_trichotomy b d) as [Hlt|[E|Hgt]]; [|exact E|].
      - assert (Hin : in_runs ((a, b) :: l1) (b + 1)) by (apply Hs, in_runs_cons; left; lia).
        apply in_runs_cons in Hin. destruct Hin as [Hin|Hin]; [lia|]. pose proof (asc_gap_low _ _ _ G1 Hin). lia.
      - assert (Hin : in_runs ((a, d) :: l2) (d + 1)) by (apply Hs, in_runs_cons; left; lia).
        apply in_runs_cons in Hin. destruct Hin as [Hin|Hin]; [lia|]. pose proof (asc_gap_low _ _ _ G2 Hin). lia. }
    subst d. f_equal. apply (IH l2 (b + 2) G1 G2). intros s. split; intros Hin.
    + pose proof (asc_gap_low _ _ _ G1 Hin).
      assert (Hin' : in_runs ((a, b) :: l2) s) by (apply Hs, in_runs_cons; now right).
      apply in_runs_cons in Hin'. destruct Hin' as [Hin'|Hin']; [lia|exact Hin'].
    + pose proof (asc_gap_low _ _ _ G2 Hin).
      assert (Hin' : in_runs ((a, b) :: l1) s) by (apply Hs, in_runs_cons; now right).
      apply in_runs_cons in Hin'. destruct Hin' as [Hin'|Hin']; [lia|exact Hin'].
Qed.

Lemma starts_weaken p p' l : p <= p' -> starts_from p' l -> starts_from p l.
Proof. destruct l as [|e l]; [trivial|]. cbn [starts_from]. intros; intuition lia. Qed.

(* merge_runs: the union of start-sorted intervals as maximal runs *)
Lemma merge_some X : forall a b, a <= b -> starts_from a X ->
  exists last outs, merge_runs (Some (a, b)) X = (a, last) :: outs /\ b <= last /\ asc_gap (last + 2) outs /\
    forall s, in_runs ((a, last) :: outs) s <-> (a <= s <= b \/ in_runs X s).
Proof.
  induction X as [|e X IH]; intros a b Hab Hst.
  - exists b, []. cbn [merge_runs]. split; [reflexivity|]. split; [lia|]. split; [exact I|].
    intros s. rewrite in_runs_cons. split; [tauto|]. intros [H|[x [[] _]]]; now left.
  - cbn [starts_from] in Hst. destruct Hst as [Hae Hst]. cbn [merge_runs].
    assert (Hst' : starts_from a X) by (eapply starts_weaken; [exact Hae|exact Hst]).
    destruct e as [c d]. cbn [fst snd] in *.
    destruct (N.ltb_spec d c) as [Hemp|Hne].
    + destruct (IH a b Hab Hst') as [last [outs [E [Hl [Hg Hs]]]]]. exists last, outs. split; [exact E|].
      split; [exact Hl|]. split; [exact Hg|]. intros s. rewrite Hs, (in_runs_cons c d). intuition lia.
    + destruct (N.leb_spec c (b + 1)) as [Hadj|Hgap].
      * destruct (IH a (N.max b d)) as [last [outs [E [Hl [Hg Hs]]]]]; [lia|exact Hst'|].
        exists last, outs. split; [exact E|]. split; [lia|]. split; [exact Hg|].
        intros s. rewrite Hs, (in_runs_cons c d). intuition lia.
      * destruct (IH c d Hne Hst) as [last [outs [E [Hl [Hg Hs]]]]].
        exists b, ((c, last) :: outs). split; [f_equal; exact E|]. split; [lia|]. split.
        { cbn [asc_gap fst snd]. repeat split; try lia. exact Hg. }
        intros s. rewrite in_runs_cons, Hs, (in_runs_cons c d). tauto.
Qed.

Lemma merge_none X : forall p, starts_from p X ->
  asc_gap p (merge_runs None X) /\ forall s, in_runs (merge_runs None X) s <-> in_runs X s.
Proof.
  induction X as [|[c d] X IH]; intros p Hst.
  - cbn [merge_runs]. split; [exact I|tauto].
  - cbn [starts_from fst] in Hst. destruct Hst as [Hp Hst]. cbn [merge_runs fst snd].
    destruct (N.ltb_spec d c) as [Hemp|Hne].
    + destruct (IH p) as [G Hs]; [eapply starts_weaken; [exact Hp|exact Hst]|]. split; [exact G|].
      intros s. rewrite Hs, (in_runs_cons c d). intuition lia.
    + destruct (merge_some X c d Hne Hst) as [last [outs [E [Hl [Hg Hs]]]]]. unfold range in *. rewrite E. split.
      * cbn [asc_gap fst snd]. repeat split; try lia. exact Hg.
      * intros s. rewrite Hs, (in_runs_cons c d). tauto.
Qed.

Lemma sorted_starts (l : list range) : KSorted r_start l -> forall p, (forall e, In e l -> p <= fst e) -> starts_from p l.
Proof.
  induction 1 as [|e l Hs IH Hall]; intros p Hp; [exact I|]. cbn [starts_from]. split; [apply Hp; now left|].
  apply IH. intros x Hx. rewrite Forall_forall in Hall. exact (Hall x Hx).
Qed.

Lemma clip_starts lo hi es : forall p, starts_from p es -> starts_from (N.max p lo) (flat_map (clip lo hi) es).
Proof.
  induction es as [|e es IH]; intros p H; [exact I|]. cbn [starts_from flat_map] in *. destruct H as [Hp Hst].
  specialize (IH _ Hst). unfold clip at 1. cbv zeta.
  destruct (N.leb (N.max (fst e) lo) (N.min (snd e) hi)); cbn [app].
  - cbn [starts_from fst]. split; [lia|exact IH].
  - eapply starts_weaken; [|exact IH]. lia.
Qed.

Lemma clip_is_clipr r : clip (p_lo r) (p_hi r) = clipr r.
Proof. reflexivity. Qed.
Lemma executed_in_runs_of es r :
  executed_in es (p_lo r) (p_hi r) = merge_runs None (runs_of (ranges_by_start es) r).
Proof. reflexivity. Qed.

Section ExecutedIn.
  Variable es : list range.
  Variable lo hi : N.

  Lemma executed_in_facts :
    asc_gap lo (executed_in es lo hi) /\
    forall s, in_runs (executed_in es lo hi) s <-> (lo <= s <= hi /\ in_union es s).
  Proof.
    unfold executed_in.
    assert (Hst : starts_from (N.max 0 lo) (flat_map (clip lo hi) (ranges_by_start es))).
    { apply clip_starts. apply sorted_starts; [apply (sort_ksorted r_start)|]. intros; lia. }
    replace (N.max 0 lo) with lo in Hst by lia.
    destruct (merge_none _ _ Hst) as [G Hs]. split; [exact G|].
    intros s. rewrite Hs. change (flat_map (clip lo hi) (ranges_by_start es)) with (runs_of (ranges_by_start es) (mkRep 0 lo hi [])).
    rewrite runs_of_in. cbn [p_lo p_hi]. now rewrite in_union_sorted.
  Qed.

  Lemma fully_executed_iff : lo <= hi ->
    (fully_executed es lo hi = true <-> forall s, lo <= s <= hi -> in_union es s).
  Proof.
    intros Hlh. destruct executed_in_facts as [G Hs]. unfold fully_executed. split.
    - intros E s Hr. apply ranges_eqb_eq in E. rewrite E in Hs. apply (Hs s). apply in_runs_cons. left. lia.
    - intros Hall. assert (E : executed_in es lo hi = [(lo, hi)]).
      { apply (asc_gap_unique _ _ lo G); [cbn [asc_gap fst snd]; lia|].
        intros s. rewrite Hs, in_runs_cons. split; [intros [H _]; now left|].
        intros [H|[x [[] _]]]. split; [exact H|now apply Hall]. }
      rewrite E. apply ranges_eqb_refl.
  Qed.
End ExecutedIn.

(* ---------- join_adj: the harness's normal form of an executed list ---------- *)
Lemma join_adj_in runs : forall c d s, c <= d -> wf_runs runs ->
  (in_runs (join_adj (Some (c, d)) runs) s <-> (c <= s <= d \/ in_runs runs s)).
Proof.
  induction runs as [|[a b] runs IH]; intros c d s Hcd Hw.
  - cbn [join_adj]. rewrite in_runs_cons. tauto.
  - assert (Hab : a <= b) by (apply (Hw (a, b)); now left).
    assert (Hw' : wf_runs runs) by (intros r Hr; apply Hw; now right).
    cbn [join_adj]. destruct (N.eqb_spec a (d + 1)) as [E|Hne].
    + rewrite (IH c b s) by (try assumption; lia). rewrite (in_runs_cons a b). intuition lia.
    + rewrite in_runs_cons, (IH a b s Hab Hw'), (in_runs_cons a b). tauto.
Qed.

Lemma join_adj_none_in runs s : wf_runs runs -> (in_runs (join_adj None runs) s <-> in_runs runs s).
Proof.
  destruct runs as [|[a b] runs]; intros Hw; [cbn [join_adj]; tauto|]. cbn [join_adj].
  rewrite join_adj_in; [now rewrite (in_runs_cons a b)|apply (Hw (a, b)); now left|intros r Hr; apply Hw; now right].
Qed.

Lemma join_adj_canon l : forall c d, asc_gap (d + 2) l -> join_adj (Some (c, d)) l = (c, d) :: l.
Proof.
  induction l as [|[a b] l IH]; intros c d H; [reflexivity|]. cbn [asc_gap fst snd] in H. destruct H as [H1 [H2 H3]].
  cbn [join_adj]. destruct (N.eqb_spec a (d + 1)); [lia|]. now rewrite IH.
Qed.
Lemma join_adj_none_canon p l : asc_gap p l -> join_adj None l = l.
Proof. destruct l as [|[a b] l]; [reflexivity|]. cbn [asc_gap join_adj fst snd]. intros [_ [_ H]]. now apply join_adj_canon. Qed.

(* the executed list the repaired function builds (slices.Compact of the clipped ranges), in the harness's normal form,
   is the list of maximal runs *)
Lemma join_compact_merge X : forall a b, chained b X ->
  join_adj (Some (a, b)) (compact_runs (Some b) X) = merge_runs (Some (a, b)) X.
Proof.
  induction X as [|[c d] X IH]; intros a b H; [reflexivity|]. cbn [chained] in H. destruct H as [Hbc [Hcd Hch]].
  cbn [compact_runs merge_runs fst snd]. destruct (N.ltb_spec d c) as [|_]; [lia|].
  destruct (N.eqb_spec c b) as [->|Hne].
  - destruct (N.leb_spec b (b + 1)) as [_|]; [|lia]. destruct (N.eqb_spec b d) as [<-|Hbd].
    + rewrite N.max_id. now apply IH.
    + cbn [join_adj]. replace (N.succ b) with (b + 1) by lia. rewrite N.eqb_refl.
      replace (N.max b d) with d by lia. now apply IH.
  - cbn [join_adj]. destruct (N.eqb_spec c (b + 1)) as [E|Hne2].
    + destruct (N.leb_spec c (b + 1)) as [_|]; [|lia]. replace (N.max b d) with d by lia. now apply IH.
    + destruct (N.leb_spec c (b + 1)) as [|_]; [lia|]. f_equal. now apply IH.
Qed.

Lemma join_compact_merge_none X p : chained p X -> join_adj None (compact_runs None X) = merge_runs None X.
Proof.
  destruct X as [|[c d] X]; intros H; [reflexivity|]. cbn [chained] in H. destruct H as [_ [Hcd Hch]].
  cbn [compact_runs join_adj merge_runs fst snd]. destruct (N.ltb_spec d c) as [|_]; [lia|]. now apply join_compact_merge.
Qed.

(* an executed list whose normal form is a list of maximal runs is itself ascending without repeats *)
Lemma join_adj_head runs : forall c d, exists d' rest, join_adj (Some (c, d)) runs = (c, d') :: rest.
Proof.
  induction runs as [|[a b] runs IH]; intros c d; cbn [join_adj]; [now exists d, []|].
  destruct (N.eqb a (d + 1)); [apply IH|]. now exists d, (join_adj (Some (a, b)) runs).
Qed.

Lemma join_adj_strict runs : forall c d p, c <= d -> wf_runs runs ->
  asc_gap p (join_adj (Some (c, d)) runs) -> runs_above d runs.
Proof.
  induction runs as [|[a b] runs IH]; intros c d p Hcd Hw H; [exact I|].
  assert (Hab : a <= b) by (apply (Hw (a, b)); now left).
  assert (Hw' : wf_runs runs) by (intros r Hr; apply Hw; now right).
  cbn [join_adj] in H. cbn [runs_above]. destruct (N.eqb_spec a (d + 1)) as [E|Hne].
  - split; [lia|]. split; [exact Hab|]. apply (IH c b p); [lia|exact Hw'|exact H].
  - cbn [asc_gap fst snd] in H. destruct H as [_ [_ H]].
    destruct (join_adj_head runs a b) as [d' [rest E]]. pose proof H as H'. rewrite E in H'. cbn [asc_gap fst snd] in H'.
    split; [lia|]. split; [exact Hab|]. apply (IH a b (d + 2)); assumption.
Qed.

Lemma join_adj_none_strict runs p : wf_runs runs -> asc_gap p (join_adj None runs) -> strict_runs runs.
Proof.
  destruct runs as [|[a b] runs]; intros Hw H; [exact I|]. cbn [join_adj] in H. cbn [strict_runs].
  assert (Hab : a <= b) by (apply (Hw (a, b)); now left). split; [exact Hab|].
  apply (join_adj_strict runs a b p Hab); [intros r Hr; apply Hw; now right|exact H].
Qed.

(* ---------- pending_spec: "what must be pending" in the vocabulary of the theorems ---------- *)
(* rep_eqb: same identity and interval, executed lists equal in the harness's normal form *)
Definition rep_same (a b : rep) : Prop :=
  p_id a = p_id b /\ p_lo a = p_lo b /\ p_hi a = p_hi b /\ join_adj None (p_exec a) = join_adj None (p_exec b).
Lemma rep_eqb_same a b : rep_eqb a b = true -> rep_same a b.
Proof.
  unfold rep_eqb, rep_same. rewrite !andb_true_iff, !N.eqb_eq. intros [[[H1 H2] H3] H4].
  repeat split; try assumption. now apply ranges_eqb_eq.
Qed.
Lemma rep_same_eqb a b : rep_same a b -> rep_eqb a b = true.
Proof.
  unfold rep_eqb, rep_same. intros [H1 [H2 [H3 H4]]]. rewrite H1, H2, H3, H4, !N.eqb_refl. cbn [andb]. apply ranges_eqb_refl.
Qed.
Lemma rep_eqb_refl a : rep_eqb a a = true.
Proof. apply rep_same_eqb. unfold rep_same. tauto. Qed.

(* the clauses of C09_filter_spec_reports / C09_filter_spec_executed / C09_pending_exact /
   C09_never_reexecuted_recorded for an ARBITRARY answer [out] (no reference to the model) *)
Definition pending_rel (reports : list rep) (es : list range) (out : list rep) : Prop :=
  (exists keep : rep -> bool,
     map p_id out = map p_id (filter keep (by_start reports)) /\
     forall r, In r (by_start reports) -> (keep r = true <-> ~ all_executed es r)) /\
  (forall r', In r' out ->
     exists r, In r reports /\ p_id r' = p_id r /\ p_lo r' = p_lo r /\ p_hi r' = p_hi r /\ ~ all_executed es r /\
       (wf_runs (p_exec r') ->
        strict_runs (p_exec r') /\
        forall s, in_runs (p_exec r') s <-> (p_lo r <= s <= p_hi r /\ in_union es s))) /\
  (forall r, In r reports ->
     ((exists r', In r' out /\ p_id r' = p_id r /\ p_lo r' = p_lo r /\ p_hi r' = p_hi r) <-> ~ all_executed es r)).

Definition spec_one (es : list range) (r : rep) : list rep :=
  if fully_executed es (p_lo r) (p_hi r) then []
  else [mkRep (p_id r) (p_lo r) (p_hi r) (executed_in es (p_lo r) (p_hi r))].
Lemma pending_spec_unfold reports es : pending_spec reports es = flat_map (spec_one es) (by_start reports).
Proof. reflexivity. Qed.

Lemma fully_all es r : p_lo r <= p_hi r -> (fully_executed es (p_lo r) (p_hi r) = true <-> all_executed es r).
Proof. intros H. unfold all_executed. now apply fully_executed_iff. Qed.

Lemma spec_one_same es r r' x : p_lo r <= p_hi r -> In x (spec_one es r) -> rep_same r' x ->
  p_id r' = p_id r /\ p_lo r' = p_lo r /\ p_hi r' = p_hi r /\ ~ all_executed es r /\
  (wf_runs (p_exec r') ->
   strict_runs (p_exec r') /\ forall s, in_runs (p_exec r') s <-> (p_lo r <= s <= p_hi r /\ in_union es s)).
Proof.
  intros Hw Hx Hsame. unfold spec_one in Hx. destruct (fully_executed es (p_lo r) (p_hi r)) eqn:F; [contradiction|].
  destruct Hx as [<-|[]]. destruct Hsame as [E1 [E2 [E3 E4]]]. cbn [p_id p_lo p_hi p_exec] in *.
  repeat (split; [assumption|]). split.
  - intros Hall. apply (fully_all es r Hw) in Hall. congruence.
  - intros Hwf. destruct (executed_in_facts es (p_lo r) (p_hi r)) as [G Hs].
    rewrite (join_adj_none_canon _ _ G) in E4. split.
    + apply (join_adj_none_strict _ (p_lo r) Hwf). now rewrite E4.
    + intros s. rewrite <- Hs, <- E4. symmetry. now apply join_adj_none_in.
Qed.

Theorem spec_rel reports es out :
  (forall r, In r reports -> p_lo r <= p_hi r) ->
  list_eqb rep_eqb out (pending_spec reports es) = true -> pending_rel reports es out.
Proof.
  intros Hw H. apply (js09_list_eqb_F2 _ rep_same rep_eqb_same) in H. rewrite pending_spec_unfold in H.
  assert (Hw' : forall r, In r (by_start reports) -> p_lo r <= p_hi r).
  { intros r Hr. apply Hw. unfold by_start in Hr. now apply sort_by_in in Hr. }
  assert (C2 : forall r', In r' out ->
     exists r, In r reports /\ p_id r' = p_id r /\ p_lo r' = p_lo r /\ p_hi r' = p_hi r /\ ~ all_executed es r /\
       (wf_runs (p_exec r') ->
        strict_runs (p_exec r') /\ forall s, in_runs (p_exec r') s <-> (p_lo r <= s <= p_hi r /\ in_union es s))).
  { intros r' Hr'. destruct (F2_in_l _ _ _ _ H Hr') as [x [Hx Hsame]]. apply in_flat_map in Hx. destruct Hx as [r [Hr Hx]].
    exists r. split; [unfold by_start in Hr; now apply sort_by_in in Hr|].
    exact (spec_one_same es r r' x (Hw' r Hr) Hx Hsame). }
  split; [|split; [exact C2|]].
  - exists (fun r => negb (fully_executed es (p_lo r) (p_hi r))). split.
    + rewrite (F2_map_eq rep_same p_id p_id _ _ (fun a b Hab => proj1 Hab) H).
      clear. induction (by_start reports) as [|r l IH]; [reflexivity|]. cbn [flat_map filter]. unfold spec_one at 1.
      destruct (fully_executed es (p_lo r) (p_hi r)); cbn [negb app map p_id]; [exact IH|now rewrite IH].
    + intros r Hr. rewrite negb_true_iff, <- (fully_all es r (Hw' r Hr)).
      destruct (fully_executed es (p_lo r) (p_hi r)); split; congruence.
  - intros r Hr. split.
    + intros [r' [Hr' [E1 [E2 E3]]]]. destruct (C2 r' Hr') as [r2 [_ [_ [F2 [F3 [Hn _]]]]]].
      intros Hall. apply Hn. intros s Hs. apply Hall. lia.
    + intros Hn. assert (Hi : In r (by_start reports)) by (unfold by_start; now apply sort_by_in).
      assert (F : fully_executed es (p_lo r) (p_hi r) = false).
      { destruct (fully_executed es (p_lo r) (p_hi r)) eqn:F; [|reflexivity]. apply (fully_all es r (Hw r Hr)) in F. contradiction. }
      set (x := mkRep (p_id r) (p_lo r) (p_hi r) (executed_in es (p_lo r) (p_hi r))).
      assert (Hx : In x (flat_map (spec_one es) (by_start reports))).
      { apply in_flat_map. exists r. split; [exact Hi|]. unfold spec_one. rewrite F. now left. }
      destruct (F2_in_r _ _ _ _ H Hx) as [r' [Hr' [E1 [E2 [E3 _]]]]]. exists r'. now split.
Qed.

(* the converse used for "the model passes": the model's closed form, in the harness's normal form, IS pending_spec *)
Lemma layout_wf_sorted reports : layout (by_start reports) -> forall r, In r reports -> p_lo r <= p_hi r.
Proof. intros H r Hr. apply (layout_wf _ H). unfold by_start. now apply sort_by_in. Qed.

Lemma pending_form_spec reports es :
  layout (by_start reports) ->
  (forall r, In r reports -> p_hi r < max64) ->
  Forall (fun e => fst e <= snd e /\ snd e < max64) es ->
  no_overlap 0 (ranges_by_start es) = true ->
  list_eqb rep_eqb (pending_form (by_start reports) (ranges_by_start es)) (pending_spec reports es) = true.
Proof.
  intros Hlay Hhi Hw Hno. rewrite pending_spec_unfold.
  assert (Hch : chain_from 0 (ranges_by_start es)).
  { apply no_overlap_chain; [exact Hno|]. eapply Permutation_Forall; [|exact Hw]. symmetry. apply sort_by_perm. }
  assert (Hr : forall r, In r (by_start reports) -> p_lo r <= p_hi r /\ p_hi r < max64).
  { intros r Hr. split; [now apply (layout_wf _ Hlay)|]. apply Hhi. unfold by_start in Hr. now apply sort_by_in in Hr. }
  unfold pending_form. clear Hlay Hhi. induction (by_start reports) as [|r l IH]; [reflexivity|].
  cbn [flat_map]. destruct (Hr r (or_introl eq_refl)) as [Hlo Hh].
  assert (IH' := IH (fun x Hx => Hr x (or_intror Hx))). unfold spec_one at 1.
  assert (F : fullb (ranges_by_start es) r = fully_executed es (p_lo r) (p_hi r)).
  { pose proof (fullb_iff _ 0 Hch r Hlo Hh) as F1. pose proof (fully_all es r Hlo) as F2.
    rewrite all_executed_sorted in F1.
    destruct (fullb (ranges_by_start es) r), (fully_executed es (p_lo r) (p_hi r)); try reflexivity.
    - symmetry. apply F2, F1. reflexivity.
    - apply F1, F2. reflexivity. }
  rewrite F. destruct (fully_executed es (p_lo r) (p_hi r)); cbn [app]; [exact IH'|].
  cbn [list_eqb]. rewrite IH', andb_true_r. apply rep_same_eqb. unfold rep_same. cbn [p_id p_lo p_hi p_exec].
  repeat (split; [reflexivity|]).
  pose proof (runs_of_chained (ranges_by_start es) r 0 Hch) as Hc.
  unfold cruns. rewrite (join_compact_merge_none _ 0 Hc). rewrite executed_in_runs_of.
  symmetry. destruct (executed_in_facts es (p_lo r) (p_hi r)) as [G _]. rewrite executed_in_runs_of in G.
  exact (join_adj_none_canon _ _ G).
Qed.

(* pending_spec depends on the executed ranges only through the set of numbers they hold *)
Lemma executed_in_ext es es' lo hi :
  (forall s, lo <= s <= hi -> (in_union es s <-> in_union es' s)) -> executed_in es lo hi = executed_in es' lo hi.
Proof.
  intros H. destruct (executed_in_facts es lo hi) as [G1 S1]. destruct (executed_in_facts es' lo hi) as [G2 S2].
  apply (asc_gap_unique _ _ lo G1 G2). intros s. rewrite S1, S2. split; intros [Hr Hu]; (split; [exact Hr|]); now apply (H s Hr).
Qed.
Lemma pending_spec_ext reports es es' :
  (forall r s, In r reports -> p_lo r <= s <= p_hi r -> (in_union es s <-> in_union es' s)) ->
  pending_spec reports es = pending_spec reports es'.
Proof.
  intros H. rewrite !pending_spec_unfold.
  assert (H' : forall r, In r (by_start reports) -> spec_one es r = spec_one es' r).
  { intros r Hr. unfold by_start in Hr. apply sort_by_in in Hr. unfold spec_one, fully_executed.
    now rewrite (executed_in_ext es es' (p_lo r) (p_hi r) (fun s => H r s Hr)). }
  induction (by_start reports) as [|r l IH]; [reflexivity|]. cbn [flat_map].
  rewrite (H' r (or_introl eq_refl)), IH; [reflexivity|]. intros x Hx. apply H'. now right.
Qed.

(* ---------- boolean preconditions of the executable properties ---------- *)
Lemma disjoint_sorted_layout l : disjoint_sorted l = true <-> layout l.
Proof.
  induction l as [|a l IH]; [cbn; tauto|]. destruct l as [|b l'].
  - cbn [disjoint_sorted layout]. rewrite N.leb_le. tauto.
  - change (disjoint_sorted (a :: b :: l')) with (N.leb (p_lo a) (p_hi a) && N.ltb (p_hi a) (p_lo b) && disjoint_sorted (b :: l')).
    change (layout (a :: b :: l')) with (p_lo a <= p_hi a /\ p_hi a < p_lo b /\ layout (b :: l')).
    rewrite !andb_true_iff, N.leb_le, N.ltb_lt, IH. tauto.
Qed.

Lemma legal_executed_iff es :
  legal_executed es = true <-> Forall (fun e => fst e <= snd e) es /\ no_overlap 0 (ranges_by_start es) = true.
Proof.
  unfold legal_executed. rewrite andb_true_iff, forallb_forall, Forall_forall.
  split; intros [H1 H2]; (split; [|exact H2]); intros e He; specialize (H1 e He); now apply N.leb_le.
Qed.

Definition calm {A} (o : res A) : Prop := o <> Panic /\ o <> Spin.
Lemma calm_b {A} (o : res A) : match o with Ok _ | Err => true | _ => false end = true <-> calm o.
Proof. unfold calm. destruct o; split; try discriminate; try (intros [H1 H2]; congruence); try reflexivity; intros _; split; discriminate. Qed.

(* ====================== sink C09_ranges: ranges_ok ====================== *)
Lemma compute_ranges_from_calm l : forall cur acc, calm (compute_ranges_from cur acc l).
Proof.
  induction l as [|r l IH]; intros cur acc; cbn [compute_ranges_from]; [split; discriminate|].
  destruct (N.eqb (succ64 (r_end cur)) (r_start r)); [apply IH|].
  destruct (N.ltb (r_start r) (r_end cur)); [split; discriminate|apply IH].
Qed.
Lemma compute_ranges_calm l : calm (compute_ranges l).
Proof. destruct l as [|r l]; [split; discriminate|apply compute_ranges_from_calm]. Qed.

(* on ascending disjoint ranges computeRanges returns the maximal runs *)
Lemma compute_ranges_from_merge l : forall a b acc,
  a <= b -> b < max64 -> asc_from b l ->
  compute_ranges_from (a, b) acc l = Ok (acc ++ merge_runs (Some (a, b)) l).
Proof.
  induction l as [|[c d] l IH]; intros a b acc Hab Hm Ha; cbn [compute_ranges_from merge_runs]; [reflexivity|].
  cbn [asc_from fst snd] in Ha. destruct Ha as [H1 [H2 [H3 H4]]]. unfold r_end, r_start. cbn [fst snd].
  rewrite succ64_small by exact Hm. destruct (N.ltb_spec d c) as [|_]; [lia|].
  destruct (N.eqb_spec (b + 1) c) as [E|Hne].
  - destruct (N.leb_spec c (b + 1)) as [_|]; [|lia]. replace (N.max b d) with d by lia. apply IH; [lia|exact H3|exact H4].
  - destruct (N.ltb_spec c b) as [|_]; [lia|]. destruct (N.leb_spec c (b + 1)) as [|_]; [lia|].
    unfold range in *. rewrite (IH c d (acc ++ [(a, b)]) H2 H3 H4). now rewrite <- app_assoc.
Qed.

Lemma asc_bool_from l : forall r,
  asc_disjoint (r :: l) = true -> forallb (fun x => N.ltb (snd x) max64) (r :: l) = true ->
  fst r <= snd r /\ snd r < max64 /\ asc_from (snd r) l.
Proof.
  induction l as [|x l IH]; intros r H1 H2.
  - cbn [asc_disjoint forallb] in *. rewrite andb_true_r in H2. apply N.leb_le in H1. apply N.ltb_lt in H2. cbn [asc_from]. tauto.
  - change (asc_disjoint (r :: x :: l)) with (N.leb (fst r) (snd r) && N.ltb (snd r) (fst x) && asc_disjoint (x :: l)) in H1.
    cbn [forallb] in H2. rewrite !andb_true_iff in H1. destruct H1 as [[A1 A2] A3]. apply N.leb_le in A1. apply N.ltb_lt in A2.
    apply andb_prop in H2. destruct H2 as [B1 B2]. apply N.ltb_lt in B1.
    destruct (IH x A3 B2) as [C1 [C2 C3]]. cbn [asc_from]. tauto.
Qed.
Lemma asc_from_bool l : forall r,
  fst r <= snd r -> snd r < max64 -> asc_from (snd r) l ->
  asc_disjoint (r :: l) && forallb (fun x => N.ltb (snd x) max64) (r :: l) = true.
Proof.
  induction l as [|x l IH]; intros r H1 H2 H3.
  - cbn [asc_disjoint forallb]. rewrite !andb_true_iff, N.leb_le, N.ltb_lt. tauto.
  - cbn [asc_from] in H3. destruct H3 as [A1 [A2 [A3 A4]]]. specialize (IH x A2 A3 A4). apply andb_prop in IH. destruct IH as [I1 I2].
    change (asc_disjoint (r :: x :: l)) with (N.leb (fst r) (snd r) && N.ltb (snd r) (fst x) && asc_disjoint (x :: l)).
    cbn [forallb] in *. unfold range in *. rewrite I1, I2. rewrite !andb_true_iff, N.leb_le, !N.ltb_lt. tauto.
Qed.

Lemma compute_ranges_merge i :
  asc_disjoint i && forallb (fun r => N.ltb (snd r) max64) i = true -> compute_ranges i = Ok (merge_runs None i).
Proof.
  destruct i as [|[a b] l]; intros H; [reflexivity|]. apply andb_prop in H. destruct H as [H1 H2].
  destruct (asc_bool_from l (a, b) H1 H2) as [A1 [A2 A3]]. cbn [fst snd] in *.
  cbn [compute_ranges merge_runs fst snd]. destruct (N.ltb_spec b a) as [|_]; [lia|].
  now rewrite (compute_ranges_from_merge l a b [] A1 A2 A3).
Qed.

(* (a) the model's own output always passes *)
Theorem ranges_model_passes i : ranges_ok i (ranges_model i) = true.
Proof.
  unfold ranges_ok, ranges_model. destruct (asc_disjoint i && forallb (fun r => N.ltb (snd r) max64) i) eqn:E.
  - rewrite (compute_ranges_merge i E). apply ranges_eqb_refl.
  - apply calm_b, compute_ranges_calm.
Qed.

(* (b) an arbitrary answer that passes: never a crash, and on ascending disjoint report ranges it is a list with the
   clauses of C09_compute_ranges *)
Theorem ranges_sound i o : ranges_ok i o = true ->
  calm o /\
  forall r l, i = r :: l -> fst r <= snd r -> snd r < max64 -> asc_from (snd r) l ->
  exists outs,
    o = Ok outs /\
    (forall s, in_union outs s <-> in_union (r :: l) s) /\
    match outs with x :: rest => fst x = fst r /\ fst x <= snd x /\ gap_above (snd x) rest | [] => False end.
Proof.
  unfold ranges_ok. intros H. split.
  - destruct (asc_disjoint i && forallb (fun r => N.ltb (snd r) max64) i); [|now apply calm_b].
    destruct o; try discriminate. split; discriminate.
  - intros r l -> H1 H2 H3. pose proof (asc_from_bool l r H1 H2 H3) as E. unfold range in *. rewrite E in H.
    destruct o as [outs| | |]; try discriminate. apply ranges_eqb_eq in H.
    destruct (compute_ranges_spec r l H1 H2 H3) as [outs' [E' P]]. rewrite (compute_ranges_merge _ E) in E'.
    inversion E'; subst outs'. exists outs. split; [reflexivity|]. now rewrite H.
Qed.

Example ranges_ok_example :
  ranges_ok [(1, 3); (4, 5); (7, 9); (10, 10); (20, 21)] (Ok [(1, 5); (7, 10); (20, 21)]) = true /\
  ranges_ok [(1, 3); (4, 5); (7, 9)] (Ok [(1, 3); (4, 5); (7, 9)]) = false /\
  ranges_ok [(1, 5); (3, 8)] Err = true.
Proof. repeat split; vm_compute; reflexivity. Qed.

(* ====================== sinks C09_filter, C09_filter_all: filter_ok ====================== *)
Lemma inner_calm e k : forall i st, snd e <> max64 -> calm (inner e k i st).
Proof.
  induction k as [|k IH]; intros i st He; cbn [inner]; [split; discriminate|].
  destruct (nth_error (fs_reports st) i) as [r|]; [|split; discriminate].
  destruct (N.ltb (r_end e) (p_lo r)); [split; discriminate|].
  destruct (N.leb (r_start e) (p_lo r) && N.leb (p_hi r) (r_end e)); [now apply IH|].
  destruct (N.ltb (r_end e) (N.max (r_start e) (p_lo r))); [now apply IH|].
  destruct (N.ltb (p_hi r) (N.max (r_start e) (p_lo r))); [now apply IH|].
  destruct (N.ltb (p_hi r) (r_end e)); [now apply IH|].
  unfold r_end. destruct (N.eqb_spec (snd e) max64); [contradiction|now apply IH].
Qed.
Lemma rbind_calm {A B} (o : res A) (f : A -> res B) : calm o -> (forall a, calm (f a)) -> calm (rbind o f).
Proof. destruct o; cbn [rbind]; intros [H1 H2] Hf; try congruence; [apply Hf|split; discriminate]. Qed.
Lemma outer_calm es : forall st, Forall (fun e => snd e <> max64) es -> calm (outer es st).
Proof.
  induction es as [|e es IH]; intros st H; cbn [outer]; [split; discriminate|]. inversion H as [|? ? He Hes]; subst.
  apply rbind_calm; [now apply inner_calm|]. intros st'. now apply IH.
Qed.
Lemma filter_executed_calm reports es : Forall (fun e => snd e < max64) es -> calm (filter_executed reports es).
Proof.
  intros H.
  assert (H' : Forall (fun e => snd e <> max64) (ranges_by_start es)).
  { eapply Permutation_Forall; [symmetry; apply sort_by_perm|]. eapply Forall_impl; [|exact H]. cbn. intros; lia. }
  assert (C : calm (filter_loops reports es)).
  { unfold filter_loops. destruct es as [|e0 es']; [split; discriminate|].
    destruct (no_overlap 0 (ranges_by_start (e0 :: es'))); [|split; discriminate].
    apply rbind_calm; [now apply outer_calm|]. intros st. split; discriminate. }
  unfold filter_executed. destruct es as [|e0 es']; [exact C|]. apply rbind_calm; [exact C|]. intros out. split; discriminate.
Qed.

(* well-formed ranges that overlap once sorted: the function returns errOverlappingRanges before looking at a report *)
Lemma filter_executed_overlap reports es :
  no_overlap 0 (ranges_by_start es) = false -> filter_executed reports es = Err.
Proof.
  intros H. unfold filter_executed, filter_loops. destruct es as [|e0 es']; [discriminate|]. now rewrite H.
Qed.
Lemma not_legal_overlap es :
  legal_executed es = false -> forallb (fun e => N.leb (fst e) (snd e)) es = true ->
  no_overlap 0 (ranges_by_start es) = false.
Proof. unfold legal_executed. intros H1 H2. rewrite H2 in H1. exact H1. Qed.

(* (a) the model passes: reports as the harness gives them (no executed messages recorded yet, ending below 2^64-1)
   and executed ranges ending below 2^64-1 (beyond that the code does not terminate, F19) *)
Theorem filter_model_passes reports es :
  (forall r, In r reports -> p_exec r = [] /\ p_hi r < max64) ->
  Forall (fun e => snd e < max64) es ->
  filter_ok (reports, es) (filter_model (reports, es)) = true.
Proof.
  intros Hr Hm. unfold filter_ok, filter_model. cbn [fst snd].
  pose proof (filter_executed_calm reports es Hm) as C.
  destruct (disjoint_sorted (by_start reports)) eqn:D; [|now apply calm_b].
  destruct (legal_executed es) eqn:L.
  2:{ destruct (forallb (fun e => N.leb (fst e) (snd e)) es) eqn:W; [|now apply calm_b].
      now rewrite (filter_executed_overlap reports es (not_legal_overlap es L W)). }
  apply disjoint_sorted_layout in D. apply legal_executed_iff in L. destruct L as [L1 L2].
  assert (Hw : Forall (fun e => fst e <= snd e /\ snd e < max64) es).
  { rewrite Forall_forall in *. intros e He. split; [now apply L1|now apply Hm]. }
  rewrite (filter_executed_form reports es D Hr Hw L2).
  apply pending_form_spec; try assumption. intros r Hi. now destruct (Hr r Hi).
Qed.

(* (b) an arbitrary answer that passes: never a crash; on a layout and well-formed executed ranges it is an error
   exactly when the ranges, sorted by start, overlap (C09_filter_error_iff for the answer), and otherwise a list [out]
   with the clauses of C09_filter_spec_reports, C09_filter_spec_executed (hence C09_never_reexecuted_recorded) and
   C09_pending_exact - stated for [out] itself, not for the model *)
Theorem filter_sound reports es o : filter_ok (reports, es) o = true ->
  calm o /\
  (layout (by_start reports) -> Forall (fun e => fst e <= snd e) es ->
   (o = Err <-> es <> [] /\ no_overlap 0 (ranges_by_start es) = false) /\
   (no_overlap 0 (ranges_by_start es) = true -> exists out, o = Ok out /\ pending_rel reports es out)).
Proof.
  unfold filter_ok. intros H. split.
  - destruct (disjoint_sorted (by_start reports)); [|now apply calm_b].
    destruct (legal_executed es); [destruct o; try discriminate; split; discriminate|].
    destruct (forallb (fun e => N.leb (fst e) (snd e)) es); [|now apply calm_b]. destruct o; try discriminate. split; discriminate.
  - intros Hlay Hw. rewrite (proj2 (disjoint_sorted_layout _) Hlay) in H.
    assert (W : forallb (fun e => N.leb (fst e) (snd e)) es = true).
    { apply forallb_forall. intros e He. rewrite Forall_forall in Hw. now apply N.leb_le, Hw. }
    destruct (no_overlap 0 (ranges_by_start es)) eqn:Hno.
    + rewrite (proj2 (legal_executed_iff es) (conj Hw Hno)) in H. destruct o as [out| | |]; try discriminate. split.
      * split; [discriminate|intros [_ X]; discriminate].
      * intros _. exists out. split; [reflexivity|]. apply spec_rel; [|exact H]. now apply layout_wf_sorted.
    + assert (L : legal_executed es = false) by (unfold legal_executed; now rewrite W, Hno).
      rewrite L, W in H. destruct o; try discriminate. split; [|discriminate].
      split; [|reflexivity]. intros _. split; [|reflexivity]. intros ->. discriminate.
Qed.

(* the executable property as it was: every non-crashing answer passed on overlapping well-formed ranges *)
Definition filter_ok_before (i : filter_in) (o : filter_out) : bool :=
  let '(reports, es) := i in
  if disjoint_sorted (by_start reports) then
    if legal_executed es then
      match o with
      | Ok out => list_eqb rep_eqb out (pending_spec reports es)
      | _ => false
      end
    else match o with Ok _ | Err => true | _ => false end
  else match o with Ok _ | Err => true | _ => false end.
Example filter_ok_before_weak :
  let i0 := ([mkRep 1 1 5 []], [(1, 3); (2, 4)]) in
  let o0 : filter_out := Ok [mkRep 1 1 5 []] in
  filter_ok_before i0 o0 = true /\ filter_ok i0 o0 = false /\ filter_model i0 = Err /\
  layout (by_start (fst i0)) /\ Forall (fun e => fst e <= snd e) (snd i0) /\
  ~ (o0 = Err <-> snd i0 <> [] /\ no_overlap 0 (ranges_by_start (snd i0)) = false).
Proof.
  cbv zeta. split; [vm_compute; reflexivity|]. split; [vm_compute; reflexivity|]. split; [vm_compute; reflexivity|].
  split; [cbn [fst]; change (by_start [mkRep 1 1 5 []]) with [mkRep 1 1 5 []]; cbn [layout p_lo p_hi]; lia|].
  split; [cbn [snd]; repeat constructor; cbn [fst snd]; lia|].
  intros [_ H]. assert (E : @Ok (list rep) [mkRep 1 1 5 []] = Err); [|discriminate].
  apply H. split; [discriminate|vm_compute; reflexivity].
Qed.

(* the reading of pending_rel used by C09_never_reexecuted_recorded *)
Corollary pending_rel_recorded reports es out r' s :
  pending_rel reports es out -> In r' out -> wf_runs (p_exec r') ->
  p_lo r' <= s <= p_hi r' -> in_union es s -> in_runs (p_exec r') s.
Proof.
  intros [_ [C2 _]] Hr' Hwf Hs Hu. destruct (C2 r' Hr') as [r [_ [_ [E2 [E3 [_ Hrec]]]]]].
  destruct (Hrec Hwf) as [_ Hiff]. apply Hiff. rewrite <- E2, <- E3. tauto.
Qed.

Example filter_ok_example :
  filter_ok (ex_reports, ex_executed) (Ok [mkRep 2 10 12 [(11, 11)]]) = true /\
  filter_ok (ex_reports, ex_executed) (Ok [mkRep 2 10 12 [(11, 11)]; mkRep 3 20 21 [(20, 21)]]) = false /\
  filter_ok (ex_reports, ex_executed) (Ok [mkRep 2 10 12 []]) = false /\
  filter_ok (ex_reports, [(5, 7); (6, 8)]) Err = true /\ filter_ok (ex_reports, [(5, 7); (6, 8)]) (Ok ex_reports) = false.
Proof. repeat split; vm_compute; reflexivity. Qed.

(* ====================== sinks C09_pending, C09_observe: pend_ok ====================== *)
Definition world_of (world : list (N * list range)) (c : N) : list range :=
  match alookup c world with Some w => w | None => [] end.
Definition reader_failed (tab : list (N * range * option (list range))) : Prop := exists e, In e tab /\ snd e = None.
Definition groups_good (groups : list (N * list rep)) : Prop :=
  forall c reps, In (c, reps) groups -> layout reps /\ forall r, In r reps -> p_hi r < max64.

Lemma any_err_iff (tab : list (N * range * option (list range))) :
  existsb (fun e => match snd e with None => true | Some _ => false end) tab = true <-> reader_failed tab.
Proof.
  unfold reader_failed. rewrite existsb_exists. split; intros [e [He H]]; exists e; (split; [exact He|]).
  - now destruct (snd e).
  - now rewrite H.
Qed.

Lemma good_iff (groups : list (N * list rep)) :
  forallb (fun g => disjoint_sorted (snd g) && forallb (fun r => N.ltb (p_hi r) max64) (snd g)) groups = true <->
  groups_good groups.
Proof.
  unfold groups_good. rewrite forallb_forall. split.
  - intros H c reps Hi. specialize (H _ Hi). cbn [snd] in H. apply andb_prop in H. destruct H as [H1 H2].
    split; [now apply disjoint_sorted_layout|]. rewrite forallb_forall in H2. intros r Hr. now apply N.ltb_lt, H2.
  - intros H [c reps] Hi. destruct (H c reps Hi) as [H1 H2]. cbn [snd]. rewrite (proj2 (disjoint_sorted_layout _) H1).
    cbn [andb]. apply forallb_forall. intros r Hr. now apply N.ltb_lt, H2.
Qed.

(* (b) an arbitrary answer that passes.  A reader failure for the commit reports is an error.  On report groups that
   are ascending and disjoint per chain: an answer [out] is given only when no executed-ranges query failed, it has
   exactly the chains that have a report, and per chain the pending reports satisfy the clauses of
   C09_pending_exact / C09_filter_spec_* against the DESTINATION's executed set of that chain ([world]); an error
   only when a query failed. *)
Theorem pend_sound crs tab world o : pend_ok (crs, tab, world) o = true ->
  calm o /\
  match crs with
  | None => o = Err
  | Some l =>
      groups_good (group_by_chain l) ->
      match o with
      | Ok out =>
          ~ reader_failed tab /\
          Permutation (map fst out) (map fst (group_by_chain l)) /\
          (forall c reps, In (c, reps) (group_by_chain l) ->
             exists outc, In (c, outc) out /\ pending_rel reps (world_of world c) outc) /\
          (forall c outc, In (c, outc) out ->
             exists reps, In (c, reps) (group_by_chain l) /\ pending_rel reps (world_of world c) outc)
      | Err => reader_failed tab
      | _ => False
      end
  end.
Proof.
  unfold pend_ok. destruct crs as [l|]; intros H.
  2:{ destruct o; try discriminate. split; [split; discriminate|reflexivity]. }
  set (groups := group_by_chain l) in *.
  set (spec := map (fun g : N * list rep => (fst g, pending_spec (snd g) (match alookup (fst g) world with Some w => w | None => [] end))) groups) in *.
  destruct (forallb (fun g => disjoint_sorted (snd g) && forallb (fun r => N.ltb (p_hi r) max64) (snd g)) groups) eqn:G;
    cbn [negb] in H.
  2:{ split; [now apply calm_b|]. intros Hg. apply good_iff in Hg. fold groups in Hg. congruence. }
  split; [destruct o; try discriminate; split; discriminate|]. intros Hg.
  destruct o as [out| | |]; try discriminate; [|now apply any_err_iff].
  apply andb_prop in H. destruct H as [H1 H2]. split.
  { intros Hf. apply any_err_iff in Hf. rewrite Hf in H1. discriminate. }
  set (R := fun a b : N * list rep => fst a = fst b /\ list_eqb rep_eqb (snd a) (snd b) = true).
  assert (F : Forall2 R out (by_chain spec)).
  { apply (js09_list_eqb_F2 (pair_eqb N.eqb (list_eqb rep_eqb))); [|exact H2].
    intros a b Hab. unfold pair_eqb in Hab. apply andb_prop in Hab. destruct Hab as [Ha Hb]. apply N.eqb_eq in Ha. now split. }
  assert (Hin : forall b, In b (by_chain spec) <->
                          exists g, In g groups /\ b = (fst g, pending_spec (snd g) (world_of world (fst g)))).
  { intros b. unfold by_chain. rewrite sort_by_in. unfold spec. rewrite in_map_iff.
    split; intros [g [A B]]; exists g; [split; [exact B|now symmetry]|split; [now symmetry|exact A]]. }
  assert (Hrel : forall g outc, In g groups -> list_eqb rep_eqb outc (pending_spec (snd g) (world_of world (fst g))) = true ->
                                pending_rel (snd g) (world_of world (fst g)) outc).
  { intros [c reps] outc Hi He. cbn [fst snd] in *. apply spec_rel; [|exact He]. apply layout_wf. now destruct (Hg c reps Hi). }
  split; [|split].
  - rewrite (F2_map_eq R fst fst _ _ (fun a b Hab => proj1 Hab) F). unfold by_chain.
    etransitivity; [apply Permutation_map, sort_by_perm|]. unfold spec. rewrite map_map. cbn [fst]. reflexivity.
  - intros c reps Hi. destruct (F2_in_r _ _ _ (c, pending_spec reps (world_of world c)) F) as [[c' outc] [Ho [E1 E2]]].
    { apply Hin. exists (c, reps). now split. }
    cbn [fst snd] in *. subst c'. exists outc. split; [exact Ho|]. exact (Hrel (c, reps) outc Hi E2).
  - intros c outc Ho. destruct (F2_in_l _ _ _ _ F Ho) as [b [Hb [E1 E2]]]. apply Hin in Hb. destruct Hb as [[c' reps] [Hi ->]].
    cbn [fst snd] in *. subst c'. exists reps. split; [exact Hi|]. exact (Hrel (c, reps) outc Hi E2).
Qed.

(* ====================== sinks C09_history, C09_history_big: hist_ok ====================== *)
Lemma nodupb_NoDup {A} (e : A -> A -> bool) : (forall a b, e a b = true <-> a = b) ->
  forall l, nodupb e l = true <-> NoDup l.
Proof.
  intros He. induction l as [|x l IH]; cbn [nodupb]; [split; [constructor|reflexivity]|].
  rewrite andb_true_iff, negb_true_iff, IH. split.
  - intros [H1 H2]. constructor; [|exact H2]. intros Hin.
    assert (E : existsb (e x) l = true) by (apply existsb_exists; exists x; split; [exact Hin|now apply He]). congruence.
  - intros H. inversion H as [|? ? Hn Hl]; subst. split; [|exact Hl].
    destruct (existsb (e x) l) eqn:E; [|reflexivity]. apply existsb_exists in E. destruct E as [y [Hy Hxy]].
    apply He in Hxy. subst y. contradiction.
Qed.

Lemma pairNN_eqb_eq (a b : N * N) : pair_eqb N.eqb N.eqb a b = true <-> a = b.
Proof. exact (msg_eqb_eq a b). Qed.

Lemma in_runsb_iff runs s : in_runsb runs s = true <-> in_union runs s.
Proof. exact (cy_in_runs_iff runs s). Qed.

Lemma seq_from_cy a n : seq_from a n = cy_seq a n.
Proof. revert a. induction n as [|n IH]; intros a; [reflexivity|]. cbn [seq_from cy_seq]. now rewrite IH. Qed.
Lemma unexecuted_cy r : unexecuted r = cy_unexec r.
Proof. unfold unexecuted, cy_unexec. now rewrite seq_from_cy. Qed.
Lemma unexecuted_in r s : p_lo r <= p_hi r ->
  (In s (unexecuted r) <-> p_lo r <= s <= p_hi r /\ ~ in_runs (p_exec r) s).
Proof. rewrite unexecuted_cy. apply cy_unexec_in. Qed.

Lemma pending_spec_in reps es y : In y (pending_spec reps es) <-> exists r, In r reps /\ In y (spec_one es r).
Proof.
  rewrite pending_spec_unfold, in_flat_map. unfold by_start.
  split; intros [r [Hr Hy]]; exists r; (split; [|exact Hy]); now apply sort_by_in in Hr || now apply sort_by_in.
Qed.
Lemma spec_one_not_all es r : p_lo r <= p_hi r -> ~ all_executed es r ->
  In (mkRep (p_id r) (p_lo r) (p_hi r) (executed_in es (p_lo r) (p_hi r))) (spec_one es r).
Proof.
  intros Hw Hn. unfold spec_one. destruct (fully_executed es (p_lo r) (p_hi r)) eqn:F; [|now left].
  apply (fully_all es r Hw) in F. contradiction.
Qed.

(* pending, chain by chain, against per-chain executed sets: the clauses of C09_pending_exact / C09_filter_spec_executed
   in membership form (the order of the list is not stated) *)
Definition pending_exact_over {X} (L : list X) (ch : X -> N) (rp : X -> list rep) (ex : X -> list range)
           (pend : list (N * rep)) : Prop :=
  (forall c r', In (c, r') pend ->
     exists x r, In x L /\ ch x = c /\ In r (rp x) /\
       p_id r' = p_id r /\ p_lo r' = p_lo r /\ p_hi r' = p_hi r /\ ~ all_executed (ex x) r /\
       (wf_runs (p_exec r') ->
        strict_runs (p_exec r') /\ forall s, in_runs (p_exec r') s <-> (p_lo r <= s <= p_hi r /\ in_union (ex x) s))) /\
  (forall x r, In x L -> In r (rp x) -> ~ all_executed (ex x) r ->
     exists r', In (ch x, r') pend /\ p_id r' = p_id r /\ p_lo r' = p_lo r /\ p_hi r' = p_hi r).

Lemma flat_spec_rel {X} (L : list X) (ch : X -> N) (rp : X -> list rep) (ex : X -> list range) pend :
  (forall x r, In x L -> In r (rp x) -> p_lo r <= p_hi r) ->
  list_eqb (pair_eqb N.eqb rep_eqb) pend (flat_map (fun x => map (pair (ch x)) (pending_spec (rp x) (ex x))) L) = true ->
  pending_exact_over L ch rp ex pend.
Proof.
  intros Hw H.
  set (R := fun a b : N * rep => fst a = fst b /\ rep_same (snd a) (snd b)).
  assert (F : Forall2 R pend (flat_map (fun x => map (pair (ch x)) (pending_spec (rp x) (ex x))) L)).
  { apply (js09_list_eqb_F2 (pair_eqb N.eqb rep_eqb)); [|exact H].
    intros a b Hab. unfold pair_eqb in Hab. apply andb_prop in Hab. destruct Hab as [Ha Hb]. apply N.eqb_eq in Ha.
    split; [exact Ha|now apply rep_eqb_same]. }
  split.
  - intros c r' Hi. destruct (F2_in_l _ _ _ _ F Hi) as [b [Hb [E1 E2]]]. cbn [fst snd] in *.
    apply in_flat_map in Hb. destruct Hb as [x [Hx Hb]]. apply in_map_iff in Hb. destruct Hb as [y [<- Hy]]. cbn [fst snd] in *.
    apply pending_spec_in in Hy. destruct Hy as [r [Hr Hy]]. exists x, r. split; [exact Hx|]. split; [now symmetry|].
    split; [exact Hr|]. exact (spec_one_same (ex x) r r' y (Hw x r Hx Hr) Hy E2).
  - intros x r Hx Hr Hn.
    set (y := mkRep (p_id r) (p_lo r) (p_hi r) (executed_in (ex x) (p_lo r) (p_hi r))).
    assert (Hy : In (ch x, y) (flat_map (fun x => map (pair (ch x)) (pending_spec (rp x) (ex x))) L)).
    { apply in_flat_map. exists x. split; [exact Hx|]. apply in_map, pending_spec_in. exists r. split; [exact Hr|].
      now apply spec_one_not_all; [apply (Hw x r Hx Hr)|]. }
    destruct (F2_in_r _ _ _ _ F Hy) as [[c r'] [Hi [E1 [E2 [E3 [E4 _]]]]]]. cbn [fst snd] in *. subst c.
    exists r'. now split.
Qed.

Lemma snap_executed_in (snap : snap_t) c s :
  in_union (snap_executed snap c) s <-> exists reps ex, In (c, reps, ex) snap /\ in_union ex s.
Proof.
  unfold snap_executed, in_union. split.
  - intros [e [He Hs]]. apply in_flat_map in He. destruct He as [[[c' reps] ex] [Hi He]]. cbn [fst snd] in He.
    destruct (N.eqb_spec c' c) as [->|]; [|contradiction]. exists reps, ex. split; [exact Hi|]. now exists e.
  - intros [reps [ex [Hi [e [He Hs]]]]]. exists e. split; [|exact Hs]. apply in_flat_map. exists (c, reps, ex).
    split; [exact Hi|]. cbn [fst snd]. now rewrite N.eqb_refl.
Qed.
Lemma snap_reports_in (snap : snap_t) c r :
  In r (snap_reports snap c) <-> exists reps ex, In (c, reps, ex) snap /\ In r reps.
Proof.
  unfold snap_reports. rewrite in_flat_map. split.
  - intros [[[c' reps] ex] [Hi He]]. cbn [fst snd] in He.
    destruct (N.eqb_spec c' c) as [->|]; [|contradiction]. now exists reps, ex.
  - intros [reps [ex [Hi Hr]]]. exists (c, reps, ex). split; [exact Hi|]. cbn [fst snd]. now rewrite N.eqb_refl.
Qed.

(* (b) an arbitrary outcome that passes the monitors: what is transmitted is the outcome's report; a message the
   destination reported as executed when the cycle started is in no report (the conclusion of
   C09_never_reexecuted_cycle), every message in it is committed, none twice; before the Filter round nothing is
   transmitted and the pending reports satisfy the pending-exact clauses per chain of the snapshot; after the Filter
   round a report is pending only with a message that is neither executed nor selected *)
Definition snap_wf (snap : snap_t) : Prop := forall cre r, In cre snap -> In r (snd (fst cre)) -> p_lo r <= p_hi r.
Theorem hist_sound st snap o : hist_ok (st, snap) o = true ->
  exists pend msgs, o = Ok (pend, msgs, msgs) /\ NoDup msgs /\
    (forall c s, In (c, s) msgs ->
       (forall reps ex, In (c, reps, ex) snap -> ~ in_union ex s) /\
       (exists reps ex r, In (c, reps, ex) snap /\ In r reps /\ p_lo r <= s <= p_hi r)) /\
    (st = 3 -> forall c r, In (c, r) pend -> p_lo r <= p_hi r ->
                 exists s, p_lo r <= s <= p_hi r /\ ~ in_runs (p_exec r) s) /\
    (st <> 3 -> msgs = [] /\
                (snap_wf snap ->
                 pending_exact_over snap (fun cre => fst (fst cre)) (fun cre => snd (fst cre)) (fun cre => snd cre) pend)).
Proof.
  unfold hist_ok. intros H. destruct o as [[[pend msgs] omsgs]| | |]; try discriminate.
  rewrite !andb_true_iff in H. destruct H as [[[H1 H2] H3] H4].
  apply (js09_list_eqb_eq _ (fun a b => proj1 (pairNN_eqb_eq a b))) in H1. subst omsgs.
  exists pend, msgs. split; [reflexivity|]. split; [now apply (nodupb_NoDup _ pairNN_eqb_eq)|]. split; [|split].
  - intros c s Hi. rewrite forallb_forall in H2. specialize (H2 _ Hi). cbn [fst snd] in H2.
    apply andb_prop in H2. destruct H2 as [A B]. split.
    + intros reps ex Hs Hu. rewrite negb_true_iff in A.
      assert (E : in_runsb (snap_executed snap c) s = true) by (apply in_runsb_iff, snap_executed_in; now exists reps, ex).
      congruence.
    + apply existsb_exists in B. destruct B as [r [Hr Hrange]]. apply snap_reports_in in Hr.
      destruct Hr as [reps [ex [Hs Hr]]]. exists reps, ex, r. rewrite andb_true_iff, !N.leb_le in Hrange. tauto.
  - intros -> c r Hi Hw. rewrite N.eqb_refl in H4. apply andb_prop in H4. destruct H4 as [H4 _].
    rewrite forallb_forall in H4. specialize (H4 _ Hi). cbn [snd] in H4.
    destruct (unexecuted r) as [|s u] eqn:E; [discriminate|].
    assert (Hs : In s (unexecuted r)) by (rewrite E; now left). apply (unexecuted_in r s Hw) in Hs. now exists s.
  - intros Hst. destruct (N.eqb_spec st 3) as [|_]; [contradiction|]. apply andb_prop in H4. destruct H4 as [A B].
    split; [now destruct msgs|]. intros Hw.
    apply (flat_spec_rel snap (fun cre => fst (fst cre)) (fun cre => snd (fst cre)) (fun cre => snd cre));
      [intros x r Hx Hr; exact (Hw x r Hx Hr)|exact A].
Qed.

(* (b) for the Filter round (state 3): the EXACT pending clause, relative to what this outcome's own report holds.
   Pending after Filter = exactly the committed reports of the snapshot with a message that is neither executed per the
   snapshot nor in the report; a report that stays pending records (executed per the snapshot or in the report) inside
   its interval.  Nothing is said about how much the report holds: the clause is true whether or not everything fits. *)
Lemma in_union_app es1 es2 s : in_union (es1 ++ es2) s <-> in_union es1 s \/ in_union es2 s.
Proof.
  unfold in_union. split.
  - intros [e [He Hs]]. apply in_app_or in He. destruct He as [He|He]; [left|right]; now exists e.
  - intros [[e [He Hs]]|[e [He Hs]]]; exists e; (split; [apply in_or_app; tauto|exact Hs]).
Qed.
Lemma in_union_reported msgs c s : in_union (reported_runs msgs c) s <-> In (c, s) msgs.
Proof.
  unfold in_union, reported_runs, in_range. split.
  - intros [e [He Hs]]. apply in_map_iff in He. destruct He as [[c' s'] [<- Hm]]. apply filter_In in Hm.
    destruct Hm as [Hm Hc]. cbn [fst snd] in *. apply N.eqb_eq in Hc. subst c'. assert (s = s') by lia. now subst.
  - intros H. exists (s, s). split; [|cbn [fst snd]; lia]. apply in_map_iff. exists (c, s). split; [reflexivity|].
    apply filter_In. split; [exact H|]. cbn [fst]. apply N.eqb_refl.
Qed.
Lemma in_union_with_reported ex msgs c s :
  in_union (ex ++ reported_runs msgs c) s <-> in_union ex s \/ In (c, s) msgs.
Proof. now rewrite in_union_app, in_union_reported. Qed.

Theorem hist_sound_filter snap pend msgs omsgs :
  hist_ok (3, snap) (Ok (pend, msgs, omsgs)) = true -> snap_wf snap ->
  (forall c r', In (c, r') pend ->
     exists reps ex r, In (c, reps, ex) snap /\ In r reps /\
       p_id r' = p_id r /\ p_lo r' = p_lo r /\ p_hi r' = p_hi r /\
       ~ (forall s, p_lo r <= s <= p_hi r -> in_union ex s \/ In (c, s) msgs) /\
       (wf_runs (p_exec r') ->
        strict_runs (p_exec r') /\
        forall s, in_runs (p_exec r') s <-> (p_lo r <= s <= p_hi r /\ (in_union ex s \/ In (c, s) msgs)))) /\
  (forall c reps ex r s, In (c, reps, ex) snap -> In r reps -> p_lo r <= s <= p_hi r ->
     ~ in_union ex s -> ~ In (c, s) msgs ->
     exists r', In (c, r') pend /\ p_id r' = p_id r /\ p_lo r' = p_lo r /\ p_hi r' = p_hi r).
Proof.
  unfold hist_ok. change (N.eqb 3 3) with true. cbv iota. intros H Hw. rewrite !andb_true_iff in H.
  destruct H as [_ [_ H]].
  apply (flat_spec_rel snap (fun cre => fst (fst cre)) (fun cre => snd (fst cre))
                       (fun cre => snd cre ++ reported_runs msgs (fst (fst cre)))) in H;
    [|intros x r Hx Hr; exact (Hw x r Hx Hr)].
  destruct H as [P1 P2]. split.
  - intros c r' Hi. destruct (P1 c r' Hi) as [[[c0 reps] ex] [r [Hx [Hc [Hr [E1 [E2 [E3 [Hn Hrec]]]]]]]]].
    cbn [fst snd] in *. subst c0. exists reps, ex, r. repeat (split; [assumption|]). split.
    + intros Hall. apply Hn. intros s Hs. apply in_union_with_reported. now apply Hall.
    + intros Hwf. destruct (Hrec Hwf) as [Hst Hiff]. split; [exact Hst|]. intros s. rewrite Hiff.
      now rewrite in_union_with_reported.
  - intros c reps ex r s Hx Hr Hs Hnu Hnm. destruct (P2 (c, reps, ex) r Hx Hr) as [r' Hr']; [|now exists r'].
    cbn [fst snd]. intros Hall. specialize (Hall s Hs). apply in_union_with_reported in Hall. tauto.
Qed.

(* what state 3 tested before: only the weak clause.  Dropping a report with an unreported unexecuted message from
   the pending list, or keeping it with a wrong executed list, passed *)
Definition hist_ok_before (i : hist_in) (o : hist_out) : bool :=
  let '(st, snap) := i in
  match o with
  | Ok (pend, msgs, omsgs) =>
      list_eqb (pair_eqb N.eqb N.eqb) msgs omsgs &&
      forallb (fun cs => negb (in_runsb (snap_executed snap (fst cs)) (snd cs)) &&
                         existsb (fun r => N.leb (p_lo r) (snd cs) && N.leb (snd cs) (p_hi r)) (snap_reports snap (fst cs))) msgs &&
      nodupb (pair_eqb N.eqb N.eqb) msgs &&
      (if N.eqb st 3 then
         forallb (fun cr => match unexecuted (snd cr) with [] => false | _ => true end) pend
       else list_eqb (pair_eqb N.eqb rep_eqb) pend
              (flat_map (fun cre => map (pair (fst (fst cre))) (pending_spec (snd (fst cre)) (snd cre))) snap) &&
            match msgs with [] => true | _ => false end)
  | _ => false
  end.

Lemma hist_ok_stronger i o : hist_ok i o = true -> hist_ok_before i o = true.
Proof.
  destruct i as [st snap]. unfold hist_ok, hist_ok_before. destruct o as [[[pend msgs] omsgs]| | |]; try discriminate.
  destruct (N.eqb st 3); [|trivial]. rewrite !andb_true_iff. tauto.
Qed.

(* ====================== sink C09_cycles: cyc_ok ====================== *)
Lemma st_open_eq st : st_open st = cycle_open st.
Proof. unfold st_open, cycle_open. apply negb_orb. Qed.
Lemma st_live_iff st c : st_live st c = true <-> In c (live_chains st).
Proof.
  unfold st_live, live_chains. rewrite filter_In, andb_true_iff, memN_In. tauto.
Qed.
Lemma live_filter_eq st : filter (st_live st) (d_known st) = live_chains st.
Proof.
  unfold live_chains. apply filter_ext_in. intros c Hc. unfold st_live. now rewrite (proj2 (memN_In c (d_known st)) Hc).
Qed.
Lemma st_window_in V st c r :
  In r (st_window V st c) <-> In r (d_reports st) /\ cr_chain r = c /\ in_window V st r = true.
Proof. unfold st_window, in_window, fetch_from. rewrite filter_In, andb_true_iff, N.eqb_eq. tauto. Qed.
Lemma st_window_chain_reps V st c : map to_rep (st_window V st c) = chain_reps V st c.
Proof.
  unfold chain_reps, read_reports, st_window, in_window, fetch_from. f_equal.
  induction (d_reports st) as [|r l IH]; [reflexivity|]. cbn [filter].
  destruct (N.leb (d_now st - V) (cr_ts r)); cbn [filter]; destruct (N.eqb (cr_chain r) c); cbn [andb]; now rewrite IH.
Qed.
Lemma st_exec_runs_in st c s : in_union (st_exec_runs st c) s <-> In (c, s) (d_exec st).
Proof.
  unfold st_exec_runs, in_union, in_range. split.
  - intros [e [He Hs]]. apply in_map_iff in He. destruct He as [[c' s'] [<- Hm]]. apply filter_In in Hm.
    destruct Hm as [Hm Hc]. cbn [fst snd] in *. apply N.eqb_eq in Hc. subst c'. assert (s = s') by lia. now subst.
  - intros H. exists (s, s). split; [|cbn [fst snd]; lia]. apply in_map_iff. exists (c, s). split; [reflexivity|].
    apply filter_In. split; [exact H|]. cbn [fst]. apply N.eqb_refl.
Qed.
Lemma seqs_of_in lo hi s : lo <= hi -> (In s (seqs_of lo hi) <-> lo <= s <= hi).
Proof. intros H. unfold seqs_of. rewrite seq_from_cy, cy_seq_in. lia. Qed.

(* what one cycle of an arbitrary observation list must satisfy, in the vocabulary of the history theorems *)
Definition same_ids (r' : rep) (id lo hi : N) : Prop := p_id r' = id /\ p_lo r' = lo /\ p_hi r' = hi.
Definition cycle_P (V : N) (st : dest) (nobs : N) (o : cyc_obs) : Prop :=
  let reads := fst (fst (fst o)) in let pend1 := snd (fst (fst o)) in let off := snd (fst o) in let pend3 := snd o in
  (* the reader is asked from the CURRENT clock minus the interval, by every observer; not at all under a curse *)
  (if cycle_open st then length reads = N.to_nat nobs /\ forall rd, In rd reads -> rd = (fetch_from V st, commit_limit)
   else reads = []) /\
  (* the report holds exactly the candidates (C09_hist_candidates for the implementation's report), each once *)
  (forall m, In m off <-> candidate V st m) /\ NoDup off /\
  (* pending after GetCommitReports: C09_hist_pending_exact for the implementation's list *)
  (forall c r', In (c, r') pend1 -> cycle_open st = true /\ In c (live_chains st)) /\
  (cycle_open st = true -> forall c, In c (live_chains st) ->
     (forall r, In r (d_reports st) -> cr_chain r = c ->
        ((exists r', In (c, r') pend1 /\ same_ids r' (cr_id r) (cr_lo r) (cr_hi r)) <->
         (in_window V st r = true /\ ~ (forall s, cr_lo r <= s <= cr_hi r -> In (c, s) (d_exec st))))) /\
     (forall r' s, In (c, r') pend1 -> wf_runs (p_exec r') ->
        (in_runs (p_exec r') s <-> (p_lo r' <= s <= p_hi r' /\ In (c, s) (d_exec st))))) /\
  (* pending after Filter: a report stays pending iff one of its messages is neither executed nor in the report *)
  (forall c r3, In (c, r3) pend3 ->
     exists r s, In (c, r) pend1 /\ same_ids r3 (p_id r) (p_lo r) (p_hi r) /\ In s (unexecuted r) /\ ~ In (c, s) off) /\
  (forall c r s, In (c, r) pend1 -> In s (unexecuted r) -> ~ In (c, s) off ->
     exists r3, In (c, r3) pend3 /\ same_ids r3 (p_id r) (p_lo r) (p_hi r)).

Section OneCycleSound.
  Variable V : N.
  Variable st : dest.
  Hypothesis I : Inv st.

  Lemma window_wf c r : In r (map to_rep (st_window V st c)) -> p_lo r <= p_hi r.
  Proof.
    intros Hr. apply in_map_iff in Hr. destruct Hr as [q [<- Hq]]. apply st_window_in in Hq. cbn [to_rep p_lo p_hi].
    pose proof (inv_wf st I) as Hw. rewrite Forall_forall in Hw. now destruct (Hw q (proj1 Hq)).
  Qed.

  Lemma pending_over_hist pend1 c :
    pending_exact_over (live_chains st) (fun c => c) (fun c => map to_rep (st_window V st c)) (st_exec_runs st) pend1 ->
    In c (live_chains st) ->
    (forall r, In r (d_reports st) -> cr_chain r = c ->
       ((exists r', In (c, r') pend1 /\ same_ids r' (cr_id r) (cr_lo r) (cr_hi r)) <->
        (in_window V st r = true /\ ~ (forall s, cr_lo r <= s <= cr_hi r -> In (c, s) (d_exec st))))) /\
    (forall r' s, In (c, r') pend1 -> wf_runs (p_exec r') ->
       (in_runs (p_exec r') s <-> (p_lo r' <= s <= p_hi r' /\ In (c, s) (d_exec st)))).
  Proof.
    intros [P1 P2] Hc. split.
    - intros r Hr Hch. split.
      + intros [r' [Hi [E1 [E2 E3]]]]. destruct (P1 c r' Hi) as [c' [r0 [_ [-> [Hr0 [F1 [F2 [F3 [Hn _]]]]]]]]].
        apply in_map_iff in Hr0. destruct Hr0 as [q [<- Hq]]. apply st_window_in in Hq. destruct Hq as [Hq1 [Hq2 Hq3]].
        cbn [to_rep p_id p_lo p_hi] in *.
        pose proof (inv_wf st I) as Hwf. rewrite Forall_forall in Hwf. destruct (Hwf r Hr) as [Hlo _].
        assert (q = r) by (apply (same_report st q r (cr_lo r) I Hq1 Hr); [congruence|lia|lia]). subst q.
        split; [exact Hq3|]. intros Hall. apply Hn. intros s Hs. cbn [to_rep p_lo p_hi] in Hs. apply st_exec_runs_in. now apply Hall.
      + intros [Hwin Hn]. destruct (P2 c (to_rep r)) as [r' [Hi E]]; [exact Hc| | |].
        * apply in_map, st_window_in. tauto.
        * intros Hall. apply Hn. intros s Hs. apply st_exec_runs_in. apply Hall. exact Hs.
        * exists r'. split; [exact Hi|exact E].
    - intros r' s Hi Hwf. destruct (P1 c r' Hi) as [c' [r0 [_ [-> [_ [_ [F2 [F3 [_ Hrec]]]]]]]]].
      destruct (Hrec Hwf) as [_ Hiff]. rewrite Hiff, F2, F3, st_exec_runs_in. tauto.
  Qed.
End OneCycleSound.

Definition after_filter_ok (off : list msgid) (cr : N * rep) : list (N * rep) :=
  let c := fst cr in let r := snd cr in
  let rest := filter (fun s => negb (mem_msg (c, s) off)) (unexecuted r) in
  match rest with
  | [] => []
  | _ => [(c, mkRep (p_id r) (p_lo r) (p_hi r)
                (map (fun s => (s, s)) (filter (fun s => negb (memN s rest)) (seqs_of (p_lo r) (p_hi r)))))]
  end.

Lemma crep_eqb_F2 l1 l2 : list_eqb crep_eqb l1 l2 = true ->
  Forall2 (fun a b : N * rep => fst a = fst b /\ rep_same (snd a) (snd b)) l1 l2.
Proof.
  apply js09_list_eqb_F2. intros a b Hab. unfold crep_eqb, pair_eqb in Hab. apply andb_prop in Hab.
  destruct Hab as [Ha Hb]. apply N.eqb_eq in Ha. split; [exact Ha|now apply rep_eqb_same].
Qed.

Lemma after_filter_sound off pend1 pend3 :
  list_eqb crep_eqb pend3 (flat_map (after_filter_ok off) pend1) = true ->
  (forall c r3, In (c, r3) pend3 ->
     exists r s, In (c, r) pend1 /\ same_ids r3 (p_id r) (p_lo r) (p_hi r) /\ In s (unexecuted r) /\ ~ In (c, s) off) /\
  (forall c r s, In (c, r) pend1 -> In s (unexecuted r) -> ~ In (c, s) off ->
     exists r3, In (c, r3) pend3 /\ same_ids r3 (p_id r) (p_lo r) (p_hi r)).
Proof.
  intros H. apply crep_eqb_F2 in H. split.
  - intros c r3 Hi. destruct (F2_in_l _ _ _ _ H Hi) as [b [Hb [E1 E2]]]. cbn [fst snd] in *.
    apply in_flat_map in Hb. destruct Hb as [[c0 r] [Hcr Hb]]. unfold after_filter_ok in Hb. cbn [fst snd] in Hb.
    destruct (filter (fun s => negb (mem_msg (c0, s) off)) (unexecuted r)) as [|s rest] eqn:Er; [contradiction|].
    destruct Hb as [<-|[]]. cbn [fst snd] in *. subst c0. destruct E2 as [F1 [F2 [F3 _]]]. cbn [p_id p_lo p_hi] in *.
    assert (Hs : In s (filter (fun s => negb (mem_msg (c, s) off)) (unexecuted r))) by (rewrite Er; now left).
    apply filter_In in Hs. destruct Hs as [Hs1 Hs2]. rewrite negb_true_iff in Hs2. apply mem_msg_false in Hs2.
    exists r, s. repeat split; assumption.
  - intros c r s Hi Hs Hn.
    assert (Hs' : In s (filter (fun s => negb (mem_msg (c, s) off)) (unexecuted r))).
    { apply filter_In. split; [exact Hs|]. rewrite negb_true_iff. now apply mem_msg_false. }
    assert (Hb : exists y, In (c, y) (flat_map (after_filter_ok off) pend1) /\ same_ids y (p_id r) (p_lo r) (p_hi r)).
    { destruct (filter (fun s => negb (mem_msg (c, s) off)) (unexecuted r)) as [|s0 rest] eqn:Er; [contradiction|].
      eexists. split.
      - apply in_flat_map. exists (c, r). split; [exact Hi|]. unfold after_filter_ok. cbn [fst snd]. rewrite Er. left. reflexivity.
      - unfold same_ids. cbn [p_id p_lo p_hi]. tauto. }
    destruct Hb as [y [Hy [G1 [G2 G3]]]]. destruct (F2_in_r _ _ _ _ H Hy) as [[c' r3] [Hi3 [E1 [F1 [F2 [F3 _]]]]]].
    cbn [fst snd] in *. subst c'. exists r3. split; [exact Hi3|]. unfold same_ids. repeat split; congruence.
Qed.

Theorem one_cycle_sound V st nobs o : Inv st -> one_cycle_ok V st nobs o = true -> cycle_P V st nobs o.
Proof.
  intros I H. destruct o as [[[reads pend1] off] pend3]. unfold one_cycle_ok in H. rewrite live_filter_eq, !st_open_eq in H.
  rewrite !andb_true_iff in H. destruct H as [[[[[Ha Hb] Hc] Hd] Hnd] He].
  assert (Cand : forall m, In m off <-> candidate V st m).
  { intros [c s]. split.
    - intros Hi. rewrite forallb_forall in Hd. specialize (Hd _ Hi). cbn [fst snd] in Hd.
      rewrite !andb_true_iff, !negb_true_iff in Hd. destruct Hd as [[[[D1 D2] D3] D4] D5].
      apply existsb_exists in D5. destruct D5 as [r [Hr Hrange]]. apply st_window_in in Hr.
      rewrite andb_true_iff, !N.leb_le in Hrange.
      unfold candidate. cbn [fst snd]. split; [exact D1|]. split; [now apply st_live_iff|]. split; [|split].
      + exists r. tauto.
      + now apply mem_msg_false.
      + now apply mem_msg_false.
    - intros [Hopen [Hlive [[r [Hr [Hch [Hwin Hrange]]]] [Hnex Hnbl]]]]. cbn [fst snd] in *.
      rewrite Hopen in Hc. cbn [negb orb] in Hc. rewrite forallb_forall in Hc. specialize (Hc c Hlive).
      rewrite forallb_forall in Hc. specialize (Hc r (proj2 (st_window_in V st c r) (conj Hr (conj Hch Hwin)))).
      rewrite forallb_forall in Hc. specialize (Hc s). rewrite seqs_of_in in Hc by lia. specialize (Hc Hrange).
      apply mem_msg_false in Hnex, Hnbl. rewrite Hnex, Hnbl in Hc. cbn [orb] in Hc. now apply mem_msg_In. }
  unfold cycle_P. cbn [fst snd].
  split; [|split; [exact Cand|split; [now apply (nodupb_NoDup msg_eqb msg_eqb_eq)|]]].
  { destruct (cycle_open st).
    - apply andb_prop in Ha. destruct Ha as [A1 A2]. apply N.eqb_eq in A1. split; [lia|].
      intros [x y] Hrd. rewrite forallb_forall in A2. specialize (A2 _ Hrd). cbn [fst snd] in A2.
      rewrite andb_true_iff, !N.eqb_eq in A2. destruct A2 as [-> ->]. reflexivity.
    - now destruct reads. }
  destruct (cycle_open st) eqn:Hopen.
  - assert (Hover : pending_exact_over (live_chains st) (fun c => c) (fun c => map to_rep (st_window V st c))
                                       (st_exec_runs st) pend1).
    { apply flat_spec_rel; [|exact Hb]. intros c r _ Hr. exact (window_wf V st I c r Hr). }
    split; [|split].
    + intros c r' Hi. split; [reflexivity|]. destruct (proj1 Hover c r' Hi) as [c' [r0 [Hc' [-> _]]]]. exact Hc'.
    + intros _ c Hlive. exact (pending_over_hist V st I pend1 c Hover Hlive).
    + exact (after_filter_sound off pend1 pend3 He).
  - assert (E : pend1 = []) by now destruct pend1. subst pend1. split; [intros c r' []|]. split; [discriminate|].
    exact (after_filter_sound off [] pend3 He).
Qed.

(* ---------- whole histories: the states at which the cycles of a history start ---------- *)
Fixpoint cycle_states (V : N) (st : dest) (evs : list event) : list (dest * N) :=
  match evs with
  | [] => []
  | e :: evs' =>
      match e with ECycle nobs _ => [(st, nobs)] | _ => [] end ++ cycle_states V (step V st e) evs'
  end.

Lemma cycle_states_run V evs : forall st,
  run_from V st evs = map (fun sn => cycle_obs V (fst sn) (snd sn)) (cycle_states V st evs).
Proof.
  induction evs as [|e evs IH]; intros st; [reflexivity|]. cbn [run_from cycle_states]. rewrite map_app, IH.
  destruct e; reflexivity.
Qed.

Lemma cycle_states_split V evs1 : forall st nobs land evs2,
  cycle_states V st (evs1 ++ ECycle nobs land :: evs2) =
  cycle_states V st evs1 ++ (state_after V st evs1, nobs) ::
  cycle_states V (state_after V st (evs1 ++ [ECycle nobs land])) evs2.
Proof.
  induction evs1 as [|e evs1 IH]; intros st nobs land evs2; [reflexivity|].
  cbn [app cycle_states]. rewrite IH. unfold state_after. cbn [fold_left]. now rewrite app_assoc.
Qed.

Lemma cycle_states_inv V evs : forall st, Inv st -> Forall (fun sn => Inv (fst sn)) (cycle_states V st evs).
Proof.
  induction evs as [|e evs IH]; intros st I; [constructor|]. cbn [cycle_states]. apply Forall_app. split.
  - destruct e; constructor; [exact I|constructor].
  - apply IH. now apply step_inv.
Qed.

(* a report with the candidates of the cycle moves the destination exactly as the model's report does *)
Lemma step_off_same V st e off : (forall m, In m off <-> In m (offered V st)) -> step_off off st e = step V st e.
Proof.
  intros H. unfold step. destruct e; try reflexivity. cbn [step_off]. f_equal. apply filter_ext. intros m.
  destruct (mem_msg m (offered V st)) eqn:E.
  - apply mem_msg_In. apply H. now apply mem_msg_In.
  - apply mem_msg_false. intros Hi. apply H in Hi. apply mem_msg_In in Hi. congruence.
Qed.

Lemma cyc_ok_from_sound V evs : forall st outs, Inv st -> cyc_ok_from V st evs outs = true ->
  Forall2 (fun sn o => cycle_P V (fst sn) (snd sn) o) (cycle_states V st evs) outs.
Proof.
  induction evs as [|e evs IH]; intros st outs I H.
  - destruct outs; [constructor|discriminate].
  - assert (Hother : (forall nobs land, e <> ECycle nobs land) -> cyc_ok_from V (step_off [] st e) evs outs = true ->
                     Forall2 (fun sn o => cycle_P V (fst sn) (snd sn) o) (cycle_states V (step V st e) evs) outs).
    { intros Hne H'. apply IH; [now apply step_inv|]. replace (step V st e) with (step_off [] st e); [exact H'|].
      unfold step. destruct e; try reflexivity. now destruct (Hne nobs land). }
    destruct e; try (cbn [cyc_ok_from cycle_states app] in *; apply Hother; [discriminate|exact H]).
    cbn [cyc_ok_from] in H. destruct outs as [|o outs]; [discriminate|]. apply andb_prop in H. destruct H as [H1 H2].
    pose proof (one_cycle_sound V st nobs o I H1) as P. cbn [cycle_states app]. constructor; [exact P|].
    assert (Hoff : forall m, In m (obs_offered o) <-> In m (offered V st)).
    { intros m. rewrite (offered_iff V st I m). unfold cycle_P in P. exact (proj1 (proj2 P) m). }
    rewrite (step_off_same V st (ECycle nobs land) _ Hoff) in H2. apply IH; [now apply step_inv|exact H2].
Qed.

(* (b) an arbitrary observation list that passes: one observation per cycle, and the observation of every cycle
   satisfies cycle_P on the state the history has reached when that cycle starts (Model/ExecCycles.v [reached]:
   the destination driven by the events and by what landed of the earlier reports) *)
Theorem cyc_sound V t0 evs o : cyc_ok (V, t0, evs) o = true ->
  exists outs, o = Ok outs /\
    Forall2 (fun sn ob => cycle_P V (fst sn) (snd sn) ob) (cycle_states V (init t0) evs) outs.
Proof.
  unfold cyc_ok. intros H. destruct o as [outs| | |]; try discriminate. exists outs. split; [reflexivity|].
  apply cyc_ok_from_sound; [apply init_inv|exact H].
Qed.

Lemma F2_app_inv_l {A B} (R : A -> B -> Prop) l1 x l1' l2 :
  Forall2 R (l1 ++ x :: l1') l2 -> exists y, nth_error l2 (length l1) = Some y /\ R x y.
Proof.
  revert l2. induction l1 as [|a l1 IH]; intros l2 H; cbn [app] in H; inversion H as [|? b ? l2' Hab Hrest]; subst.
  - exists b. now split.
  - destruct (IH l2' Hrest) as [y [Hy Hr]]. exists y. now split.
Qed.

Theorem cyc_sound_at V t0 evs1 nobs land evs2 o :
  cyc_ok (V, t0, evs1 ++ ECycle nobs land :: evs2) o = true ->
  exists outs ob, o = Ok outs /\
    nth_error outs (length (filter (fun e => match e with ECycle _ _ => true | _ => false end) evs1)) = Some ob /\
    cycle_P V (reached V t0 evs1) nobs ob.
Proof.
  intros H. destruct (cyc_sound V t0 _ o H) as [outs [-> F]]. rewrite cycle_states_split in F.
  destruct (F2_app_inv_l _ _ _ _ _ F) as [ob [Hn P]]. exists outs, ob. split; [reflexivity|]. split; [|exact P].
  rewrite <- Hn. f_equal. rewrite <- (run_from_length V evs1 (init t0)), cycle_states_run. now rewrite map_length.
Qed.

(* C09_hist_no_loss and C09_hist_never_reexecuted for the report of the implementation *)
Corollary cyc_no_loss V t0 evs0 evs' nobs land evs2 o r s :
  cyc_ok (V, t0, (evs0 ++ evs') ++ ECycle nobs land :: evs2) o = true ->
  let st2 := reached V t0 (evs0 ++ evs') in
  In r (d_reports (reached V t0 evs0)) -> cr_lo r <= s <= cr_hi r ->
  cycle_open st2 = true -> In (cr_chain r) (live_chains st2) -> in_window V st2 r = true ->
  ~ In (cr_chain r, s) (d_exec st2) -> ~ In (cr_chain r, s) (d_blocked st2) ->
  exists outs ob, o = Ok outs /\
    nth_error outs (length (filter (fun e => match e with ECycle _ _ => true | _ => false end) (evs0 ++ evs'))) = Some ob /\
    In (cr_chain r, s) (obs_offered ob).
Proof.
  intros H st2 Hr Hs Hopen Hlive Hwin Hnex Hnbl. destruct (cyc_sound_at V t0 _ nobs land evs2 o H) as [outs [ob [-> [Hn P]]]].
  exists outs, ob. split; [reflexivity|]. split; [exact Hn|]. apply (proj1 (proj2 P)).
  apply (offered_iff V _ (reached_inv V t0 (evs0 ++ evs'))). now apply hist_no_loss.
Qed.

Corollary cyc_never_reexecuted V t0 evs0 evs' nobs land evs2 o m :
  cyc_ok (V, t0, (evs0 ++ evs') ++ ECycle nobs land :: evs2) o = true ->
  In m (d_exec (reached V t0 evs0)) ->
  exists outs ob, o = Ok outs /\
    nth_error outs (length (filter (fun e => match e with ECycle _ _ => true | _ => false end) (evs0 ++ evs'))) = Some ob /\
    ~ In m (obs_offered ob).
Proof.
  intros H Hex. destruct (cyc_sound_at V t0 _ nobs land evs2 o H) as [outs [ob [-> [Hn P]]]].
  exists outs, ob. split; [reflexivity|]. split; [exact Hn|]. intros Hi. apply (proj1 (proj2 P)) in Hi.
  apply (offered_iff V _ (reached_inv V t0 (evs0 ++ evs'))) in Hi. exact (hist_never_reexecuted V t0 evs0 evs' m Hex Hi).
Qed.

(* ====================== the models pass their own judges: history sinks ====================== *)
(* ---------- generic facts about the closed form of the pending filter on a layout ---------- *)
Lemma pending_form_in rs es r' :
  In r' (pending_form rs es) <->
  exists q, In q rs /\ fullb es q = false /\ r' = mkRep (p_id q) (p_lo q) (p_hi q) (cruns es q).
Proof.
  unfold pending_form. rewrite in_flat_map. split.
  - intros [q [Hq Hi]]. exists q. destruct (fullb es q); [contradiction|]. destruct Hi as [<-|[]]. tauto.
  - intros [q [Hq [F ->]]]. exists q. split; [exact Hq|]. rewrite F. now left.
Qed.

Lemma layout_overlap_eq rs : layout rs -> forall q1 q2 s, In q1 rs -> In q2 rs ->
  p_lo q1 <= s <= p_hi q1 -> p_lo q2 <= s <= p_hi q2 -> q1 = q2.
Proof.
  induction rs as [|r rs IH]; intros Hl q1 q2 s H1 H2 S1 S2; [contradiction|].
  pose proof (layout_head_lt r rs Hl) as Hlt. assert (Hl' : layout rs) by (cbn [layout] in Hl; tauto).
  destruct H1 as [<-|H1], H2 as [<-|H2]; [reflexivity| | |now apply (IH Hl' q1 q2 s)].
  - destruct (Hlt q2 H2). lia.
  - destruct (Hlt q1 H1). lia.
Qed.

Lemma pending_form_nodup rs es : layout rs -> NoDup (pending_form rs es).
Proof.
  induction rs as [|r rs IH]; intros Hl; [constructor|].
  pose proof (layout_head_lt r rs Hl) as Hlt. assert (Hl' : layout rs) by (cbn [layout] in Hl; tauto).
  change (pending_form (r :: rs) es) with
    ((if fullb es r then [] else [mkRep (p_id r) (p_lo r) (p_hi r) (cruns es r)]) ++ pending_form rs es).
  destruct (fullb es r); cbn [app]; [now apply IH|]. constructor; [|now apply IH].
  intros Hi. apply pending_form_in in Hi. destruct Hi as [q [Hq [_ E]]]. destruct (Hlt q Hq) as [A B].
  assert (E' : p_lo r = p_lo q) by (injection E; intros; assumption).
  assert (p_lo r <= p_hi r) by (cbn [layout] in Hl; tauto). lia.
Qed.

Lemma NoDup_flat_map {A B} (f : A -> list B) l :
  NoDup l -> (forall x, In x l -> NoDup (f x)) ->
  (forall x y m, In x l -> In y l -> In m (f x) -> In m (f y) -> x = y) -> NoDup (flat_map f l).
Proof.
  induction l as [|a l IH]; intros Hn Hf Hd; [constructor|]. cbn [flat_map]. inversion Hn as [|? ? Ha Hl]; subst.
  assert (Hrest : NoDup (flat_map f l)).
  { apply IH; [exact Hl|intros; apply Hf; now right|]. intros x y m Hx Hy. apply Hd; now right. }
  assert (Hfa : NoDup (f a)) by (apply Hf; now left).
  revert Hfa. induction (f a) as [|m ms IHm] eqn:Efa.
  - intros _. exact Hrest.
  - clear IHm. intros Hfa. rewrite <- Efa in *. clear Hf IH.
    assert (Hdis : forall m0, In m0 (f a) -> ~ In m0 (flat_map f l)).
    { intros m0 Hm0 Hin. apply in_flat_map in Hin. destruct Hin as [y [Hy Hmy]].
      assert (a = y) by (apply (Hd a y m0); [now left|now right|exact Hm0|exact Hmy]). subst y. contradiction. }
    clear Efa. induction (f a) as [|m1 ms1 IH1]; [exact Hrest|]. cbn [app]. inversion Hfa as [|? ? Hm1 Hms1]; subst.
    constructor.
    + intros Hin. apply in_app_or in Hin. destruct Hin as [Hin|Hin]; [contradiction|]. apply (Hdis m1); [now left|exact Hin].
    + apply IH1; [exact Hms1|]. intros m0 Hm0. apply Hdis. now right.
Qed.

Lemma NoDup_map_pair {A} (c : N) (l : list A) : NoDup l -> NoDup (map (pair c) l).
Proof.
  induction 1 as [|x l Hx Hl IH]; cbn [map]; constructor; [|exact IH].
  intros Hin. apply in_map_iff in Hin. destruct Hin as [y [E Hy]]. inversion E; subst. contradiction.
Qed.

Lemma NoDup_cy_seq n : forall a, NoDup (cy_seq a n).
Proof.
  induction n as [|n IH]; intros a; cbn [cy_seq]; constructor; [|apply IH]. rewrite cy_seq_in. lia.
Qed.
Lemma NoDup_cy_unexec r : NoDup (cy_unexec r).
Proof. unfold cy_unexec. apply NoDup_filter, NoDup_cy_seq. Qed.

Section PendingFlat.
  Context {X : Type}.
  Variable L : list X.
  Variable ch : X -> N.
  Variable rsf : X -> list rep.
  Variable esf : X -> list range.
  Hypothesis Hch : NoDup (map ch L).
  Hypothesis Hlay : forall x, In x L -> layout (rsf x).
  Hypothesis Hhi : forall x r, In x L -> In r (rsf x) -> p_hi r < max64.
  Hypothesis Hes : forall x, In x L -> chain_from 0 (esf x).

  Definition PF : list (N * rep) := flat_map (fun x => map (pair (ch x)) (pending_form (rsf x) (esf x))) L.

  Lemma PF_in c r' : In (c, r') PF <-> exists x, In x L /\ ch x = c /\ In r' (pending_form (rsf x) (esf x)).
  Proof.
    unfold PF. rewrite in_flat_map. split.
    - intros [x [Hx Hi]]. apply in_map_iff in Hi. destruct Hi as [y [E Hy]]. inversion E; subst. now exists x.
    - intros [x [Hx [<- Hi]]]. exists x. split; [exact Hx|]. now apply in_map.
  Qed.

  Lemma ch_inj x y : In x L -> In y L -> ch x = ch y -> x = y.
  Proof.
    clear Hlay Hhi Hes. induction L as [|a l IH]; intros Hx Hy E; [contradiction|]. cbn [map] in Hch.
    inversion Hch as [|? ? Ha Hl]; subst. destruct Hx as [<-|Hx], Hy as [<-|Hy]; [reflexivity| | |now apply IH].
    - exfalso. apply Ha. rewrite E. now apply in_map.
    - exfalso. apply Ha. rewrite <- E. now apply in_map.
  Qed.

  Lemma NoDup_of_map : NoDup L.
  Proof. clear Hlay Hhi Hes. induction L as [|a l IH]; [constructor|]. cbn [map] in Hch. inversion Hch as [|? ? Ha Hl]; subst.
         constructor; [|now apply IH]. intros Hi. apply Ha. now apply in_map. Qed.

  Lemma PF_nodup : NoDup PF.
  Proof.
    unfold PF. apply NoDup_flat_map.
    - exact NoDup_of_map.
    - intros x Hx. apply NoDup_map_pair, pending_form_nodup, Hlay, Hx.
    - intros x y [c r] Hx Hy H1 H2. apply in_map_iff in H1, H2. destruct H1 as [r1 [E1 _]]. destruct H2 as [r2 [E2 _]].
      apply ch_inj; [exact Hx|exact Hy|]. congruence.
  Qed.

  (* an unexecuted message of a pending report: inside a report of its chain, not executed *)
  Lemma PF_unexec c r' s : In (c, r') PF -> In s (cy_unexec r') ->
    exists x q, In x L /\ ch x = c /\ In q (rsf x) /\ same_ids r' (p_id q) (p_lo q) (p_hi q) /\
                p_lo q <= s <= p_hi q /\ ~ in_union (esf x) s.
  Proof.
    intros Hi Hs. apply PF_in in Hi. destruct Hi as [x [Hx [Hc Hr']]]. apply pending_form_in in Hr'.
    destruct Hr' as [q [Hq [_ ->]]]. assert (Hw : p_lo q <= p_hi q) by (apply (layout_wf _ (Hlay x Hx)); exact Hq).
    apply cy_unexec_in in Hs; [|exact Hw]. cbn [p_lo p_hi p_exec] in Hs. destruct Hs as [Hr Hn].
    exists x, q. repeat split; try assumption; try lia.
    intros Hu. apply Hn. apply (cruns_in (esf x) 0 (Hes x Hx) q s). tauto.
  Qed.

  Lemma PF_overlap_eq c r1 r2 s : In (c, r1) PF -> In (c, r2) PF ->
    p_lo r1 <= s <= p_hi r1 -> p_lo r2 <= s <= p_hi r2 -> r1 = r2.
  Proof.
    intros H1 H2 S1 S2. apply PF_in in H1, H2. destruct H1 as [x [Hx [Hc1 Hr1]]]. destruct H2 as [y [Hy [Hc2 Hr2]]].
    assert (x = y) by (apply ch_inj; [exact Hx|exact Hy|congruence]). subst y.
    apply pending_form_in in Hr1, Hr2. destruct Hr1 as [q1 [Hq1 [_ ->]]]. destruct Hr2 as [q2 [Hq2 [_ ->]]].
    cbn [p_lo p_hi] in *. now rewrite (layout_overlap_eq _ (Hlay x Hx) q1 q2 s Hq1 Hq2 S1 S2).
  Qed.

  (* what is offered from the pending reports: every message at most once *)
  Lemma PF_offers_nodup (h : N * rep -> list N) :
    (forall cr, NoDup (h cr)) -> (forall cr s, In s (h cr) -> In s (cy_unexec (snd cr))) ->
    NoDup (flat_map (fun cr => map (pair (fst cr)) (h cr)) PF).
  Proof.
    intros Hn Hsub. apply NoDup_flat_map.
    - exact PF_nodup.
    - intros cr _. apply NoDup_map_pair, Hn.
    - intros [c1 r1] [c2 r2] [c s] H1 H2 M1 M2. cbn [fst snd] in *.
      apply in_map_iff in M1, M2. destruct M1 as [s1 [E1 Hs1]]. destruct M2 as [s2 [E2 Hs2]].
      inversion E1; subst c1 s1. inversion E2; subst c2 s2.
      apply Hsub in Hs1, Hs2. cbn [snd] in *.
      destruct (PF_unexec c r1 s H1 Hs1) as [_ [q1 [_ [_ [_ [[_ [A1 A2]] [A3 _]]]]]]].
      destruct (PF_unexec c r2 s H2 Hs2) as [_ [q2 [_ [_ [_ [[_ [B1 B2]] [B3 _]]]]]]].
      f_equal. apply (PF_overlap_eq c r1 r2 s H1 H2); lia.
  Qed.

  (* the closed form, chain by chain, is pending_spec in the harness's normal form *)
  Lemma PF_spec (rs0 : X -> list rep) (es0 : X -> list range) :
    (forall x, In x L -> list_eqb rep_eqb (pending_form (rsf x) (esf x)) (pending_spec (rs0 x) (es0 x)) = true) ->
    list_eqb (pair_eqb N.eqb rep_eqb) PF (flat_map (fun x => map (pair (ch x)) (pending_spec (rs0 x) (es0 x))) L) = true.
  Proof.
    clear Hch Hlay Hhi Hes. intros H. unfold PF.
    apply (js09_F2_list_eqb _ (fun a b : N * rep => fst a = fst b /\ rep_same (snd a) (snd b))).
    { intros a b [E1 E2]. unfold pair_eqb. now rewrite E1, N.eqb_refl, (rep_same_eqb _ _ E2). }
    induction L as [|x l IH]; [constructor|]. cbn [flat_map]. apply Forall2_app.
    - specialize (H x (or_introl eq_refl)). apply (js09_list_eqb_F2 _ rep_same rep_eqb_same) in H.
      induction H as [|a b l1 l2 Hab _ IH2]; cbn [map]; constructor; [now split|exact IH2].
    - apply IH. intros y Hy. apply H. now right.
  Qed.
End PendingFlat.

(* ---------- sink C09_cycles: the model passes ---------- *)
Lemma flat_map_ext_in {A B} (f g : A -> list B) l : (forall a, In a l -> f a = g a) -> flat_map f l = flat_map g l.
Proof.
  induction l as [|a l IH]; intros H; [reflexivity|]. cbn [flat_map]. rewrite (H a (or_introl eq_refl)), IH; [reflexivity|].
  intros x Hx. apply H. now right.
Qed.
Lemma crep_eqb_refl l : list_eqb crep_eqb l l = true.
Proof. apply js09_list_eqb_refl. intros [c r]. unfold crep_eqb, pair_eqb. cbn [fst snd]. now rewrite N.eqb_refl, rep_eqb_refl. Qed.

Section ModelCycle.
  Variable V : N.
  Variable st : dest.
  Hypothesis I : Inv st.
  Hypothesis Hknown : NoDup (d_known st).

  Let rsf := fun c : N => chain_reps V st c.
  Let esf := fun c : N => ranges_by_start (exec_ranges st c).

  Lemma cycle_pending_PF : cycle_open st = true ->
    ExecCycles.cycle_pending V st = PF (live_chains st) (fun c => c) rsf esf.
  Proof.
    intros Hopen. unfold ExecCycles.cycle_pending, PF. rewrite Hopen. apply flat_map_ext. intros c.
    unfold chain_pending. rewrite (chain_filter_ok V st I c _ (exec_ranges_view st c I)).
    destruct (chain_reps_facts V st c I) as [E _]. now rewrite E.
  Qed.

  Lemma live_nodup : NoDup (map (fun c : N => c) (live_chains st)).
  Proof. rewrite map_id. unfold live_chains. now apply NoDup_filter. Qed.
  Lemma rsf_layout c : layout (rsf c).
  Proof. now destruct (chain_reps_facts V st c I) as [_ [H _]]. Qed.
  Lemma rsf_hi c r : In r (rsf c) -> p_hi r < max64.
  Proof. intros Hr. destruct (chain_reps_facts V st c I) as [_ [_ H]]. now destruct (H r Hr). Qed.
  Lemma esf_chain c : chain_from 0 (esf c).
  Proof.
    destruct (exec_ranges_view st c I) as [Hw [Hno _]]. apply no_overlap_chain; [exact Hno|].
    eapply Permutation_Forall; [|exact Hw]. symmetry. apply sort_by_perm.
  Qed.

  Lemma ready_offered c r s : In (c, r) (ExecCycles.cycle_pending V st) -> In s (cy_unexec r) ->
    mem_msg (c, s) (offered V st) = ready st c s.
  Proof.
    intros Hi Hs. destruct (ready st c s) eqn:R.
    - apply mem_msg_In. unfold offered. apply in_flat_map. exists (c, r). split; [exact Hi|]. cbn [fst snd].
      apply in_map, filter_In. now split.
    - apply (proj2 (mem_msg_false _ _)). intros Hin. apply (offered_iff V st I) in Hin. destruct Hin as [_ [_ [_ [_ Hnb]]]].
      unfold ready in R. rewrite negb_false_iff in R. apply mem_msg_In in R. contradiction.
  Qed.

  Lemma after_filter_same cr : In cr (ExecCycles.cycle_pending V st) ->
    after_filter st cr = after_filter_ok (offered V st) cr.
  Proof.
    destruct cr as [c r]. intros Hi. unfold after_filter, after_filter_ok. cbn [fst snd].
    change (unexecuted r) with (cy_unexec r).
    change (seqs_of (p_lo r) (p_hi r)) with (cy_seq (p_lo r) (N.to_nat (p_hi r - p_lo r + 1))).
    assert (E : filter (fun s => negb (ready st c s)) (cy_unexec r) =
                filter (fun s => negb (mem_msg (c, s) (offered V st))) (cy_unexec r)).
    { apply filter_ext_in. intros s Hs. now rewrite (ready_offered c r s Hi Hs). }
    now rewrite E.
  Qed.

  Lemma offered_nodup : NoDup (offered V st).
  Proof.
    unfold offered. destruct (cycle_open st) eqn:Hopen.
    2:{ assert (E : ExecCycles.cycle_pending V st = []) by (unfold ExecCycles.cycle_pending; now rewrite Hopen).
        rewrite E. constructor. }
    rewrite (cycle_pending_PF Hopen).
    apply (PF_offers_nodup (live_chains st) (fun c => c) rsf esf live_nodup
             (fun c _ => rsf_layout c) (fun c r _ Hr => rsf_hi c r Hr) (fun c _ => esf_chain c)
             (fun cr => filter (ready st (fst cr)) (cy_unexec (snd cr)))).
    - intros cr. apply NoDup_filter, NoDup_cy_unexec.
    - intros cr s Hs. now apply filter_In in Hs.
  Qed.

  Theorem one_cycle_model_ok nobs : one_cycle_ok V st nobs (cycle_obs V st nobs) = true.
  Proof.
    unfold cycle_obs, one_cycle_ok. rewrite live_filter_eq, !st_open_eq.
    assert (He : list_eqb crep_eqb (pending_after V st)
                   (flat_map (after_filter_ok (offered V st)) (ExecCycles.cycle_pending V st)) = true).
    { unfold pending_after. rewrite (flat_map_ext_in _ _ _ after_filter_same). apply crep_eqb_refl. }
    assert (Hnd : nodupb msg_eqb (offered V st) = true) by (apply (nodupb_NoDup msg_eqb msg_eqb_eq), offered_nodup).
    assert (Hd : forallb (fun m => cycle_open st && st_live st (fst m) && negb (mem_msg m (d_exec st)) &&
                                   negb (mem_msg m (d_blocked st)) &&
                                   existsb (fun r => N.leb (cr_lo r) (snd m) && N.leb (snd m) (cr_hi r))
                                           (st_window V st (fst m))) (offered V st) = true).
    { apply forallb_forall. intros [c s] Hm. apply (offered_iff V st I) in Hm.
      destruct Hm as [Hopen [Hlive [[r [Hr [Hch [Hwin Hrange]]]] [Hnex Hnbl]]]]. cbn [fst snd] in *.
      rewrite Hopen, (proj2 (st_live_iff st c) Hlive), (proj2 (mem_msg_false _ _) Hnex), (proj2 (mem_msg_false _ _) Hnbl).
      cbn [andb negb]. apply existsb_exists. exists r. split; [apply st_window_in; tauto|].
      rewrite andb_true_iff, !N.leb_le. exact Hrange. }
    rewrite !andb_true_iff. split; [split; [split; [split; [split|]|]|]|]; [| | |exact Hd|exact Hnd|exact He]; clear He Hnd Hd.
    - unfold cycle_reads. destruct (cycle_open st); [|reflexivity].
      rewrite repeat_length, N2Nat.id, N.eqb_refl. cbn [andb].
      apply forallb_forall. intros rd Hrd. apply repeat_spec in Hrd. subst rd. cbn [fst snd]. unfold fetch_from, commit_limit.
      now rewrite !N.eqb_refl.
    - destruct (cycle_open st) eqn:Hopen.
      2:{ unfold ExecCycles.cycle_pending. rewrite Hopen. reflexivity. }
      rewrite (cycle_pending_PF Hopen). unfold crep_eqb.
      apply (PF_spec (live_chains st) (fun c => c) rsf esf (fun c => map to_rep (st_window V st c)) (st_exec_runs st)).
      intros c _. rewrite st_window_chain_reps.
      rewrite (pending_spec_ext _ (st_exec_runs st c) (exec_ranges st c)).
      2:{ intros r s _ _. rewrite st_exec_runs_in. destruct (exec_ranges_view st c I) as [_ [_ Hu]]. symmetry. apply Hu. }
      destruct (chain_reps_facts V st c I) as [E [Hl Hr]]. destruct (exec_ranges_view st c I) as [Hw [Hno _]].
      pose proof (pending_form_spec (chain_reps V st c) (exec_ranges st c)) as P. rewrite E in P.
      apply P; [exact Hl|intros r Hi; now destruct (Hr r Hi)|exact Hw|exact Hno].
    - destruct (cycle_open st) eqn:Hopen; [|reflexivity]. cbn [negb orb].
      apply forallb_forall. intros c Hc. apply forallb_forall. intros r Hr. apply forallb_forall. intros s Hs.
      apply st_window_in in Hr. destruct Hr as [Hr [Hch Hwin]].
      pose proof (inv_wf st I) as Hwf. rewrite Forall_forall in Hwf. destruct (Hwf r Hr) as [Hlo _].
      apply (seqs_of_in _ _ _ Hlo) in Hs.
      destruct (mem_msg (c, s) (d_exec st)) eqn:E1; [reflexivity|].
      destruct (mem_msg (c, s) (d_blocked st)) eqn:E2; [reflexivity|]. cbn [orb].
      apply mem_msg_In, (offered_iff V st I). unfold candidate. cbn [fst snd].
      split; [exact Hopen|]. split; [exact Hc|]. split; [exists r; tauto|].
      split; now apply mem_msg_false.
  Qed.
End ModelCycle.

Definition sources_distinct (evs : list event) : Prop :=
  Forall (fun e => match e with ESources cs => NoDup cs | _ => True end) evs.

Lemma step_known V st e : d_known (step V st e) = match e with ESources cs => cs | _ => d_known st end.
Proof.
  unfold step. destruct e; cbn [step_off]; try reflexivity. destruct (commit_ok st c lo hi); reflexivity.
Qed.

Lemma cyc_ok_from_model V evs : forall st, Inv st -> NoDup (d_known st) -> sources_distinct evs ->
  cyc_ok_from V st evs (run_from V st evs) = true.
Proof.
  induction evs as [|e evs IH]; intros st I Hk Hs; [reflexivity|]. inversion Hs as [|? ? He Hs']; subst.
  assert (Hk' : NoDup (d_known (step V st e))) by (rewrite step_known; destruct e; assumption).
  assert (IH' := IH (step V st e) (step_inv V st e I) Hk' Hs').
  destruct e; cbn [cyc_ok_from run_from app]; try exact IH'.
  rewrite (one_cycle_model_ok V st I Hk nobs). cbn [andb]. exact IH'.
Qed.

(* (a) the model passes on every history whose home-chain configurations list each source chain once *)
Theorem cyc_model_passes V t0 evs : sources_distinct evs -> cyc_ok (V, t0, evs) (cyc_model (V, t0, evs)) = true.
Proof. intros H. unfold cyc_ok, cyc_model. apply cyc_ok_from_model; [apply init_inv|constructor|exact H]. Qed.

Example cyc_ok_example :
  sources_distinct ex_events /\
  cyc_ok (60, 1000, ex_events) (Ok (run_from 60 (init 1000) ex_events)) = true /\
  (* dropping message 13 from the third report is a loss *)
  cyc_ok (60, 1000, ex_events)
    (Ok (map (fun ob : cyc_obs => let '(r, p1, off, p3) := ob in
                (r, p1, filter (fun m => negb (N.eqb (snd m) 13)) off, p3)) (run_from 60 (init 1000) ex_events))) = false.
Proof.
  split; [|split; vm_compute; reflexivity].
  unfold ex_events, sources_distinct. repeat constructor. intros [].
Qed.

(* ---------- sinks C09_history, C09_history_big: the model of the history sink passes ---------- *)
(* the snapshots of the simulated histories: every chain once; per chain a layout of reports without recorded
   executions, ending below 2^64-1, and a legal executed-range list *)
Definition snap_legal (snap : snap_t) : Prop :=
  NoDup (map (fun cre : N * list rep * list range => fst (fst cre)) snap) /\
  forall c reps ex, In (c, reps, ex) snap ->
    layout (by_start reps) /\ (forall r, In r reps -> p_exec r = [] /\ p_hi r < max64) /\
    Forall (fun e => fst e <= snd e /\ snd e < max64) ex /\ no_overlap 0 (ranges_by_start ex) = true.

Section ModelHist.
  Variable snap : snap_t.
  Hypothesis Hsnap : snap_legal snap.

  Let ch := fun cre : N * list rep * list range => fst (fst cre).
  Let rsf := fun cre : N * list rep * list range => by_start (snd (fst cre)).
  Let esf := fun cre : N * list rep * list range => ranges_by_start (snd cre).

  Lemma snap_pending_PF : C09_check.cycle_pending snap = PF snap ch rsf esf.
  Proof.
    unfold C09_check.cycle_pending, PF. apply flat_map_ext_in. intros [[c reps] ex] Hi.
    destruct (proj2 Hsnap c reps ex Hi) as [H1 [H2 [H3 H4]]]. now rewrite (filter_executed_form reps ex H1 H2 H3 H4).
  Qed.

  Lemma snap_ch : NoDup (map ch snap). Proof. exact (proj1 Hsnap). Qed.
  Lemma snap_lay x : In x snap -> layout (rsf x).
  Proof. destruct x as [[c reps] ex]. intros Hi. now destruct (proj2 Hsnap c reps ex Hi). Qed.
  Lemma snap_hi x r : In x snap -> In r (rsf x) -> p_hi r < max64.
  Proof.
    destruct x as [[c reps] ex]. intros Hi Hr. destruct (proj2 Hsnap c reps ex Hi) as [_ [H2 _]].
    unfold rsf, by_start in Hr. cbn [fst snd] in Hr. apply sort_by_in in Hr. now destruct (H2 r Hr).
  Qed.
  Lemma snap_es x : In x snap -> chain_from 0 (esf x).
  Proof.
    destruct x as [[c reps] ex]. intros Hi. destruct (proj2 Hsnap c reps ex Hi) as [_ [_ [H3 H4]]].
    apply no_overlap_chain; [exact H4|]. eapply Permutation_Forall; [|exact H3]. symmetry. apply sort_by_perm.
  Qed.

  (* the model's Filter report holds every unexecuted message of every committed report: with it nothing stays pending *)
  Lemma model_report_covers x r s : In x snap -> In r (snd (fst x)) -> p_lo r <= s <= p_hi r -> ~ in_union (snd x) s ->
    In (ch x, s) (flat_map (fun cr : N * rep => map (pair (fst cr)) (unexecuted (snd cr))) (C09_check.cycle_pending snap)).
  Proof.
    intros Hx Hr Hs Hnu. rewrite snap_pending_PF.
    assert (Hr' : In r (rsf x)) by (unfold rsf, by_start; now apply sort_by_in).
    assert (Hlo : p_lo r <= p_hi r) by (apply (layout_wf _ (snap_lay x Hx)); exact Hr').
    pose proof (snap_hi x r Hx Hr') as Hhi. pose proof (snap_es x Hx) as Hch.
    assert (F : fullb (esf x) r = false).
    { destruct (fullb (esf x) r) eqn:F; [|reflexivity]. apply (fullb_iff (esf x) 0 Hch r Hlo Hhi) in F.
      exfalso. apply Hnu. apply (in_union_sorted (snd x) s). now apply F. }
    set (r' := mkRep (p_id r) (p_lo r) (p_hi r) (cruns (esf x) r)).
    apply in_flat_map. exists (ch x, r'). split.
    - apply (PF_in snap ch rsf esf). exists x. split; [exact Hx|]. split; [reflexivity|]. apply pending_form_in.
      exists r. now repeat split.
    - cbn [fst snd]. apply in_map. apply (unexecuted_in r' s Hlo). cbn [p_lo p_hi p_exec]. split; [exact Hs|].
      intros Hin. apply (cruns_in (esf x) 0 Hch r s) in Hin. apply Hnu. apply (in_union_sorted (snd x) s). tauto.
  Qed.

  Lemma model_nothing_stays_pending :
    flat_map (fun cre : N * list rep * list range =>
                map (pair (fst (fst cre)))
                    (pending_spec (snd (fst cre))
                       (snd cre ++ reported_runs
                                     (flat_map (fun cr : N * rep => map (pair (fst cr)) (unexecuted (snd cr)))
                                               (C09_check.cycle_pending snap)) (fst (fst cre))))) snap = [].
  Proof.
    set (ms := flat_map (fun cr : N * rep => map (pair (fst cr)) (unexecuted (snd cr))) (C09_check.cycle_pending snap)).
    assert (G : forall l : list (N * list rep * list range), (forall x, In x l -> In x snap) ->
                flat_map (fun cre => map (pair (fst (fst cre)))
                    (pending_spec (snd (fst cre)) (snd cre ++ reported_runs ms (fst (fst cre))))) l = []).
    { induction l as [|x l IH]; intros Hsub; [reflexivity|]. cbn [flat_map]. rewrite IH by (intros y Hy; apply Hsub; now right).
      rewrite app_nil_r. assert (Hx : In x snap) by (apply Hsub; now left).
      replace (pending_spec (snd (fst x)) (snd x ++ reported_runs ms (fst (fst x)))) with (@nil rep); [reflexivity|].
      symmetry. rewrite pending_spec_unfold.
      assert (H1 : forall r, In r (by_start (snd (fst x))) -> spec_one (snd x ++ reported_runs ms (fst (fst x))) r = []).
      { intros r Hr. assert (Hlo : p_lo r <= p_hi r) by (apply (layout_wf _ (snap_lay x Hx)); exact Hr).
        unfold spec_one. replace (fully_executed (snd x ++ reported_runs ms (fst (fst x))) (p_lo r) (p_hi r)) with true; [reflexivity|].
        symmetry. apply (fully_all _ r Hlo). intros s Hs. apply in_union_with_reported.
        destruct (in_runsb (snd x) s) eqn:Eb; [left; now apply in_runsb_iff|]. right.
        apply (model_report_covers x r s Hx); [unfold by_start in Hr; now apply sort_by_in in Hr|exact Hs|].
        intros Hu. apply in_runsb_iff in Hu. congruence. }
      induction (by_start (snd (fst x))) as [|r rs IHr]; [reflexivity|]. cbn [flat_map].
      rewrite (H1 r (or_introl eq_refl)), IHr; [reflexivity|]. intros y Hy. apply H1. now right. }
    apply G. trivial.
  Qed.

  Theorem hist_model_passes st : hist_ok (st, snap) (hist_model (st, snap)) = true.
  Proof.
    unfold hist_model, hist_ok. destruct (N.eqb st 3) eqn:E3.
    - rewrite model_nothing_stays_pending.
      set (pend := C09_check.cycle_pending snap).
      set (ms := flat_map (fun cr : N * rep => map (pair (fst cr)) (unexecuted (snd cr))) pend).
      cbn [forallb list_eqb]. rewrite !andb_true_r, !andb_true_iff. split; [split|].
      + apply js09_list_eqb_refl. intros a. now apply pairNN_eqb_eq.
      + apply forallb_forall. intros [c s] Hm. unfold ms in Hm. apply in_flat_map in Hm. destruct Hm as [[c' r'] [Hp Hm]].
        cbn [fst snd] in Hm. apply in_map_iff in Hm. destruct Hm as [s' [E Hs]]. inversion E; subst c' s'. cbn [fst snd].
        unfold pend in Hp. rewrite snap_pending_PF in Hp.
        destruct (PF_unexec snap ch rsf esf snap_lay snap_hi snap_es c r' s Hp Hs) as [x [q [Hx [Hc [Hq [_ [Hrange Hnu]]]]]]].
        destruct x as [[c0 reps] ex]. unfold ch, rsf, esf in *. cbn [fst snd] in *. subst c0.
        apply andb_true_intro. split.
        * rewrite negb_true_iff. destruct (in_runsb (snap_executed snap c) s) eqn:Er; [|reflexivity]. exfalso.
          apply in_runsb_iff, snap_executed_in in Er. destruct Er as [reps' [ex' [Hi' Hu]]].
          assert (Exy : (c, reps', ex') = (c, reps, ex)) by (apply (ch_inj snap ch snap_ch); [exact Hi'|exact Hx|reflexivity]).
          inversion Exy; subst reps' ex'. apply Hnu. now apply in_union_sorted.
        * apply existsb_exists. exists q. split.
          -- apply snap_reports_in. exists reps, ex. split; [exact Hx|]. unfold by_start in Hq. now apply sort_by_in in Hq.
          -- rewrite andb_true_iff, !N.leb_le. exact Hrange.
      + apply (nodupb_NoDup _ pairNN_eqb_eq). unfold ms, pend. rewrite snap_pending_PF.
        apply (PF_offers_nodup snap ch rsf esf snap_ch snap_lay snap_hi snap_es (fun cr => unexecuted (snd cr))).
        * intros cr. exact (NoDup_cy_unexec (snd cr)).
        * intros cr s Hs. exact Hs.
    - cbn [list_eqb forallb nodupb andb]. rewrite andb_true_r. rewrite snap_pending_PF.
      apply (PF_spec snap ch rsf esf (fun cre => snd (fst cre)) (fun cre => snd cre)).
      intros [[c reps] ex] Hi. unfold rsf, esf. cbn [fst snd]. destruct (proj2 Hsnap c reps ex Hi) as [H1 [H2 [H3 H4]]].
      apply pending_form_spec; try assumption. intros r Hr. now destruct (H2 r Hr).
  Qed.
End ModelHist.

Definition ex_snap : snap_t := [(1, ex_reports, ex_executed); (2, [mkRep 7 1 4 []], [(2, 3)])].
Example hist_ok_example :
  snap_legal ex_snap /\
  hist_ok (1, ex_snap) (hist_model (1, ex_snap)) = true /\ hist_ok (3, ex_snap) (hist_model (3, ex_snap)) = true /\
  hist_model (3, ex_snap) = Ok ([], [(1, 10); (1, 12); (2, 1); (2, 4)], [(1, 10); (1, 12); (2, 1); (2, 4)]) /\
  (* an executed message in the report, a message twice, a fully executed report kept pending: all rejected *)
  hist_ok (3, ex_snap) (Ok ([], [(1, 10); (1, 11)], [(1, 10); (1, 11)])) = false /\
  hist_ok (3, ex_snap) (Ok ([], [(1, 10); (1, 10)], [(1, 10); (1, 10)])) = false /\
  hist_ok (1, ex_snap) (Ok ([(1, mkRep 1 5 8 [(5, 8)]); (1, mkRep 2 10 12 [(11, 11)]); (2, mkRep 7 1 4 [(2, 3)])], [], [])) = false.
Proof.
  split; [|repeat split; vm_compute; reflexivity].
  split; [repeat constructor; cbn; intuition discriminate|].
  intros c reps ex [E|[E|[]]]; inversion E; subst.
  - destruct filter_example as [A [B [C [D _]]]]. tauto.
  - split; [change (by_start [mkRep 7 1 4 []]) with [mkRep 7 1 4 []]; cbn [layout p_lo p_hi]; lia|].
    split; [intros r [<-|[]]; cbn [p_exec p_hi]; unfold max64; split; [reflexivity|lia]|].
    split; [unfold max64; repeat constructor; cbn [fst snd]; lia|vm_compute; reflexivity].
Qed.

Lemma snap_legal_wf snap : snap_legal snap -> snap_wf snap.
Proof.
  intros [_ H] [[c reps] ex] r Hi Hr. cbn [fst snd] in Hr. destruct (H c reps ex Hi) as [Hl _].
  now apply (layout_wf_sorted reps Hl).
Qed.

(* WEAK x_ok found and fixed (state 3).  Witnesses on ex_snap, whose chain 1 has report 2 = [10,12] with 11 executed:
   the report holds 10 but not 12.  [o1] drops report 2 from the pending list although 12 is neither executed nor
   reported; [o2] keeps it pending but records nothing as executed.  Both passed; the clause demands [o3]. *)
Example hist_ok_before_weak :
  let ms := [(1, 10); (2, 1); (2, 4)] in
  let o1 : hist_out := Ok ([], ms, ms) in
  let o2 : hist_out := Ok ([(1, mkRep 2 10 12 [])], ms, ms) in
  let o3 : hist_out := Ok ([(1, mkRep 2 10 12 [(10, 11)])], ms, ms) in
  hist_ok_before (3, ex_snap) o1 = true /\ hist_ok (3, ex_snap) o1 = false /\
  hist_ok_before (3, ex_snap) o2 = true /\ hist_ok (3, ex_snap) o2 = false /\
  hist_ok (3, ex_snap) o3 = true /\
  (* o1 is forbidden by the second clause of hist_sound_filter: *)
  (In (1, ex_reports, ex_executed) ex_snap /\ In (mkRep 2 10 12 []) ex_reports /\
   ~ in_union ex_executed 12 /\ ~ In (1, 12) ms) /\
  (* the hypotheses of hist_sound_filter hold on a non-trivial outcome *)
  snap_wf ex_snap.
Proof.
  cbv zeta. repeat split; try (vm_compute; reflexivity).
  - now left.
  - now left.
  - intros H. apply in_runsb_iff in H. vm_compute in H. discriminate.
  - cbn [In]. intros [E|[E|[E|[]]]]; discriminate.
  - apply snap_legal_wf. exact (proj1 hist_ok_example).
Qed.

(* ---------- sinks C09_pending, C09_observe: the model passes when no executed-ranges query fails ---------- *)
Lemma layout_ksorted l : layout l -> KSorted p_lo l.
Proof.
  induction l as [|r l IH]; intros H; [constructor|]. pose proof (layout_head_lt r l H) as Hlt.
  assert (Hr : p_lo r <= p_hi r) by (cbn [layout] in H; tauto).
  constructor; [apply IH; cbn [layout] in H; tauto|]. rewrite Forall_forall. intros x Hx. destruct (Hlt x Hx). lia.
Qed.
Lemma layout_by_start l : layout l -> by_start l = l.
Proof.
  intros H. unfold by_start. change (fun a b : rep => (p_lo a <=? p_lo b)) with (kle p_lo).
  now apply sort_by_sorted_id, layout_ksorted.
Qed.

Lemma layout_asc l : layout l -> (forall r, In r l -> p_hi r < max64) ->
  asc_disjoint (map (fun r => (p_lo r, p_hi r)) l) &&
  forallb (fun x => N.ltb (snd x) max64) (map (fun r => (p_lo r, p_hi r)) l) = true.
Proof.
  intros Hl Hh. destruct l as [|r l]; [reflexivity|]. cbn [map]. apply asc_from_bool; cbn [fst snd].
  - cbn [layout] in Hl. tauto.
  - apply Hh. now left.
  - revert r Hl Hh. induction l as [|x l IH]; intros r Hl Hh; [exact I|]. cbn [map asc_from fst snd].
    assert (Hl' : layout (x :: l)) by (cbn [layout] in *; tauto).
    split; [cbn [layout] in Hl; tauto|]. split; [cbn [layout] in Hl'; tauto|]. split; [apply Hh; right; now left|].
    apply IH; [exact Hl'|]. intros y Hy. apply Hh. now right.
Qed.

Definition queries (reps : list rep) : list range := merge_runs None (map (fun r => (p_lo r, p_hi r)) reps).
Definition answers (tab : list (N * range * option (list range))) (c : N) (reps : list rep) : list range :=
  concat (map (fun q => match answer_of tab c q with Some l => l | None => [] end) (queries reps)).
(* the reader answered every query of the chain, with a legal list that shows the destination's executed set inside
   the reports *)
Definition honest_answers (tab : list (N * range * option (list range))) (world : list (N * list range))
           (c : N) (reps : list rep) : Prop :=
  (forall q, In q (queries reps) -> answer_of tab c q <> None) /\
  Forall (fun e => fst e <= snd e /\ snd e < max64) (answers tab c reps) /\
  no_overlap 0 (ranges_by_start (answers tab c reps)) = true /\
  forall r s, In r reps -> p_lo r <= s <= p_hi r -> (in_union (answers tab c reps) s <-> in_union (world_of world c) s).

Lemma pending_chain_spec tab world c reps :
  layout reps -> (forall r, In r reps -> p_exec r = [] /\ p_hi r < max64) -> honest_answers tab world c reps ->
  exists outc, pending_chain (answer_of tab) c reps = Ok outc /\
               list_eqb rep_eqb outc (pending_spec reps (world_of world c)) = true.
Proof.
  intros Hl Hr [A1 [A2 [A3 A4]]]. destruct reps as [|r0 reps0] eqn:Ereps; [exists []; split; reflexivity|].
  rewrite <- Ereps in *. assert (Hne : reps <> []) by (rewrite Ereps; discriminate). clear Ereps.
  unfold pending_chain. destruct reps as [|r1 reps1] eqn:Ereps; [congruence|]. rewrite <- Ereps in *. clear Ereps Hne r0 reps0.
  rewrite (compute_ranges_merge _ (layout_asc reps Hl (fun r Hi => proj2 (Hr r Hi)))). cbn [rbind]. fold (queries reps).
  assert (E : existsb (fun a : option (list range) => match a with None => true | Some _ => false end)
                      (map (answer_of tab c) (queries reps)) = false).
  { destruct (existsb _ _) eqn:E; [|reflexivity]. apply existsb_exists in E. destruct E as [a [Ha Hn]].
    apply in_map_iff in Ha. destruct Ha as [q [<- Hq]]. specialize (A1 q Hq). now destruct (answer_of tab c q). }
  rewrite E, map_map. fold (answers tab c reps).
  assert (Hlay : layout (by_start reps)) by now rewrite layout_by_start.
  rewrite (filter_executed_form reps _ Hlay Hr A2 A3). eexists. split; [reflexivity|].
  rewrite <- (pending_spec_ext reps (answers tab c reps) (world_of world c) A4).
  apply pending_form_spec; try assumption. intros r Hi. now destruct (Hr r Hi).
Qed.

Definition grp_same (a b : N * list rep) : Prop := fst a = fst b /\ list_eqb rep_eqb (snd a) (snd b) = true.

Lemma pending_all_spec tab world groups :
  (forall c reps, In (c, reps) groups ->
     exists outc, pending_chain (answer_of tab) c reps = Ok outc /\
                  list_eqb rep_eqb outc (pending_spec reps (world_of world c)) = true) ->
  exists m, pending_all (answer_of tab) groups = Ok m /\
            Forall2 grp_same m (map (fun g => (fst g, pending_spec (snd g) (world_of world (fst g)))) groups).
Proof.
  induction groups as [|[c reps] groups IH]; intros H; [exists []; split; [reflexivity|constructor]|].
  destruct (H c reps (or_introl eq_refl)) as [outc [E1 E2]].
  destruct IH as [m [E3 F]]; [intros c' reps' Hi; apply H; now right|].
  exists ((c, outc) :: m). cbn [pending_all]. rewrite E1. cbn [rbind]. rewrite E3. cbn [rbind]. split; [reflexivity|].
  cbn [map fst snd]. constructor; [now split|exact F].
Qed.

Lemma insert_by_chain_F2 x y l1 l2 : grp_same x y -> Forall2 grp_same l1 l2 ->
  Forall2 grp_same (insert_by (fun a b : N * list rep => N.leb (fst a) (fst b)) x l1)
                   (insert_by (fun a b : N * list rep => N.leb (fst a) (fst b)) y l2).
Proof.
  intros Hxy F. induction F as [|a b l1 l2 Hab F IH]; cbn [insert_by]; [constructor; [exact Hxy|constructor]|].
  rewrite (proj1 Hxy), (proj1 Hab). destruct (N.leb (fst y) (fst b)).
  - constructor; [exact Hxy|]. constructor; assumption.
  - constructor; assumption.
Qed.
Lemma by_chain_F2 l1 l2 : Forall2 grp_same l1 l2 -> Forall2 grp_same (by_chain l1) (by_chain l2).
Proof.
  unfold by_chain. induction 1 as [|a b l1 l2 Hab F IH]; cbn [sort_by]; [constructor|]. now apply insert_by_chain_F2.
Qed.

Theorem pend_model_passes l tab world :
  groups_good (group_by_chain l) ->
  (forall c reps r, In (c, reps) (group_by_chain l) -> In r reps -> p_exec r = []) ->
  ~ reader_failed tab ->
  (forall c reps, In (c, reps) (group_by_chain l) -> honest_answers tab world c reps) ->
  pend_ok (Some l, tab, world) (pend_model (Some l, tab, world)) = true.
Proof.
  intros Hg Hex Hnf Hans. unfold pend_ok, pend_model, pending_reports.
  rewrite (proj2 (good_iff _) Hg). cbn [negb].
  destruct (pending_all_spec tab world (group_by_chain l)) as [m [E F]].
  { intros c reps Hi. destruct (Hg c reps Hi) as [Hl Hh]. apply pending_chain_spec; [exact Hl| |now apply Hans].
    intros r Hr. split; [now apply (Hex c reps)|now apply Hh]. }
  rewrite E. apply andb_true_intro. split.
  - rewrite negb_true_iff. destruct (existsb _ tab) eqn:Ee; [|reflexivity]. apply any_err_iff in Ee. contradiction.
  - apply (js09_F2_list_eqb _ grp_same).
    + intros a b [E1 E2]. unfold pair_eqb. now rewrite E1, N.eqb_refl, E2.
    + apply by_chain_F2. exact F.
Qed.

(* the commit-report reader failing is an error, in the model and in the judge *)
Lemma pend_model_passes_reader_error tab world : pend_ok (None, tab, world) (pend_model (None, tab, world)) = true.
Proof. reflexivity. Qed.

(* ---------- sink C09_pending: cases with a scripted failing executed-ranges query ----------
   What the harness guarantees about a call log that shows a failure (harness/execute/c09_test.go,
   TestVerif_C09_pending): the table is the log of the ExecutedMessageRanges calls the implementation made, in call
   order, each with the answer it was given.  A failure is scripted PER CHAIN (execErrChain): every call for that chain
   fails, so every logged call of a chain with a failed call is a failed call; the failing chain is one of the
   scripted chains, and each of those has at least one commit report (vC09Layout builds 1..6 reports).  The answers
   that were given are cut from the world's executed set inside the query (vC09Shape, allowBad = false), so they end
   below 2^64-1.  No assumption is made about WHICH queries the implementation issued or in which order (Go iterates
   the chain map in random order): the model answers Err as soon as some chain it must query is a failing chain. *)
Definition scripted_failures (tab : list (N * range * option (list range))) (groups : list (N * list rep)) : Prop :=
  forall e, In e tab -> snd e = None ->
    (exists reps, In (fst (fst e), reps) groups /\ reps <> []) /\
    (forall e', In e' tab -> fst (fst e') = fst (fst e) -> snd e' = None).
Definition answers_below (tab : list (N * range * option (list range))) : Prop :=
  forall e l x, In e tab -> snd e = Some l -> In x l -> snd x < max64.

Lemma answer_of_chain_failed tab c :
  (forall e', In e' tab -> fst (fst e') = c -> snd e' = None) -> forall q, answer_of tab c q = None.
Proof.
  intros H q. unfold answer_of. destruct (find _ tab) as [e|] eqn:F; [|reflexivity]. apply find_some in F.
  destruct F as [Hi Hb]. apply andb_prop in Hb. destruct Hb as [Hc _]. apply N.eqb_eq in Hc. now apply H.
Qed.
Lemma answer_of_some tab c q l : answer_of tab c q = Some l -> exists e, In e tab /\ snd e = Some l.
Proof.
  unfold answer_of. destruct (find _ tab) as [e|] eqn:F; [|discriminate]. apply find_some in F. intros E. exists e. tauto.
Qed.

Lemma merge_some_nonempty es : forall c, merge_runs (Some c) es <> [].
Proof.
  induction es as [|e es IH]; intros [a b]; cbn [merge_runs]; [discriminate|].
  destruct (N.ltb (snd e) (fst e)); [apply IH|]. destruct (N.leb (fst e) (b + 1)); [apply IH|discriminate].
Qed.
Lemma queries_nonempty reps : layout reps -> reps <> [] -> queries reps <> [].
Proof.
  destruct reps as [|r reps]; intros Hl Hne; [congruence|]. unfold queries. cbn [map merge_runs fst snd].
  assert (Hr : p_lo r <= p_hi r) by (cbn [layout] in Hl; tauto).
  destruct (N.ltb_spec (p_hi r) (p_lo r)) as [|_]; [lia|]. apply merge_some_nonempty.
Qed.

Lemma pending_chain_failed tab c reps :
  layout reps -> (forall r, In r reps -> p_hi r < max64) -> reps <> [] ->
  (forall q, answer_of tab c q = None) -> pending_chain (answer_of tab) c reps = Err.
Proof.
  intros Hl Hh Hne Hnone. pose proof (queries_nonempty reps Hl Hne) as Hq.
  unfold pending_chain. destruct reps as [|r1 reps1] eqn:Ereps; [congruence|]. rewrite <- Ereps in *. clear Ereps.
  rewrite (compute_ranges_merge _ (layout_asc reps Hl Hh)). cbn [rbind]. fold (queries reps).
  destruct (queries reps) as [|q qs]; [congruence|]. cbn [map existsb]. now rewrite (Hnone q).
Qed.

Lemma pending_chain_calm tab c reps :
  layout reps -> (forall r, In r reps -> p_hi r < max64) -> answers_below tab -> calm (pending_chain (answer_of tab) c reps).
Proof.
  intros Hl Hh Hb. unfold pending_chain. destruct reps as [|r1 reps1] eqn:Ereps; [split; discriminate|].
  rewrite <- Ereps in *. clear Ereps.
  rewrite (compute_ranges_merge _ (layout_asc reps Hl Hh)). cbn [rbind].
  destruct (existsb _ _); [split; discriminate|]. apply filter_executed_calm. apply Forall_forall. intros x Hx.
  apply in_concat in Hx. destruct Hx as [l [Hl' Hx]]. apply in_map_iff in Hl'. destruct Hl' as [a [Ea Ha]].
  apply in_map_iff in Ha. destruct Ha as [q [Eq _]]. subst a. destruct (answer_of tab c q) as [l'|] eqn:Eans.
  - subst l'. destruct (answer_of_some tab c q l Eans) as [e [He Hs]]. exact (Hb e l x He Hs Hx).
  - subst l. contradiction.
Qed.

Lemma pending_all_calm f groups :
  (forall c reps, In (c, reps) groups -> calm (pending_chain f c reps)) -> calm (pending_all f groups).
Proof.
  induction groups as [|[c reps] groups IH]; intros H; [split; discriminate|]. cbn [pending_all].
  apply rbind_calm; [apply H; now left|]. intros rs. apply rbind_calm; [apply IH; intros c' reps' Hi; apply H; now right|].
  intros rest. split; discriminate.
Qed.
Lemma pending_all_failed f groups c reps :
  (forall c' reps', In (c', reps') groups -> calm (pending_chain f c' reps')) ->
  In (c, reps) groups -> pending_chain f c reps = Err -> pending_all f groups = Err.
Proof.
  induction groups as [|[c0 reps0] groups IH]; intros Hcalm Hi He; [contradiction|]. cbn [pending_all].
  destruct Hi as [E|Hi].
  - inversion E; subst c0 reps0. now rewrite He.
  - destruct (pending_chain f c0 reps0) as [rs| | |] eqn:E0; cbn [rbind]; try reflexivity.
    + rewrite (IH (fun c' reps' H => Hcalm c' reps' (or_intror H)) Hi He). reflexivity.
    + destruct (Hcalm c0 reps0 (or_introl eq_refl)) as [Hp _]. congruence.
    + destruct (Hcalm c0 reps0 (or_introl eq_refl)) as [_ Hs]. congruence.
Qed.

(* (a) with a failed query in the log: the model answers Err, which pend_ok accepts *)
Theorem pend_model_failing l tab :
  groups_good (group_by_chain l) -> answers_below tab -> scripted_failures tab (group_by_chain l) ->
  reader_failed tab -> pending_reports (Some l) (answer_of tab) = Err.
Proof.
  intros Hg Hb Hs [e [He Hn]]. destruct (Hs e He Hn) as [[reps [Hi Hne]] Hall]. unfold pending_reports.
  destruct (Hg _ _ Hi) as [Hl Hh].
  apply (pending_all_failed _ _ (fst (fst e)) reps); [|exact Hi|].
  - intros c' reps' Hi'. destruct (Hg _ _ Hi') as [Hl' Hh']. now apply pending_chain_calm.
  - apply pending_chain_failed; try assumption. now apply answer_of_chain_failed.
Qed.
Theorem pend_model_passes_failing l tab world :
  groups_good (group_by_chain l) -> answers_below tab -> scripted_failures tab (group_by_chain l) ->
  reader_failed tab -> pend_ok (Some l, tab, world) (pend_model (Some l, tab, world)) = true.
Proof.
  intros Hg Hb Hs Hf. unfold pend_ok, pend_model. rewrite (pend_model_failing l tab Hg Hb Hs Hf).
  rewrite (proj2 (good_iff _) Hg). cbn [negb]. now apply any_err_iff.
Qed.

(* (a) for every case of the sink: with or without a scripted failure *)
Theorem pend_model_passes_all l tab world :
  groups_good (group_by_chain l) ->
  (forall c reps r, In (c, reps) (group_by_chain l) -> In r reps -> p_exec r = []) ->
  answers_below tab -> scripted_failures tab (group_by_chain l) ->
  (~ reader_failed tab -> forall c reps, In (c, reps) (group_by_chain l) -> honest_answers tab world c reps) ->
  pend_ok (Some l, tab, world) (pend_model (Some l, tab, world)) = true.
Proof.
  intros Hg Hex Hb Hs Hans.
  destruct (existsb (fun e : N * range * option (list range) => match snd e with None => true | Some _ => false end) tab) eqn:E.
  - apply pend_model_passes_failing; try assumption. now apply any_err_iff.
  - assert (Hnf : ~ reader_failed tab) by (intros Hf; apply any_err_iff in Hf; congruence).
    apply pend_model_passes; try assumption. now apply Hans.
Qed.

(* chain 2 was asked first and failed; chain 1 was never asked *)
Definition ex_tab_failing : list (N * range * option (list range)) := [(2, (1, 4), None)].
(* chain 1 was answered, then chain 2 failed *)
Definition ex_tab_failing2 : list (N * range * option (list range)) :=
  [(1, (5, 8), Some [(5, 6); (7, 8)]); (1, (10, 12), Some [(11, 11)]); (1, (20, 21), Some [(20, 21)]); (2, (1, 4), None)].

Definition ex_crs : list (list (N * rep)) :=
  [[(1, mkRep 1 5 8 []); (2, mkRep 7 1 4 [])]; [(1, mkRep 2 10 12 [])]; [(1, mkRep 3 20 21 [])]].
Definition ex_tab : list (N * range * option (list range)) :=
  [(1, (5, 8), Some [(5, 6); (7, 8)]); (1, (10, 12), Some [(11, 11)]); (1, (20, 21), Some [(20, 20); (21, 21); (20, 20)]);
   (2, (1, 4), Some [(2, 3)])].
Definition ex_world : list (N * list range) := [(1, [(5, 8); (11, 11); (20, 21)]); (2, [(2, 3)])].
Example pend_ok_example :
  pend_model (Some ex_crs, ex_tab, ex_world) = Ok [(1, [mkRep 2 10 12 [(11, 11)]]); (2, [mkRep 7 1 4 [(2, 3)]])] /\
  pend_ok (Some ex_crs, ex_tab, ex_world) (pend_model (Some ex_crs, ex_tab, ex_world)) = true /\
  (* a fully executed report kept pending, a pending report dropped, an error without a failed query: rejected *)
  pend_ok (Some ex_crs, ex_tab, ex_world)
          (Ok [(1, [mkRep 2 10 12 [(11, 11)]; mkRep 3 20 21 [(20, 21)]]); (2, [mkRep 7 1 4 [(2, 3)]])]) = false /\
  pend_ok (Some ex_crs, ex_tab, ex_world) (Ok [(1, [mkRep 2 10 12 [(11, 11)]]); (2, [])]) = false /\
  pend_ok (Some ex_crs, ex_tab, ex_world) Err = false.
Proof. repeat split; vm_compute; reflexivity. Qed.

Example pend_failing_example :
  groups_good (group_by_chain ex_crs) /\
  (answers_below ex_tab_failing /\ scripted_failures ex_tab_failing (group_by_chain ex_crs) /\ reader_failed ex_tab_failing) /\
  (answers_below ex_tab_failing2 /\ scripted_failures ex_tab_failing2 (group_by_chain ex_crs) /\ reader_failed ex_tab_failing2) /\
  pend_model (Some ex_crs, ex_tab_failing, ex_world) = Err /\ pend_model (Some ex_crs, ex_tab_failing2, ex_world) = Err /\
  pend_ok (Some ex_crs, ex_tab_failing, ex_world) Err = true /\ pend_ok (Some ex_crs, ex_tab_failing2, ex_world) Err = true /\
  (* an answer although a query failed: rejected *)
  pend_ok (Some ex_crs, ex_tab_failing2, ex_world) (Ok [(1, [mkRep 2 10 12 [(11, 11)]]); (2, [mkRep 7 1 4 []])]) = false.
Proof.
  assert (G2 : In (2, [mkRep 7 1 4 []]) (group_by_chain ex_crs)) by (vm_compute; right; left; reflexivity).
  split; [apply good_iff; vm_compute; reflexivity|]. split; [|split; [|repeat split; vm_compute; reflexivity]].
  - split; [|split].
    + intros e l x [<-|[]] Hs. discriminate.
    + intros e [<-|[]] _. split; [exists [mkRep 7 1 4 []]; split; [exact G2|discriminate]|].
      intros e' [<-|[]] _. reflexivity.
    + exists (2, (1, 4), None). split; [now left|reflexivity].
  - split; [|split].
    + intros e l x Hi Hs Hx. unfold ex_tab_failing2 in Hi. cbn [In] in Hi.
      repeat (destruct Hi as [<-|Hi];
              [cbn [snd] in Hs; try discriminate; injection Hs as <-; cbn [In] in Hx;
               repeat (destruct Hx as [<-|Hx]; [unfold max64; cbn [snd]; lia|]); contradiction|]).
      contradiction.
    + intros e Hi Hn. unfold ex_tab_failing2 in Hi. cbn [In] in Hi.
      destruct Hi as [<-|[<-|[<-|[<-|[]]]]]; try discriminate Hn.
      split; [exists [mkRep 7 1 4 []]; split; [exact G2|discriminate]|].
      intros e' Hi' Hc. unfold ex_tab_failing2 in Hi'. cbn [In] in Hi'.
      destruct Hi' as [<-|[<-|[<-|[<-|[]]]]]; cbn [fst snd] in Hc; try discriminate Hc. reflexivity.
    + exists (2, (1, 4), None). split; [unfold ex_tab_failing2; cbn [In]; tauto|reflexivity].
Qed.

(* ---------- sink C09_history_big: histmon_judge compares with no model (its "model" is a constant and every output
   is accepted as equal), so it never reports a mismatch; what it reports is hist_ok on the implementation's outcome,
   whose meaning is hist_sound above ---------- *)
Lemma judge_from_codes {I O} (model : I -> O) (oeqb : O -> O -> bool) (ok : I -> O -> bool) (known : I -> N) cs :
  forall i p, In p (judge_from model oeqb ok known i cs) ->
    exists x o, In (x, o) cs /\
      ((snd p = 1 /\ oeqb (model x) o = false) \/ (snd p <> 1 /\ ok x o = false)).
Proof.
  induction cs as [|[x o] cs IH]; intros i p Hp; [contradiction|]. cbn [judge_from] in Hp.
  apply in_app_or in Hp. destruct Hp as [Hp|Hp].
  - destruct (oeqb (model x) o) eqn:E; [contradiction|]. destruct Hp as [<-|[]]. exists x, o. split; [now left|]. left. now split.
  - apply in_app_or in Hp. destruct Hp as [Hp|Hp].
    + destruct (ok x o) eqn:E; [contradiction|]. destruct Hp as [<-|[]]. exists x, o. split; [now left|]. right. split; [|exact E].
      cbn [snd]. destruct (N.eqb (known x) 0); lia.
    + destruct (IH _ _ Hp) as [x' [o' [Hi H]]]. exists x', o'. split; [now right|exact H].
Qed.

Theorem histmon_reports_only_hist_ok cs p : In p (histmon_judge cs) ->
  snd p <> 1 /\ exists i o, In (i, o) cs /\ hist_ok i o = false.
Proof.
  unfold histmon_judge, judge. intros Hp. destruct (judge_from_codes _ _ _ _ _ _ _ Hp) as [x [o [Hi [[_ H]|[H1 H2]]]]]; [discriminate|].
  split; [exact H1|]. now exists x, o.
Qed.

(* JudgeSoundC06P.v — the executable property of Check/C06_check.v (c06_ok / c06_ok1_from = c06_core + log_ok + kind_ok +
   give-up clauses (phase A, phase B) + liveness clause; attr_ok; hist_ok) IS the C06 property:
   (b) an implementation output that passes it satisfies the conclusions of C06_sig_threshold (with the signatures
       STRICTLY ascending by signer address) / C06_obs_threshold / C06_one_observation_per_node / C06_total_no_panic
       read on the script of the case, C06_requests_wellformed read on the Send log, C06_failure_origin read on the
       error kind, and succeeds whenever the hypotheses of C06_liveness hold of the case;
   (a) every outcome the model allows passes it (no code 2 without code 1).
   Parts: JudgeSoundC06bP.v (model theorems about the log / the failures / the order), JudgeSoundC06aP.v (c06_core,
   attr_ok), JudgeSoundC06cP.v (liveness clause); this file puts them together. *)
Require Export Verif.Model.Base Verif.Model.Rmn Verif.Proofs.BaseP Verif.Proofs.RmnP.
From Coq Require Import Sorting.Sorted.
Require Export Verif.Check.C06_check.
Require Export Verif.Proofs.JudgeSoundC06bP Verif.Proofs.JudgeSoundC06aP Verif.Proofs.JudgeSoundC06cP.

(* ---------------- the Send log of an output ---------------- *)
Lemma filter_map_comm {A B} (f : B -> bool) (g : A -> B) (l : list A) :
  filter f (map g l) = map g (filter (fun a => f (g a)) l).
Proof. induction l as [|a l IH]; cbn; [reflexivity|]. destruct (f (g a)); cbn; now rewrite IH. Qed.
Lemma existsb_k1_map l : existsb is_k1 (map send_of l) = sig_sent l.
Proof. unfold sig_sent. induction l as [|r l IH]; cbn; [reflexivity|]. now rewrite IH. Qed.
Lemma nilb_nil {A} (l : list A) : nilb l = true <-> l = [].
Proof. destruct l; cbn; split; congruence. Qed.
Lemma attr_of_nil acc : attr_of acc = [] -> acc = [].
Proof.
  unfold attr_of. intros H. apply map_eq_nil in H. apply (f_equal (@length _)) in H. rewrite sort_by_length in H.
  now destruct acc.
Qed.

(* what a log that passes says (C06_requests_wellformed for an ARBITRARY output) *)
Definition log_P (cfg : config) (log : list send_t) (attr : list (node * list (chain * root))) : Prop :=
  match prepare cfg with
  | inl (Ok us) =>
      (forall s, In s log ->
         (snd_kind s = 0%N /\
          forall ch, In ch (snd_chains s) -> In ch (map u_chain us) /\ In (snd_node s) (rmn_nodes_of cfg ch)) \/
         (snd_kind s = 1%N /\ In (snd_node s) (signer_nodes cfg) /\ is_home cfg (snd_node s) = true)) /\
      NoDup (map snd_node (filter is_k0 log)) /\
      NoDup (map snd_node (filter (fun s => is_k1 s && snd_ok s) log)) /\
      ((exists s, In s log /\ snd_kind s = 1%N) <-> attr <> [])
  | _ => log = [] /\ attr = []
  end.

Lemma log_ok_sound cfg log attr : log_ok cfg log attr = true -> log_P cfg log attr.
Proof.
  unfold log_ok, log_P. destruct (prepare cfg) as [[us| | |]|f].
  2-5: intros H; apply andb_true_iff in H as [H1 H2]; split; now apply nilb_nil.
  intros H. apply andb_true_iff in H as [H H4]. apply andb_true_iff in H as [H H3]. apply andb_true_iff in H as [H1 H2].
  split; [|split; [now apply nodupb_nodup|split; [now apply nodupb_nodup|]]].
  - intros s Hs. rewrite forallb_forall in H1. specialize (H1 s Hs). unfold is_k0, is_k1 in H1.
    destruct (N.eqb_spec (snd_kind s) 0) as [E0|N0].
    + left. split; [exact E0|]. intros ch Hch. rewrite forallb_forall in H1. specialize (H1 ch Hch).
      apply andb_true_iff in H1 as [A B]. split; now apply memN_in.
    + right. apply andb_true_iff in H1 as [H1 C]. apply andb_true_iff in H1 as [A B].
      apply N.eqb_eq in A. apply memN_in in B. auto.
  - apply eqb_prop in H4. split.
    + intros (s & Hs & K). assert (E : existsb is_k1 log = true).
      { apply existsb_exists. exists s. split; [exact Hs|]. unfold is_k1. now rewrite K. }
      rewrite E in H4. symmetry in H4. apply negb_true_iff in H4. intros ->. discriminate.
    + intros Hne. destruct (existsb is_k1 log) eqn:E.
      * apply existsb_exists in E as (s & Hs & K). exists s. split; [exact Hs|]. now apply N.eqb_eq in K.
      * symmetry in H4. apply negb_false_iff, nilb_nil in H4. contradiction.
Qed.

(* what an error kind that passes says (C06_failure_origin for an ARBITRARY output) *)
Definition kind_P (cfg : config) (its : list item) (o : out1) : Prop :=
  (forall f, prepare cfg = inr f -> o_kind o = fail_code f) /\
  (o_kind o = 3%N -> prepare cfg = inr FNothingToDo) /\
  (o_kind o = 4%N -> In ICancel its \/ In IRaceCancel its) /\
  (o_kind o = 5%N -> forall s, In s (o_log o) -> snd_kind s <> 1%N).

Lemma kind_ok_sound cfg its o : kind_ok cfg its o = true -> kind_P cfg its o.
Proof.
  unfold kind_ok, kind_P. intros H. apply andb_true_iff in H as [H H3]. apply andb_true_iff in H as [H1 H2].
  split; [|split; [|split]].
  - intros f P. rewrite P in H1. now apply N.eqb_eq in H1.
  - intros K. destruct (prepare cfg) as [r|f].
    + assert (negb (N.eqb (o_kind o) 3) = true) by (destruct r; exact H1). rewrite K in H. discriminate.
    + apply N.eqb_eq in H1. rewrite K in H1. destruct f; try discriminate. reflexivity.
  - intros K. rewrite K in H2. cbn in H2. apply existsb_exists in H2 as (it & Hit & Hc).
    destruct it; try discriminate; auto.
  - intros K s Hs E. rewrite K in H3. cbn in H3. apply negb_true_iff in H3.
    assert (existsb is_k1 (o_log o) = true); [|congruence].
    apply existsb_exists. exists s. split; [exact Hs|]. unfold is_k1. now rewrite E.
Qed.

(* what a give-up that passes says (C06_giveup_only_after_asking_all for an ARBITRARY output): an output that reports
   ErrInsufficientObservationResponses either shows an observation request naming the lane to EVERY observer of every
   requested lane, or there is a lane on which the voters of the best root in the script together with the observers
   that were never asked are fewer than F_home+1 *)
Definition log_asked (log : list send_t) (ch : chain) (n : node) : Prop :=
  exists s, In s log /\ snd_kind s = 0%N /\ snd_node s = n /\ In ch (snd_chains s).
Lemma asked_for_in log ch n : In n (asked_for log ch) <-> log_asked log ch n.
Proof.
  unfold asked_for, log_asked. rewrite in_map_iff. split.
  - intros (s & E & H). apply filter_In in H as [H K]. apply andb_true_iff in K as [K M]. exists s.
    unfold is_k0 in K. apply N.eqb_eq in K. apply memN_in in M. auto.
  - intros (s & H & K & E & M). exists s. split; [exact E|]. apply filter_In. split; [exact H|].
    unfold is_k0. rewrite K. cbn. now apply memN_in.
Qed.
Lemma unasked_in log u n : In n (unasked log u) <-> In n (u_nodes u) /\ ~ log_asked log (u_chain u) n.
Proof.
  unfold unasked. rewrite filter_In, negb_true_iff, memN_false, asked_for_in. tauto.
Qed.

Definition giveup_P (cfg : config) (its : list item) (o : out1) : Prop :=
  o_kind o = 5%N -> forall us, prepare cfg = inl (Ok us) ->
  (forall u n, In u us -> In n (u_nodes u) -> log_asked (o_log o) (u_chain u) n) \/
  (exists u, In u us /\
     (zlen (dedupN (have_votes cfg its u ++ unasked (o_log o) u)) < u_F u + 1)%Z).

Lemma giveup_ok_sound cfg its o : giveup_ok cfg its o = true -> giveup_P cfg its o.
Proof.
  unfold giveup_ok, giveup_P. intros H K us P. rewrite K, P in H. change (N.eqb 5 5) with true in H. cbv iota in H.
  apply negb_true_iff, andb_false_iff in H as [H|H].
  - left. intros u n Hu Hn. destruct (memN n (asked_for (o_log o) (u_chain u))) eqn:Em.
    + now apply asked_for_in, memN_in.
    + exfalso. assert (E : existsb (fun u => negb (nilb (unasked (o_log o) u))) us = true); [|congruence].
      apply existsb_exists. exists u. split; [exact Hu|]. apply negb_true_iff.
      destruct (unasked (o_log o) u) as [|m l] eqn:Eu; [|reflexivity]. exfalso.
      assert (Hin : In n (unasked (o_log o) u)); [|rewrite Eu in Hin; destruct Hin].
      apply filter_In. split; [exact Hn|]. now rewrite Em.
  - right. assert (Hx : exists u, In u us /\ reachable_with cfg its (o_log o) u = false).
    { clear -H. induction us as [|u us IH]; [discriminate|]. cbn [forallb] in H.
      apply andb_false_iff in H as [H|H]; [exists u; split; [now left|exact H]|].
      destruct (IH H) as (v & Hv & E). exists v. split; [now right|exact E]. }
    destruct Hx as (u & Hu & E). exists u. split; [exact Hu|]. unfold reachable_with, gte_f_plus_one in E.
    apply Z.leb_gt in E. exact E.
Qed.


(* the same for phase B: what a give-up with ErrInsufficientSignatureResponses that passes says *)
Definition log_sig_asked (log : list send_t) (n : node) : Prop :=
  exists s, In s log /\ snd_kind s = 1%N /\ snd_node s = n.
Lemma asked_sig_in log n : In n (asked_sig log) <-> log_sig_asked log n.
Proof.
  unfold asked_sig, log_sig_asked. rewrite in_map_iff. split.
  - intros (s & E & H). apply filter_In in H as [H K]. exists s. unfold is_k1 in K. apply N.eqb_eq in K. auto.
  - intros (s & H & K & E). exists s. split; [exact E|]. apply filter_In. split; [exact H|].
    unfold is_k1. now rewrite K.
Qed.
Lemma unasked_signers_in cfg log n :
  In n (unasked_signers cfg log) <->
  In n (signer_nodes cfg) /\ is_home cfg n = true /\ ~ log_sig_asked log n.
Proof.
  unfold unasked_signers. rewrite filter_In, andb_true_iff, negb_true_iff, memN_false, asked_sig_in. tauto.
Qed.

Definition giveupB_P (cfg : config) (o : out1) : Prop :=
  o_kind o = 6%N -> (zlen (dedupN (unasked_signers cfg (o_log o))) < c_remoteF cfg + 1)%Z.
Lemma giveupB_ok_sound cfg o : giveupB_ok cfg o = true -> giveupB_P cfg o.
Proof.
  unfold giveupB_ok, giveupB_P. intros H K. rewrite K in H. change (N.eqb 6 6) with true in H. cbv iota in H.
  apply negb_true_iff in H. unfold gte_f_plus_one in H. now apply Z.leb_gt in H.
Qed.


(* ---------------- (b) for the whole executable property ---------------- *)
Definition c06_full_P (off : nat) (i : c06_in) (o : out1) : Prop :=
  c06_P i o /\ log_P (i_cfg i) (o_log o) (o_attr o) /\ kind_P (i_cfg i) (i_items i) o /\
  (* C06_liveness: if its hypotheses hold of the case (for every schedule and event list the model allows), success *)
  ((exists us rho, live_facts off i us rho) -> live_test_from off i = true -> o_kind o = 0%N) /\
  giveup_P (i_cfg i) (i_items i) o /\ giveupB_P (i_cfg i) o.

Theorem c06_ok1_from_sound off i o : c06_ok1_from off i o = true -> c06_full_P off i o.
Proof.
  unfold c06_ok1_from. intros H. apply andb_true_iff in H as [H H4]. apply andb_true_iff in H as [H HGB].
  apply andb_true_iff in H as [H HG]. apply andb_true_iff in H as [H H3].
  apply andb_true_iff in H as [H1 H2]. split; [now apply c06_core_sound|]. split; [now apply log_ok_sound|].
  split; [now apply kind_ok_sound|]. split; [|split; [now apply giveup_ok_sound|now apply giveupB_ok_sound]].
  intros _ L. destruct (N.eqb_spec (o_kind o) 0) as [E|N0]; [exact E|].
  rewrite L in H4. discriminate.
Qed.
(* the liveness clause in one line: a passing output of a case that satisfies the test reports success *)
Theorem c06_ok1_from_live off i o : c06_ok1_from off i o = true -> live_test_from off i = true -> o_kind o = 0%N.
Proof.
  intros H L. destruct (c06_ok1_from_sound off i o H) as (_ & _ & _ & Hl & _). apply Hl; [|exact L].
  now apply live_test_sound.
Qed.
(* the give-up clause in one line *)
Theorem c06_ok1_from_giveup off i o : c06_ok1_from off i o = true -> giveup_P (i_cfg i) (i_items i) o.
Proof. intros H. now destruct (c06_ok1_from_sound off i o H) as (_ & _ & _ & _ & Hg & _). Qed.
Theorem c06_ok1_from_giveupB off i o : c06_ok1_from off i o = true -> giveupB_P (i_cfg i) o.
Proof. intros H. now destruct (c06_ok1_from_sound off i o H) as (_ & _ & _ & _ & _ & Hg). Qed.

Theorem c06_ok_from_sound off i o : c06_ok_from off i o = true -> exists x, o = [x] /\ c06_full_P off i x.
Proof.
  unfold c06_ok_from. destruct o as [|x [|y o]]; try discriminate. intros H. exists x. split; [reflexivity|].
  now apply c06_ok1_from_sound.
Qed.
Theorem c06_sound_full i o : c06_ok i o = true -> exists x, o = [x] /\ c06_full_P 0 i x.
Proof. exact (c06_ok_from_sound 0 i o). Qed.
Theorem c06_sound i o : c06_ok i o = true -> exists x, o = [x] /\ c06_P i x.
Proof. intros H. destruct (c06_sound_full i o H) as (x & E & P & _). now exists x. Qed.

(* ORDER: the signatures of a passing successful output are STRICTLY ascending by signer address, each the signature
   of a configured signer whose node delivered it in the script (the stub RMNCrypto accepts signature g for signer
   address g / 100 whatever the report) *)
Theorem c06_core_sigs_ordered i o :
  c06_core i o = true -> o_kind o = 0%N ->
  exists entries : list (node * N * N),
    o_sigs o = map snd entries /\
    StronglySorted (fun a b => (saddr a < saddr b)%N) entries /\
    (forall x rep, In x entries -> sig_evidence vrs_c (i_cfg i) (item_events (i_items i)) rep x) /\
    StronglySorted N.lt (map (fun g => (g / 100)%N) (o_sigs o)).
Proof.
  intros H E0. unfold c06_core in H. cbv zeta in H. apply andb_true_iff in H as [_ H4]. rewrite E0, N.eqb_refl in H4.
  destruct (prepare (i_cfg i)) as [[us| | |]|f]; try discriminate.
  apply andb_true_iff in H4 as [H4 _]. apply andb_true_iff in H4 as [_ HC].
  apply andb_true_iff in HC as [HC _]. apply andb_true_iff in HC as [HC _]. apply andb_true_iff in HC as [C1 C2].
  destruct (sigs_entries _ _ _ _ C1) as (en & E1 & _ & E3 & E4). exists en.
  assert (S : StronglySorted (fun a b => (saddr a < saddr b)%N) en).
  { apply (sorted_map saddr N.lt). rewrite E3. now apply strictly_ascN_sorted. }
  split; [exact E1|]. split; [exact S|]. split; [intros x rep Hx; now apply E4|].
  rewrite E1, map_map. apply (sorted_map (fun x : node * N * N => (snd x / 100)%N) N.lt).
  assert (Hq : forall x, In x en -> (snd x / 100)%N = saddr x).
  { intros [[n a] g] Hx. destruct (E4 _ [] Hx) as [_ (id & e & _ & _ & _ & Hv)]. unfold vrs_c in Hv.
    now apply N.eqb_eq in Hv. }
  clear -S Hq. induction S as [|x l S IH F]; constructor.
  - apply IH. intros y Hy. apply Hq. now right.
  - rewrite Forall_forall in F |- *. intros y Hy. rewrite (Hq x (or_introl eq_refl)), (Hq y (or_intror Hy)). now apply F.
Qed.

(* ---------------- (a): every outcome the model allows passes the new clauses ---------------- *)
Lemma rec_good_ok cfg us r :
  (forall u, In u us -> upd_wf cfg u) -> rec_good cfg us r ->
  (if is_k0 (send_of r)
   then forallb (fun ch => memN ch (map u_chain us) && memN (snd_node (send_of r)) (rmn_nodes_of cfg ch))
                (snd_chains (send_of r))
   else is_k1 (send_of r) && memN (snd_node (send_of r)) (signer_nodes cfg) && is_home cfg (snd_node (send_of r))) = true.
Proof.
  intros WFu [[K H]|(K & Hs & Hh)]; unfold is_k0, is_k1; change (snd_kind (send_of r)) with (sd_kind r);
    change (snd_node (send_of r)) with (sd_node r); change (snd_chains (send_of r)) with (sd_chains r); rewrite K.
  - change (N.eqb 0 0) with true. cbv iota. apply forallb_forall. intros ch Hch. destruct (H ch Hch) as (u & Hu & Ec & Hn).
    apply andb_true_iff. split; apply memN_in.
    + rewrite <- Ec. now apply in_map.
    + destruct (WFu u Hu) as (_ & En & _). rewrite <- Ec, <- En. exact Hn.
  - change (N.eqb 1 0) with false. change (N.eqb 1 1) with true. cbv iota. cbn [andb].
    rewrite Hh, andb_true_r. now apply memN_in.
Qed.

Lemma log_good_ok cfg us l attr :
  prepare cfg = inl (Ok us) -> log_good cfg us l -> sig_sent l = negb (nilb attr) ->
  log_ok cfg (map send_of l) attr = true.
Proof.
  intros P (F & N0 & N1) Hs. unfold log_ok. rewrite P. destruct (prepare_spec _ _ P) as (_ & _ & WFu).
  apply andb_true_iff. split; [apply andb_true_iff; split; [apply andb_true_iff; split|]|].
  - apply forallb_forall. intros s Hin. apply in_map_iff in Hin as (r & <- & Hr). rewrite Forall_forall in F.
    apply rec_good_ok; [intros u Hu; now destruct (WFu u Hu)|now apply F].
  - rewrite filter_map_comm, map_map. apply NoDup_nodupb. exact N0.
  - rewrite filter_map_comm, map_map. apply NoDup_nodupb. exact N1.
  - rewrite existsb_k1_map, Hs. apply eqb_reflx.
Qed.

Lemma prepare_inr cfg f : prepare cfg = inr f -> f = FDupChain \/ f = FNoF \/ f = FNothingToDo.
Proof.
  unfold prepare. destruct (negb _); [intros H; inversion H; auto|].
  destruct (with_F _ _); [|intros H; inversion H; auto]. destruct (filter _ _); intros H; inversion H; auto.
Qed.

Theorem model_outcome_log_kind off i x :
  cfg_wf (i_cfg i) -> In x (c06_model_from off i) -> o_kind x <> 10%N ->
  log_ok (i_cfg i) (o_log x) (o_attr x) = true /\ kind_ok (i_cfg i) (i_items i) x = true.
Proof.
  intros WF Hx Hk. destruct (model_outcome_reach off i x WF Hx) as (order1 & ro & g & acc & _ & _ & _ & -> & K).
  set (sc := sched_of off i order1 ro) in *. destruct K as ((evs & Er & F) & A & J).
  destruct g as [us s|s|f l]; [exfalso; apply Hk; reflexivity|exfalso; apply Hk; reflexivity|].
  symmetry in Er. cbn [sigJ] in J.
  assert (Hlog : o_log (out_of (GFinal f l) acc) = map send_of l) by (destruct f; reflexivity).
  assert (Hattr : o_attr (out_of (GFinal f l) acc) = if sig_sent l then attr_of acc else []) by (destruct f; reflexivity).
  assert (Hsig : sig_sent l = negb (nilb (if sig_sent l then attr_of acc else []))).
  { destruct (sig_sent l) eqn:Es; [|reflexivity]. destruct (attr_of acc) eqn:Ea; [|reflexivity].
    apply attr_of_nil in Ea. exfalso. now apply J. }
  destruct (prepare (i_cfg i)) as [r|fl] eqn:P.
  - destruct (prepare_not_panic _ r P) as [us ->].
    pose proof (requests_wellformed edv_c vrs_c _ sc (proj1 WF) evs us P) as LG. rewrite Er in LG. cbn [g_log] in LG.
    split; [rewrite Hlog, Hattr; now apply (log_good_ok _ us)|].
    unfold kind_ok. rewrite P, Hlog, existsb_k1_map.
    destruct f as [sigs rep|ff|]; [reflexivity| |reflexivity].
    pose proof (failure_origin edv_c vrs_c _ sc (proj1 WF) evs ff l Er) as Fo.
    destruct ff; cbn [out_of o_kind fail_code N.eqb Pos.eqb negb andb]; rewrite ?andb_true_r; try reflexivity.
    + destruct Fo as [Fo _]. rewrite P in Fo. discriminate.
    + rewrite Forall_forall in F. apply (F _ Fo).
    + now rewrite (all_k0_no_sig _ Fo).
    + rewrite Forall_forall in F. apply (F _ Fo).
  - pose proof (refused_config edv_c vrs_c _ sc fl evs P) as Er'. rewrite Er in Er'. inversion Er'; subst f l.
    split; [unfold log_ok; rewrite P; reflexivity|].
    unfold kind_ok. rewrite P. cbn [out_of o_kind o_log map existsb]. rewrite N.eqb_refl.
    destruct (prepare_inr _ _ P) as [->|[->| ->]]; reflexivity.
Qed.

(* the give-up clause: the model reports ErrInsufficientObservationResponses only after it has asked every observer *)
Lemma obs_asked_log l ch n : obs_asked l ch n -> log_asked (map send_of l) ch n.
Proof. intros (r & H & K & E & M). exists (send_of r). split; [now apply in_map|]. auto. Qed.

Theorem model_outcome_giveup off i x :
  cfg_wf (i_cfg i) -> In x (c06_model_from off i) -> giveup_ok (i_cfg i) (i_items i) x = true.
Proof.
  intros WF Hx. destruct (model_outcome_reach off i x WF Hx) as (order1 & ro & g & acc & _ & _ & _ & -> & K).
  set (sc := sched_of off i order1 ro) in *. destruct K as ((evs & Er & F) & _).
  unfold giveup_ok. destruct (N.eqb_spec (o_kind (out_of g acc)) 5) as [K5|]; [|reflexivity].
  destruct (prepare (i_cfg i)) as [[us| | |]|fl] eqn:P; try reflexivity.
  assert (Hg : exists l, g = GFinal (Failure FInsufObs) l).
  { destruct g as [us' s|s|[sigs rep|f|] l]; cbn in K5; try discriminate. destruct f; cbn in K5; try discriminate. eauto. }
  destruct Hg as [l ->]. symmetry in Er.
  pose proof (giveup_only_after_asking_all edv_c vrs_c _ sc evs l us Er P) as A.
  replace (existsb _ us) with false; [reflexivity|]. symmetry. apply not_true_iff_false. intros E.
  apply existsb_exists in E as (u & Hu & E). apply negb_true_iff in E.
  destruct (unasked _ u) as [|n r] eqn:Eu; [discriminate|].
  assert (Hn : In n (unasked (o_log (out_of (GFinal (Failure FInsufObs) l) acc)) u)) by (rewrite Eu; now left).
  apply unasked_in in Hn as [Hn Hna]. apply Hna. cbn [out_of o_log]. apply obs_asked_log. now apply A.
Qed.

(* phase B: the model reports ErrInsufficientSignatureResponses only after it has asked every signer RMNHome knows *)
Lemma sig_asked_log l n : sig_asked l n -> log_sig_asked (map send_of l) n.
Proof. intros (r & H & K & E). exists (send_of r). split; [now apply in_map|]. auto. Qed.

Theorem model_outcome_giveupB off i x :
  cfg_wf (i_cfg i) -> In x (c06_model_from off i) -> giveupB_ok (i_cfg i) x = true.
Proof.
  intros WF Hx. destruct (model_outcome_reach off i x WF Hx) as (order1 & ro & g & acc & _ & _ & _ & -> & K).
  set (sc := sched_of off i order1 ro) in *. destruct K as ((evs & Er & F) & _).
  unfold giveupB_ok. destruct (N.eqb_spec (o_kind (out_of g acc)) 6) as [K6|]; [|reflexivity].
  assert (Hg : exists l, g = GFinal (Failure FInsufSigs) l).
  { destruct g as [us' s|s|[sigs rep|f|] l]; cbn in K6; try discriminate. destruct f; cbn in K6; try discriminate. eauto. }
  destruct Hg as [l ->]. symmetry in Er.
  destruct (giveupB_only_after_asking_all edv_c vrs_c _ sc evs l Er) as [HF A].
  replace (unasked_signers _ _) with (@nil node).
  - apply negb_true_iff. unfold gte_f_plus_one. apply Z.leb_gt. cbn. lia.
  - symmetry. destruct (unasked_signers _ _) as [|n r] eqn:Eu; [reflexivity|]. exfalso.
    assert (Hn : In n (unasked_signers (i_cfg i) (o_log (out_of (GFinal (Failure FInsufSigs) l) acc))))
      by (rewrite Eu; now left).
    apply unasked_signers_in in Hn as (Hn & Hh & Hna). apply Hna. cbn [out_of o_log]. apply sig_asked_log. now apply A.
Qed.

(* (a) for one outcome *)
Theorem c06_model_outcome_passes off i x :
  cfg_wf (i_cfg i) -> In x (c06_model_from off i) -> o_kind x <> 10%N -> c06_ok1_from off i x = true.
Proof.
  intros WF Hx Hk. unfold c06_ok1_from. rewrite (c06_model_outcome_core off i x WF Hx Hk).
  destruct (model_outcome_log_kind off i x WF Hx Hk) as [-> ->]. rewrite (model_outcome_giveup off i x WF Hx).
  rewrite (model_outcome_giveupB off i x WF Hx). cbn [andb].
  destruct (N.eqb_spec (o_kind x) 0) as [E|N0]; [reflexivity|].
  destruct (live_test_from off i) eqn:L; [|reflexivity]. exfalso. apply N0. now apply (live_test_success off i x WF L).
Qed.

(* (a) as the judge sees it: an implementation output that agrees with the model (no code 1) passes the executable
   property (no code 2) *)
Theorem c06_model_from_passes off i o :
  cfg_wf (i_cfg i) -> c06_oeqb (c06_model_from off i) o = true ->
  (forall x, o = [x] -> o_kind x <> 10%N) -> c06_ok_from off i o = true.
Proof.
  intros WF H Hk. unfold c06_oeqb in H. destruct o as [|x [|y o]]; try discriminate.
  apply existsb_exists in H as (y & Hy & E). apply out1_eqb_eq in E. subst y.
  unfold c06_ok_from. eapply c06_model_outcome_passes; eauto.
Qed.
Theorem c06_model_passes i o :
  cfg_wf (i_cfg i) -> c06_oeqb (c06_model i) o = true ->
  (forall x, o = [x] -> o_kind x <> 10%N) -> c06_ok i o = true.
Proof. exact (c06_model_from_passes 0 i o). Qed.

(* ---------------- sink(s) C06_hist*: a history of calls, each judged against its own configuration ---------------- *)
Theorem hist_model_passes h : forall o,
  Forall (fun c => cfg_wf (i_cfg (snd c))) h -> hist_oeqb (hist_model h) o = true ->
  Forall (fun y => forall x, y = [x] -> o_kind x <> 10%N) o -> hist_ok h o = true.
Proof.
  induction h as [|c h IH]; intros o WF H Hk.
  - destruct o; [reflexivity|discriminate].
  - destruct o as [|y o]; [discriminate|]. unfold hist_oeqb, hist_model in H. cbn [map forall2b] in H.
    apply andb_true_iff in H as [H1 H2]. inversion WF as [|? ? W1 W2]; subst. inversion Hk as [|? ? K1 K2]; subst.
    unfold hist_ok. cbn [forall2b]. apply andb_true_iff. split.
    + eapply c06_model_from_passes; eauto.
    + apply IH; assumption.
Qed.

(* every call of a history that passes satisfies the single-call property IN THE CONFIGURATION CURRENT AT THAT CALL,
   witnessed by responses among THAT call's own script (the reading of C06_history_sig_threshold /
   C06_history_obs_threshold on an arbitrary output), with the liveness clause read at THAT call's position in the
   request-id stream *)
Theorem hist_sound_full h : forall o,
  hist_ok h o = true ->
  Forall2 (fun c y => exists x, y = [x] /\ c06_full_P (N.to_nat (fst c)) (snd c) x) h o.
Proof.
  induction h as [|c h IH]; intros o H; destruct o as [|y o]; try discriminate; [constructor|].
  unfold hist_ok in H. cbn [forall2b] in H. apply andb_true_iff in H as [H1 H2].
  constructor; [now apply c06_ok_from_sound|now apply IH].
Qed.
Theorem hist_sound h : forall o,
  hist_ok h o = true -> Forall2 (fun c y => exists x, y = [x] /\ c06_P (snd c) x) h o.
Proof.
  intros o H. apply hist_sound_full in H. induction H as [|c y h o (x & E & P & _) _ IH]; constructor; [|exact IH].
  now exists x.
Qed.

(* ---------------- the single clauses, as the judge of one call sees them ---------------- *)
Lemma c06_ok_single i o : c06_ok i o = true -> exists x, o = [x] /\ c06_ok1 i x = true.
Proof. unfold c06_ok, c06_ok_from. destruct o as [|x [|y o]]; try discriminate. intros H. now exists x. Qed.
Lemma c06_ok1_from_core off i o : c06_ok1_from off i o = true -> c06_core i o = true.
Proof.
  unfold c06_ok1_from. intros H. apply andb_true_iff in H as [H _]. apply andb_true_iff in H as [H _].
  apply andb_true_iff in H as [H _]. apply andb_true_iff in H as [H _]. now apply andb_true_iff in H as [H _].
Qed.
Theorem c06_sigs_ordered i o :
  c06_ok i o = true ->
  exists x, o = [x] /\
    (o_kind x = 0%N ->
     exists entries : list (node * N * N),
       o_sigs x = map snd entries /\
       StronglySorted (fun a b => (saddr a < saddr b)%N) entries /\
       (forall e rep, In e entries -> sig_evidence vrs_c (i_cfg i) (item_events (i_items i)) rep e) /\
       StronglySorted N.lt (map (fun g => (g / 100)%N) (o_sigs x))).
Proof.
  intros H. destruct (c06_ok_single i o H) as (x & E & H1). exists x. split; [exact E|].
  intros K. exact (c06_core_sigs_ordered i x (c06_ok1_from_core 0 i x H1) K).
Qed.
Theorem c06_log_kind_sound i o :
  c06_ok i o = true ->
  exists x, o = [x] /\ log_P (i_cfg i) (o_log x) (o_attr x) /\ kind_P (i_cfg i) (i_items i) x.
Proof.
  intros H. destruct (c06_sound_full i o H) as (x & E & _ & L & K & _). exists x. auto.
Qed.
Theorem c06_live_sound i o :
  c06_ok i o = true -> live_test_from 0 i = true -> exists x, o = [x] /\ o_kind x = 0%N.
Proof.
  intros H L. destruct (c06_ok_single i o H) as (x & E & H1). exists x. split; [exact E|].
  exact (c06_ok1_from_live 0 i x H1 L).
Qed.

Theorem c06_giveup_sound i o :
  c06_ok i o = true -> exists x, o = [x] /\ giveup_P (i_cfg i) (i_items i) x.
Proof.
  intros H. destruct (c06_ok_single i o H) as (x & E & H1). exists x. split; [exact E|].
  exact (c06_ok1_from_giveup 0 i x H1).
Qed.

(* ---------------- non-vacuity of the give-up clause ---------------- *)
Module ExG.
  Import Witness.
  (* Witness.cfg: nodes 1, 2, 3 observe lane 5, F_home = 1; the initial wave asks 1 and 2.
     early: 1 votes root 105, 2 votes root 106 - the wave has answered, no root has two votes; an output that gives up
     here, with observer 3 never asked, does not pass: 3 together with the voter of 105 would complete the threshold *)
  Definition items_early : list item := [IResp 1 (BMsg 1 (obs_of 21 105)); IResp 2 (BMsg 2 (obs_of 22 106))]%N.
  Definition inp_early : c06_in := mkIn cfg [1; 2]%N [] [1; 2]%N [] [] items_early.
  Definition early_out : out1 := mkOut 5 [] [] [(0, 1, 1, true, [5]); (0, 2, 2, true, [5])]%N [] true.
  (* late: 1 answers with a bad signature (Reset(0): the timer fires, 3 is asked), 2 votes 105, 3 answers with a bad
     signature - every observer was asked, every request is finished: giving up passes, and it is what the model does *)
  Definition items_late : list item :=
    [IResp 1 (BMsg 1 (obs_of 99 105)); IResp 2 (BMsg 2 (obs_of 22 105)); IResp 3 (BMsg 3 (obs_of 99 105))]%N.
  Definition inp_late : c06_in := mkIn cfg [1; 2]%N [3]%N [1; 2]%N [] [] items_late.
  Definition late_out : out1 :=
    mkOut 5 [] [] [(0, 1, 1, true, [5]); (0, 2, 2, true, [5]); (0, 3, 3, true, [5])]%N [] true.

  Example giveup_examples :
    (giveup_ok cfg items_early early_out = false /\ ~ giveup_P cfg items_early early_out) /\
    (giveup_ok cfg items_late late_out = true /\ c06_oeqb (c06_model inp_late) [late_out] = true).
  Proof.
    split; [split; [vm_compute; reflexivity|]|split; vm_compute; reflexivity].
    intros H. destruct (H eq_refl _ eq_refl) as [A|(u & Hu & Hz)].
    - destruct (A _ 3%N (or_introl eq_refl)) as (s & Hs & K & E & M); [cbn; auto|].
      cbn in Hs. destruct Hs as [<-|[<-|[]]]; cbn in E; discriminate.
    - destruct Hu as [<-|[]]. vm_compute in Hz. discriminate.
  Qed.
End ExG.

Theorem c06_giveupB_sound i o :
  c06_ok i o = true -> exists x, o = [x] /\ giveupB_P (i_cfg i) x.
Proof.
  intros H. destruct (c06_ok_single i o H) as (x & E & H1). exists x. split; [exact E|].
  exact (c06_ok1_from_giveupB 0 i x H1).
Qed.
Module ExGB.
  Import Witness.
  (* Witness.cfg with F_remote = 0: signers 1, 2, 3, the first signature request goes to signer 1 alone *)
  Definition cfg0 : config :=
    mkConfig (c_nodes cfg) (c_homeF cfg) (c_dest_sel cfg) (c_dest_off cfg) (c_dest_known cfg) (c_digest cfg)
             (c_reqs cfg) (c_signers cfg) 0%Z false false.
  Definition attr2 : list (node * list (chain * root)) := [(1, [(5, 105)]); (2, [(5, 105)])]%N.
  (* early: signer 1 answers with a bad signature and the output gives up at once - signers 2 and 3 were never asked,
     either of them alone would have supplied the F_remote+1 = 1 signature: rejected *)
  Definition early_out : out1 :=
    mkOut 6 [] [] [(0, 1, 1, true, [5]); (0, 2, 2, true, [5]); (1, 1, 3, true, [])]%N attr2 true.
  (* late: the bad signature resets the timer, it fires, 2 and 3 are asked and answer badly too: accepted, and it is
     what the model does *)
  Definition items_late : list item :=
    [IResp 1 (BMsg 1 (obs_of 21 105)); IResp 2 (BMsg 2 (obs_of 22 105)); IResp 1 (BMsg 3 (sig_of 9901));
     IResp 2 (BMsg 4 (sig_of 9902)); IResp 3 (BMsg 5 (sig_of 9903))]%N.
  Definition inp_late : c06_in := mkIn cfg0 [1; 2]%N [] [1]%N [2; 3]%N [] items_late.
  Definition late_out : out1 :=
    mkOut 6 [] [] [(0, 1, 1, true, [5]); (0, 2, 2, true, [5]); (1, 1, 3, true, []); (1, 2, 4, true, []);
                   (1, 3, 5, true, [])]%N attr2 true.

  Example giveupB_examples :
    (giveupB_ok cfg0 early_out = false /\ ~ giveupB_P cfg0 early_out /\
     unasked_signers cfg0 (o_log early_out) = [2; 3]%N) /\
    (giveupB_ok cfg0 late_out = true /\ c06_oeqb (c06_model inp_late) [late_out] = true).
  Proof.
    split; [split; [vm_compute; reflexivity|split; [|vm_compute; reflexivity]]|split; vm_compute; reflexivity].
    intros H. specialize (H eq_refl). vm_compute in H. discriminate.
  Qed.
End ExGB.

(* ---------------- non-vacuity, and the defect of the executable property as it was before ---------------- *)
Module Ex.
  Import Witness.
  (* Witness.good_run as a script: nodes 1 and 2 observe root r on lane 5, signers 2 and 1 sign *)
  Definition items (r : root) : list item :=
    [IResp 1 (BMsg 1 (obs_of 21 r)); IResp 2 (BMsg 2 (obs_of 22 r));
     IResp 2 (BMsg 4 (sig_of 1201)); IResp 1 (BMsg 3 (sig_of 1101))]%N.
  Definition inp (r : root) : c06_in := mkIn cfg [1; 2]%N [] [1; 2]%N [] [] (items r).
  Definition log4 : list send_t :=
    [(0, 1, 1, true, [5]); (0, 2, 2, true, [5]); (1, 1, 3, true, []); (1, 2, 4, true, [])]%N.
  Definition good_out : out1 :=
    mkOut 0 [(5, 105)]%N [1101; 1201]%N log4 [(1, [(5, 105)]); (2, [(5, 105)])]%N true.

  Example cfg_wf_example : cfg_wf cfg.
  Proof. repeat split; repeat constructor; cbn; intuition discriminate. Qed.

  (* a successful, non-trivial output passes; it is what the model says; dropping a signature, handing back another
     root or naming a node twice among the attributed observations does not pass *)
  Example c06_ok_example :
    c06_ok (inp 105%N) [good_out] = true /\ c06_oeqb (c06_model (inp 105%N)) [good_out] = true /\
    c06_ok (inp 105%N) [mkOut 0 [(5, 105)]%N [1101]%N log4 (o_attr good_out) true] = false /\
    c06_ok (inp 105%N) [mkOut 0 [(5, 106)]%N [1101; 1201]%N log4 (o_attr good_out) true] = false /\
    c06_ok (inp 105%N) [mkOut 4 [] [] log4 [(1, [(5, 105)]); (1, [(5, 105)])]%N true] = false.
  Proof. vm_compute. repeat split; reflexivity. Qed.

  (* second call: the same answers arrive again (leftovers of the first call: its ids are 5.., theirs 1..4) and the
     context is cancelled; reporting ErrTimeout WITHOUT a cancellation in the script does not pass, and judged at
     position 0 of the id stream the leftovers would be an honest run (liveness clause: success demanded) *)
  Definition inp_c (r : root) : c06_in := mkIn cfg [1; 2]%N [] [1; 2]%N [] [] (items r ++ [ICancel]).
  Example hist_ok_example :
    hist_ok [(0%N, inp 105%N); (4%N, inp_c 105%N)] [[good_out]; [mkOut 4 [] [] [] [] true]] = true /\
    hist_ok [(0%N, inp 105%N); (4%N, inp 105%N)] [[good_out]; [mkOut 4 [] [] [] [] true]] = false /\
    hist_ok [(0%N, inp 105%N); (4%N, inp 105%N)] [[good_out]; [mkOut 10 [] [] [] [] true]] = false /\
    live_test_from 0 (inp 105%N) = true /\ live_test_from 4 (inp 105%N) = false.
  Proof. vm_compute. repeat split; reflexivity. Qed.

  (* the executable property as it stood.  (1) the conjunct "the root handed back is not the empty root" was missing;
     (2) the carriers of a root among the attributed observations were counted without looking for their votes in
     the script *)
  Definition attr_ok_before (cfg : config) (attr : list (node * list (chain * root))) : bool :=
    match attr with
    | [] => true
    | _ =>
        nodupb N.eqb (map fst attr) &&
        forallb (fun a => forallb (fun v => memN (fst a) (rmn_nodes_of cfg (fst v))) (snd a)) attr &&
        match prepare cfg with
        | inl (Ok us) =>
            forallb (fun u =>
              existsb (fun a => existsb (fun v => N.eqb (fst v) (u_chain u) &&
                                                 gte_f_plus_one (u_F u) (zlen (attr_voters attr (u_chain u) (snd v))))
                                        (snd a)) attr) us
        | _ => false
        end
    end.
  Definition c06_ok1_before (i : c06_in) (o : out1) : bool :=
    let cfg := i_cfg i in
    negb (N.eqb (o_kind o) 9) && negb (N.eqb (o_kind o) 10) && attr_ok_before cfg (o_attr o) &&
    (if N.eqb (o_kind o) 0 then
       match prepare cfg with
       | inl (Ok us) =>
           list_eqb N.eqb (map fst (o_lanes o)) (sortN (map u_chain us)) &&
           forallb (fun u =>
             match alookup (u_chain u) (o_lanes o) with
             | Some r => gte_f_plus_one (u_F u) (zlen (voters cfg u r (i_items i)))
             | None => false
             end) us &&
           (let rep := map (fun u => (u_req u, match alookup (u_chain u) (o_lanes o) with Some r => r | None => 0%N end))
                           us in
            let sgs := map (sig_signer cfg rep (i_items i)) (o_sigs o) in
            forallb (fun x => negb (is_none x)) sgs &&
            strictly_ascN (map sg_addr (somes sgs)) &&
            nodupb N.eqb (map sg_node (somes sgs)) &&
            gte_f_plus_one (c_remoteF cfg) (zlen (o_sigs o))) &&
           o_repok o
       | _ => false
       end
     else true).

  (* two observers vote the EMPTY root for lane 5 (the repaired code then fails with "no most voted root": the model
     says kind 7); an output that nevertheless reports success with the empty root for that lane was accepted *)
  Definition bad_out : out1 := mkOut 0 [(5, 0)]%N [1101; 1201]%N log4 [] true.
  Example c06_ok_before_unsound :
    c06_ok1_before (inp 0%N) bad_out = true /\ ~ c06_P (inp 0%N) bad_out /\ c06_ok1 (inp 0%N) bad_out = false.
  Proof.
    split; [vm_compute; reflexivity|]. split; [|vm_compute; reflexivity].
    intros (_ & _ & _ & H). destruct (H eq_refl) as (us & rep & _ & El & [(_ & _ & Hrep) _] & _).
    unfold lanes_of in El. cbn [bad_out o_lanes] in El.
    destruct rep as [|[q r] [|? ?]]; cbn [map] in El; try discriminate. inversion El; subst r.
    destruct (Hrep q 0%N (or_introl eq_refl)) as (u & _ & _ & Hr & _). apply Hr. reflexivity.
  Qed.

  (* only node 1 ever answers (correctly); the call ends by cancellation.  An output whose signature request
     attributes an observation of root 105 to node 2 as well — F_home+1 = 2 carriers, one of them without any
     response in the script — was accepted *)
  Definition inp1 : c06_in := mkIn cfg [1; 2]%N [] [1; 2]%N [] [] [IResp 1 (BMsg 1 (obs_of 21 105)); ICancel]%N.
  Definition bad_attr_out : out1 := mkOut 4 [] [] log4 [(1, [(5, 105)]); (2, [(5, 105)])]%N true.
  Example attr_ok_before_unsound :
    c06_ok1_before inp1 bad_attr_out = true /\ ~ c06_P inp1 bad_attr_out /\ c06_ok1 inp1 bad_attr_out = false.
  Proof.
    split; [vm_compute; reflexivity|]. split; [|vm_compute; reflexivity].
    intros (_ & _ & [E|(_ & _ & us & P & H)] & _); [discriminate E|].
    assert (Eus : prepare (i_cfg inp1) = inl (Ok us1)) by (vm_compute; reflexivity).
    rewrite Eus in P. injection P as <-.
    destruct (H _ (or_introl eq_refl)) as (r & vs & ND & Hlen & Hvs).
    (* every voter has a response in the script, and only node 1 has one *)
    assert (Hone : forall n, In n vs -> n = 1%N).
    { intros n Hn. destruct (Hvs n Hn) as [_ [_ (id & so & ob & hn & lu & Hin & _)]].
      apply item_events_in in Hin as (it & Hit & Ei). cbn in Hit.
      destruct Hit as [<-|[<-|[]]]; cbn in Ei; [congruence|discriminate]. }
    destruct vs as [|a [|b vs]]; cbn in Hlen; try lia.
    pose proof (Hone a (or_introl eq_refl)). pose proof (Hone b (or_intror (or_introl eq_refl))). subst.
    inversion ND as [|? ? Hx _]. apply Hx. now left.
  Qed.

  (* ---- the executable property as it stood before the log / error-kind / liveness clauses: exactly [c06_core] ---- *)
  Definition c06_ok1_before2 (i : c06_in) (o : out1) : bool := c06_core i o.

  (* (1) the Send log was not judged: an observation request to node 9 (not an RMNHome node) and a report-signature
     request although no observations were handed on (no attributed observations) passed *)
  Definition bad_log_out : out1 := mkOut 4 [] [] [(0, 9, 1, true, [5]); (1, 1, 2, true, [])]%N [] true.
  Example c06_ok1_before2_log_unjudged :
    c06_ok1_before2 (inp_c 105%N) bad_log_out = true /\ c06_ok1 (inp_c 105%N) bad_log_out = false /\
    ~ log_P (i_cfg (inp_c 105%N)) (o_log bad_log_out) (o_attr bad_log_out).
  Proof.
    split; [vm_compute; reflexivity|]. split; [vm_compute; reflexivity|].
    intros H. unfold log_P in H.
    assert (Eus : prepare (i_cfg (inp_c 105%N)) = inl (Ok us1)) by (vm_compute; reflexivity).
    rewrite Eus in H. destruct H as (H & _). destruct (H _ (or_introl eq_refl)) as [[_ Hc]|[K _]]; [|discriminate K].
    destruct (Hc 5%N (or_introl eq_refl)) as [_ Hn]. vm_compute in Hn. intuition discriminate.
  Qed.

  (* (2) the error kind was free: ErrTimeout although the script never cancels the context passed (one observer has
     answered, the call would still be waiting) *)
  Definition inp_wait : c06_in := mkIn cfg [1; 2]%N [] [1; 2]%N [] [] [IResp 1 (BMsg 1 (obs_of 21 105))]%N.
  Definition bad_kind_out : out1 := mkOut 4 [] [] [(0, 1, 1, true, [5]); (0, 2, 2, true, [5])]%N [] true.
  Example c06_ok1_before2_kind_free :
    c06_ok1_before2 inp_wait bad_kind_out = true /\ c06_ok1 inp_wait bad_kind_out = false /\
    ~ kind_P (i_cfg inp_wait) (i_items inp_wait) bad_kind_out.
  Proof.
    split; [vm_compute; reflexivity|]. split; [vm_compute; reflexivity|].
    intros (_ & _ & H & _). destruct (H eq_refl) as [Hc|Hc]; cbn in Hc; intuition discriminate.
  Qed.

  (* (3) no liveness: both observers and both signers answer correctly and in time (the hypotheses of C06_liveness
     hold: the test says so), yet an output reporting ErrInsufficientSignatureResponses passed *)
  Definition bad_live_out : out1 := mkOut 6 [] [] log4 [(1, [(5, 105)]); (2, [(5, 105)])]%N true.
  Example c06_ok1_before2_no_liveness :
    c06_ok1_before2 (inp 105%N) bad_live_out = true /\ live_test_from 0 (inp 105%N) = true /\
    c06_ok1 (inp 105%N) bad_live_out = false /\ c06_ok1 (inp 105%N) good_out = true.
  Proof. vm_compute. repeat split; reflexivity. Qed.

  (* ORDER: the same two signatures handed back in descending address order do not pass *)
  Example c06_order_example :
    c06_ok1 (inp 105%N) (mkOut 0 [(5, 105)]%N [1201; 1101]%N log4 (o_attr good_out) true) = false /\
    c06_ok1 (inp 105%N) (mkOut 0 [(5, 105)]%N [1101; 1201]%N log4 (o_attr good_out) true) = true.
  Proof. vm_compute. split; reflexivity. Qed.
End Ex.

(* PanicSites2P.v — for every (guard, use) pair of Model/PanicSites2.v: the guarded function never panics / spins,
   for all inputs; and a witness that the bare use does (so the guard is what the absence of a crash rests on). *)
Require Import Verif.Model.Base Verif.Proofs.BaseP Verif.Model.PanicSites Verif.Proofs.PanicSitesP Verif.Model.PanicSites2.
From Coq Require Import ZifyN ZifyNat ZifyBool.
Ltac Zify.zify_post_hook ::= Z.div_mod_to_equations.

Definition no_crash {A} (r : res A) : Prop := r <> Panic /\ r <> Spin.

Lemma no_crash_ok {A} (a : A) : no_crash (Ok a).
Proof. split; discriminate. Qed.
Lemma no_crash_err {A} : no_crash (@Err A).
Proof. split; discriminate. Qed.
Lemma no_crash_bind {A B} (r : res A) (f : A -> res B) :
  no_crash r -> (forall a, r = Ok a -> no_crash (f a)) -> no_crash (rbind r f).
Proof.
  intros [Hp Hs] Hf. destruct r as [a| | |]; cbn [rbind].
  - apply Hf. reflexivity.
  - apply no_crash_err.
  - contradiction.
  - contradiction.
Qed.

(* ---------- primitives ---------- *)
Lemma gidx_ok {A} (l : list A) (i : Z) :
  (0 <= i)%Z -> (i < Z.of_nat (length l))%Z -> exists x, gidx l i = Ok x /\ nth_error l (Z.to_nat i) = Some x.
Proof.
  intros H0 H1. unfold gidx. destruct (Z.ltb_spec i 0) as [H|_]; [lia|].
  destruct (nth_error l (Z.to_nat i)) as [x|] eqn:E.
  - exists x. split; reflexivity.
  - apply nth_error_None in E. lia.
Qed.
Lemma gidx_panic {A} (l : list A) (i : Z) :
  (i < 0 \/ Z.of_nat (length l) <= i)%Z -> gidx l i = Panic.
Proof.
  intros H. unfold gidx. destruct (Z.ltb_spec i 0) as [_|H0]; [reflexivity|].
  destruct (nth_error l (Z.to_nat i)) as [x|] eqn:E; [|reflexivity].
  assert (Hlt : (Z.to_nat i < length l)%nat) by (apply nth_error_Some; congruence). lia.
Qed.

Lemma skipn_nth_cons {A} (l : list A) : forall i y, nth_error l i = Some y -> skipn i l = y :: skipn (S i) l.
Proof.
  induction l as [|x l IH]; intros i y H.
  - destruct i; discriminate.
  - destruct i as [|i]; cbn [nth_error] in H.
    + inversion H; subst. reflexivity.
    + cbn [skipn]. rewrite (IH i y H). reflexivity.
Qed.

(* ---------- the zip family: exact characterisation of the loop ---------- *)
Lemma zip_from_ok {A B} (xs : list A) : forall (ys : list B) i,
  (i + length xs <= length ys)%nat -> zip_from xs ys i = Ok (combine xs (skipn i ys)).
Proof.
  induction xs as [|x xs IH]; intros ys i H; cbn [zip_from combine]; [reflexivity|].
  cbn [length] in H.
  destruct (gidx_ok ys (Z.of_nat i)) as [y [Hg Hn]]; [lia|lia|].
  rewrite Hg. cbn [rbind]. rewrite Nat2Z.id in Hn.
  rewrite IH by lia. cbn [rbind]. rewrite (skipn_nth_cons ys i y Hn). reflexivity.
Qed.
Lemma zip_from_panic {A B} (xs : list A) : forall (ys : list B) i,
  xs <> [] -> (length ys < i + length xs)%nat -> zip_from xs ys i = Panic.
Proof.
  induction xs as [|x xs IH]; intros ys i Hne H; [congruence|].
  cbn [zip_from]. cbn [length] in H.
  destruct (Nat.ltb_spec i (length ys)) as [Hi|Hi].
  - destruct (gidx_ok ys (Z.of_nat i)) as [y [Hg _]]; [lia|lia|].
    rewrite Hg. cbn [rbind].
    destruct xs as [|x' xs']; [cbn [length] in H; lia|].
    rewrite IH; [reflexivity|discriminate|lia].
  - rewrite gidx_panic by lia. reflexivity.
Qed.
Theorem zip_loop_ok {A B} (xs : list A) (ys : list B) :
  (length xs <= length ys)%nat -> zip_loop xs ys = Ok (combine xs ys).
Proof. intros H. unfold zip_loop. rewrite zip_from_ok by lia. reflexivity. Qed.
Theorem zip_loop_panic_iff {A B} (xs : list A) (ys : list B) :
  zip_loop xs ys = Panic <-> (length ys < length xs)%nat.
Proof.
  split.
  - intros H. destruct (Nat.ltb_spec (length ys) (length xs)) as [Hl|Hl]; [exact Hl|].
    rewrite zip_loop_ok in H by lia. discriminate.
  - intros H. unfold zip_loop. apply zip_from_panic; [|lia].
    destruct xs; [cbn [length] in H; lia|discriminate].
Qed.
Lemma len_eq_true {A B} (xs : list A) (ys : list B) : len_eq xs ys = true <-> length xs = length ys.
Proof. unfold len_eq. apply Nat.eqb_eq. Qed.

Section ZipSites.
  Context {A B : Type}.
  Theorem validate_roots_state_no_crash (chains : list A) (answers : list B) : no_crash (validate_roots_state chains answers).
  Proof.
    unfold validate_roots_state. destruct (len_eq answers chains) eqn:E; [|apply no_crash_err].
    apply len_eq_true in E. rewrite zip_loop_ok by lia. apply no_crash_ok.
  Qed.
  Theorem observe_offramp_next_no_crash (chains : list A) (answers : list B) : no_crash (observe_offramp_next chains answers).
  Proof.
    unfold observe_offramp_next. destruct (len_eq answers chains) eqn:E; [|apply no_crash_ok].
    apply len_eq_true in E. rewrite zip_loop_ok by lia. apply no_crash_ok.
  Qed.
  Theorem observe_feed_prices_no_crash (tokens : list A) (prices : list B) : no_crash (observe_feed_prices tokens prices).
  Proof.
    unfold observe_feed_prices. destruct (len_eq prices tokens) eqn:E; [|apply no_crash_ok].
    apply len_eq_true in E. rewrite zip_loop_ok by lia. apply no_crash_ok.
  Qed.
  Theorem all_source_configs_no_crash (sels : list A) (cfgs : list B) : no_crash (all_source_configs sels cfgs).
  Proof.
    unfold all_source_configs. destruct (len_eq cfgs sels) eqn:E; [|apply no_crash_err].
    apply len_eq_true in E. rewrite zip_loop_ok by lia. apply no_crash_ok.
  Qed.
  Theorem report_token_data_no_crash (msgs : list A) (toks : list B) : no_crash (report_token_data msgs toks).
  Proof.
    unfold report_token_data. destruct (len_eq toks msgs) eqn:E; [|apply no_crash_err].
    apply len_eq_true in E. rewrite zip_loop_ok by lia. apply no_crash_ok.
  Qed.
  Theorem token_merge_no_crash (from : list A) (base : list B) : no_crash (token_merge from base).
  Proof.
    unfold token_merge. destruct (len_eq from base) eqn:E; [|apply no_crash_err].
    apply len_eq_true in E. rewrite zip_loop_ok by lia. apply no_crash_ok.
  Qed.
  Theorem fee_quoter_updates_no_crash (tokens : list A) (updates : list B) : no_crash (fee_quoter_updates tokens updates).
  Proof.
    unfold fee_quoter_updates. destruct (len_eq updates tokens) eqn:E; [|apply no_crash_err].
    apply len_eq_true in E. rewrite zip_loop_ok by lia. apply no_crash_ok.
  Qed.
  (* the repaired function answers as the original wherever the answer had one entry per token *)
  Theorem fee_quoter_updates_same (tokens : list A) (updates : list B) :
    length updates = length tokens -> fee_quoter_updates tokens updates = fee_quoter_updates_unfixed tokens updates.
  Proof.
    intros H. unfold fee_quoter_updates, fee_quoter_updates_unfixed.
    assert (E : len_eq updates tokens = true) by (apply len_eq_true; exact H). rewrite E. reflexivity.
  Qed.
  Theorem fee_quoter_updates_unfixed_panics (tokens : list A) (updates : list B) :
    fee_quoter_updates_unfixed tokens updates = Panic <-> (length updates < length tokens)%nat.
  Proof. apply zip_loop_panic_iff. Qed.
End ZipSites.

(* every loop of the family panics without its length check: two things asked about, one answered *)
Theorem zip_guard_needed_refuted : exists (xs ys : list N), zip_loop xs ys = Panic.
Proof. exists [1; 2]%N, [7]%N. reflexivity. Qed.
Theorem fee_quoter_updates_unfixed_refuted :
  exists (tokens updates : list N), fee_quoter_updates_unfixed tokens updates = Panic.
Proof. exists [1]%N, []. reflexivity. Qed.
Example zip_example : validate_roots_state [5; 7]%N [10; 10]%N = Ok [(10, 5); (10, 7)]%N.
Proof. reflexivity. Qed.

(* ---------- checkMessage / builder ---------- *)
Section CheckMessageP.
  Context {M T : Type}.
  Theorem check_message_no_crash (msgs : list M) (toks : list T) (idx : Z) :
    (0 <= idx)%Z -> no_crash (check_message msgs toks idx).
  Proof.
    intros H0. unfold check_message.
    destruct (Z.geb_spec idx (Z.of_nat (length msgs))) as [_|H1]; [apply no_crash_err|].
    destruct (gidx_ok msgs idx) as [m [Hg _]]; [lia|lia|]. rewrite Hg. cbn [rbind].
    destruct (Z.geb_spec idx (Z.of_nat (length toks))) as [_|H2]; [apply no_crash_err|].
    destruct (gidx_ok toks idx) as [t [Hg2 _]]; [lia|lia|]. rewrite Hg2. cbn [rbind]. apply no_crash_ok.
  Qed.
  Lemma check_all_no_crash (msgs : list M) (toks : list T) k : forall i, no_crash (check_all msgs toks k i).
  Proof.
    induction k as [|k IH]; intros i; cbn [check_all]; [apply no_crash_ok|].
    apply no_crash_bind; [apply check_message_no_crash; lia|]. intros _ _. apply IH.
  Qed.
  Theorem builder_add_no_crash (msgs : list M) (toks : list T) : no_crash (builder_add msgs toks).
  Proof.
    unfold builder_add. apply no_crash_bind; [apply check_all_no_crash|].
    intros _ _. apply report_token_data_no_crash.
  Qed.
End CheckMessageP.
Theorem check_message_guard_needed_refuted :
  exists (msgs toks : list N) idx, check_message_unguarded msgs toks idx = Panic /\ check_message msgs toks idx = Err.
Proof. exists [1; 2]%N, [7]%N, 1%Z. split; reflexivity. Qed.
Example check_message_example : check_message [1; 2]%N [7; 8]%N 1 = Ok (2, 8)%N.
Proof. reflexivity. Qed.
Example builder_add_example : builder_add [1; 2]%N [7; 8]%N = Ok [(1, 7); (2, 8)]%N /\ builder_add [1; 2]%N [7]%N = Err.
Proof. split; reflexivity. Qed.

(* ---------- RMN bundle of the query ---------- *)
Theorem ecdsa_sig_from_pb_no_crash (sig : pb_sig) : no_crash (ecdsa_sig_from_pb sig).
Proof.
  unfold ecdsa_sig_from_pb. destruct sig as [[r s]|]; [|apply no_crash_err].
  destruct (Nat.eqb_spec (length r) 32) as [Hr|Hr]; cbn [andb negb]; [|apply no_crash_err].
  destruct (Nat.eqb_spec (length s) 32) as [Hs|Hs]; cbn [negb]; [|apply no_crash_err].
  rewrite !gslice_ok by lia. cbn [rbind]. apply no_crash_ok.
Qed.
Theorem ecdsa_sig_guard_needed_refuted :
  ecdsa_sig_from_pb_unguarded None = Panic /\
  exists r s, ecdsa_sig_from_pb_unguarded (Some (r, s)) = Panic /\ ecdsa_sig_from_pb (Some (r, s)) = Err.
Proof. split; [reflexivity|]. exists (repeat 0%N 31), (repeat 0%N 32). split; reflexivity. Qed.

Theorem lane_update_from_pb_no_crash (lu : option pb_lane) : no_crash (lane_update_from_pb lu).
Proof.
  unfold lane_update_from_pb. destruct lu as [l|]; [|apply no_crash_err].
  destruct (pl_source l); [|apply no_crash_err]. destruct (pl_interval l); [|apply no_crash_err].
  destruct (Nat.eqb_spec (length (pl_root l)) 32) as [Hr|Hr]; cbn [negb]; [|apply no_crash_err].
  rewrite gslice_ok by lia. cbn [rbind]. apply no_crash_ok.
Qed.
Theorem lane_update_guard_needed_refuted :
  lane_update_from_pb_unguarded None = Panic /\
  lane_update_from_pb_unguarded (Some (mkPbLane None (Some (1, 2)%N) (repeat 0%N 32))) = Panic /\
  lane_update_from_pb_unguarded (Some (mkPbLane (Some 5%N) None (repeat 0%N 32))) = Panic /\
  lane_update_from_pb_unguarded (Some (mkPbLane (Some 5%N) (Some (1, 2)%N) (repeat 0%N 5))) = Panic.
Proof. repeat split. Qed.

Lemma map_res_no_crash {A B} (f : A -> res B) (l : list A) : (forall x, no_crash (f x)) -> no_crash (map_res f l).
Proof.
  intros Hf. induction l as [|x l IH]; cbn [map_res]; [apply no_crash_ok|].
  apply no_crash_bind; [apply Hf|]. intros y _. apply no_crash_bind; [exact IH|]. intros r _. apply no_crash_ok.
Qed.
Theorem parse_bundle_no_crash (b : pb_bundle) : no_crash (parse_bundle b).
Proof.
  unfold parse_bundle. apply no_crash_bind; [apply map_res_no_crash, ecdsa_sig_from_pb_no_crash|].
  intros ss _. apply no_crash_bind; [apply map_res_no_crash, lane_update_from_pb_no_crash|].
  intros ls _. apply no_crash_ok.
Qed.

Theorem verify_query_no_crash building retry cfg_empty verified (q : option pb_bundle) :
  no_crash (verify_query building retry cfg_empty verified q).
Proof.
  unfold verify_query, verify_query_with, skip_rmn_verification.
  destruct q as [b|]; cbn [is_some];
    destruct building, retry, cfg_empty; cbn [negb andb rbind deref];
    try apply no_crash_ok; try apply no_crash_err;
    (apply no_crash_bind; [apply parse_bundle_no_crash|intros _ _; destruct verified; try apply no_crash_ok; apply no_crash_err]).
Qed.
(* without the rule "signatures are required in the BuildingReport state" a leader's query without a bundle
   reaches q.RMNSignatures.Signatures *)
Theorem verify_query_guard_needed_refuted :
  exists building retry cfg_empty verified,
    verify_query_unguarded building retry cfg_empty verified None = Panic /\
    verify_query building retry cfg_empty verified None = Err.
Proof. exists true, false, false, true. split; reflexivity. Qed.
Theorem build_report_bundle_no_crash (q : option pb_bundle) : no_crash (build_report_bundle q).
Proof.
  unfold build_report_bundle. destruct q as [b|]; [|apply no_crash_ok].
  pose proof (parse_bundle_no_crash b) as [Hp Hs].
  destruct (parse_bundle b); try contradiction; apply no_crash_ok.
Qed.
Example verify_query_example :
  verify_query true false false true
    (Some (mkBundle [Some (repeat 0%N 32, repeat 0%N 32)] [Some (mkPbLane (Some 5%N) (Some (10, 12)%N) (repeat 1%N 32))])) = Ok tt
  /\ verify_query true false false true (Some (mkBundle [None] [])) = Err.
Proof. split; reflexivity. Qed.

(* ---------- Deviates ---------- *)
Theorem deviates_no_crash (a b ppb : Z) : no_crash (deviates (Some a) (Some b) ppb).
Proof.
  unfold deviates. cbn [deref rbind].
  destruct (Z.eqb_spec a 0) as [Ha|Ha]; cbn [orb]; [apply no_crash_ok|].
  destruct (Z.eqb_spec b 0) as [Hb|Hb]; [apply no_crash_ok|].
  unfold zdiv_res. destruct (Z.eqb_spec (Z.min a b) 0) as [Hm|Hm]; [lia|].
  cbn [rbind]. apply no_crash_ok.
Qed.
Theorem deviates_guard_needed_refuted :
  deviates_unguarded (Some 5%Z) (Some 0%Z) 1 = Panic /\ deviates (Some 5%Z) (Some 0%Z) 1 = Ok true /\
  deviates None (Some 1%Z) 1 = Panic /\ deviates (Some 1%Z) None 1 = Panic.
Proof. repeat split. Qed.
Lemma median_res_some (vals : list (option Z)) :
  all_some vals = true -> vals <> [] -> exists z, median_res vals = Ok (Some z).
Proof.
  intros H Hne. unfold median_res. destruct vals as [|x [|y l]]; [congruence| |].
  - cbn [all_some forallb] in H. destruct x as [z|]; [|discriminate]. exists z. reflexivity.
  - rewrite H. eexists. reflexivity.
Qed.
(* validated (non-nil) observations, at least one per aggregated key: the deviation test cannot crash *)
Theorem deviates_of_medians_no_crash (xs ys : list (option Z)) (ppb : Z) :
  all_some xs = true -> all_some ys = true -> xs <> [] -> ys <> [] -> no_crash (deviates_of_medians xs ys ppb).
Proof.
  intros Hx Hy Nx Ny. unfold deviates_of_medians.
  destruct (median_res_some xs Hx Nx) as [a ->]. destruct (median_res_some ys Hy Ny) as [b ->].
  cbn [rbind]. apply deviates_no_crash.
Qed.
Example deviates_example : deviates (Some 110%Z) (Some 100%Z) 10000000 = Ok true /\ deviates (Some 0%Z) (Some 0%Z) 1 = Ok false.
Proof. split; reflexivity. Qed.

(* ---------- Append ---------- *)
Lemma set_at_length {A} (l : list A) i x : (i < length l)%nat -> length (set_at l i x) = length l.
Proof.
  intros H. unfold set_at. rewrite app_length. cbn [length]. rewrite firstn_length, skipn_length. lia.
Qed.
Theorem append_at_ok {A} (d : A) (l : list A) (index : Z) (x : A) :
  (0 <= index)%Z ->
  exists l', append_at d l index x = Ok l' /\ length l' = Nat.max (length l) (Z.to_nat (index + 1)).
Proof.
  intros H0. unfold append_at.
  set (l' := if Z.geb index (Z.of_nat (length l)) then l ++ repeat d (Z.to_nat (index + 1) - length l) else l).
  assert (Hlen : length l' = Nat.max (length l) (Z.to_nat (index + 1))).
  { unfold l'. destruct (Z.geb_spec index (Z.of_nat (length l))) as [H|H].
    - rewrite app_length, repeat_length. lia.
    - lia. }
  destruct (gidx_ok l' index) as [y [Hg _]]; [lia|lia|]. rewrite Hg. cbn [rbind].
  eexists. split; [reflexivity|]. rewrite set_at_length by lia. exact Hlen.
Qed.
Theorem append_at_no_crash {A} (d : A) (l : list A) (index : Z) (x : A) :
  (0 <= index)%Z -> no_crash (append_at d l index x).
Proof. intros H. destruct (append_at_ok d l index x H) as [l' [-> _]]. apply no_crash_ok. Qed.
Theorem append_at_guard_needed_refuted :
  append_at_unguarded [1; 2]%N 2 9%N = Panic /\ append_at 0%N [1; 2]%N 2 9%N = Ok [1; 2; 9]%N /\
  append_at 0%N [1; 2]%N (-1) 9%N = Panic.
Proof. repeat split. Qed.

(* ---------- mergeTokenObservations ---------- *)
Lemma inner_made_lookup (m : tokmap) k o : inner_made m = true -> alookup k m = Some o -> exists inner, o = Some inner.
Proof.
  intros Hm Hl. apply alookup_In in Hl. unfold inner_made in Hm. rewrite forallb_forall in Hm.
  specialize (Hm _ Hl). cbn [snd] in Hm. destruct o as [inner|]; [eauto|discriminate].
Qed.
Theorem merge_tok_write_no_crash fchain (m : tokmap) k s v :
  inner_made m = true ->
  no_crash (merge_tok_write fchain m k s v) /\
  forall m', merge_tok_write fchain m k s v = Ok m' -> inner_made m' = true.
Proof.
  intros Hm. unfold merge_tok_write. destruct (memN k fchain); cbn [negb].
  2:{ split; [apply no_crash_err|discriminate]. }
  unfold write_inner, ensure_inner.
  destruct (alookup k m) as [o|] eqn:E.
  - destruct (inner_made_lookup m k o Hm E) as [inner ->]. rewrite E.
    split; [apply no_crash_ok|]. intros m' H. inversion H; subst. unfold inner_made. cbn [forallb snd is_some andb]. exact Hm.
  - cbn [alookup]. rewrite N.eqb_refl.
    split; [apply no_crash_ok|]. intros m' H. inversion H; subst. unfold inner_made. cbn [forallb snd is_some andb]. exact Hm.
Qed.
Theorem merge_tok_all_no_crash fchain entries : forall m, inner_made m = true -> no_crash (merge_tok_all fchain m entries).
Proof.
  induction entries as [|[[k s] v] r IH]; intros m Hm; cbn [merge_tok_all]; [apply no_crash_ok|].
  destruct (merge_tok_write_no_crash fchain m k s v Hm) as [Hn Hinv].
  apply no_crash_bind; [exact Hn|]. intros m' Hw. apply IH. apply Hinv. exact Hw.
Qed.
Theorem merge_tok_guard_needed_refuted :
  merge_tok_write_unguarded [] 5 10 1 = Panic /\ exists m', merge_tok_write [5]%N [] 5 10 1 = Ok m'.
Proof. split; [reflexivity|]. eexists. reflexivity. Qed.

(* ---------- RMN controller ---------- *)
Theorem root32_no_crash (root : list N) : no_crash (root32 root).
Proof.
  unfold root32, to_bytes32. destruct (Nat.eqb_spec (length root) 32) as [H|H]; cbn [negb]; [|apply no_crash_err].
  destruct (Nat.ltb_spec (length root) 32); [lia|]. apply no_crash_ok.
Qed.
Theorem root32_guard_needed_refuted : to_bytes32 (repeat 0%N 31) = Panic /\ root32 (repeat 0%N 31) = Err.
Proof. split; reflexivity. Qed.
Theorem max_count_no_crash (counts : list Z) : no_crash (max_count counts).
Proof.
  unfold max_count. destruct counts as [|c r]; [apply no_crash_ok|].
  destruct (gidx_ok (sort_by Z.leb (c :: r)) (Z.of_nat (length (c :: r)) - 1)) as [v [Hg _]].
  - cbn [length]. lia.
  - rewrite sort_by_length. lia.
  - rewrite Hg. cbn [rbind]. apply no_crash_ok.
Qed.
Theorem max_count_guard_needed_refuted : max_count_unguarded [] = Panic /\ max_count [] = Ok None.
Proof. split; reflexivity. Qed.
Theorem keep_n_right_no_crash (b : list N) (n : N) :
  (N.of_nat (length b) < two64)%N -> no_crash (keep_n_right b n).
Proof.
  intros Hb. unfold keep_n_right. destruct (N.leb_spec (N.of_nat (length b)) n) as [_|H]; [apply no_crash_ok|].
  unfold gslice_fromN, sub64, two64 in *.
  destruct (N.leb_spec ((N.of_nat (length b) + 18446744073709551616 - n mod 18446744073709551616) mod 18446744073709551616)
                       (N.of_nat (length b))) as [_|H2]; [apply no_crash_ok|].
  exfalso. lia.
Qed.
Theorem keep_n_right_guard_needed_refuted : keep_n_right_unguarded [1; 2]%N 3 = Panic /\ keep_n_right [1; 2]%N 3 = Ok [1; 2]%N.
Proof. split; reflexivity. Qed.
Example keep_n_right_example : keep_n_right [1; 2; 3; 4]%N 2 = Ok [3; 4]%N.
Proof. reflexivity. Qed.

(* ---------- USDC reader ---------- *)
Theorem unpack_id_no_crash (arg0 : list N) : no_crash (unpack_id arg0).
Proof.
  unfold unpack_id. destruct (Nat.ltb_spec (length arg0) 32); [apply no_crash_err|].
  rewrite gslice_ok by lia. apply no_crash_ok.
Qed.
Theorem source_token_payload_no_crash (extra : list N) : no_crash (source_token_payload extra).
Proof.
  unfold source_token_payload. destruct (Nat.ltb_spec (length extra) 64); [apply no_crash_err|].
  rewrite !gslice_ok by lia. cbn [rbind]. apply no_crash_ok.
Qed.
Theorem usdc_guards_needed_refuted :
  gslice (repeat 0%N 31) 0 32 = Panic /\ unpack_id (repeat 0%N 31) = Err /\
  source_token_payload_unguarded (repeat 0%N 63) = Panic /\ source_token_payload (repeat 0%N 63) = Err.
Proof. repeat split. Qed.

(* ---------- costly messages ---------- *)
Theorem exec_cost_no_crash dests exec_fee da_fee native : no_crash (exec_cost dests exec_fee da_fee native).
Proof.
  unfold exec_cost. destruct dests as [|d r]; [apply no_crash_ok|].
  destruct exec_fee as [e|]; cbn [is_some negb]; [|apply no_crash_err].
  destruct da_fee as [a|]; cbn [is_some negb]; [|apply no_crash_err].
  assert (Hg : gidx (d :: r) 0 = Ok d) by reflexivity. rewrite Hg. cbn [rbind].
  destruct (alookup d native); [|apply no_crash_err].
  cbn [zmul_res deref rbind]. apply no_crash_ok.
Qed.
Theorem exec_cost_guard_needed_refuted :
  exec_cost_unguarded [] (Some 1%Z) (Some 1%Z) [] = Panic /\
  exec_cost_unguarded [900]%N None (Some 1%Z) [(900%N, 2%Z)] = Panic /\
  exec_cost_unguarded [900]%N (Some 1%Z) None [(900%N, 2%Z)] = Panic /\
  exec_cost [900]%N None (Some 1%Z) [(900%N, 2%Z)] = Err.
Proof. repeat split. Qed.
Theorem msg_fee_no_crash link juels : no_crash (msg_fee link juels).
Proof. unfold msg_fee. destruct juels; apply no_crash_ok. Qed.
Theorem msg_fee_same link j : msg_fee link (Some j) = msg_fee_unfixed link (Some j).
Proof. reflexivity. Qed.
Theorem msg_fee_unfixed_refuted : exists link, msg_fee_unfixed link None = Panic.
Proof. exists 7%Z. reflexivity. Qed.

(* ---------- packed fee ---------- *)
Theorem packed_fee_no_crash ts v : no_crash (packed_fee ts v).
Proof.
  unfold packed_fee. destruct v as [p|]; [|apply no_crash_ok].
  destruct (N.eqb ts 0 || Z.eqb p 0); [apply no_crash_ok|].
  cbn [from_packed_fee deref rbind]. apply no_crash_ok.
Qed.
Theorem packed_fee_guard_needed_refuted : from_packed_fee None = Panic /\ packed_fee 1700000000 None = Ok None.
Proof. split; reflexivity. Qed.

(* ---------- filterOutExecutedMessages ---------- *)
Theorem filter_one_total lo hi a b : exists r, filter_one lo hi a b = Ok r.
Proof.
  unfold filter_one, filter_one_with, s_loop.
  destruct (N.ltb b lo); [eexists; reflexivity|].
  destruct (N.leb a lo && N.leb hi b); [eexists; reflexivity|].
  destruct (N.ltb b (N.max a lo)); [eexists; reflexivity|].
  destruct (N.ltb hi (N.max a lo)); [eexists; reflexivity|].
  destruct (N.ltb hi b); eexists; reflexivity.
Qed.
Theorem filter_one_no_crash lo hi a b : no_crash (filter_one lo hi a b).
Proof. destruct (filter_one_total lo hi a b) as [r ->]. apply no_crash_ok. Qed.
(* the repaired loop appends exactly what the original one appended whenever that one returned *)
Theorem filter_one_refines lo hi a b r : filter_one_unfixed lo hi a b = Ok r -> filter_one lo hi a b = Ok r.
Proof.
  unfold filter_one, filter_one_unfixed, filter_one_with, s_loop, s_loop_unfixed.
  destruct (N.ltb b lo); [auto|].
  destruct (N.leb a lo && N.leb hi b); [auto|].
  destruct (N.ltb b (N.max a lo)); [auto|].
  destruct (N.ltb hi (N.max a lo)); [auto|].
  destruct (N.ltb hi b); [auto|].
  destruct (N.eqb b max64); [discriminate|auto].
Qed.
Theorem filter_one_unfixed_spin_iff lo hi a b :
  (lo <= max64)%N -> (hi <= max64)%N -> (a <= max64)%N -> (b <= max64)%N ->
  (filter_one_unfixed lo hi a b = Spin <-> (b = max64 /\ hi = max64 /\ lo < a)%N).
Proof.
  intros Hlo Hhi Ha Hb. unfold filter_one_unfixed, filter_one_with, s_loop_unfixed, max64 in *.
  destruct (N.ltb_spec b lo) as [H1|H1]; [split; [discriminate|lia]|].
  destruct (N.leb_spec a lo) as [H2|H2]; destruct (N.leb_spec hi b) as [H3|H3]; cbn [andb];
    try (split; [discriminate|lia]);
    (destruct (N.ltb_spec b (N.max a lo)) as [H4|H4]; [split; [discriminate|lia]|];
     destruct (N.ltb_spec hi (N.max a lo)) as [H5|H5]; [split; [discriminate|lia]|];
     destruct (N.ltb_spec hi b) as [H6|H6]; [split; [discriminate|lia]|];
     destruct (N.eqb_spec b 18446744073709551615) as [H7|H7]; [split; [intros _; lia|reflexivity]|split; [discriminate|lia]]).
Qed.
Theorem filter_one_unfixed_refuted : exists lo hi a b, filter_one_unfixed lo hi a b = Spin.
Proof. exists (max64 - 1)%N, max64, max64, max64. reflexivity. Qed.
Example filter_one_example : filter_one 10 20 15 17 = Ok (Some (15, 17)%N) /\ filter_one (max64 - 1) max64 max64 max64 = Ok (Some (max64, max64)).
Proof. split; reflexivity. Qed.

(* ---------- price feed, chain writer ---------- *)
Theorem raw_price_no_crash answer decimals : no_crash (raw_price answer decimals).
Proof. unfold raw_price. destruct answer; [apply no_crash_ok|apply no_crash_err]. Qed.
Theorem raw_price_same a decimals : raw_price (Some a) decimals = raw_price_unfixed (Some a) decimals.
Proof. reflexivity. Qed.
Theorem raw_price_unfixed_refuted : forall decimals, raw_price_unfixed None decimals = Panic.
Proof. reflexivity. Qed.
Theorem fee_components_no_crash {C} (answers : list (N * option C)) : no_crash (fee_components answers).
Proof. apply no_crash_ok. Qed.
Theorem fee_components_same {C} (answers : list (N * option C)) :
  forallb (fun e => is_some (snd e)) answers = true -> fee_components answers = fee_components_unfixed answers.
Proof.
  unfold fee_components, fee_components_unfixed. induction answers as [|[k o] r IH]; intros H; [reflexivity|].
  cbn [forallb snd] in H. apply andb_prop in H. destruct H as [Ho Hr]. destruct o as [c|]; [|discriminate].
  cbn [map_res flat_map snd fst deref rbind app]. rewrite <- (IH Hr). reflexivity.
Qed.
Theorem fee_components_unfixed_refuted : exists answers : list (N * option N), fee_components_unfixed answers = Panic.
Proof. exists [(900%N, None)]. reflexivity. Qed.

(* ---------- non-vacuity of the hypotheses used above ---------- *)
Example deviates_of_medians_example :
  all_some [Some 5; Some 1; Some 9]%Z = true /\ all_some [Some 4]%Z = true /\
  deviates_of_medians [Some 5; Some 1; Some 9]%Z [Some 4]%Z 10000000 = Ok true.
Proof. repeat split. Qed.
Example merge_tok_example :
  inner_made [(5%N, Some [(10, 1)%N])] = true /\
  merge_tok_all [5; 7]%N [(5%N, Some [(10, 1)%N])] [(5, 11, 2); (7, 20, 3)]%N
    = Ok [(7%N, Some [(20, 3)%N]); (7%N, Some []); (5%N, Some [(11, 2); (10, 1)]%N); (5%N, Some [(10, 1)%N])] /\
  merge_tok_all [5]%N [] [(7, 20, 3)]%N = Err.
Proof. repeat split. Qed.
Example fee_quoter_updates_example :
  fee_quoter_updates [1; 2]%N [7; 8]%N = Ok [(1, 7); (2, 8)]%N /\ fee_quoter_updates [1; 2]%N [7]%N = Err /\
  fee_quoter_updates_unfixed [1; 2]%N [7; 8; 9]%N = Ok [(1, 7); (2, 8)]%N /\ fee_quoter_updates [1; 2]%N [7; 8; 9]%N = Err.
Proof. repeat split. Qed.
Example fee_components_example :
  fee_components [(5%N, Some 1%N); (7%N, None)] = Ok [(5, 1)%N] /\
  fee_components_unfixed [(5%N, Some 1%N)] = Ok [(5, 1)%N].
Proof. split; reflexivity. Qed.
Example append_at_example : append_at 0%N [1]%N 3 9%N = Ok [1; 0; 0; 9]%N.
Proof. reflexivity. Qed.

(* ExecCyclesP.v — history-level theorems for C09 (Model/ExecCycles.v): for every event list, what a cycle computes
   from the destination's current content; nothing executed is offered again; nothing unexecuted is lost. *)
Require Import Verif.Model.Base Verif.Proofs.BaseP Verif.Model.ExecPending Verif.Proofs.ExecPendingP
               Verif.Model.ExecCycles.
From Coq Require Import ZifyN ZifyNat ZifyBool Sorted.
Ltac Zify.zify_post_hook ::= Z.div_mod_to_equations.
Local Open Scope N_scope.

(* ---------- generic list facts ---------- *)
Lemma sort_by_sorted_id {A} (key : A -> N) l : KSorted key l -> sort_by (kle key) l = l.
Proof.
  induction 1 as [|x l Hs IH Hall]; [reflexivity|]. cbn [sort_by]. rewrite IH.
  destruct l as [|y l']; [reflexivity|]. cbn [insert_by]. unfold kle at 1.
  inversion Hall as [|? ? Hxy _]; subst. destruct (N.leb_spec (key x) (key y)); [reflexivity|lia].
Qed.

Lemma FOP_filter {A} (R : A -> A -> Prop) (f : A -> bool) l :
  ForallOrdPairs R l -> ForallOrdPairs R (filter f l).
Proof.
  induction 1 as [|a l Ha Hl IH]; cbn [filter]; [constructor|].
  destruct (f a); [|exact IH]. constructor; [|exact IH].
  rewrite Forall_forall in *. intros x Hx. apply filter_In in Hx. now apply Ha.
Qed.

Lemma FOP_snoc {A} (R : A -> A -> Prop) l x :
  ForallOrdPairs R l -> Forall (fun a => R a x) l -> ForallOrdPairs R (l ++ [x]).
Proof.
  induction 1 as [|a l Ha Hl IH]; intros Hx; cbn [app].
  - constructor; constructor.
  - inversion Hx as [|? ? Hax Hlx]; subst. constructor; [|now apply IH].
    apply Forall_app. split; [exact Ha|]. constructor; [exact Hax|constructor].
Qed.

Lemma cy_seq_in n : forall a s, In s (cy_seq a n) <-> a <= s < a + N.of_nat n.
Proof.
  induction n as [|n IH]; intros a s; cbn [cy_seq In].
  - split; [tauto|lia].
  - rewrite IH. lia.
Qed.

Lemma msg_eqb_eq a b : msg_eqb a b = true <-> a = b.
Proof.
  unfold msg_eqb. destruct a as [a1 a2], b as [b1 b2]. cbn [fst snd].
  rewrite andb_true_iff, !N.eqb_eq. split; [intros [-> ->]; reflexivity|intros H; inversion H; auto].
Qed.
Lemma mem_msg_In m l : mem_msg m l = true <-> In m l.
Proof.
  unfold mem_msg. rewrite existsb_exists. split.
  - intros [x [Hx He]]. apply msg_eqb_eq in He. now subst.
  - intros H. exists m. split; [exact H|now apply msg_eqb_eq].
Qed.
Lemma mem_msg_false m l : mem_msg m l = false <-> ~ In m l.
Proof. rewrite <- mem_msg_In. destruct (mem_msg m l); split; congruence. Qed.

Lemma cy_in_runs_iff runs s : cy_in_runs runs s = true <-> in_runs runs s.
Proof.
  unfold cy_in_runs, in_runs, in_range. rewrite existsb_exists.
  split; intros [r [Hr H]]; exists r; (split; [exact Hr|]); lia.
Qed.

Lemma cy_unexec_in r s : p_lo r <= p_hi r ->
  (In s (cy_unexec r) <-> p_lo r <= s <= p_hi r /\ ~ in_runs (p_exec r) s).
Proof.
  intros Hw. unfold cy_unexec. rewrite filter_In, cy_seq_in, negb_true_iff, N2Nat.id.
  rewrite <- cy_in_runs_iff. destruct (cy_in_runs (p_exec r) s); split; intros [H1 H2]; (split; [lia|congruence]).
Qed.

(* ---------- the invariant of the destination ---------- *)
Definition ord (a b : creport) : Prop := cr_chain a = cr_chain b -> cr_hi a < cr_lo b.
Definition wf_rep (r : creport) : Prop := cr_lo r <= cr_hi r /\ cr_hi r < max64.
Record Inv (st : dest) : Prop := mkInv {
  inv_ord : ForallOrdPairs ord (d_reports st);
  inv_wf : Forall wf_rep (d_reports st);
  inv_exec : forall m, In m (d_exec st) -> committed st m = true }.

Lemma committed_iff st m :
  committed st m = true <-> exists r, In r (d_reports st) /\ cr_chain r = fst m /\ cr_lo r <= snd m <= cr_hi r.
Proof.
  unfold committed. rewrite existsb_exists. split; intros [r [Hr H]]; exists r; (split; [exact Hr|]).
  - rewrite !andb_true_iff, N.eqb_eq, !N.leb_le in H. lia.
  - rewrite !andb_true_iff, N.eqb_eq, !N.leb_le. lia.
Qed.

(* two reports of one source chain that share a sequence number are the same report *)
Lemma same_report st a b s : Inv st -> In a (d_reports st) -> In b (d_reports st) -> cr_chain a = cr_chain b ->
  cr_lo a <= s <= cr_hi a -> cr_lo b <= s <= cr_hi b -> a = b.
Proof.
  intros I Ha Hb Hc Hsa Hsb.
  destruct (ForallOrdPairs_In (inv_ord st I) a b Ha Hb) as [E|[H|H]]; [exact E| |]; unfold ord in H.
  - specialize (H Hc). lia.
  - specialize (H (eq_sym Hc)). lia.
Qed.

(* the reports of one chain inside the window: ascending, disjoint, well formed *)
Definition chain_creps (V : N) (st : dest) (c : N) : list creport :=
  filter (fun r => N.eqb (cr_chain r) c) (read_reports V st).
Lemma chain_creps_in V st c r :
  In r (chain_creps V st c) <-> In r (d_reports st) /\ in_window V st r = true /\ cr_chain r = c.
Proof. unfold chain_creps, read_reports. rewrite !filter_In, N.eqb_eq. tauto. Qed.

Lemma layout_of_chain c l :
  ForallOrdPairs ord l -> Forall wf_rep l -> Forall (fun r => cr_chain r = c) l ->
  layout (map to_rep l) /\ KSorted p_lo (map to_rep l).
Proof.
  induction 1 as [|a l Ha Hl IH]; intros Hw Hc; cbn [map layout]; [split; [exact I|constructor]|].
  inversion Hw as [|? ? Hwa Hwl]; subst. inversion Hc as [|? ? Hca Hcl]; subst.
  destruct (IH Hwl Hcl) as [IH1 IH2]. destruct Hwa as [Hlo Hhi]. split.
  - cbn [to_rep p_lo p_hi]. split; [exact Hlo|]. split; [|exact IH1].
    destruct l as [|b l']; cbn [map]; [exact I|]. cbn [to_rep p_lo].
    inversion Ha as [|? ? Hab _]; subst. inversion Hcl as [|? ? Hcb _]; subst. apply Hab. congruence.
  - constructor; [exact IH2|]. rewrite Forall_forall. intros x Hx. apply in_map_iff in Hx.
    destruct Hx as [b [<- Hb]]. cbn [to_rep p_lo].
    rewrite Forall_forall in Ha, Hwl, Hcl. pose proof (Ha b Hb) as Hab. unfold ord in Hab.
    rewrite (Hcl b Hb) in Hab. specialize (Hab eq_refl). lia.
Qed.

Lemma chain_reps_facts V st c : Inv st ->
  by_start (chain_reps V st c) = chain_reps V st c /\ layout (chain_reps V st c) /\
  (forall r, In r (chain_reps V st c) -> p_exec r = [] /\ p_hi r < max64).
Proof.
  intros I. change (chain_reps V st c) with (map to_rep (chain_creps V st c)).
  assert (H : layout (map to_rep (chain_creps V st c)) /\ KSorted p_lo (map to_rep (chain_creps V st c))).
  { apply (layout_of_chain c).
    - unfold chain_creps, read_reports. apply FOP_filter, FOP_filter, (inv_ord st I).
    - rewrite Forall_forall. intros r Hr. apply chain_creps_in in Hr.
      pose proof (inv_wf st I) as Hw. rewrite Forall_forall in Hw. now apply Hw.
    - rewrite Forall_forall. intros r Hr. now apply chain_creps_in in Hr. }
  destruct H as [H1 H2]. split; [|split; [exact H1|]].
  - unfold by_start. change (fun a b : rep => (p_lo a <=? p_lo b)) with (kle p_lo). now apply sort_by_sorted_id.
  - intros r Hr. apply in_map_iff in Hr. destruct Hr as [q [<- Hq]]. cbn [to_rep p_exec p_hi]. split; [reflexivity|].
    apply chain_creps_in in Hq. pose proof (inv_wf st I) as Hw. rewrite Forall_forall in Hw. now apply Hw.
Qed.

(* ---------- legal reader answers for the executed set of one chain ---------- *)
Definition exec_view (st : dest) (c : N) (ex : list range) : Prop :=
  Forall (fun e => fst e <= snd e /\ snd e < max64) ex /\
  no_overlap 0 (ranges_by_start ex) = true /\
  forall s, in_union ex s <-> In (c, s) (d_exec st).

Lemma exec_seqs_in st c s : In s (exec_seqs st c) <-> In (c, s) (d_exec st).
Proof.
  unfold exec_seqs, sortN. rewrite sort_by_in, in_map_iff. split.
  - intros [m [<- Hm]]. apply filter_In in Hm. destruct Hm as [Hm Hc]. apply N.eqb_eq in Hc.
    destruct m as [c' s']. cbn [fst snd] in *. now subst.
  - intros H. exists (c, s). split; [reflexivity|]. apply filter_In. split; [exact H|]. cbn [fst]. apply N.eqb_refl.
Qed.

Lemma no_overlap_singletons l : forall p, StronglySorted N.le l -> Forall (fun s => p <= s) l ->
  no_overlap p (map (fun s => (s, s)) l) = true.
Proof.
  induction l as [|s l IH]; intros p Hs Hp; cbn [map no_overlap]; [reflexivity|]. unfold r_start, r_end. cbn [fst snd].
  inversion Hp as [|? ? Hps _]; subst. inversion Hs as [|? ? Hs' Hall]; subst.
  destruct (N.ltb_spec s p); [lia|]. apply IH; assumption.
Qed.

Lemma singletons_sorted l : StronglySorted N.le l -> KSorted r_start (map (fun s => (s, s)) l).
Proof.
  induction 1 as [|s l Hs IH Hall]; cbn [map]; constructor; [exact IH|].
  rewrite Forall_forall in *. intros x Hx. apply in_map_iff in Hx. destruct Hx as [y [<- Hy]].
  unfold r_start. cbn [fst]. now apply Hall.
Qed.

Lemma exec_ranges_view st c : Inv st -> exec_view st c (exec_ranges st c).
Proof.
  intros I. unfold exec_view, exec_ranges. split; [|split].
  - rewrite Forall_forall. intros e He. apply in_map_iff in He. destruct He as [s [<- Hs]]. cbn [fst snd].
    split; [lia|]. apply exec_seqs_in in Hs. apply (inv_exec st I), committed_iff in Hs.
    destruct Hs as [r [Hr [_ Hrange]]]. cbn [snd] in Hrange.
    pose proof (inv_wf st I) as Hw. rewrite Forall_forall in Hw. destruct (Hw r Hr). lia.
  - unfold ranges_by_start. change (fun a b : range => (r_start a <=? r_start b)) with (kle r_start).
    rewrite sort_by_sorted_id by (apply singletons_sorted, sortN_sorted).
    apply no_overlap_singletons; [apply sortN_sorted|]. rewrite Forall_forall. intros; lia.
  - intros s. rewrite <- exec_seqs_in. unfold in_union, in_range. split.
    + intros [e [He Hr]]. apply in_map_iff in He. destruct He as [s' [<- Hs']]. cbn [fst snd] in Hr.
      assert (s = s') by lia. now subst.
    + intros Hs. exists (s, s). split; [apply in_map_iff; now exists s|cbn [fst snd]; lia].
Qed.

(* ---------- one cycle on a well-formed destination ---------- *)
Section OneCycle.
  Variable V : N.
  Variable st : dest.
  Hypothesis I : Inv st.

  (* the pending filter cannot fail, whatever legal shape the reader gives to the executed set *)
  Lemma chain_filter_ok c ex : exec_view st c ex ->
    filter_executed (chain_reps V st c) ex =
      Ok (pending_form (by_start (chain_reps V st c)) (ranges_by_start ex)).
  Proof.
    intros [Hw [Hno _]]. destruct (chain_reps_facts V st c I) as [E [Hl Hr]].
    apply filter_executed_form; [now rewrite E|exact Hr|exact Hw|exact Hno].
  Qed.

  Lemma to_rep_in c r : In r (d_reports st) -> cr_chain r = c -> in_window V st r = true ->
    In (to_rep r) (chain_reps V st c).
  Proof.
    intros Hr Hc Hwin. change (chain_reps V st c) with (map to_rep (chain_creps V st c)).
    apply in_map, chain_creps_in. tauto.
  Qed.

  (* C09_pending_exact at history level *)
  Theorem cycle_pending_exact c ex out :
    exec_view st c ex ->
    filter_executed (chain_reps V st c) ex = Ok out ->
    (forall r, In r (d_reports st) -> cr_chain r = c ->
       ((exists r', In r' out /\ p_id r' = cr_id r /\ p_lo r' = cr_lo r /\ p_hi r' = cr_hi r) <->
        (in_window V st r = true /\ ~ (forall s, cr_lo r <= s <= cr_hi r -> In (c, s) (d_exec st))))) /\
    (forall r' s, In r' out -> (in_runs (p_exec r') s <-> (p_lo r' <= s <= p_hi r' /\ In (c, s) (d_exec st)))).
  Proof.
    intros Hv Hout. pose proof Hv as [Hw [Hno Hu]].
    destruct (chain_reps_facts V st c I) as [E [Hl Hr]].
    assert (Hlay : layout (by_start (chain_reps V st c))) by now rewrite E.
    split.
    - intros r Hin Hc. split.
      + intros [r' [Hr' [E1 [E2 E3]]]].
        destruct (filter_records _ _ Hlay Hr Hw Hno out Hout r' Hr') as [r0 [Hr0 [F1 [F2 [F3 [Hn _]]]]]].
        apply in_map_iff in Hr0. destruct Hr0 as [q [<- Hq]]. apply chain_creps_in in Hq.
        destruct Hq as [Hq1 [Hq2 Hq3]]. cbn [to_rep p_id p_lo p_hi] in *.
        pose proof (inv_wf st I) as Hwf. rewrite Forall_forall in Hwf. destruct (Hwf r Hin) as [Hlo _].
        assert (q = r) by (apply (same_report st q r (cr_lo r) I Hq1 Hin); [congruence|lia|lia]). subst q.
        split; [exact Hq2|]. intros Hall. apply Hn. intros s Hs. cbn [to_rep p_lo p_hi] in Hs. apply Hu. now apply Hall.
      + intros [Hwin Hn].
        apply (pending_exact _ _ Hlay Hr Hw Hno out Hout (to_rep r) (to_rep_in c r Hin Hc Hwin)).
        intros Hall. apply Hn. intros s Hs. apply Hu. now apply Hall.
    - intros r' s Hr'.
      destruct (filter_records _ _ Hlay Hr Hw Hno out Hout r' Hr') as [r0 [_ [_ [F2 [F3 [_ [_ Hiff]]]]]]].
      rewrite Hiff, F2, F3, Hu. tauto.
  Qed.

  Lemma cycle_pending_in c r' :
    In (c, r') (cycle_pending V st) <->
    cycle_open st = true /\ In c (live_chains st) /\
    exists out, filter_executed (chain_reps V st c) (exec_ranges st c) = Ok out /\ In r' out.
  Proof.
    unfold cycle_pending. destruct (cycle_open st); [|split; [intros []|intros [H _]; discriminate]].
    rewrite in_flat_map. unfold chain_pending. split.
    - intros [c0 [Hc0 Hin]]. destruct (filter_executed (chain_reps V st c0) (exec_ranges st c0)) as [l| | |] eqn:El;
        try contradiction.
      apply in_map_iff in Hin. destruct Hin as [x [Hx Hl]]. inversion Hx; subst c0 x.
      split; [reflexivity|]. split; [exact Hc0|]. now exists l.
    - intros [_ [Hc [out [Ho Hin]]]]. exists c. split; [exact Hc|]. rewrite Ho. now apply in_map.
  Qed.

  (* the candidate set of a cycle, in closed form *)
  Definition candidate (m : msgid) : Prop :=
    cycle_open st = true /\ In (fst m) (live_chains st) /\
    (exists r, In r (d_reports st) /\ cr_chain r = fst m /\ in_window V st r = true /\ cr_lo r <= snd m <= cr_hi r) /\
    ~ In m (d_exec st) /\ ~ In m (d_blocked st).

  Theorem offered_iff m : In m (offered V st) <-> candidate m.
  Proof.
    destruct m as [c s]. unfold offered, candidate. cbn [fst snd]. rewrite in_flat_map. split.
    - intros [[c0 r'] [Hp Hin]]. cbn [fst snd] in Hin. apply in_map_iff in Hin. destruct Hin as [s0 [Hx Hs0]].
      inversion Hx; subst c0 s0. apply filter_In in Hs0. destruct Hs0 as [Hun Hready].
      apply cycle_pending_in in Hp. destruct Hp as [Hopen [Hlive [out [Hout Hr']]]].
      pose proof (exec_ranges_view st c I) as Hv. pose proof Hv as [Hw [Hno Hu]].
      destruct (chain_reps_facts V st c I) as [E [Hl Hr]].
      assert (Hlay : layout (by_start (chain_reps V st c))) by now rewrite E.
      destruct (filter_records _ _ Hlay Hr Hw Hno out Hout r' Hr') as [r0 [Hr0 [_ [F2 [F3 [_ [_ Hiff]]]]]]].
      apply in_map_iff in Hr0. destruct Hr0 as [q [<- Hq]]. apply chain_creps_in in Hq.
      destruct Hq as [Hq1 [Hq2 Hq3]]. cbn [to_rep p_lo p_hi] in *.
      pose proof (inv_wf st I) as Hwf. rewrite Forall_forall in Hwf. destruct (Hwf q Hq1) as [Hlo _].
      apply cy_unexec_in in Hun; [|lia]. destruct Hun as [Hrange Hnot].
      split; [exact Hopen|]. split; [exact Hlive|]. split; [|split].
      + exists q. repeat split; try assumption; lia.
      + intros Hex. apply Hnot, Hiff. split; [lia|]. now apply Hu.
      + unfold ready in Hready. rewrite negb_true_iff in Hready. now apply mem_msg_false.
    - intros [Hopen [Hlive [[r [Hr [Hc [Hwin Hrange]]]] [Hnex Hnbl]]]].
      pose proof (exec_ranges_view st c I) as Hv.
      pose proof (chain_filter_ok c _ Hv) as Hout.
      destruct (cycle_pending_exact c _ _ Hv Hout) as [P1 P2].
      destruct (proj2 (P1 r Hr Hc)) as [r' [Hr' [_ [E2 E3]]]].
      { split; [exact Hwin|]. intros Hall. apply Hnex. now apply Hall. }
      exists (c, r'). split.
      + apply cycle_pending_in. split; [exact Hopen|]. split; [exact Hlive|]. eexists. split; [exact Hout|exact Hr'].
      + cbn [fst snd]. apply in_map, filter_In. split.
        * apply cy_unexec_in; [lia|]. split; [lia|]. intros Hin. apply (P2 r' s Hr') in Hin. tauto.
        * unfold ready. rewrite negb_true_iff. now apply mem_msg_false.
  Qed.

  Lemma offered_committed m : In m (offered V st) -> committed st m = true.
  Proof.
    intros H. apply offered_iff in H. destruct H as [_ [_ [[r [Hr [Hc [_ Hrange]]]] _]]].
    apply committed_iff. exists r. tauto.
  Qed.
End OneCycle.

(* ---------- histories ---------- *)
Lemma step_reports_mono V st e r : In r (d_reports st) -> In r (d_reports (step V st e)).
Proof.
  unfold step. destruct e; cbn [step_off set_now set_reports add_exec set_blocked set_curse set_known d_reports]; try tauto.
  destruct (commit_ok st c lo hi); cbn [set_reports d_reports]; [|tauto]. intros H. apply in_or_app. now left.
Qed.
Lemma step_exec_mono V st e m : In m (d_exec st) -> In m (d_exec (step V st e)).
Proof.
  unfold step. destruct e; cbn [step_off set_now set_reports add_exec set_blocked set_curse set_known d_exec]; try tauto;
    try (intros H; apply in_or_app; now left).
  destruct (commit_ok st c lo hi); cbn [set_reports d_exec]; tauto.
Qed.
Lemma after_reports_mono V evs : forall st r, In r (d_reports st) -> In r (d_reports (state_after V st evs)).
Proof.
  unfold state_after. induction evs as [|e evs IH]; intros st r H; cbn [fold_left]; [exact H|].
  apply IH. now apply step_reports_mono.
Qed.
Lemma after_exec_mono V evs : forall st m, In m (d_exec st) -> In m (d_exec (state_after V st evs)).
Proof.
  unfold state_after. induction evs as [|e evs IH]; intros st m H; cbn [fold_left]; [exact H|].
  apply IH. now apply step_exec_mono.
Qed.
Lemma state_after_app V st evs1 evs2 :
  state_after V st (evs1 ++ evs2) = state_after V (state_after V st evs1) evs2.
Proof. unfold state_after. apply fold_left_app. Qed.

Lemma committed_mono st l m :
  committed st m = true -> committed (set_reports st (d_reports st ++ l)) m = true.
Proof.
  rewrite !committed_iff. cbn [set_reports d_reports]. intros [r [Hr H]]. exists r. split; [|exact H].
  apply in_or_app. now left.
Qed.

Lemma inv_add_exec st ms : Inv st -> (forall m, In m ms -> committed st m = true) -> Inv (add_exec st ms).
Proof.
  intros [I1 I2 I3] H. constructor; cbn [add_exec d_reports d_exec]; [exact I1|exact I2|].
  intros m Hm. apply in_app_or in Hm. unfold committed. cbn [d_reports].
  destruct Hm as [Hm|Hm]; [now apply I3|now apply H].
Qed.

Lemma step_inv V st e : Inv st -> Inv (step V st e).
Proof.
  intros I. pose proof I as [I1 I2 I3]. unfold step. destruct e; cbn [step_off].
  - constructor; assumption.
  - destruct (commit_ok st c lo hi) eqn:Hok; [|exact I].
    unfold commit_ok in Hok. rewrite !andb_true_iff, N.leb_le, N.ltb_lt, forallb_forall in Hok.
    destruct Hok as [[Hlo Hhi] Hall]. constructor; cbn [set_reports d_reports d_exec].
    + apply FOP_snoc; [exact I1|]. rewrite Forall_forall. intros a Ha. unfold ord. cbn [cr_chain cr_lo].
      intros Hc. specialize (Hall a Ha). rewrite orb_true_iff, negb_true_iff, N.eqb_neq, N.ltb_lt in Hall.
      destruct Hall; [contradiction|assumption].
    + apply Forall_app. split; [exact I2|]. constructor; [|constructor]. unfold wf_rep. cbn [cr_lo cr_hi]. lia.
    + intros m Hm. apply (committed_mono st [mkCR c id lo hi (d_now st)]). now apply I3.
  - apply inv_add_exec; [exact I|]. intros m Hm. now apply filter_In in Hm.
  - constructor; assumption.
  - constructor; assumption.
  - constructor; assumption.
  - apply inv_add_exec; [exact I|]. intros m Hm. apply filter_In in Hm. destruct Hm as [_ Hm].
    apply mem_msg_In in Hm. now apply (offered_committed V st I).
Qed.

Lemma init_inv t0 : Inv (init t0).
Proof. constructor; cbn [init d_reports d_exec]; [constructor|constructor|intros m []]. Qed.

Lemma after_inv V evs : forall st, Inv st -> Inv (state_after V st evs).
Proof.
  unfold state_after. induction evs as [|e evs IH]; intros st I; cbn [fold_left]; [exact I|].
  apply IH. now apply step_inv.
Qed.

(* the state a history reaches *)
Definition reached (V t0 : N) (evs : list event) : dest := state_after V (init t0) evs.
Lemma reached_inv V t0 evs : Inv (reached V t0 evs).
Proof. apply after_inv, init_inv. Qed.

(* the observation of every cycle of a history is [cycle_obs] of the destination as it is when the cycle starts:
   nothing else of the past enters *)
Theorem run_from_cycle V evs1 : forall st nobs land evs2,
  run_from V st (evs1 ++ ECycle nobs land :: evs2) =
  run_from V st evs1 ++ cycle_obs V (state_after V st evs1) nobs ::
  run_from V (state_after V st (evs1 ++ [ECycle nobs land])) evs2.
Proof.
  induction evs1 as [|e evs1 IH]; intros st nobs land evs2.
  - reflexivity.
  - cbn [app run_from]. rewrite IH. unfold state_after. cbn [fold_left]. now rewrite app_assoc.
Qed.

Theorem run_from_length V evs : forall st,
  length (run_from V st evs) = length (filter (fun e => match e with ECycle _ _ => true | _ => false end) evs).
Proof.
  induction evs as [|e evs IH]; intros st; [reflexivity|]. cbn [run_from filter].
  rewrite app_length, IH. destruct e; reflexivity.
Qed.

(* pending, at the start of every cycle of every history *)
Theorem hist_pending_exact V t0 evs c ex out :
  let st := reached V t0 evs in
  exec_view st c ex ->
  filter_executed (chain_reps V st c) ex = Ok out ->
  (forall r, In r (d_reports st) -> cr_chain r = c ->
     ((exists r', In r' out /\ p_id r' = cr_id r /\ p_lo r' = cr_lo r /\ p_hi r' = cr_hi r) <->
      (in_window V st r = true /\ ~ (forall s, cr_lo r <= s <= cr_hi r -> In (c, s) (d_exec st))))) /\
  (forall r' s, In r' out -> (in_runs (p_exec r') s <-> (p_lo r' <= s <= p_hi r' /\ In (c, s) (d_exec st)))).
Proof. intros st. apply cycle_pending_exact, reached_inv. Qed.

Theorem hist_filter_total V t0 evs c ex :
  let st := reached V t0 evs in
  exec_view st c ex -> exists out, filter_executed (chain_reps V st c) ex = Ok out.
Proof. intros st Hv. eexists. apply chain_filter_ok; [apply reached_inv|exact Hv]. Qed.

Theorem hist_exec_view_exists V t0 evs c : exec_view (reached V t0 evs) c (exec_ranges (reached V t0 evs) c).
Proof. apply exec_ranges_view, reached_inv. Qed.

(* a message executed at some point of a history is in the candidate set of no later cycle *)
Theorem hist_never_reexecuted V t0 evs1 evs2 m :
  In m (d_exec (reached V t0 evs1)) -> ~ In m (offered V (reached V t0 (evs1 ++ evs2))).
Proof.
  intros Hex Hoff. apply (offered_iff V _ (reached_inv V t0 (evs1 ++ evs2))) in Hoff.
  destruct Hoff as [_ [_ [_ [Hn _]]]]. apply Hn. unfold reached. rewrite state_after_app. now apply after_exec_mono.
Qed.

(* nothing is lost: a message of a committed report is in the candidate set of EVERY later cycle in which it is still
   unexecuted, inside the window, of a live chain and ready - whatever happened to the reports of the cycles in
   between (landed, landed partly, never landed) *)
Theorem hist_no_loss V t0 evs1 evs2 r s :
  let st2 := reached V t0 (evs1 ++ evs2) in
  In r (d_reports (reached V t0 evs1)) -> cr_lo r <= s <= cr_hi r ->
  cycle_open st2 = true -> In (cr_chain r) (live_chains st2) -> in_window V st2 r = true ->
  ~ In (cr_chain r, s) (d_exec st2) -> ~ In (cr_chain r, s) (d_blocked st2) ->
  In (cr_chain r, s) (offered V st2).
Proof.
  intros st2 Hr Hs Hopen Hlive Hwin Hnex Hnbl.
  apply (offered_iff V st2 (reached_inv V t0 (evs1 ++ evs2))). unfold candidate. cbn [fst snd].
  split; [exact Hopen|]. split; [exact Hlive|]. split; [|split; assumption].
  exists r. split; [|tauto]. unfold st2, reached. rewrite state_after_app. now apply after_reports_mono.
Qed.

(* what lands with a cycle was in its report; what is executed was committed *)
Theorem hist_executed_committed V t0 evs m :
  In m (d_exec (reached V t0 evs)) -> committed (reached V t0 evs) m = true.
Proof. apply (inv_exec _ (reached_inv V t0 evs)). Qed.

(* ---------- non-vacuity: two reports committed at different times; the first cycle's report (everything but the
   not-ready message 14) never lands; the second cycle reads from the same window and offers the same messages
   again; then 10..12 land late, the clock moves report 1 out of the window, and only 13 is left ---------- *)
Definition ex_events : list event :=
  [ESources [1]; ECommit 1 1 10 12; ETick 30; ECommit 1 2 13 14; EBlocked [(1, 14)];
   ECycle 4 []; ECycle 4 []; EExec [(1, 10); (1, 11); (1, 12)]; ETick 40; ECycle 4 [(1, 13)]; ECycle 4 []].
Example ex_history :
  run_from 60 (init 1000) ex_events =
  [ ([(970, 1000); (970, 1000); (970, 1000); (970, 1000)],
     [(1, mkRep 1 10 12 []); (1, mkRep 2 13 14 [])], [(1, 10); (1, 11); (1, 12); (1, 13)],
     [(1, mkRep 2 13 14 [(13, 13)])]);
    ([(970, 1000); (970, 1000); (970, 1000); (970, 1000)],
     [(1, mkRep 1 10 12 []); (1, mkRep 2 13 14 [])], [(1, 10); (1, 11); (1, 12); (1, 13)],
     [(1, mkRep 2 13 14 [(13, 13)])]);
    ([(1010, 1000); (1010, 1000); (1010, 1000); (1010, 1000)],
     [(1, mkRep 2 13 14 [])], [(1, 13)], [(1, mkRep 2 13 14 [(13, 13)])]);
    ([(1010, 1000); (1010, 1000); (1010, 1000); (1010, 1000)],
     [(1, mkRep 2 13 14 [(13, 13)])], [], [(1, mkRep 2 13 14 [(13, 13)])]) ].
Proof. vm_compute. reflexivity. Qed.

Example ex_no_loss_hyps :
  let st2 := reached 60 1000 (firstn 6 ex_events ++ []) in
  In (mkCR 1 1 10 12 1000) (d_reports (reached 60 1000 (firstn 6 ex_events))) /\
  cycle_open st2 = true /\ In 1 (live_chains st2) /\ in_window 60 st2 (mkCR 1 1 10 12 1000) = true /\
  ~ In (1, 11) (d_exec st2) /\ ~ In (1, 11) (d_blocked st2).
Proof.
  vm_compute. repeat split; try (left; reflexivity); try reflexivity; intros H; repeat destruct H as [H|H]; try discriminate H; exact H.
Qed.

(* ---------- F55: a pending commit report whose messages do not fit one observation ----------
   getMessagesObservation ends with truncateObservation (Model/Truncate.v).  When the observation is down to ONE commit
   report of ONE chain and still exceeds maxObservationLength, the report is removed as well and the function returns
   the error "no more data to truncate": the GetMessages observation of every oracle fails, no outcome is produced,
   the next round starts from the same previous outcome and fails the same way.  The candidate set of the theorems
   above is therefore reached only under the explicit condition "everything fits". *)
Require Import Verif.Model.Truncate.
Theorem oversized_report_no_observation (size : tobs -> N) (max : Z) (pick : nat -> tobs -> N)
        (c : N) (d : tcommit) msgs toks costly nonces :
  let o := mkTObs [(c, [d])] msgs toks costly nonces in
  (max < Z.of_N (size o))%Z -> truncate size max pick o = Err.
Proof.
  intros o Hbig. unfold truncate. cbn [measure t_commits fold_right o snd length Nat.max Nat.add loop].
  unfold too_big. destruct (Z.ltb_spec max (Z.of_N (size o))) as [_|H]; [|lia].
  cbn [chain_for tkeys t_commits map fst o Nat.eqb hd]. unfold sortN. cbn [sort_by insert_by hd rbind].
  unfold step. cbn [alookup t_commits o]. rewrite N.eqb_refl. cbn [length Nat.ltb Nat.leb].
  unfold truncate_chain. cbn [alookup t_commits o]. rewrite N.eqb_refl.
  cbn [rbind t_commits aremove filter fst o]. rewrite N.eqb_refl. reflexivity.
Qed.
Example oversized_report_example :
  truncate (fun o => 2000000 * N.of_nat (length (t_msgs o)) + 100) 1048576 (fun _ _ => 1)
           (mkTObs [(1, [mkTC 1 10 12])] [(1, 10, 1); (1, 11, 2); (1, 12, 3)] [] [] []) = Err.
Proof. vm_compute. reflexivity. Qed.

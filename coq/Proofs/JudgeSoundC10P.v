(* JudgeSoundC10P.v — the executable property of Check/C10_check.v (det_ok: "the harness saw exactly one distinct
   result") and the determinism theorems of Props/C10.v.  The sink's output is a COUNT the harness computes (distinct
   encoded Outcome + Reports over R evaluations on fresh instances, fresh Go maps, other own ids, other time zones), so
   det_ok is literally "count = model's count" with the model's count the constant 1:
   (a) the model passes, premise-free; (b) soundness is the equality count = 1; and the constant 1 is what the
   theorems say: over ANY non-empty family of runs — every run with its own runtime (internal map iteration orders)
   and its own re-ordering of the input's maps — the set of distinct results is a singleton. *)
Require Import Verif.Model.Base Verif.Proofs.BaseP Verif.Model.Consensus Verif.Model.Determinism
               Verif.Proofs.DeterminismP Verif.Model.Transmit Verif.Proofs.TransmitP.
Require Import Verif.Model.DeterminismSys Verif.Proofs.DeterminismSysP.
Require Import Verif.Check.C10_check.

(* ---------- (a) / (b) ---------- *)
Theorem det_model_passes : forall i, det_ok i (det_model i) = true.
Proof. intros i. reflexivity. Qed.

Theorem det_sound : forall i o, det_ok i o = true -> o = det_model i.
Proof. intros i o H. unfold det_ok in H. apply N.eqb_eq in H. exact H. Qed.

Example det_ok_example :
  det_ok (0%N, 0%N, 6%N, 77%N) 1%N = true /\ det_ok (0%N, 0%N, 6%N, 77%N) 2%N = false /\
  det_ok (1%N, 0%N, 6%N, 77%N) 0%N = false.
Proof. vm_compute. repeat split. Qed.

(* ---------- what "n distinct results" means for a list of results ---------- *)
Definition distinct_count {A} (results : list A) (n : N) : Prop :=
  exists reps, NoDup reps /\ (forall x, In x results <-> In x reps) /\ n = N.of_nat (length reps).

Lemma distinct_count_all_equal {A} (results : list A) (r0 : A) :
  results <> [] -> (forall r, In r results -> r = r0) -> distinct_count results 1.
Proof.
  intros Hne Hall. exists [r0]. split; [constructor; [intros []|constructor]|]. split; [|reflexivity].
  intros x. split.
  - intros Hx. left. symmetry. now apply Hall.
  - intros [<-|[]]. destruct results as [|r l]; [contradiction|]. left. apply Hall. now left.
Qed.

Lemma distinct_count_unique {A} (results : list A) n m :
  distinct_count results n -> distinct_count results m -> n = m.
Proof.
  intros (r1 & N1 & M1 & ->) (r2 & N2 & M2 & ->). f_equal.
  apply Nat.le_antisymm; apply NoDup_incl_length; try assumption; intros x Hx.
  - apply M2, M1, Hx.
  - apply M1, M2, Hx.
Qed.

(* ---------- the model's constant is the theorems' conclusion ---------- *)
Section Runs.
  Context {RT IN OUT : Type} (eval : RT -> IN -> OUT) (rt_ok : RT -> Prop) (reorder : IN -> IN -> Prop).
  Variable rt0 : RT.
  Hypothesis rt0_ok : rt_ok rt0.
  Hypothesis deterministic : forall rt rt' i i', rt_ok rt -> rt_ok rt' -> reorder i i' -> eval rt i = eval rt' i'.

  (* runs = the R evaluations: each with its own runtime and its own re-ordered copy of the input i *)
  Lemma runs_one_result (i : IN) (runs : list (RT * IN)) (x : det_in) :
    runs <> [] -> (forall rt i', In (rt, i') runs -> rt_ok rt /\ reorder i i') ->
    distinct_count (map (fun r => eval (fst r) (snd r)) runs) (det_model x).
  Proof.
    intros Hne Hruns. unfold det_model. apply (distinct_count_all_equal _ (eval rt0 i)).
    - destruct runs; [contradiction|discriminate].
    - intros r Hr. apply in_map_iff in Hr. destruct Hr as [[rt i'] [<- Hin]]. cbn [fst snd].
      destruct (Hruns rt i' Hin) as [Hok Hre]. symmetry. now apply deterministic.
  Qed.
End Runs.

Theorem det_model_commit_outcome : forall (i : commit_in) (runs : list (commit_rt * commit_in)) (x : det_in),
  runs <> [] -> (forall rt i', In (rt, i') runs -> commit_rt_ok rt /\ commit_reorder i i') ->
  distinct_count (map (fun r => commit_outcome_canon_rt (fst r) (snd r)) runs) (det_model x).
Proof.
  intros i runs x. apply (runs_one_result commit_outcome_canon_rt commit_rt_ok commit_reorder commit_rt_id commit_rt_id_ok).
  exact commit_outcome_deterministic.
Qed.

(* reports: every run may also see the role map and the oracle id set in its own iteration order *)
Theorem det_model_commit_reports :
  forall roles order mult (i : commit_in) (runs : list (commit_rt * (commit_in * CommitConsensus.roles_t * list N))) (x : det_in),
  runs <> [] ->
  (forall rt i' roles' order', In (rt, (i', roles', order')) runs ->
     commit_rt_ok rt /\ commit_reorder i i' /\ roles_reorder roles roles' /\ Permutation order order') ->
  distinct_count (map (fun r => commit_reports_canon_rt (fst r) (fst (fst (snd r))) (snd (fst (snd r))) (snd (snd r)) mult) runs)
                 (det_model x).
Proof.
  intros roles order mult i runs x Hne Hruns.
  apply (runs_one_result (fun rt a => commit_reports_canon_rt rt (fst (fst a)) (snd (fst a)) (snd a) mult)
           commit_rt_ok
           (fun a b => commit_reorder (fst (fst a)) (fst (fst b)) /\ roles_reorder (snd (fst a)) (snd (fst b)) /\
                       Permutation (snd a) (snd b))
           commit_rt_id commit_rt_id_ok) with (i := (i, roles, order)).
  - intros rt rt' a b H1 H2 (H3 & H4 & H5). now apply commit_reports_deterministic.
  - exact Hne.
  - intros rt [[i' roles'] order'] Hin. cbn [fst snd]. destruct (Hruns rt i' roles' order' Hin) as (A & B & C & D). tauto.
Qed.

Section ExecRuns.
  Variable hash : N -> N -> N.
  Variable zero : N.
  Variable leaf_hash : ExecReport.msg -> option N.
  Variable enc_size : ExecReport.creport -> option N.
  Variable tree_gas : N -> N.
  Variable max_size max_gas : N.
  Variable nid : nonce3 -> N.

  Theorem det_model_exec_outcome : forall (i : exec_in) (runs : list (exec_rt * exec_in)) (x : det_in),
    exec_ids_faithful nid i ->
    runs <> [] -> (forall rt i', In (rt, i') runs -> exec_rt_ok rt /\ exec_reorder i i') ->
    distinct_count (map (fun r => exec_outcome_canon_rt nid hash zero leaf_hash enc_size tree_gas max_size max_gas
                                                        (fst r) (snd r)) runs) (det_model x).
  Proof.
    intros i runs x Hf Hne Hruns. unfold det_model.
    apply (distinct_count_all_equal _ (exec_outcome_canon_rt nid hash zero leaf_hash enc_size tree_gas max_size max_gas
                                                             exec_rt_id i)).
    - destruct runs; [contradiction|discriminate].
    - intros r Hr. apply in_map_iff in Hr. destruct Hr as [[rt i'] [<- Hin]]. cbn [fst snd].
      destruct (Hruns rt i' Hin) as [Hok Hre]. symmetry.
      apply exec_outcome_deterministic; try assumption. apply exec_rt_id_ok.
  Qed.
End ExecRuns.

(* not vacuous: two runs of the 4-oracle commit round of C10_commit_example — insertion-order runtime and
   reversing runtime, both on the all-maps-reversed input — are a family the theorem applies to, and they are different runs *)
Example det_model_commit_example :
  let runs := [(commit_rt_id, commit_in_rev ex_ci); (commit_rt_rev, commit_in_rev ex_ci)] in
  (forall rt i', In (rt, i') runs -> commit_rt_ok rt /\ commit_reorder ex_ci i') /\
  ex_ci <> commit_in_rev ex_ci /\
  distinct_count (map (fun r => commit_outcome_canon_rt (fst r) (snd r)) runs) 1.
Proof.
  cbv zeta. destruct commit_example as (Hre & Hne & _).
  assert (Hruns : forall rt i', In (rt, i') [(commit_rt_id, commit_in_rev ex_ci); (commit_rt_rev, commit_in_rev ex_ci)] ->
                                commit_rt_ok rt /\ commit_reorder ex_ci i').
  { intros rt i' [[= <- <-]|[[= <- <-]|[]]].
    - split; [apply commit_rt_id_ok|exact Hre].
    - split; [apply commit_rt_rev_ok|exact Hre]. }
  split; [exact Hruns|]. split; [exact Hne|].
  apply (det_model_commit_outcome ex_ci _ (0%N, 0%N, 2%N, 0%N)); [discriminate|exact Hruns].
Qed.

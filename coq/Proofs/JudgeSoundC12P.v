(* JudgeSoundC12P.v — the executable properties of Check/C12_check.v (cv_ok, ev_ok, cvh_ok, evh_ok) ARE the C12
   verdict characterisation: (a) the model's own verdict passes them, (b) a verdict that passes them satisfies the
   Prop-level statement of Props/C12.v (accepted IFF observer known, destination configured, well-formed, every field
   about a designated chain), and outside the recorded class it is exactly the verdict of C12_commit_verdict /
   C12_exec_verdict. *)
Require Import Verif.Model.Base Verif.Model.Roles Verif.Model.Pollers Verif.Model.RolesHist.
Require Import Verif.Proofs.BaseP Verif.Proofs.RolesP Verif.Proofs.PollersP Verif.Proofs.RolesHistP.
Require Import Verif.Check.C12_check Verif.Proofs.JudgeSoundRolesHistP.

(* ---------- the executable properties as they were before this pass (copied) ---------- *)
Definition cv_ok_before (i : cv_in) (v : bool) : bool :=
  let '(g, c, retry, o, ob) := i in commit_prop_check g retry o (strip_cd (cctx_disc c) ob) v.
Definition ev_ok_before (i : ev_in) (v : bool) : bool :=
  let '(g, c, o, ob) := i in exec_prop_check g o (strip_ed (ectx_disc c) ob) v.

(* the Prop-level clause: the verdict characterisation with "every field" read at full strength (recorded class included) *)
Definition commit_verdict_P (g : cfg) (retry : bool) (o : N) (ob : cobs) (v : bool) : Prop :=
  v = true <->
  (known_oracle g o = true /\ dest_configured g = true /\ wf_commit retry ob = true /\
   forall cl c, In (cl, c) (cfields g ob) -> designated g o c = true).
Definition exec_verdict_P (g : cfg) (o : N) (ob : eobs) (v : bool) : Prop :=
  v = true <->
  (known_oracle g o = true /\ wf_exec ob = true /\ chains_known g ob = true /\
   forall cl c, In (cl, c) (efields g ob) -> designated g o c = true).

(* ---------- the old checks accepted verdicts the characterisation excludes ---------- *)
(* oracle 0 reads every chain; duplicate merkle roots for chain 5: malformed, C12_commit_verdict says rejected;
   the old property passed the verdict "accepted" *)
Definition cv_unsound_in : cv_in :=
  (g_ex, (0%N, false, false, true, true), false, 0%N,
   mkCobs (mkMobs [5%N; 5%N] [] [] rmn_none fc_ex) tobs0 fobs0 [] fc_ex).
Example cv_ok_before_unsound :
  cv_ok_before cv_unsound_in true = true /\ cv_model cv_unsound_in = false /\
  ~ (let '(g, c, retry, o, ob) := cv_unsound_in in commit_verdict_P g retry o (strip_cd (cctx_disc c) ob) true) /\
  cv_ok cv_unsound_in true = false.
Proof.
  repeat split; try (vm_compute; reflexivity).
  intros H. cbv beta iota zeta delta [cv_unsound_in commit_verdict_P] in H.
  destruct (proj1 H eq_refl) as (_ & _ & Hw & _). vm_compute in Hw. discriminate.
Qed.

(* oracle 7 has no peer id; its empty execute observation: C12_exec_verdict says rejected; overlapping commit reports
   from oracle 0: malformed.  Both passed the old property with the verdict "accepted" *)
Definition ev_unsound_in1 : ev_in := (g_ex, (0%N, true, true), 7%N, eobs0).
Definition ev_unsound_in2 : ev_in :=
  (g_ex, (0%N, true, true), 0%N, mkEobs [(5%N, [mkCdata 1 1 4 []; mkCdata 2 3 8 []])] [] true [] 0 [] []).
Example ev_ok_before_unsound :
  ev_ok_before ev_unsound_in1 true = true /\ ev_model ev_unsound_in1 = false /\ ev_ok ev_unsound_in1 true = false /\
  ev_ok_before ev_unsound_in2 true = true /\ ev_model ev_unsound_in2 = false /\ ev_ok ev_unsound_in2 true = false /\
  ~ (let '(g, c, o, ob) := ev_unsound_in1 in exec_verdict_P g o (strip_ed (ectx_disc c) ob) true) /\
  ~ (let '(g, c, o, ob) := ev_unsound_in2 in exec_verdict_P g o (strip_ed (ectx_disc c) ob) true).
Proof.
  repeat split; try (vm_compute; reflexivity).
  - intros H. cbv beta iota zeta delta [ev_unsound_in1 exec_verdict_P] in H.
    destruct (proj1 H eq_refl) as (Hk & _). vm_compute in Hk. discriminate.
  - intros H. cbv beta iota zeta delta [ev_unsound_in2 exec_verdict_P] in H.
    destruct (proj1 H eq_refl) as (_ & Hw & _). vm_compute in Hw. discriminate.
Qed.

(* ---------- the checks and the Prop-level clause ---------- *)
Lemma bad_not_nil g o fs :
  is_nil (bad_fields g o fs) = false -> exists cl c, In (cl, c) fs /\ designated g o c = false.
Proof.
  unfold bad_fields. destruct (filter _ fs) as [|[cl c] l] eqn:E; [discriminate|]. intros _.
  assert (Hf : In (cl, c) (filter (fun p => negb (designated g o (snd p))) fs)) by (rewrite E; now left).
  apply filter_In in Hf. destruct Hf as [Hin Hb]. cbn [snd] in Hb. exists cl, c. split; [exact Hin|].
  now destruct (designated g o c).
Qed.

Lemma commit_verdict_check_iff g retry o ob v :
  commit_verdict_check g retry o ob v = true <-> commit_verdict_P g retry o ob v.
Proof.
  unfold commit_verdict_check, commit_verdict_P.
  destruct (is_nil (bad_fields g o (cfields g ob))) eqn:E.
  - pose proof (proj1 (bad_nil_iff g o _) E) as Hall.
    destruct v, (known_oracle g o), (dest_configured g), (wf_commit retry ob); cbn; intuition congruence.
  - destruct (bad_not_nil g o _ E) as (cl & c & Hin & Hd).
    assert (Hno : ~ (forall cl c, In (cl, c) (cfields g ob) -> designated g o c = true)).
    { intros Hall. rewrite (Hall cl c Hin) in Hd. discriminate. }
    destruct v; cbn; intuition congruence.
Qed.

Lemma exec_verdict_check_iff g o ob v :
  exec_verdict_check g o ob v = true <-> exec_verdict_P g o ob v.
Proof.
  unfold exec_verdict_check, exec_verdict_P.
  destruct (is_nil (bad_fields g o (efields g ob))) eqn:E.
  - pose proof (proj1 (bad_nil_iff g o _) E) as Hall.
    destruct v, (known_oracle g o), (wf_exec ob), (chains_known g ob); cbn; intuition congruence.
  - destruct (bad_not_nil g o _ E) as (cl & c & Hin & Hd).
    assert (Hno : ~ (forall cl c, In (cl, c) (efields g ob) -> designated g o c = true)).
    { intros Hall. rewrite (Hall cl c Hin) in Hd. discriminate. }
    destruct v; cbn; intuition congruence.
Qed.

(* the checks pin the verdict down: at most one verdict passes *)
Lemma commit_verdict_check_unique g retry o ob v1 v2 :
  commit_verdict_check g retry o ob v1 = true -> commit_verdict_check g retry o ob v2 = true -> v1 = v2.
Proof.
  unfold commit_verdict_check. destruct (is_nil _); intros H1 H2.
  - apply eqb_prop in H1. apply eqb_prop in H2. congruence.
  - destruct v1, v2; cbn in *; congruence.
Qed.
Lemma exec_verdict_check_unique g o ob v1 v2 :
  exec_verdict_check g o ob v1 = true -> exec_verdict_check g o ob v2 = true -> v1 = v2.
Proof.
  unfold exec_verdict_check. destruct (is_nil _); intros H1 H2.
  - apply eqb_prop in H1. apply eqb_prop in H2. congruence.
  - destruct v1, v2; cbn in *; congruence.
Qed.

(* strictly stronger than the old checks *)
Lemma commit_verdict_check_stronger g retry o ob v :
  commit_verdict_check g retry o ob v = true -> commit_prop_check g retry o ob v = true.
Proof.
  unfold commit_verdict_check, commit_prop_check. destruct (is_nil _); [|trivial].
  intros H. apply eqb_prop in H. rewrite <- H. now destruct v.
Qed.
Lemma exec_verdict_check_stronger g o ob v :
  exec_verdict_check g o ob v = true -> exec_prop_check g o ob v = true.
Proof.
  unfold exec_verdict_check, exec_prop_check. destruct (is_nil _); [|trivial].
  intros H. apply eqb_prop in H. rewrite <- H. now destruct v.
Qed.

(* ---------- the model's verdict passes, outside the recorded class ---------- *)
Lemma commit_verdict_check_model g retry o ob :
  known_code (bad_fields g o (cfields g ob)) = 0%N ->
  commit_verdict_check g retry o ob (validate_commit g retry o ob) = true.
Proof.
  intros Hk. unfold commit_verdict_check. destruct (known_code_zero_inv _ Hk) as [Hnil|[cl [c [Hin Hc]]]].
  - rewrite Hnil. cbn [is_nil]. rewrite validate_commit_factor.
    destruct (known_oracle g o) eqn:Hko; cbn [andb]; [|reflexivity].
    rewrite (fields_pass_designated g o _ Hko), andb_true_r; [apply eqb_reflx|].
    apply bad_nil_iff. now rewrite Hnil.
  - assert (Hne : is_nil (bad_fields g o (cfields g ob)) = false).
    { destruct (bad_fields g o (cfields g ob)); [contradiction|reflexivity]. }
    rewrite Hne. unfold bad_fields in Hin. apply filter_In in Hin. destruct Hin as [Hin Hb]. cbn [snd] in Hb.
    rewrite (commit_reject_field g retry o ob cl c Hin Hc); [reflexivity|]. now destruct (designated g o c).
Qed.

Lemma exec_verdict_check_model g o ob :
  known_code (bad_fields g o (efields g ob)) = 0%N ->
  exec_verdict_check g o ob (validate_exec g o ob) = true.
Proof.
  intros Hk. unfold exec_verdict_check. destruct (known_code_zero_inv _ Hk) as [Hnil|[cl [c [Hin Hc]]]].
  - rewrite Hnil. cbn [is_nil]. rewrite validate_exec_factor.
    destruct (known_oracle g o) eqn:Hko; cbn [andb]; [|reflexivity].
    rewrite (fields_pass_designated g o _ Hko), andb_true_r; [apply eqb_reflx|].
    apply bad_nil_iff. now rewrite Hnil.
  - assert (Hne : is_nil (bad_fields g o (efields g ob)) = false).
    { destruct (bad_fields g o (efields g ob)); [contradiction|reflexivity]. }
    rewrite Hne. unfold bad_fields in Hin. apply filter_In in Hin. destruct Hin as [Hin Hb]. cbn [snd] in Hb.
    rewrite (exec_reject_field g o ob cl c Hin Hc); [reflexivity|]. now destruct (designated g o c).
Qed.

(* no field class of a commit observation is a recorded one: the commit sink has no known class at all *)
Lemma forallb_const_true {A} (l : list A) : forallb (fun _ => true) l = true.
Proof. induction l as [|x l IH]; [reflexivity|exact IH]. Qed.

Lemma dfields_classes g d : forallb (fun p => negb (known_class (fst p))) (dfields g d) = true.
Proof.
  unfold dfields. rewrite forallb_flat_map. apply forallb_forall. intros e _.
  destruct (dname_own (fst e)).
  - rewrite forallb_tag. cbn [fst known_class negb]. apply forallb_const_true.
  - destruct (dname_dest (fst e)); reflexivity.
Qed.

Lemma cfields_classes g ob : forallb (fun p => negb (known_class (fst p))) (cfields g ob) = true.
Proof.
  unfold cfields. rewrite !forallb_app, !forallb_tag, !forallb_tag1, dfields_classes.
  cbn [fst known_class negb]. rewrite !forallb_const_true, !orb_true_r. reflexivity.
Qed.

Lemma commit_known_code_zero g o ob : known_code (bad_fields g o (cfields g ob)) = 0%N.
Proof.
  unfold known_code. destruct (bad_fields g o (cfields g ob)) as [|p l] eqn:E; [reflexivity|].
  assert (Hp : In p (cfields g ob)).
  { assert (Hf : In p (bad_fields g o (cfields g ob))) by (rewrite E; now left).
    unfold bad_fields in Hf. apply filter_In in Hf. tauto. }
  pose proof (forallb_In _ _ _ (cfields_classes g ob) Hp) as Hc. cbn beta in Hc.
  cbn [existsb]. now rewrite Hc.
Qed.

(* ====================================================================================================
   sink C12_commit (cv_judge)
   ==================================================================================================== *)
Theorem cv_known_zero : forall i, cv_known i = 0%N.
Proof. intros [[[[g c] retry] o] ob]. unfold cv_known. apply commit_known_code_zero. Qed.

Theorem cv_model_passes : forall i, cv_ok i (cv_model i) = true.
Proof.
  intros [[[[g c] retry] o] ob]. unfold cv_ok, cv_model. apply commit_verdict_check_model, commit_known_code_zero.
Qed.

(* a verdict that passes is the model's, i.e. exactly the right-hand side of C12_commit_verdict *)
Theorem cv_sound_model : forall i v, cv_ok i v = true -> v = cv_model i.
Proof.
  intros i v H. pose proof (cv_model_passes i) as Hm. destruct i as [[[[g c] retry] o] ob].
  unfold cv_ok in *. exact (commit_verdict_check_unique _ _ _ _ _ _ H Hm).
Qed.

Theorem cv_sound : forall g c retry o ob v,
  cv_ok (g, c, retry, o, ob) v = true ->
  let ob' := strip_cd (cctx_disc c) ob in
  (v = true <->
   (known_oracle g o = true /\ dest_configured g = true /\ wf_commit retry ob' = true /\
    forall cl ch, In (cl, ch) (cfields g ob') -> designated g o ch = true)) /\
  v = known_oracle g o && dest_configured g && wf_commit retry ob' && forallb (field_pass g o) (cfields g ob').
Proof.
  intros g c retry o ob v H ob'. split.
  - unfold cv_ok in H. exact (proj1 (commit_verdict_check_iff g retry o ob' v) H).
  - rewrite (cv_sound_model _ _ H). unfold cv_model. fold ob'. apply validate_commit_factor.
Qed.

(* representative transfer: every reject theorem of Props/C12.v holds of a verdict that passes, e.g. merkle roots *)
Corollary cv_sound_reject_field : forall g c retry o ob v cl ch,
  cv_ok (g, c, retry, o, ob) v = true ->
  In (cl, ch) (cfields g (strip_cd (cctx_disc c) ob)) -> designated g o ch = false -> v = false.
Proof.
  intros g c retry o ob v cl ch H Hin Hd. destruct (cv_sound g c retry o ob v H) as [Hiff _].
  destruct v; [|reflexivity]. destruct (proj1 Hiff eq_refl) as (_ & _ & _ & Hall).
  rewrite (Hall cl ch Hin) in Hd. discriminate.
Qed.
Corollary cv_sound_reject_merkle_roots : forall g c retry o ob v ch,
  cv_ok (g, c, retry, o, ob) v = true ->
  In ch (m_roots (co_m ob)) -> designated g o ch = false -> v = false.
Proof.
  intros g c retry o ob v ch H Hin Hd. rewrite (cv_sound_model _ _ H). unfold cv_model.
  apply (reject_merkle_roots g retry o _ ch); [|exact Hd]. unfold strip_cd. now destruct (cctx_disc c).
Qed.

(* not vacuous: a 15-field observation accepted, the same one from oracle 3 rejected *)
Example cv_ok_example :
  cv_ok (g_ex, (0%N, false, false, true, true), false, 0%N, cobs_full) true = true /\
  cv_ok (g_ex, (0%N, false, false, true, true), false, 3%N, cobs_full) false = true /\
  cv_ok (g_ex, (0%N, false, false, true, true), false, 3%N, cobs_full) true = false.
Proof. vm_compute. repeat split. Qed.

(* ====================================================================================================
   sink C12_exec (ev_judge)
   ==================================================================================================== *)
Theorem ev_model_passes : forall i, ev_known i = 0%N -> ev_ok i (ev_model i) = true.
Proof.
  intros [[[g c] o] ob]. unfold ev_known, ev_ok, ev_model. apply exec_verdict_check_model.
Qed.

(* outside the recorded class a verdict that passes is the model's (the right-hand side of C12_exec_verdict) *)
Theorem ev_sound_model : forall i v, ev_known i = 0%N -> ev_ok i v = true -> v = ev_model i.
Proof.
  intros i v Hk H. pose proof (ev_model_passes i Hk) as Hm. destruct i as [[[g c] o] ob].
  unfold ev_ok in *. exact (exec_verdict_check_unique _ _ _ _ _ H Hm).
Qed.

Lemma known_code_nonzero_bad bad : known_code bad <> 0%N -> bad <> [].
Proof. intros H ->. now apply H. Qed.

Theorem ev_sound : forall g c o ob v,
  ev_ok (g, c, o, ob) v = true ->
  let ob' := strip_ed (ectx_disc c) ob in
  (v = true <->
   (known_oracle g o = true /\ wf_exec ob' = true /\ chains_known g ob' = true /\
    forall cl ch, In (cl, ch) (efields g ob') -> designated g o ch = true)) /\
  (ev_known (g, c, o, ob) = 0%N ->
   v = known_oracle g o && wf_exec ob' && forallb (field_pass g o) (efields g ob') && chains_known g ob') /\
  (ev_known (g, c, o, ob) <> 0%N -> v = false).
Proof.
  intros g c o ob v H ob'. split; [|split].
  - unfold ev_ok in H. exact (proj1 (exec_verdict_check_iff g o ob' v) H).
  - intros Hk. rewrite (ev_sound_model _ _ Hk H). unfold ev_model. fold ob'. apply validate_exec_factor.
  - intros Hk. unfold ev_known in Hk. fold ob' in Hk. apply known_code_nonzero_bad in Hk.
    unfold ev_ok in H. fold ob' in H. unfold exec_verdict_check in H.
    destruct (bad_fields g o (efields g ob')); [contradiction|]. cbn [is_nil] in H. now destruct v.
Qed.

Corollary ev_sound_reject_field : forall g c o ob v cl ch,
  ev_ok (g, c, o, ob) v = true ->
  In (cl, ch) (efields g (strip_ed (ectx_disc c) ob)) -> designated g o ch = false -> v = false.
Proof.
  intros g c o ob v cl ch H Hin Hd. destruct (ev_sound g c o ob v H) as [Hiff _].
  destruct v; [|reflexivity]. destruct (proj1 Hiff eq_refl) as (_ & _ & _ & Hall).
  rewrite (Hall cl ch Hin) in Hd. discriminate.
Qed.
Corollary ev_sound_reject_messages : forall g c o ob v ch n,
  ev_ok (g, c, o, ob) v = true ->
  In (ch, n) (e_msgs ob) -> n <> 0%N -> designated g o ch = false -> v = false.
Proof.
  intros g c o ob v ch n H Hin Hn Hd. apply (ev_sound_reject_field g c o ob v FMessages ch H); [|exact Hd].
  assert (Hm : e_msgs (strip_ed (ectx_disc c) ob) = e_msgs ob) by (unfold strip_ed; now destruct (ectx_disc c)).
  unfold efields. apply in_or_app; left. apply in_tag. rewrite Hm. unfold nonempty_keys.
  change ch with (fst (ch, n)). apply in_map. apply filter_In. split; [exact Hin|].
  cbn [snd]. destruct (N.eqb_spec n 0); [contradiction|reflexivity].
Qed.

(* not vacuous; the last two: inside the recorded class (commit reports from oracle 3, no destination access) the
   property demands "rejected" although the model — like the code — accepts *)
Example ev_ok_example :
  ev_ok (g_ex, (0%N, true, true), 0%N, eobs_full) true = true /\ ev_known (g_ex, (0%N, true, true), 0%N, eobs_full) = 0%N /\
  ev_ok (g_ex, (0%N, true, true), 3%N, eobs_full) false = true /\
  ev_known (g_ex, (0%N, true, true), 3%N, mkEobs [(5%N, [mkCdata 1 1 4 []])] [] true [] 0 [] []) = 9%N /\
  ev_ok (g_ex, (0%N, true, true), 3%N, mkEobs [(5%N, [mkCdata 1 1 4 []])] [] true [] 0 [] []) false = true /\
  ev_model (g_ex, (0%N, true, true), 3%N, mkEobs [(5%N, [mkCdata 1 1 4 []])] [] true [] 0 [] []) = true.
Proof. vm_compute. repeat split. Qed.

(* ====================================================================================================
   sinks C12_commit_hist / C12_exec_hist (cvh_judge, evh_judge): the same, on the configuration of the most recent
   successful poll.  [short_poll]: a scripted poll answers with one page below the page size of 100 chain configs
   (the harness scripts at most a handful of chains).
   ==================================================================================================== *)
Theorem cvh_model_passes : forall x, Forall short_poll (hctx_polls (fst x)) -> cvh_ok x (cvh_model x) = true.
Proof.
  intros x Hs. unfold cvh_ok, cvh_model. rewrite (hctx_model_spec _ Hs). apply cv_model_passes.
Qed.

Theorem cvh_sound : forall h c retry o ob v,
  cvh_ok (h, (c, retry, o, ob)) v = true ->
  let g := hctx_spec h in
  let ob' := strip_cd (cctx_disc c) ob in
  (v = true <->
   (known_oracle g o = true /\ dest_configured g = true /\ wf_commit retry ob' = true /\
    forall cl ch, In (cl, ch) (cfields g ob') -> designated g o ch = true)) /\
  v = known_oracle g o && dest_configured g && wf_commit retry ob' && forallb (field_pass g o) (cfields g ob') /\
  (Forall short_poll (hctx_polls h) -> v = cvh_model (h, (c, retry, o, ob))).
Proof.
  intros h c retry o ob v H g ob'. unfold cvh_ok in H. cbn [fst snd cvh_at] in H. fold g in H.
  destruct (cv_sound g c retry o ob v H) as [H1 H2]. split; [exact H1|]. split; [exact H2|].
  intros Hs. unfold cvh_model. cbn [fst snd cvh_at]. rewrite (hctx_model_spec _ Hs). fold g.
  exact (cv_sound_model _ _ H).
Qed.

Theorem evh_model_passes : forall x,
  Forall short_poll (hctx_polls (fst x)) -> evh_known x = 0%N -> evh_ok x (evh_model x) = true.
Proof.
  intros x Hs Hk. unfold evh_ok, evh_model. rewrite (hctx_model_spec _ Hs). apply ev_model_passes. exact Hk.
Qed.

Theorem evh_sound : forall h c o ob v,
  evh_ok (h, (c, o, ob)) v = true ->
  let g := hctx_spec h in
  let ob' := strip_ed (ectx_disc c) ob in
  (v = true <->
   (known_oracle g o = true /\ wf_exec ob' = true /\ chains_known g ob' = true /\
    forall cl ch, In (cl, ch) (efields g ob') -> designated g o ch = true)) /\
  (evh_known (h, (c, o, ob)) = 0%N ->
   v = known_oracle g o && wf_exec ob' && forallb (field_pass g o) (efields g ob') && chains_known g ob') /\
  (evh_known (h, (c, o, ob)) <> 0%N -> v = false).
Proof.
  intros h c o ob v H g ob'. unfold evh_ok in H. cbn [fst snd evh_at] in H. fold g in H.
  exact (ev_sound g c o ob v H).
Qed.

(* the verdict the history judges model IS the verdict of the history theorems of Props/C12.v: the round after the
   scripted poller events, in the system [hrun] *)
Theorem cvh_model_is_history : forall os d f polls c retry o ob,
  let ob' := strip_cd (cctx_disc c) ob in
  nth_error (hrun os d f (hist_hevs polls ++ [HValC retry o ob'])) (length (hist_hevs polls)) =
  Some (Some (OVerdict (cvh_model ((os, d, f, polls), (c, retry, o, ob))))).
Proof.
  intros os d f polls c retry o ob ob'.
  rewrite (hist_round os d f _ _ _ (nth_after_polls polls _ [])), cfg_at_after_polls. reflexivity.
Qed.

Theorem evh_model_is_history : forall os d f polls c o ob,
  let ob' := strip_ed (ectx_disc c) ob in
  nth_error (hrun os d f (hist_hevs polls ++ [HValE o ob'])) (length (hist_hevs polls)) =
  Some (Some (OVerdict (evh_model ((os, d, f, polls), (c, o, ob))))).
Proof.
  intros os d f polls c o ob ob'.
  rewrite (hist_round os d f _ _ _ (nth_after_polls polls _ [])), cfg_at_after_polls. reflexivity.
Qed.

(* not vacuous: oracle 2 lost chain 5 in the last successful poll (a failed poll follows): its root for chain 5 must be
   rejected, oracle 1's is accepted *)
Example cvh_ok_example :
  let h : hctx := (ex_O, 9%N, 9%N, [ex_cfgA; ex_cfgB; None]) in
  Forall short_poll (hctx_polls h) /\
  cvh_ok (h, ((0%N, false, false, true, true), false, 2%N, ex_ob)) false = true /\
  cvh_ok (h, ((0%N, false, false, true, true), false, 2%N, ex_ob)) true = false /\
  cvh_ok (h, ((0%N, false, false, true, true), false, 1%N, ex_ob)) true = true.
Proof.
  cbv zeta. split; [|vm_compute; repeat split].
  cbn [hctx_polls]. repeat constructor; unfold short_poll, home_page_size; cbn; lia.
Qed.

Example evh_ok_example :
  let h : hctx := (ex_O, 9%N, 9%N, [ex_cfgA; ex_cfgB; None]) in
  evh_ok (h, ((0%N, true, true), 2%N, mkEobs [] [(5%N, 2%N)] true [] 0 [] [])) false = true /\
  evh_ok (h, ((0%N, true, true), 1%N, mkEobs [] [(5%N, 2%N)] true [] 0 [] [])) true = true /\
  evh_ok (h, ((0%N, true, true), 1%N, mkEobs [] [(5%N, 2%N)] true [] 0 [] [])) false = false.
Proof. vm_compute. repeat split. Qed.

(* JudgeSoundExecSysP.v — the executable end-to-end property of Check/ExecSys_check.v (sys_safe / sys_live, judged by
   sys_judge and sys_judge_noclass) is the property: an implementation history that passes it satisfies, for every
   cycle GetCommitReports -> GetMessages -> Filter in it (failed rounds in between allowed), the clauses (i)-(iv), (b),
   (c) of C07_used_needs_quorum_cycle / C07_token_data_cycle / C07_not_costly_cycle, stated with [quorum] on the
   observations the implementation accepted. *)
Require Import Verif.Model.Base Verif.Proofs.BaseP Verif.Model.Consensus Verif.Proofs.ConsensusP
               Verif.Model.Merkle Verif.Model.ExecReport Verif.Model.ExecSys Verif.Proofs.ExecSysP.
Require Verif.Model.ExecMerge Verif.Proofs.ExecMergeP Verif.Check.C08_check Verif.Check.ExecSys_check.
From Coq Require Import ZifyN ZifyNat ZifyBool.
Module X := Verif.Check.ExecSys_check.
Module C8 := Verif.Check.C08_check.

(* ====================================================================================================== *)
(*  0. reflection of the boolean equalities                                                                *)
(* ====================================================================================================== *)
Lemma leqb_iff {A} (e : A -> A -> bool) : (forall a b, e a b = true <-> a = b) ->
  forall l1 l2, list_eqb e l1 l2 = true <-> l1 = l2.
Proof.
  intros He. induction l1 as [|x l1 IH]; intros [|y l2]; cbn [list_eqb]; try (split; [discriminate|congruence]).
  - split; reflexivity.
  - rewrite andb_true_iff, He, IH. split; [intros [-> ->]; reflexivity|intros E; inversion E; tauto].
Qed.
Lemma N_iff a b : N.eqb a b = true <-> a = b. Proof. apply N.eqb_eq. Qed.
Lemma B_iff a b : Bool.eqb a b = true <-> a = b. Proof. apply Bool.eqb_true_iff. Qed.
Lemma peqb_iff {A B} (ea : A -> A -> bool) (eb : B -> B -> bool) :
  (forall a b, ea a b = true <-> a = b) -> (forall a b, eb a b = true <-> a = b) ->
  forall p q, pair_eqb ea eb p q = true <-> p = q.
Proof.
  intros Ha Hb [a1 b1] [a2 b2]. unfold pair_eqb. cbn [fst snd]. rewrite andb_true_iff, Ha, Hb.
  split; [intros [-> ->]; reflexivity|intros E; inversion E; tauto].
Qed.

Lemma msg8_iff a b : C8.msg_eqb a b = true <-> a = b.
Proof.
  destruct a as [a1 a2 a3 a4 a5 a6 a7], b as [b1 b2 b3 b4 b5 b6 b7]. unfold C8.msg_eqb.
  cbn [m_id m_src m_seq m_nonce m_sender m_size m_gas].
  rewrite !andb_true_iff, !N.eqb_eq. split; [intros [[[[[[-> ->] ->] ->] ->] ->] ->]; reflexivity|].
  intros E. inversion E. tauto.
Qed.
Lemma td_iff a b : C8.td_eqb a b = true <-> a = b.
Proof. apply leqb_iff. apply peqb_iff; [apply B_iff|apply N_iff]. Qed.
Lemma cdata8_iff a b : C8.cdata_eqb a b = true <-> a = b.
Proof.
  destruct a as [a1 a2 a3 a4 a5 a6 a7 a8], b as [b1 b2 b3 b4 b5 b6 b7 b8]. unfold C8.cdata_eqb.
  cbn [c_src c_root c_start c_end c_exec c_msgs c_costly c_td].
  rewrite !andb_true_iff, !N.eqb_eq, !(leqb_iff _ N_iff), (leqb_iff _ msg8_iff), (leqb_iff _ td_iff).
  split; [intros [[[[[[[-> ->] ->] ->] ->] ->] ->] ->]; reflexivity|]. intros E. inversion E. tauto.
Qed.
Lemma xc_iff a b : X.xc_eqb a b = true <-> a = b.
Proof.
  destruct a as [a1 a2 a3], b as [b1 b2 b3]. unfold X.xc_eqb. cbn [xc_key xc_ts xc_cd]. rewrite !andb_true_iff, !N.eqb_eq, cdata8_iff.
  split; [intros [[-> ->] ->]; reflexivity|]. intros E. inversion E. tauto.
Qed.
Lemma xm_iff a b : X.xm_eqb a b = true <-> a = b.
Proof.
  destruct a as [a1 a2], b as [b1 b2]. unfold X.xm_eqb. cbn [xm_key xm_msg]. rewrite andb_true_iff, N.eqb_eq, msg8_iff.
  split; [intros [-> ->]; reflexivity|]. intros E. inversion E. tauto.
Qed.
Lemma tok_iff a b : EM.tok_eqb a b = true <-> a = b.
Proof. destruct (EMP.tok_eqb_spec a b); split; congruence. Qed.
Lemma nonce_iff a b : EM.nonce_eqb a b = true <-> a = b.
Proof. destruct (EMP.nonce_eqb_spec a b); split; congruence. Qed.

Lemma existsb_iff {A} (e : A -> A -> bool) (He : forall a b, e a b = true <-> a = b) x l :
  existsb (e x) l = true <-> In x l.
Proof.
  rewrite existsb_exists. split.
  - intros [y [Hy E]]. apply He in E. now subst.
  - intros H. exists x. split; [exact H|]. now apply He.
Qed.

(* ====================================================================================================== *)
(*  1. reporters = the number of distinct reporting oracles                                                *)
(* ====================================================================================================== *)
Lemma nodup_filter_fst {A} (p : N * A -> bool) l : NoDup (map fst l) -> NoDup (map fst (filter p l)).
Proof.
  induction l as [|a l IH]; cbn [map filter]; intros ND; [constructor|].
  inversion ND as [|? ? Hn ND']; subst. destruct (p a); cbn [map]; [|now apply IH].
  constructor; [|now apply IH]. intros Hi. apply Hn. apply in_map_iff in Hi. destruct Hi as [b [E Hb]].
  apply filter_In in Hb. apply in_map_iff. exists b. tauto.
Qed.

Section Reporters.
  Context {T : Type} (items : sobs -> list T) (x : T) (has : sobs -> bool).
  Hypothesis has_spec : forall ob, has ob = true <-> In x (items ob).

  Lemma reporters_quorum thr aos :
    NoDup (map fst aos) -> (thr <= X.reporters has aos)%N -> quorum items thr aos x.
  Proof.
    intros ND H. exists (map fst (filter (fun a => has (snd a)) aos)).
    split; [now apply nodup_filter_fst|]. split; [unfold X.reporters in H; now rewrite map_length|].
    intros o. rewrite in_map_iff. split.
    - intros [[o' ob] [E Hf]]. cbn [fst] in E. subst o'. apply filter_In in Hf. destruct Hf as [Hi Hh]. cbn [snd] in Hh.
      exists ob. split; [exact Hi|]. now apply has_spec.
    - intros [ob [Hi Hx]]. exists (o, ob). split; [reflexivity|]. apply filter_In. split; [exact Hi|].
      cbn [snd]. now apply has_spec.
  Qed.

  Lemma rs_le_reporters aos rs :
    NoDup rs -> (forall o, In o rs -> exists ob, In (o, ob) aos /\ In x (items ob)) ->
    (N.of_nat (length rs) <= X.reporters has aos)%N.
  Proof.
    intros NDr Hrs. unfold X.reporters.
    assert (Hincl : incl rs (map fst (filter (fun a => has (snd a)) aos))).
    { intros o Ho. destruct (Hrs o Ho) as [ob [Hi Hx]]. apply in_map_iff. exists (o, ob). split; [reflexivity|].
      apply filter_In. split; [exact Hi|]. cbn [snd]. now apply has_spec. }
    pose proof (NoDup_incl_length NDr Hincl) as Hl. rewrite map_length in Hl. lia.
  Qed.
End Reporters.

Lemma thr_of_some fchain k thr :
  X.thr_of fchain k = Some thr -> exists f, alookup k fchain = Some f /\ In (k, f) fchain /\ thr = f_plus_1 f.
Proof.
  unfold X.thr_of. destruct (alookup k fchain) as [f|] eqn:E; [|discriminate]. intros H. inversion H.
  exists f. split; [reflexivity|]. split; [now apply alookup_In|reflexivity].
Qed.

Lemma idx_forallb_nth {A} (p : nat -> A -> bool) : forall l n i t,
  X.idx_forallb p n l = true -> nth_error l i = Some t -> p (n + i)%nat t = true.
Proof.
  induction l as [|y l IH]; intros n i t H Hn; [destruct i; discriminate|].
  cbn [X.idx_forallb] in H. apply andb_prop in H. destruct H as [H1 H2].
  destruct i as [|i]; cbn [nth_error] in Hn.
  - inversion Hn; subst. now rewrite Nat.add_0_r.
  - replace (n + S i)%nat with (S n + i)%nat by lia. now apply (IH (S n) i t).
Qed.

(* ====================================================================================================== *)
(*  2. the clauses, one boolean at a time                                                                  *)
(* ====================================================================================================== *)
(* (i) *)
Lemma commit_agreed_sound dest fchain aos cd :
  NoDup (map fst aos) -> X.commit_agreed dest fchain aos cd = true ->
  In (c_src cd) (EM.keys fchain) /\
  exists x, xc_cd x = cd /\ quorum (xcommits_of (c_src cd)) (f_plus_1 (EM.f_dest dest fchain)) aos x.
Proof.
  intros ND H. unfold X.commit_agreed in H. apply andb_prop in H. destruct H as [Hk H]. apply memN_In in Hk.
  split; [exact Hk|]. apply existsb_exists in H. destruct H as [x [_ H]]. apply andb_prop in H. destruct H as [E Hr].
  apply cdata8_iff in E. apply N.leb_le in Hr. exists x. split; [exact E|].
  apply (reporters_quorum (xcommits_of (c_src cd)) x (fun o => existsb (X.xc_eqb x) (EM.entries (c_src cd) (so_commits o))));
    [|exact ND|exact Hr].
  intros ob. apply (existsb_iff _ xc_iff).
Qed.

(* (ii) *)
Lemma msg_agreed_sound fchain aos k m :
  NoDup (map fst aos) -> X.msg_agreed fchain aos k m = true ->
  exists fk xm, alookup k fchain = Some fk /\ In (k, fk) fchain /\ xm_msg xm = m /\
                quorum (xmsgs_of k) (f_plus_1 fk) aos xm.
Proof.
  intros ND H. unfold X.msg_agreed in H. destruct (X.thr_of fchain k) as [thr|] eqn:Et; [|discriminate].
  apply thr_of_some in Et. destruct Et as [fk [Hf [Hin ->]]].
  apply existsb_exists in H. destruct H as [xm [_ H]]. apply andb_prop in H. destruct H as [E Hr].
  apply msg8_iff in E. apply N.leb_le in Hr. exists fk, xm. split; [exact Hf|]. split; [exact Hin|]. split; [exact E|].
  apply (reporters_quorum (xmsgs_of k) xm (fun o => existsb (X.xm_eqb xm) (map snd (EM.entries k (so_msgs o)))));
    [|exact ND|exact Hr].
  intros ob. apply (existsb_iff _ xm_iff).
Qed.

(* (iii), in the exact form of C07_token_data_cycle: the message's OWN (chain, sequence number, slot) *)
Lemma slot_has_spec k s i t ob :
  (match X.slot_of k s i ob with Some t' => EM.tok_eqb t' t | None => false end) = true <-> In t (xtok_of k s i ob).
Proof.
  unfold X.slot_of, xtok_of. destruct (nth_error _ i) as [t'|]; [|split; [discriminate|intros []]].
  rewrite tok_iff. split; [intros ->; now left|]. intros [E|[]]. exact E.
Qed.

Lemma tokens_agreed_sound fchain aos k s bytes :
  NoDup (map fst aos) -> X.tokens_agreed fchain aos k s bytes = true ->
  exists f, alookup k fchain = Some f /\
    forall n d, nth_error bytes n = Some d -> quorum (xtok_of k s n) (f_plus_1 f) aos (EM.mkTok true d).
Proof.
  intros ND H. unfold X.tokens_agreed in H. destruct (X.thr_of fchain k) as [thr|] eqn:Et; [|discriminate].
  apply thr_of_some in Et. destruct Et as [f [Hf [_ ->]]]. exists f. split; [exact Hf|].
  intros n d Hn. pose proof (idx_forallb_nth _ _ _ _ _ H Hn) as Hp. cbn [Nat.add] in Hp. apply N.leb_le in Hp.
  apply (reporters_quorum (xtok_of k s n) (EM.mkTok true d)
           (fun o => match X.slot_of k s n o with Some t => EM.tok_eqb t (EM.mkTok true d) | None => false end));
    [|exact ND|exact Hp].
  intros ob. apply slot_has_spec.
Qed.

(* (iii) as the judge tests it since the repair of this file (X.tokens_ok): the exact form, or - only when the agreed
   commit data cd1 already carried token data - an entry cd1 carried / the merged entry of some sequence number of
   cd1's interval (the two alternatives of C07_used_needs_quorum_cycle) *)
Definition tok_quorums (fc : list (N * Z)) (aos : list sao) (k s : N) (bytes : list N) : Prop :=
  exists f, alookup k fc = Some f /\
    forall n d, nth_error bytes n = Some d -> quorum (xtok_of k s n) (f_plus_1 f) aos (EM.mkTok true d).
Definition token_clause (fc : list (N * Z)) (aos : list sao) (cd1 : cdata) (k s : N) (bytes : list N) : Prop :=
  tok_quorums fc aos k s bytes \/
  (c_td cd1 <> [] /\
   ((exists td, In td (c_td cd1) /\ td_ready td = true /\ td_bytes td = bytes) \/
    exists s', PS.in_range (c_start cd1) (c_end cd1) s' = true /\ tok_quorums fc aos k s' bytes)).

Lemma tokens_ok_sound fchain aos cd1 k s bytes :
  NoDup (map fst aos) -> X.tokens_ok fchain aos cd1 k s bytes = true -> token_clause fchain aos cd1 k s bytes.
Proof.
  intros ND H. unfold X.tokens_ok in H. apply orb_prop in H. destruct H as [H|H].
  - left. exact (tokens_agreed_sound _ _ _ _ _ ND H).
  - right. destruct (c_td cd1) as [|td0 tds] eqn:Etd; [discriminate|]. split; [discriminate|].
    apply orb_prop in H. destruct H as [H|H].
    + left. apply existsb_exists in H. destruct H as [td [Hin H]]. apply andb_prop in H. destruct H as [Hr Hb].
      apply (leqb_iff _ N_iff) in Hb. now exists td.
    + right. apply existsb_exists in H. destruct H as [s' [_ H]]. apply andb_prop in H. destruct H as [Hr Ht].
      exists s'. split; [exact Hr|]. exact (tokens_agreed_sound _ _ _ _ _ ND Ht).
Qed.

(* not flagged too costly by f_dest + 1: C07_not_costly_cycle *)
Lemma not_costly_sound fdest aos mid rs :
  X.not_costly fdest aos mid = true ->
  NoDup rs -> (forall o, In o rs -> exists ob, In (o, ob) aos /\ In mid (so_costly ob)) ->
  (Z.of_nat (length rs) < fdest + 1)%Z.
Proof.
  intros H NDr Hrs. unfold X.not_costly in H. apply negb_true_iff in H. unfold EM.gte_f_plus_one in H.
  apply Z.leb_gt in H.
  pose proof (rs_le_reporters so_costly mid (fun o => memN mid (so_costly o)) (fun ob => memN_In mid (so_costly ob))
                aos rs NDr Hrs) as Hle.
  lia.
Qed.

(* (iv) *)
Lemma nonce_agreed_sound fdest aos t :
  NoDup (map fst aos) -> X.nonce_agreed fdest aos t = true -> quorum xnonces_of (f_plus_1 fdest) aos t.
Proof.
  intros ND H. unfold X.nonce_agreed in H. apply N.leb_le in H.
  apply (reporters_quorum xnonces_of t (fun o => existsb (EM.nonce_eqb t) (EM.nonce_triples (to_obs o)))); [|exact ND|exact H].
  intros ob. apply (existsb_iff _ nonce_iff).
Qed.

Lemma nonces_walk_sound fdest aos : forall ms seen,
  (forall e, In e seen -> exists v, X.nonce_agreed fdest aos (fst (fst e), snd (fst e), v) = true) ->
  X.nonces_walk fdest aos seen ms = true ->
  forall m, In m ms -> m_nonce m = 0%N \/ exists v, X.nonce_agreed fdest aos (m_src m, m_sender m, v) = true.
Proof.
  induction ms as [|m0 ms IH]; intros seen Hinv H m Hm; [destruct Hm|].
  cbn [X.nonces_walk] in H. destruct (N.eqb_spec (m_nonce m0) 0) as [E0|Hne].
  - destruct Hm as [<-|Hm]; [now left|]. now apply (IH seen).
  - destruct (find (fun e => N.eqb (fst (fst e)) (m_src m0) && N.eqb (snd (fst e)) (m_sender m0)) seen) as [e|] eqn:Ef.
    + apply andb_prop in H. destruct H as [_ H]. apply find_some in Ef. destruct Ef as [He Hk].
      apply andb_prop in Hk. destruct Hk as [K1 K2]. apply N.eqb_eq in K1, K2.
      destruct (Hinv e He) as [v Hv]. rewrite K1, K2 in Hv.
      destruct Hm as [<-|Hm]; [right; now exists v|].
      apply (IH ((m_src m0, m_sender m0, m_nonce m0) :: seen)); try assumption.
      intros e' [<-|He']; [cbn [fst snd]; now exists v|now apply Hinv].
    + apply andb_prop in H. destruct H as [H Hw]. apply andb_prop in H. destruct H as [_ Hv].
      destruct Hm as [<-|Hm]; [right; now exists (m_nonce m0 - 1)%N|].
      apply (IH ((m_src m0, m_sender m0, m_nonce m0) :: seen)); try assumption.
      intros e' [<-|He']; [cbn [fst snd]; now exists (m_nonce m0 - 1)%N|now apply Hinv].
Qed.

(* ====================================================================================================== *)
(*  3. one chain report of a Filter outcome against the two agreed rounds before it                        *)
(* ====================================================================================================== *)
(* what the judge establishes for a message mm of a chain report r: the clauses of C07_used_needs_quorum_cycle with
   (iii) in the exact form of C07_token_data_cycle whenever the agreed commit data carried no token data (else in the
   form of C07_used_needs_quorum_cycle: [token_clause]) and the costly clause in the form of C07_not_costly_cycle *)
Definition report_clauses (dest : N) (h : N -> N -> N)
    (fc1 : list (N * Z)) (aos1 : list sao) (o1 : outcome) (fc2 : list (N * Z)) (aos2 : list sao) (o2 : outcome)
    (r : creport) (mm : msg) : Prop :=
  m_src mm = r_src r /\
  exists (x : xcommit) (cd2 : cdata) (xm : xmsg) (fk : Z),
    (* (i) *)
    quorum (xcommits_of (r_src r)) (f_plus_1 (EM.f_dest dest fc1)) aos1 x /\
    In (r_src r) (EM.keys fc1) /\ c_src (xc_cd x) = r_src r /\ In (xc_cd x) (o_pending o1) /\
    (* carried through the GetMessages outcome *)
    In cd2 (o_pending o2) /\ c_src cd2 = c_src (xc_cd x) /\ c_root cd2 = c_root (xc_cd x) /\
    c_start cd2 = c_start (xc_cd x) /\ c_end cd2 = c_end (xc_cd x) /\ c_exec cd2 = c_exec (xc_cd x) /\
    In mm (c_msgs cd2) /\
    (* (b) the report's proof recomputes the agreed root from the included messages *)
    verify h (map m_id (r_msgs r)) (r_proofs r)
           (flags_to_bools (r_flags r) (length (r_msgs r) + length (r_proofs r) - 1)) = Ok (c_root (xc_cd x)) /\
    (* (c) *)
    memN (m_seq mm) (c_exec (xc_cd x)) = false /\
    (* (i), interval *)
    PS.in_range (c_start (xc_cd x)) (c_end (xc_cd x)) (m_seq mm) = true /\
    (* (ii) *)
    xm_msg xm = mm /\ In (r_src r, fk) fc2 /\ quorum (xmsgs_of (r_src r)) (f_plus_1 fk) aos2 xm /\
    (* (iii) *)
    length (r_msgs r) = length (r_td r) /\
    (forall p, nth_error (r_msgs r) p = Some mm ->
       exists bytes, nth_error (r_td r) p = Some bytes /\
                     token_clause fc2 aos2 (xc_cd x) (r_src r) (m_seq mm) bytes) /\
    (forall rs, NoDup rs -> (forall o, In o rs -> exists ob, In (o, ob) aos2 /\ In (m_id mm) (so_costly ob)) ->
       (Z.of_nat (length rs) < EM.f_dest dest fc2 + 1)%Z).

Lemma core_eqb_sound a b :
  X.core_eqb a b = true ->
  c_src a = c_src b /\ c_root a = c_root b /\ c_start a = c_start b /\ c_end a = c_end b /\ c_exec a = c_exec b.
Proof.
  unfold X.core_eqb. rewrite !andb_true_iff, !N.eqb_eq, (leqb_iff _ N_iff). tauto.
Qed.

Lemma combine_nth {A B} : forall (l1 : list A) (l2 : list B) p a,
  length l1 = length l2 -> nth_error l1 p = Some a -> exists b, nth_error l2 p = Some b /\ In (a, b) (combine l1 l2).
Proof.
  induction l1 as [|x l1 IH]; intros [|y l2] p a Hl Hn; try (destruct p; discriminate).
  destruct p as [|p]; cbn [nth_error] in Hn |- *.
  - inversion Hn; subst. exists y. split; [reflexivity|now left].
  - cbn [length] in Hl. destruct (IH l2 p a (eq_add_S _ _ Hl) Hn) as [b [Hb Hi]]. exists b. split; [exact Hb|now right].
Qed.

Lemma reverify_sound h r root :
  C8.reverify h r root = true ->
  verify h (map m_id (r_msgs r)) (r_proofs r)
         (flags_to_bools (r_flags r) (length (r_msgs r) + length (r_proofs r) - 1)) = Ok root.
Proof.
  unfold C8.reverify. rewrite map_length.
  destruct (verify h (map m_id (r_msgs r)) (r_proofs r) _) as [v| | |]; try discriminate.
  intros E. apply N.eqb_eq in E. now subst.
Qed.

Lemma chain_report_ok_sound g h r1 r2 fc3 aos3 r :
  NoDup (map fst (X.rc_aos r1)) -> NoDup (map fst (X.rc_aos r2)) ->
  X.chain_report_ok g h r1 r2 fc3 aos3 r = true ->
  forall mm, In mm (r_msgs r) ->
    report_clauses (X.s_dest g) h (X.rc_fchain r1) (X.rc_aos r1) (X.rc_out r1)
                   (X.rc_fchain r2) (X.rc_aos r2) (X.rc_out r2) r mm.
Proof.
  intros ND1 ND2 H mm Hmm. unfold X.chain_report_ok in H. apply existsb_exists in H. destruct H as [cd2 [Hcd2 H]].
  apply andb_prop in H. destruct H as [H Hall]. apply andb_prop in H. destruct H as [H Hlen].
  apply andb_prop in H. destruct H as [H Hex]. apply andb_prop in H. destruct H as [Hown Hrev].
  apply Nat.eqb_eq in Hlen. apply reverify_sound in Hrev.
  unfold C8.owns in Hown. apply andb_prop in Hown. destruct Hown as [Hsrc2 _]. apply N.eqb_eq in Hsrc2.
  apply existsb_exists in Hex. destruct Hex as [cd1 [Hcd1 Hex]]. apply andb_prop in Hex. destruct Hex as [Hex Htoks].
  apply andb_prop in Hex. destruct Hex as [Hex Hnex].
  apply andb_prop in Hex. destruct Hex as [Hcore Hagr].
  apply core_eqb_sound in Hcore. destruct Hcore as [Es [Er [Ea [Ee Ex]]]].
  destruct (commit_agreed_sound _ _ _ _ ND1 Hagr) as [Hk [x [Ecd Hq]]]. subst cd1.
  rewrite forallb_forall in Hnex, Hall, Htoks.
  destruct (In_nth_error _ _ Hmm) as [p0 Hp0].
  destruct (combine_nth _ _ _ _ Hlen Hp0) as [b0 [_ Hc0]]. pose proof (Hall _ Hc0) as H0. cbn [fst snd] in H0.
  apply andb_prop in H0. destruct H0 as [H0 Hcost].
  apply andb_prop in H0. destruct H0 as [H0 Hmsg]. apply andb_prop in H0. destruct H0 as [Hms Hin2].
  apply N.eqb_eq in Hms. apply (existsb_iff _ msg8_iff) in Hin2.
  destruct (msg_agreed_sound _ _ _ _ ND2 Hmsg) as [fk [xm [_ [Hfk [Exm Hqm]]]]].
  split; [exact Hms|]. exists x, cd2, xm, fk.
  assert (Hsx : c_src (xc_cd x) = r_src r) by congruence.
  rewrite Hsx in Hq, Hk.
  split; [exact Hq|]. split; [exact Hk|]. split; [exact Hsx|]. split; [exact Hcd1|]. split; [exact Hcd2|].
  split; [now symmetry|]. split; [now symmetry|]. split; [now symmetry|]. split; [now symmetry|]. split; [now symmetry|].
  split; [exact Hin2|]. split; [now rewrite Er|].
  pose proof (Hnex _ Hmm) as Hn1. apply andb_prop in Hn1. destruct Hn1 as [Hn1 Hrng].
  split; [now apply negb_true_iff|]. split; [exact Hrng|].
  split; [exact Exm|]. split; [exact Hfk|]. split; [exact Hqm|]. split; [exact Hlen|]. split.
  - intros p Hp. destruct (combine_nth _ _ _ _ Hlen Hp) as [bytes [Hb Hc]]. pose proof (Htoks _ Hc) as Htok. cbn [fst snd] in Htok.
    exists bytes. split; [exact Hb|]. exact (tokens_ok_sound _ _ _ _ _ _ ND2 Htok).
  - intros rs NDr Hrs. exact (not_costly_sound _ _ _ rs Hcost NDr Hrs).
Qed.

Lemma report_ok_sound g h a b fc3 aos3 o3 :
  NoDup (map fst (X.rc_aos a)) -> NoDup (map fst (X.rc_aos b)) -> NoDup (map fst aos3) ->
  X.report_ok g h (Some a) (Some b) fc3 aos3 o3 = true ->
  forall r mm, In r (o_report o3) -> In mm (r_msgs r) ->
    report_clauses (X.s_dest g) h (X.rc_fchain a) (X.rc_aos a) (X.rc_out a) (X.rc_fchain b) (X.rc_aos b) (X.rc_out b) r mm /\
    (* (iv) *)
    (m_nonce mm = 0%N \/
     exists v, quorum xnonces_of (f_plus_1 (EM.f_dest (X.s_dest g) fc3)) aos3 (r_src r, m_sender mm, v)).
Proof.
  intros ND1 ND2 ND3 H r mm Hr Hmm. unfold X.report_ok in H.
  destruct (o_report o3) as [|r0 rs] eqn:Er; [destruct Hr|]. rewrite <- Er in *. clear Er r0 rs.
  apply andb_prop in H. destruct H as [Hall Hw]. rewrite forallb_forall in Hall.
  pose proof (chain_report_ok_sound g h a b fc3 aos3 r ND1 ND2 (Hall r Hr) mm Hmm) as Hc. split; [exact Hc|].
  assert (Hin : In mm (flat_map r_msgs (o_report o3))) by (apply in_flat_map; now exists r).
  destruct (nonces_walk_sound _ _ _ [] (fun e (F : In e []) => match F with end) Hw mm Hin) as [H0|[v Hv]]; [now left|right].
  exists v. destruct Hc as [Hsrc _]. rewrite Hsrc in Hv. unfold X.fdest_of in Hv.
  now apply nonce_agreed_sound.
Qed.

(* with no report there is nothing to justify; with a report both earlier rounds of the cycle must be there *)
Lemma report_ok_needs_rounds g h r1 r2 fc3 aos3 o3 :
  X.report_ok g h r1 r2 fc3 aos3 o3 = true -> o_report o3 <> [] -> exists a b, r1 = Some a /\ r2 = Some b.
Proof.
  unfold X.report_ok. destruct (o_report o3) as [|r0 rs]; [congruence|]. intros H _.
  destruct r1 as [a|], r2 as [b|]; try discriminate. now exists a, b.
Qed.

(* pending reports travel unchanged (source, root, interval, executed list) from the GetCommitReports outcome into the
   GetMessages outcome, position by position *)
Lemma carried_sound o1 o2 :
  X.carried o1 o2 = true ->
  Forall2 (fun a b => c_src a = c_src b /\ c_root a = c_root b /\ c_start a = c_start b /\ c_end a = c_end b /\
                      c_exec a = c_exec b) (o_pending o1) (o_pending o2).
Proof.
  unfold X.carried. generalize (o_pending o1) (o_pending o2).
  induction l as [|a l IH]; intros [|b l2] H; cbn [list_eqb] in H; try discriminate; [constructor|].
  apply andb_prop in H. destruct H as [H1 H2]. constructor; [now apply core_eqb_sound|now apply IH].
Qed.

(* ====================================================================================================== *)
(*  4. the walk over a history: every cycle in it is judged                                                *)
(* ====================================================================================================== *)
(* the outcome the next round builds on: the last successful one *)
Definition last_ok (cur : outcome) (outs : X.sys_out) : outcome :=
  fold_left (fun acc vo => match snd vo with Ok x => x | _ => acc end) outs cur.

Lemma walk_skip g h : forall pre opre cur r1 r2 rs outs,
  length pre = length opre ->
  X.walk g h cur r1 r2 (pre ++ rs) (opre ++ outs) = true ->
  exists r1' r2', X.walk g h (last_ok cur opre) r1' r2' rs outs = true.
Proof.
  induction pre as [|r pre IH]; intros [|[vals o] opre] cur r1 r2 rs outs Hl H; try discriminate.
  - now exists r1, r2.
  - cbn [length] in Hl. apply eq_add_S in Hl. cbn [app X.walk] in H. cbn [last_ok fold_left snd].
    destruct o as [x| | |]; try discriminate.
    + destruct (N.eqb _ 2); [|destruct (N.eqb _ 3)].
      * exact (IH _ _ _ _ _ _ Hl H).
      * apply andb_prop in H. destruct H as [_ H]. exact (IH _ _ _ _ _ _ Hl H).
      * apply andb_prop in H. destruct H as [_ H]. exact (IH _ _ _ _ _ _ Hl H).
    + exact (IH _ _ _ _ _ _ Hl H).
Qed.

Lemma walk_errs g h : forall e oe cur r1 r2 rs outs,
  length e = length oe -> (forall vo, In vo oe -> snd vo = Err) ->
  X.walk g h cur r1 r2 (e ++ rs) (oe ++ outs) = X.walk g h cur r1 r2 rs outs.
Proof.
  induction e as [|r e IH]; intros [|[vals o] oe] cur r1 r2 rs outs Hl Herr; try discriminate; [reflexivity|].
  cbn [length] in Hl. apply eq_add_S in Hl. pose proof (Herr (vals, o) (or_introl eq_refl)) as E. cbn [snd] in E. subst o.
  cbn [app X.walk]. apply IH; [exact Hl|]. intros vo Hvo. apply Herr. now right.
Qed.

(* three successful rounds GetCommitReports -> GetMessages -> Filter with failed rounds between them *)
Lemma walk_cycle g h cur r1 r2 ra e1 rb e2 rc post va xa oe1 vb xb oe2 vc xc opost :
  X.walk g h cur r1 r2 (ra :: e1 ++ rb :: e2 ++ rc :: post)
         ((va, Ok xa) :: oe1 ++ (vb, Ok xb) :: oe2 ++ (vc, Ok xc) :: opost) = true ->
  length e1 = length oe1 -> length e2 = length oe2 ->
  (forall vo, In vo oe1 -> snd vo = Err) -> (forall vo, In vo oe2 -> snd vo = Err) ->
  PS.exec_next (o_state cur) = Ok 2%N -> o_state xa = 2%N -> o_state xb = 3%N ->
  X.carried xa xb = true /\
  X.report_ok g h (Some (X.mkRC (fst ra) (X.accepted va (snd ra)) xa)) (Some (X.mkRC (fst rb) (X.accepted vb (snd rb)) xb))
              (fst rc) (X.accepted vc (snd rc)) xc = true.
Proof.
  intros H L1 L2 E1 E2 S0 Sa Sb. cbn [X.walk] in H. rewrite S0 in H. cbn [N.eqb Pos.eqb] in H.
  rewrite (walk_errs g h e1 oe1 _ _ _ _ _ L1 E1) in H. cbn [X.walk] in H. rewrite Sa in H.
  change (PS.exec_next 2) with (@Ok N 3%N) in H. cbn [N.eqb Pos.eqb] in H.
  apply andb_prop in H. destruct H as [Hc H]. split; [exact Hc|].
  rewrite (walk_errs g h e2 oe2 _ _ _ _ _ L2 E2) in H. cbn [X.walk] in H. rewrite Sb in H.
  change (PS.exec_next 3) with (@Ok N 4%N) in H. cbn [N.eqb Pos.eqb] in H.
  apply andb_prop in H. now destruct H as [H _].
Qed.

Lemma xaccepted_in vals : forall obs o ob, In (o, ob) (X.accepted vals obs) -> exists sup, In (o, sup, ob) obs.
Proof.
  unfold X.accepted. induction vals as [|v vals IH]; intros [|[[o' s'] ob'] obs] o ob H; cbn [combine filter map] in H;
    try contradiction.
  destruct v; cbn [fst snd filter map] in H.
  - destruct H as [H|H].
    + inversion H; subst. exists s'. now left.
    + destruct (IH _ _ _ H) as [sup Hi]. exists sup. now right.
  - destruct (IH _ _ _ H) as [sup Hi]. exists sup. now right.
Qed.

Definition obs_ids (obs : list X.sobs_in) : list N := map (fun a => fst (fst a)) obs.

Lemma xaccepted_nodup vals : forall obs, NoDup (obs_ids obs) -> NoDup (map fst (X.accepted vals obs)).
Proof.
  induction vals as [|v vals IH]; intros [|[[o' s'] ob'] obs] ND; try (cbn; constructor).
  unfold obs_ids in ND. cbn [map fst] in ND. inversion ND as [|? ? Hn ND']; subst.
  destruct v.
  2:{ change (X.accepted (false :: vals) ((o', s', ob') :: obs)) with (X.accepted vals obs). now apply IH. }
  change (X.accepted (true :: vals) ((o', s', ob') :: obs)) with ((o', ob') :: X.accepted vals obs).
  cbn [map fst]. constructor; [|now apply IH].
  intros Hi. apply in_map_iff in Hi. destruct Hi as [[o ob] [E Hi]]. cbn [fst] in E. subst o.
  destruct (xaccepted_in _ _ _ _ Hi) as [sup Hs]. apply Hn. apply in_map_iff. now exists (o', sup, ob).
Qed.

(* ---- (b) for sys_safe: the clauses hold for every cycle of a history that passes ---- *)
Theorem sys_safe_cycle_sound g prev rs o :
  X.sys_safe (g, prev, rs) o = true ->
  forall pre ra e1 rb e2 rc post opre va xa oe1 vb xb oe2 vc xc opost,
    rs = pre ++ ra :: e1 ++ rb :: e2 ++ rc :: post ->
    o = opre ++ (va, Ok xa) :: oe1 ++ (vb, Ok xb) :: oe2 ++ (vc, Ok xc) :: opost ->
    length pre = length opre -> length e1 = length oe1 -> length e2 = length oe2 ->
    (forall vo, In vo oe1 -> snd vo = Err) -> (forall vo, In vo oe2 -> snd vo = Err) ->
    PS.exec_next (o_state (last_ok prev opre)) = Ok 2%N -> o_state xa = 2%N -> o_state xb = 3%N ->
    NoDup (obs_ids (snd ra)) -> NoDup (obs_ids (snd rb)) -> NoDup (obs_ids (snd rc)) ->
    let h := C8.thash (C8.mk_htable (X.s_table g)) in
    let aos1 := X.accepted va (snd ra) in
    let aos2 := X.accepted vb (snd rb) in
    let aos3 := X.accepted vc (snd rc) in
    Forall2 (fun a b => c_src a = c_src b /\ c_root a = c_root b /\ c_start a = c_start b /\ c_end a = c_end b /\
                        c_exec a = c_exec b) (o_pending xa) (o_pending xb) /\
    forall r mm, In r (o_report xc) -> In mm (r_msgs r) ->
      report_clauses (X.s_dest g) h (fst ra) aos1 xa (fst rb) aos2 xb r mm /\
      (m_nonce mm = 0%N \/
       exists v, quorum xnonces_of (f_plus_1 (EM.f_dest (X.s_dest g) (fst rc))) aos3 (r_src r, m_sender mm, v)).
Proof.
  intros H pre ra e1 rb e2 rc post opre va xa oe1 vb xb oe2 vc xc opost -> -> Lp L1 L2 E1 E2 S0 Sa Sb NDa NDb NDc.
  cbv zeta. unfold X.sys_safe in H. apply andb_prop in H. destruct H as [H _].
  destruct (walk_skip _ _ _ _ _ _ _ _ _ Lp H) as [r1' [r2' Hw]].
  destruct (walk_cycle _ _ _ _ _ _ _ _ _ _ _ _ _ _ _ _ _ _ _ _ Hw L1 L2 E1 E2 S0 Sa Sb) as [Hc Hr].
  split; [now apply carried_sound|].
  intros r mm Hin Hmm.
  exact (report_ok_sound g _ (X.mkRC (fst ra) (X.accepted va (snd ra)) xa) (X.mkRC (fst rb) (X.accepted vb (snd rb)) xb)
           (fst rc) (X.accepted vc (snd rc)) xc
           (xaccepted_nodup va _ NDa) (xaccepted_nodup vb _ NDb) (xaccepted_nodup vc _ NDc) Hr r mm Hin Hmm).
Qed.

(* ====================================================================================================== *)
(*  5. the boolean clauses are exactly the quorum statements (converse direction)                          *)
(* ====================================================================================================== *)
Lemma quorum_reporters {T} (items : sobs -> list T) (x : T) (has : sobs -> bool) thr aos :
  (forall ob, has ob = true <-> In x (items ob)) -> quorum items thr aos x -> (thr <= X.reporters has aos)%N.
Proof.
  intros Hs [rs [NDr [Hthr Hrs]]].
  pose proof (rs_le_reporters items x has Hs aos rs NDr (fun o Ho => proj1 (Hrs o) Ho)). lia.
Qed.

Lemma commit_agreed_complete dest fchain aos x :
  In (c_src (xc_cd x)) (EM.keys fchain) -> In x (xcommits_at (c_src (xc_cd x)) aos) ->
  quorum (xcommits_of (c_src (xc_cd x))) (f_plus_1 (EM.f_dest dest fchain)) aos x ->
  X.commit_agreed dest fchain aos (xc_cd x) = true.
Proof.
  intros Hk Hx Hq. unfold X.commit_agreed. apply andb_true_intro. split; [now apply memN_In|].
  apply existsb_exists. exists x. split; [exact Hx|]. apply andb_true_intro. split; [now apply cdata8_iff|].
  apply N.leb_le. apply (quorum_reporters (xcommits_of (c_src (xc_cd x))) x); [|exact Hq].
  intros ob. apply (existsb_iff _ xc_iff).
Qed.

Lemma msg_agreed_complete fchain aos k fk xm :
  alookup k fchain = Some fk -> In xm (xmsgs_at k aos) -> quorum (xmsgs_of k) (f_plus_1 fk) aos xm ->
  X.msg_agreed fchain aos k (xm_msg xm) = true.
Proof.
  intros Hf Hx Hq. unfold X.msg_agreed, X.thr_of. rewrite Hf. apply existsb_exists. exists xm. split; [exact Hx|].
  apply andb_true_intro. split; [now apply msg8_iff|]. apply N.leb_le.
  apply (quorum_reporters (xmsgs_of k) xm); [|exact Hq]. intros ob. apply (existsb_iff _ xm_iff).
Qed.

Lemma idx_forallb_intro {A} (p : nat -> A -> bool) : forall l n,
  (forall i t, nth_error l i = Some t -> p (n + i)%nat t = true) -> X.idx_forallb p n l = true.
Proof.
  induction l as [|y l IH]; intros n H; cbn [X.idx_forallb]; [reflexivity|].
  rewrite (IH (S n)).
  - rewrite andb_true_r. specialize (H O y eq_refl). now rewrite Nat.add_0_r in H.
  - intros i t Hn. replace (S n + i)%nat with (n + S i)%nat by lia. now apply H.
Qed.

Lemma tokens_agreed_complete fchain aos k s f bytes :
  alookup k fchain = Some f ->
  (forall n d, nth_error bytes n = Some d -> quorum (xtok_of k s n) (f_plus_1 f) aos (EM.mkTok true d)) ->
  X.tokens_agreed fchain aos k s bytes = true.
Proof.
  intros Hf Hall. unfold X.tokens_agreed, X.thr_of. rewrite Hf. apply idx_forallb_intro. intros i d Hn. cbn [Nat.add].
  apply N.leb_le. apply (quorum_reporters (xtok_of k s i) (EM.mkTok true d)); [|now apply Hall].
  intros ob. apply slot_has_spec.
Qed.

Lemma not_costly_complete fdest aos mid :
  NoDup (map fst aos) ->
  (forall rs, NoDup rs -> (forall o, In o rs -> exists ob, In (o, ob) aos /\ In mid (so_costly ob)) ->
     (Z.of_nat (length rs) < fdest + 1)%Z) ->
  X.not_costly fdest aos mid = true.
Proof.
  intros ND H. unfold X.not_costly, EM.gte_f_plus_one. apply negb_true_iff. apply Z.leb_gt.
  set (rs := map fst (filter (fun a => memN mid (so_costly (snd a))) aos)).
  assert (Hl : (Z.of_nat (length rs) < fdest + 1)%Z).
  { apply H; [now apply nodup_filter_fst|]. intros o Ho. apply in_map_iff in Ho. destruct Ho as [[o' ob] [E Hf]].
    cbn [fst] in E. subst o'. apply filter_In in Hf. destruct Hf as [Hi Hm]. exists ob. split; [exact Hi|].
    now apply memN_In. }
  unfold X.reporters. unfold rs in Hl. rewrite map_length in Hl. lia.
Qed.

Lemma nonce_agreed_complete fdest aos t :
  quorum xnonces_of (f_plus_1 fdest) aos t -> X.nonce_agreed fdest aos t = true.
Proof.
  intros Hq. unfold X.nonce_agreed. apply N.leb_le. apply (quorum_reporters xnonces_of t); [|exact Hq].
  intros ob. apply (existsb_iff _ nonce_iff).
Qed.

(* ====================================================================================================== *)
(*  6. the ground-truth clauses of the harness's world                                                     *)
(* ====================================================================================================== *)
(* nothing the destination shows as executed is in any report of the history (judged when at most f deviate) *)
Lemma noreexec_ok_sound g (o : X.sys_out) :
  X.noreexec_ok g o = true -> X.s_live g = true ->
  forall vals x r m, In (vals, Ok x) o -> In r (o_report x) -> In m (r_msgs r) -> ~ In (r_src r, m_seq m) (X.s_executed g).
Proof.
  unfold X.noreexec_ok. intros H Hl vals x r m Ho Hr Hm Hin. rewrite Hl in H. rewrite forallb_forall in H.
  specialize (H _ Ho). cbn [snd] in H. rewrite forallb_forall in H. specialize (H _ Hr).
  rewrite forallb_forall in H. specialize (H _ Hm). apply negb_true_iff in H.
  assert (Ht : existsb (fun cs => N.eqb (fst cs) (r_src r) && N.eqb (snd cs) (m_seq m)) (X.s_executed g) = true).
  { apply existsb_exists. exists (r_src r, m_seq m). split; [exact Hin|]. cbn [fst snd]. now rewrite !N.eqb_refl. }
  congruence.
Qed.

Theorem sys_safe_noreexec_sound g prev rs (o : X.sys_out) :
  X.sys_safe (g, prev, rs) o = true -> X.s_live g = true ->
  forall vals x r m, In (vals, Ok x) o -> In r (o_report x) -> In m (r_msgs r) -> ~ In (r_src r, m_seq m) (X.s_executed g).
Proof. unfold X.sys_safe. intros H. apply andb_prop in H. destruct H as [_ H]. now apply noreexec_ok_sound. Qed.

(* the last Filter outcome of the history *)
Lemma last_report_some (outs : X.sys_out) : forall acc rs,
  fold_left (fun acc vo => match snd vo with Ok x => if N.eqb (o_state x) 4 then Some (o_report x) else acc | _ => acc end)
            outs acc = Some rs ->
  acc = Some rs \/ exists vals x, In (vals, Ok x) outs /\ o_state x = 4%N /\ o_report x = rs.
Proof.
  induction outs as [|[vals o] outs IH]; intros acc rs H; cbn [fold_left snd] in H; [now left|].
  destruct (IH _ _ H) as [E|[vals' [x [Hi Hx]]]].
  - destruct o as [x| | |]; try (now left). destruct (N.eqb_spec (o_state x) 4) as [E4|]; [|now left].
    right. exists vals, x. inversion E. split; [now left|]. split; [exact E4|reflexivity].
  - right. exists vals', x. split; [now right|exact Hx].
Qed.

(* liveness against the ground truth: when the harness says so (at most f oracles deviate), every eligible pending
   message of the world is in the report of the history's last Filter outcome *)
Theorem sys_live_sound i o :
  X.sys_live i o = true -> X.s_live (fst (fst i)) = true -> X.s_expect (fst (fst i)) <> [] ->
  exists vals x, In (vals, Ok x) o /\ o_state x = 4%N /\
    forall c s, In (c, s) (X.s_expect (fst (fst i))) ->
      exists r m, In r (o_report x) /\ r_src r = c /\ In m (r_msgs r) /\ m_seq m = s.
Proof.
  unfold X.sys_live, X.live_ok. intros H Hl Hne. rewrite Hl in H.
  destruct (X.s_expect (fst (fst i))) as [|e ex] eqn:Ee; [congruence|]. rewrite <- Ee in *. clear Ee e ex.
  destruct (X.last_report o) as [rs|] eqn:El; [|discriminate].
  unfold X.last_report in El. destruct (last_report_some _ _ _ El) as [E|[vals [x [Hi [E4 Er]]]]]; [discriminate|].
  exists vals, x. split; [exact Hi|]. split; [exact E4|]. intros c s Hcs. rewrite forallb_forall in H.
  specialize (H _ Hcs). cbn [fst snd] in H. apply existsb_exists in H. destruct H as [r [Hr H]].
  apply andb_prop in H. destruct H as [Hc H]. apply N.eqb_eq in Hc. apply existsb_exists in H. destruct H as [m [Hm Hs]].
  apply N.eqb_eq in Hs. exists r, m. rewrite Er. tauto.
Qed.

(* the variant of the judge for a property that does not own the recorded class 2 *)
Definition sys_live_noclass (i : X.sys_in) (o : X.sys_out) : bool :=
  if N.eqb (X.sys_known i) 0 then X.sys_live i o else true.
Lemma sys_judge_is cs :
  X.sys_judge cs = judge X.sys_model X.sys_oeqb X.sys_safe (fun _ => 0%N) cs ++
                   judge (fun _ : X.sys_in => @nil X.sround_out) (fun _ _ => true) X.sys_live X.sys_known cs.
Proof. reflexivity. Qed.
Lemma sys_judge_noclass_is cs :
  X.sys_judge_noclass cs = judge X.sys_model X.sys_oeqb X.sys_safe (fun _ => 0%N) cs ++
                           judge (fun _ : X.sys_in => @nil X.sround_out) (fun _ _ => true) sys_live_noclass (fun _ => 0%N) cs.
Proof. reflexivity. Qed.
Theorem sys_live_noclass_sound i o :
  sys_live_noclass i o = true -> X.sys_known i = 0%N -> X.sys_live i o = true.
Proof. unfold sys_live_noclass. intros H E. now rewrite E in H. Qed.

(* ====================================================================================================== *)
(*  7. non-vacuity: a concrete cycle of four oracles (oracle 3 deviating in every round) whose model history passes  *)
(* ====================================================================================================== *)
Module SysCase.
  Local Open Scope N_scope.
  Definition table : list (N * N * N) := [(101, 102, 5000)].
  Definition hh := C8.thash (C8.mk_htable table).
  Definition root : N := Eval vm_compute in match new_tree hh 999 [101; 102] with Ok t => troot 999 t | _ => 0 end.
  Definition cdx : cdata := mkCD 1 root 5 6 [] [] [] [].
  Definition x : xcommit := mkXC 50 1000 cdx.
  Definition xv : xcommit := mkXC 51 1000 (mkCD 1 root 5 6 [5] [] [] []).
  Definition h1 : sobs := mkSO [(1, [x])] [] [] [] [].
  Definition b1 : sobs := mkSO [(1, [xv])] [] [] [] [].
  Definition h2 : sobs := mkSO [(1, [x])] [(1, [(5, SysEx.xm1); (6, SysEx.xm2)])] [(1, [(5, [SysEx.tokA]); (6, [])])] [] [].
  Definition b2 : sobs := mkSO [(1, [x])] [(1, [(5, SysEx.xm1v); (6, SysEx.xm2)])] [(1, [(5, [SysEx.tokA]); (6, [])])] [101; 101] [].
  Definition g : X.scfg :=
    X.mkSCfg table 999 1%Z 9 1000000 0 0 10 [((1, 7, 2), 1); ((1, 7, 9), 2)] true [(1, 5); (1, 6)] [].
  Definition four (a b : sobs) : list X.sobs_in := [(0, [1; 9], a); (1, [1; 9], a); (2, [1; 9], a); (3, [1; 9], b)].
  Definition i : X.sys_in :=
    (g, out_init, [(SysEx.fc, four h1 b1); (SysEx.fc, four h2 b2); (SysEx.fc, four SysEx.h3 SysEx.b3)]).
  Example sys_case_passes :
    X.sys_safe i (X.sys_model i) = true /\ X.sys_live i (X.sys_model i) = true /\
    sys_live_noclass i (X.sys_model i) = true /\ X.sys_known i = 0 /\
    X.sys_judge [(i, X.sys_model i)] = [] /\ X.sys_judge_noclass [(i, X.sys_model i)] = [] /\
    map (fun vo => match snd vo with Ok o => map (fun r => map m_seq (r_msgs r)) (o_report o) | _ => [] end)
        (X.sys_model i) = [[]; []; [[5; 6]]].
  Proof. repeat split; vm_compute; reflexivity. Qed.
End SysCase.

(* ====================================================================================================== *)
(*  8. the test of one chain report as it was before this file: it did not look at the interval            *)
(* ====================================================================================================== *)
Definition chain_report_ok_before (g : X.scfg) (h : N -> N -> N) (r1 r2 : X.rctx) (r : creport) : bool :=
  existsb (fun cd2 =>
    C8.owns cd2 r && C8.reverify h r (c_root cd2) &&
    existsb (fun cd1 =>
      X.core_eqb cd1 cd2 && X.commit_agreed (X.s_dest g) (X.rc_fchain r1) (X.rc_aos r1) cd1 &&
      forallb (fun m => negb (memN (m_seq m) (c_exec cd1))) (r_msgs r))
      (o_pending (X.rc_out r1)) &&
    Nat.eqb (length (r_msgs r)) (length (r_td r)) &&
    forallb (fun mt =>
      let m := fst mt in
      N.eqb (m_src m) (r_src r) && existsb (C8.msg_eqb m) (c_msgs cd2) &&
      X.msg_agreed (X.rc_fchain r2) (X.rc_aos r2) (r_src r) m &&
      X.tokens_agreed (X.rc_fchain r2) (X.rc_aos r2) (r_src r) (m_seq m) (snd mt) &&
      X.not_costly (X.fdest_of g (X.rc_fchain r2)) (X.rc_aos r2) (m_id m))
      (combine (r_msgs r) (r_td r)))
    (o_pending (X.rc_out r2)).

(* a report holding message 102 under sequence number 7 - outside the interval [5, 6] of the only agreed commit report,
   whose root its proof recomputes - passed: every oracle reports that message in the GetMessages round *)
Module WeakCase.
  Local Open Scope N_scope.
  Import SysCase.
  Definition m2' : msg := mkMsg 102 1 7 3 7 20 5.
  Definition h2' : sobs :=
    mkSO [(1, [x])] [(1, [(5, SysEx.xm1); (7, mkXM 12 m2')])] [(1, [(5, [SysEx.tokA]); (7, [])])] [] [].
  Definition aos1 : list sao := [(0, h1); (1, h1); (2, h1); (3, b1)].
  Definition aos2 : list sao := [(0, h2'); (1, h2'); (2, h2'); (3, h2')].
  Definition o1 : outcome := mkOut 2 [cdx] [].
  Definition o2 : outcome := mkOut 3 [mkCD 1 root 5 6 [] [SysEx.m1; m2'] [] [[(true, 3)]; []]] [].
  Definition r : creport := mkCR 1 [SysEx.m1; m2'] [[3]; []] [] 1.
  Example chain_report_ok_before_weak :
    chain_report_ok_before g hh (X.mkRC SysEx.fc aos1 o1) (X.mkRC SysEx.fc aos2 o2) r = true /\
    X.chain_report_ok g hh (X.mkRC SysEx.fc aos1 o1) (X.mkRC SysEx.fc aos2 o2) SysEx.fc [] r = false /\
    In m2' (r_msgs r) /\
    ~ report_clauses 9 hh SysEx.fc aos1 o1 SysEx.fc aos2 o2 r m2'.
  Proof.
    split; [vm_compute; reflexivity|]. split; [vm_compute; reflexivity|]. split; [right; now left|].
    intros [_ [x0 [cd2 [xm [fk H]]]]].
    destruct H as [_ [_ [_ [Hin [_ [_ [_ [_ [_ [_ [_ [_ [_ [Hr _]]]]]]]]]]]]]].
    destruct Hin as [E|[]]. rewrite <- E in Hr. vm_compute in Hr. discriminate.
  Qed.
End WeakCase.

(* ====================================================================================================== *)
(*  8b. the token test as it was before this file decided the flagged question: the exact form of                *)
(*      C07_token_data_cycle applied unconditionally - a false alarm on the model's own output                    *)
(* ====================================================================================================== *)
(* DECISION.  Can the MODEL's own output fail the exact test [X.tokens_agreed]?  Yes: whenever commit data that already
   carry token data are agreed in the GetCommitReports round and a report is built from them (getMessagesOutcome
   appends to MessageTokenData, the builder compares lengths only), the token data used for a message is what the
   agreed commit data carried - C07_used_needs_quorum_cycle allows exactly that, the exact test does not.  [TokCase]
   below is such a cycle: every structural premise of (a) holds on it (distinct oracles, validated well-formed
   observations, Go maps, ids functional, f = 1, cycle starting in state Unknown).
   The CURRENT generator (harness/execute/execsys_test.go) cannot reach it: the only shape that puts non-empty token
   data into commit data is "with-messages", applied by the deviating oracles to reports their honest readers also
   return; in every class the n - nb honest up-to-date oracles are >= f_dest + 1 whenever the nb deviating ones are
   (n = 4: 2 and 2, f_dest = 1; n = 7: nb <= 3, f_dest <= 2), so the plain version of the same report is agreed as
   well and dropConflictingReports (repair of F76) drops both; "hidden-full" reports carry only EMPTY token data
   entries (and the length check then fails the Filter round unless no token data at all is agreed).  That is a
   counting property of today's classes, not a structural guarantee, so the test was repaired (minimal: identical to
   the exact test whenever the agreed commit data carry no token data). *)
Section Before.
  Variable g : X.scfg.
  Variable h : N -> N -> N.
  Definition chain_report_ok_tok_before (r1 r2 : X.rctx) (r : creport) : bool :=
    existsb (fun cd2 =>
      C8.owns cd2 r && C8.reverify h r (c_root cd2) &&
      existsb (fun cd1 =>
        X.core_eqb cd1 cd2 && X.commit_agreed (X.s_dest g) (X.rc_fchain r1) (X.rc_aos r1) cd1 &&
        forallb (fun m => negb (memN (m_seq m) (c_exec cd1)) &&
                          PS.in_range (c_start cd1) (c_end cd1) (m_seq m)) (r_msgs r))
        (o_pending (X.rc_out r1)) &&
      Nat.eqb (length (r_msgs r)) (length (r_td r)) &&
      forallb (fun mt =>
        let m := fst mt in
        N.eqb (m_src m) (r_src r) && existsb (C8.msg_eqb m) (c_msgs cd2) &&
        X.msg_agreed (X.rc_fchain r2) (X.rc_aos r2) (r_src r) m &&
        X.tokens_agreed (X.rc_fchain r2) (X.rc_aos r2) (r_src r) (m_seq m) (snd mt) &&
        X.not_costly (X.fdest_of g (X.rc_fchain r2)) (X.rc_aos r2) (m_id m))
        (combine (r_msgs r) (r_td r)))
      (o_pending (X.rc_out r2)).
  Definition report_ok_before (r1 r2 : option X.rctx) (fchain3 : list (N * Z)) (aos3 : list sao) (o3 : outcome) : bool :=
    match o_report o3 with
    | [] => true
    | rs =>
        match r1, r2 with
        | Some a, Some b =>
            forallb (chain_report_ok_tok_before a b) rs &&
            X.nonces_walk (X.fdest_of g fchain3) aos3 [] (flat_map r_msgs rs)
        | _, _ => false
        end
    end.
  Fixpoint walk_before (cur : outcome) (r1 r2 : option X.rctx) (rs : list X.sround_in) (outs : X.sys_out) : bool :=
    match rs, outs with
    | r :: rs', (vals, o) :: outs' =>
        let aos := X.accepted vals (snd r) in
        match o with
        | Ok x =>
            let st := match PS.exec_next (o_state cur) with Ok s => s | _ => 0%N end in
            if N.eqb st 2 then walk_before x (Some (X.mkRC (fst r) aos x)) None rs' outs'
            else if N.eqb st 3 then
              X.carried cur x && walk_before x r1 (Some (X.mkRC (fst r) aos x)) rs' outs'
            else report_ok_before r1 r2 (fst r) aos x && walk_before x None None rs' outs'
        | Err => walk_before cur r1 r2 rs' outs'
        | _ => false
        end
    | [], [] => true
    | _, _ => false
    end.
End Before.
Definition sys_safe_before (i : X.sys_in) (o : X.sys_out) : bool :=
  let '(g, prev, rs) := i in
  walk_before g (C8.thash (C8.mk_htable (X.s_table g))) prev None None rs o && X.noreexec_ok g o.

(* the exact token test alone, as it stood inside chain_report_ok *)
Definition tokens_agreed_before := X.tokens_agreed.

Module TokCase.
  Local Open Scope N_scope.
  Import SysCase.
  (* oracles 0 and 1 (f + 1 = 2) report the commit report of SysCase with token data [(ready, 9)] already inside;
     oracles 2 and 3 report nothing in that round; in the GetMessages round all four report both messages and token
     data for sequence number 6 only, so that the lengths match again *)
  Definition xt : xcommit := mkXC 52 1000 (mkCD 1 root 5 6 [] [] [] [[(true, 9)]]).
  Definition c1 : sobs := mkSO [(1, [xt])] [] [] [] [].
  Definition e1 : sobs := mkSO [] [] [] [] [].
  Definition t2 : sobs := mkSO [] [(1, [(5, SysEx.xm1); (6, SysEx.xm2)])] [(1, [(6, [])])] [] [].
  Definition i : X.sys_in :=
    (g, out_init, [(SysEx.fc, [(0, [1; 9], c1); (1, [1; 9], c1); (2, [1; 9], e1); (3, [1; 9], e1)]);
                   (SysEx.fc, four t2 t2); (SysEx.fc, four SysEx.h3 SysEx.b3)]).
  Definition aos2 : list sao := [(0, t2); (1, t2); (2, t2); (3, t2)].
  (* the model's own history: rejected by the judge as it was, accepted by the repaired one; the report's first
     message (sequence number 5) uses token bytes [9] - carried by the agreed commit data, which
     C07_used_needs_quorum_cycle allows, reported by nobody in the GetMessages round *)
  Example tokens_agreed_before_false_alarm :
    sys_safe_before i (X.sys_model i) = false /\ X.sys_safe i (X.sys_model i) = true /\
    X.sys_judge [(i, X.sys_model i)] = [] /\ X.sys_judge_noclass [(i, X.sys_model i)] = [] /\
    map (fun vo => match snd vo with
                   | Ok o => map (fun r => (map m_seq (r_msgs r), r_td r)) (o_report o)
                   | _ => []
                   end) (X.sys_model i) = [[]; []; [([5; 6], [[9]; []])]] /\
    tokens_agreed_before SysEx.fc aos2 1 5 [9] = false /\
    X.tokens_ok SysEx.fc aos2 (xc_cd xt) 1 5 [9] = true /\
    In [(true, 9)] (c_td (xc_cd xt)).
  Proof. repeat split; try (vm_compute; reflexivity). now left. Qed.
End TokCase.

(* ====================================================================================================== *)
(*  9. (a), the f+1 clause tests: in a cycle of the MODEL every message of the Filter report passes them    *)
(* ====================================================================================================== *)
Lemma quorum_witness {T} (items : sobs -> list T) thr aos x :
  quorum items thr aos x -> (0 < thr)%N -> exists o ob, In (o, ob) aos /\ In x (items ob).
Proof.
  intros [rs [_ [Hthr Hrs]]] Hpos. destruct rs as [|o rs]; [cbn in Hthr; lia|].
  destruct (proj1 (Hrs o) (or_introl eq_refl)) as [ob H]. now exists o, ob.
Qed.

Lemma validated_commit_key_known sup dest fc aos o ob k x :
  sys_validated sup dest fc aos -> In (o, ob) aos -> In x (xcommits_of k ob) -> In k (EM.keys fc).
Proof.
  intros Hv Hi Hx. destruct (Hv o (to_obs ob) (to_aos_in _ _ _ Hi)) as [_ Hval]. unfold EM.validate in Hval.
  apply andb_prop in Hval. destruct Hval as [Hval _]. apply andb_prop in Hval. destruct Hval as [_ Hc].
  unfold EM.validate_chains in Hc. rewrite forallb_forall in Hc. apply memN_In. apply Hc. apply in_or_app. left.
  unfold xcommits_of, EM.entries in Hx. apply in_flat_map in Hx. destruct Hx as [[k' l] [Hkl Hx]]. cbn [fst snd] in Hx.
  destruct (N.eqb_spec k' k) as [->|]; [|destruct Hx].
  unfold EM.keys, to_obs. cbn [EM.o_commits]. rewrite map_map. cbn [fst]. apply in_map_iff. now exists (k, l).
Qed.

Section ModelClauses.
  Variable hash : N -> N -> N.
  Variable zero : N.
  Variable leaf_hash : msg -> option N.
  Variable enc_size : creport -> option N.
  Variable tree_gas : N -> N.
  Variable max_size max_gas : N.
  Variable nonce_key : EM.nonce_t -> N.
  Notation Round := (exec_round hash zero leaf_hash enc_size tree_gas max_size max_gas nonce_key).
  Variables (sup : N -> list N) (bigF : Z) (dest : N) (fc1 fc2 fc3 : list (N * Z)).
  Variables (prev o1 o2 o3 : outcome) (aos1 aos2 aos3 : list sao).
  Hypothesis ND1 : NoDup (map fst aos1).
  Hypothesis ND2 : NoDup (map fst aos2).
  Hypothesis ND3 : NoDup (map fst aos3).
  Hypothesis V1 : sys_validated sup dest fc1 aos1.
  Hypothesis V2 : sys_validated sup dest fc2 aos2.
  Hypothesis V3 : sys_validated sup dest fc3 aos3.
  Hypothesis K1 : key_functional aos1.
  Hypothesis K2 : key_functional aos2.
  Hypothesis R1 : Round bigF dest fc1 prev aos1 = Ok o1.
  Hypothesis S1 : o_state o1 = 2%N.
  Hypothesis R2 : Round bigF dest fc2 o1 aos2 = Ok o2.
  Hypothesis R3 : Round bigF dest fc3 o2 aos3 = Ok o3.
  (* Go maps have unique keys; thresholds are positive (f >= 0) *)
  Hypothesis NDf2 : NoDup (EM.keys fc2).
  Hypothesis Hpos1 : (0 < f_plus_1 (EM.f_dest dest fc1))%N.
  Hypothesis Hpos2 : forall k f, In (k, f) fc2 -> (0 < f_plus_1 f)%N.
  Hypothesis Hfd2 : (0 <= EM.f_dest dest fc2)%Z.
  (* the hypothesis of C07_token_data_cycle: the agreed commit data carry no token data *)
  Hypothesis Hclean : forall cd, In cd (o_pending o1) -> c_td cd = [] /\ (c_start cd < two64)%N /\ (c_end cd < two64)%N.

  Theorem model_clause_tests r mm :
    In r (o_report o3) -> In mm (r_msgs r) ->
    exists cd1 cd2,
      In cd1 (o_pending o1) /\ In cd2 (o_pending o2) /\ X.core_eqb cd1 cd2 = true /\
      X.commit_agreed dest fc1 aos1 cd1 = true /\                                                   (* (i) *)
      negb (memN (m_seq mm) (c_exec cd1)) && PS.in_range (c_start cd1) (c_end cd1) (m_seq mm) = true /\   (* (c), interval *)
      N.eqb (m_src mm) (r_src r) = true /\
      X.msg_agreed fc2 aos2 (r_src r) mm = true /\                                                  (* (ii) *)
      (exists p bytes, nth_error (r_msgs r) p = Some mm /\ nth_error (r_td r) p = Some bytes /\
                       X.tokens_agreed fc2 aos2 (r_src r) (m_seq mm) bytes = true) /\               (* (iii) *)
      X.not_costly (EM.f_dest dest fc2) aos2 (m_id mm) = true /\
      (m_nonce mm = 0%N \/
       exists v, X.nonce_agreed (EM.f_dest dest fc3) aos3 (r_src r, m_sender mm, v) = true).         (* (iv) *)
  Proof.
    intros Hr Hmm.
    destruct (cycle_message hash zero leaf_hash enc_size tree_gas max_size max_gas nonce_key sup bigF dest fc1 fc2 fc3
                prev o1 o2 o3 aos1 aos2 aos3 ND1 ND2 ND3 V1 V2 V3 K1 K2 R1 S1 R2 R3 r mm Hr Hmm)
      as [Hsrc [x [cd2 [xm [fk [i [p [td H]]]]]]]].
    destruct H as [Hq [Hsx [Hrng [Hp1 [Hcd2 [_ [E1 [E2 [E3 [E4 [E5 [Hex [Exm [Hfk [Hqm [_ [_ [_ [_ [_ [_ [_ [_ Hnon]]]]]]]]]]]]]]]]]]]]]]].
    exists (xc_cd x), cd2. split; [exact Hp1|]. split; [exact Hcd2|].
    assert (Hlk : alookup (r_src r) fc2 = Some fk) by (apply alookup_NoDup_In; assumption).
    split; [|split; [|split; [|split; [|split; [|split; [|split]]]]]].
    - unfold X.core_eqb. rewrite E1, E2, E3, E4, E5, !N.eqb_refl. cbn [andb]. now apply (leqb_iff _ N_iff).
    - destruct (quorum_witness _ _ _ _ Hq Hpos1) as [o [ob [Hi Hx]]].
      apply commit_agreed_complete; rewrite Hsx.
      + eapply validated_commit_key_known; eassumption.
      + apply xcommits_at_in. now exists o, ob.
      + exact Hq.
    - rewrite Hex, Hrng. reflexivity.
    - now apply N.eqb_eq.
    - destruct (quorum_witness _ _ _ _ Hqm (Hpos2 _ _ Hfk)) as [o [ob [Hi Hx]]]. rewrite <- Exm.
      apply (msg_agreed_complete fc2 aos2 (r_src r) fk xm Hlk); [|exact Hqm]. apply xmsgs_at_in. now exists o, ob.
    - destruct (cycle_token_data hash zero leaf_hash enc_size tree_gas max_size max_gas nonce_key bigF dest fc2 fc3
                  o1 o2 o3 aos2 aos3 ND2 R2 R3 r mm Hr Hmm Hclean) as [p' [slots [Hq1 [Hq2 Hall]]]].
      exists p', (td_bytes (to_td slots)). split; [exact Hq1|]. split; [exact Hq2|].
      apply (tokens_agreed_complete fc2 aos2 (r_src r) (m_seq mm) fk); [exact Hlk|].
      intros n d Hn. unfold td_bytes, to_td in Hn. rewrite map_map in Hn. cbn [snd] in Hn. rewrite nth_error_map in Hn.
      destruct (nth_error slots n) as [t|] eqn:Et; [|discriminate]. cbn [option_map] in Hn. inversion Hn; subst d.
      destruct (Hall n t Et) as [Hrd [f [Hf Hqt]]]. rewrite Hlk in Hf. inversion Hf; subst f.
      destruct t as [rd dt]. cbn [EM.t_ready EM.t_data] in *. now subst rd.
    - apply not_costly_complete; [exact ND2|]. intros rs NDr Hrs. destruct rs as [|o rs'] eqn:Ers; [cbn; lia|].
      rewrite <- Ers in *.
      apply (cycle_not_costly hash zero leaf_hash enc_size tree_gas max_size max_gas nonce_key sup bigF dest fc1 fc2 fc3
               prev o1 o2 o3 aos1 aos2 aos3 ND1 ND2 ND3 V1 V2 V3 K1 K2 R1 S1 R2 R3 r mm rs Hr Hmm NDr); [|exact Hrs].
      rewrite Ers. discriminate.
    - destruct Hnon as [H0|[v Hv]]; [now left|right]. exists v. now apply nonce_agreed_complete.
  Qed.
End ModelClauses.

(* JudgeSoundC16P.v — the executable properties of Check/C16_check.v (sched_ok, rep_ok, gate_ok) tied to the
   Prop-level clauses of Props/C16.v.  For every sink: the model's own output passes the judge (so code 2 never fires
   on an agreeing case), and an ARBITRARY output that passes the judge satisfies the property clause. *)
Require Import Verif.Model.Base Verif.Proofs.BaseP Verif.Model.Transmit Verif.Proofs.TransmitP Verif.Check.C16_check.
From Coq Require Import Sorting.Sorted.

(* ---------- reflection of the boolean equalities used by the case types ---------- *)
Lemma js16_list_eqb_eq {A} (e : A -> A -> bool) :
  (forall a b, e a b = true <-> a = b) -> forall l1 l2, list_eqb e l1 l2 = true <-> l1 = l2.
Proof.
  intros He. induction l1 as [|x l1 IH]; intros [|y l2]; cbn [list_eqb]; try (split; [discriminate|discriminate]).
  - split; reflexivity.
  - rewrite andb_true_iff, He, IH. split; [intros [-> ->]; reflexivity| intros H; inversion H; split; reflexivity].
Qed.

Lemma js16_listN_eqb_eq l1 l2 : list_eqb N.eqb l1 l2 = true <-> l1 = l2.
Proof. apply js16_list_eqb_eq. exact N.eqb_eq. Qed.
Lemma js16_listZ_eqb_eq l1 l2 : list_eqb Z.eqb l1 l2 = true <-> l1 = l2.
Proof. apply js16_list_eqb_eq. exact Z.eqb_eq. Qed.

Lemma sched_eqb_eq (a b : sched_t) : sched_eqb a b = true <-> a = b.
Proof.
  unfold sched_eqb, option_eqb, pair_eqb. destruct a as [[t d]|], b as [[t' d']|]; cbn [fst snd].
  - rewrite andb_true_iff, js16_listN_eqb_eq, js16_listZ_eqb_eq.
    split; [intros [-> ->]; reflexivity| intros H; inversion H; split; reflexivity].
  - split; discriminate.
  - split; discriminate.
  - split; reflexivity.
Qed.

(* ---------- the item list of a case against the (sup, order) vocabulary of the theorems ---------- *)
Lemma sup_of_item items p : NoDup (map fst items) -> In p items -> sup_of items (fst p) = snd p.
Proof.
  intros ND HI. unfold sup_of. destruct p as [k v]. cbn [fst snd].
  now rewrite (alookup_NoDup_In k items v ND HI).
Qed.

Lemma writers_l_filter (sup : N -> N) (l : list (N * N)) :
  (forall p, In p l -> sup (fst p) = snd p) ->
  map fst (filter (fun p => N.eqb (snd p) 1) l) = filter (fun o => N.eqb (sup o) 1) (map fst l).
Proof.
  induction l as [|p l IH]; intros H; cbn [filter map]; [reflexivity|].
  rewrite (H p (or_introl eq_refl)).
  destruct (N.eqb (snd p) 1); cbn [map]; rewrite IH; try reflexivity; intros q Hq; apply H; now right.
Qed.

Lemma writers_l_writers items :
  NoDup (map fst items) -> writers_l items = writers (sup_of items) (map fst items).
Proof. intros ND. apply writers_l_filter. intros p Hp. now apply sup_of_item. Qed.

Lemma any_err_exists (sup : N -> N) (l : list (N * N)) :
  (forall p, In p l -> sup (fst p) = snd p) ->
  existsb (fun p => negb (N.eqb (snd p) 0) && negb (N.eqb (snd p) 1)) l =
  existsb (fun o => negb (N.eqb (sup o) 0) && negb (N.eqb (sup o) 1)) (map fst l).
Proof.
  induction l as [|p l IH]; intros H; cbn [existsb map]; [reflexivity|].
  rewrite (H p (or_introl eq_refl)). rewrite IH; [reflexivity|]. intros q Hq; apply H; now right.
Qed.

Lemma any_err_has_err items :
  NoDup (map fst items) -> any_err items = has_err (sup_of items) (map fst items).
Proof. intros ND. apply any_err_exists. intros p Hp. now apply sup_of_item. Qed.

(* ---------- the schedule in closed form: sort the writers ---------- *)
Lemma filter_sorted (f : N -> bool) l : StronglySorted N.le l -> StronglySorted N.le (filter f l).
Proof.
  induction 1 as [|x l S IH Hall]; cbn [filter]; [constructor|].
  destruct (f x); [|exact IH].
  constructor; [exact IH|]. rewrite Forall_forall in *. intros y Hy. apply filter_In in Hy. apply Hall, Hy.
Qed.

Lemma writers_sortN sup l : writers sup (sortN l) = sortN (writers sup l).
Proof.
  apply nsorted_perm_eq.
  - apply filter_sorted, sortN_sorted.
  - apply sortN_sorted.
  - etransitivity; [apply Permutation_filter_compat, sortN_perm_self|]. symmetry. apply sortN_perm_self.
Qed.

Lemma schedule_closed_form sup order mult :
  schedule sup order mult =
  if has_err sup order then None
  else match sortN (writers sup order) with
       | [] => None
       | t => Some (t, delays mult (length t))
       end.
Proof.
  unfold schedule. rewrite collect_spec, (has_err_perm sup _ _ (sortN_perm_self order)), writers_sortN.
  destruct (has_err sup order); [reflexivity|]. destruct (sortN (writers sup order)); reflexivity.
Qed.

Lemma strictly_asc_sorted_nodup l : StronglySorted N.le l -> NoDup l -> strictly_asc l = true.
Proof.
  induction 1 as [|x l S IH Hall]; intros ND; [reflexivity|].
  inversion ND as [|? ? Hn ND']; subst. destruct l as [|y l']; [reflexivity|].
  change (strictly_asc (x :: y :: l')) with (N.ltb x y && strictly_asc (y :: l')). rewrite (IH ND'), andb_true_r. apply N.ltb_lt.
  rewrite Forall_forall in Hall. assert (Hle := Hall y (or_introl eq_refl)).
  assert (x <> y) by (intros ->; apply Hn; now left). lia.
Qed.

Lemma strictly_asc_lt l : strictly_asc l = true -> StronglySorted N.lt l.
Proof.
  induction l as [|x l IH]; intros H; [constructor|].
  destruct l as [|y l']; [constructor; constructor|].
  change (strictly_asc (x :: y :: l')) with (N.ltb x y && strictly_asc (y :: l')) in H.
  apply andb_true_iff in H. destruct H as [Hxy H]. apply N.ltb_lt in Hxy.
  specialize (IH H). constructor; [exact IH|].
  inversion IH as [|? ? _ Hall]; subst. constructor; [exact Hxy|].
  eapply Forall_impl; [|exact Hall]. cbn. intros; lia.
Qed.

Lemma sortN_nil_inv l : sortN l = [] -> l = [].
Proof. intros H. apply length_zero_iff_nil. unfold sortN in H. rewrite <- (sort_by_length N.leb l), H. reflexivity. Qed.

(* ---------- sink sched: one call ---------- *)
(* On an item list with unique oracle ids the executable clause set sched_ok1 holds of EXACTLY one answer: the
   schedule of the theorems.  Both directions: <- is "the model passes", -> is soundness at its strongest. *)
Theorem sched_ok1_iff items mult o :
  NoDup (map fst items) ->
  (sched_ok1 items mult o = true <-> o = schedule (sup_of items) (map fst items) mult).
Proof.
  intros ND. rewrite schedule_closed_form. unfold sched_ok1.
  rewrite (any_err_has_err items ND), (writers_l_writers items ND).
  set (E := has_err (sup_of items) (map fst items)). set (W := writers (sup_of items) (map fst items)).
  assert (NDW : NoDup W) by (apply NoDup_filter; exact ND).
  destruct o as [[t d]|].
  - destruct E; cbn [negb andb]; [split; discriminate|].
    rewrite !andb_true_iff, js16_listN_eqb_eq, js16_listZ_eqb_eq, negb_true_iff.
    split.
    + intros [[[Hasc Ht] Hne] Hd]. subst d. rewrite <- Ht. destruct t; [discriminate|reflexivity].
    + intros H. destruct (sortN W) as [|w ws] eqn:S; [discriminate|]. inversion H; subst t d; clear H.
      repeat split; try reflexivity.
      rewrite <- S. apply strictly_asc_sorted_nodup; [apply sortN_sorted|].
      eapply Permutation_NoDup; [symmetry; apply sortN_perm_self|exact NDW].
  - destruct E; cbn [orb]; [split; reflexivity|].
    destruct W as [|w ws] eqn:HW.
    + cbn. split; reflexivity.
    + destruct (sortN (w :: ws)) eqn:S; [apply sortN_nil_inv in S; discriminate|]. split; discriminate.
Qed.

(* soundness in the vocabulary of C16_schedule_members / C16_schedule_error_iff, for an arbitrary answer *)
Theorem sched_ok1_sound items mult o :
  NoDup (map fst items) -> sched_ok1 items mult o = true ->
  let sup := sup_of items in let order := map fst items in
  match o with
  | None => has_err sup order = true \/ writers sup order = []
  | Some (t, d) =>
      has_err sup order = false /\
      Permutation t (writers sup order) /\ NoDup t /\ StronglySorted N.lt t /\
      (forall x, In x t <-> In x order /\ sup x = 1%N) /\
      length d = length t /\
      (forall k, (k < length t)%nat -> nth k d 0%Z = (mult * (Z.of_nat k + 1))%Z)
  end.
Proof.
  intros ND H sup order. assert (Hasc : match o with Some (t, _) => strictly_asc t = true | None => True end).
  { destruct o as [[t d]|]; [|exact I]. unfold sched_ok1 in H. rewrite !andb_true_iff in H. tauto. }
  apply (sched_ok1_iff items mult o ND) in H. fold sup order in H.
  destruct o as [[t d]|].
  - symmetry in H. destruct (schedule_members sup order mult t d ND H) as (P & NDt & _ & Hin & Hl & Hn).
    repeat split; try assumption; try (apply Hin; assumption); try (apply Hin in H0; tauto).
    + destruct (has_err sup order) eqn:E; [|reflexivity].
      assert (schedule sup order mult = None) by (apply schedule_none_iff; now left). congruence.
    + now apply strictly_asc_lt.
  - symmetry in H. apply (proj1 (schedule_none_iff sup order mult)). exact H.
Qed.

(* ---------- sink sched: the two calls of one case ---------- *)
Lemma collect_ext sup sup' ids :
  (forall o, In o ids -> sup o = sup' o) -> collect sup ids = collect sup' ids.
Proof.
  induction ids as [|o ids IH]; intros H; cbn [collect]; [reflexivity|].
  rewrite <- (H o (or_introl eq_refl)), IH; [reflexivity|]. intros x Hx. apply H. now right.
Qed.

Lemma schedule_ext sup sup' order mult :
  (forall o, In o order -> sup o = sup' o) -> schedule sup order mult = schedule sup' order mult.
Proof.
  intros H. unfold schedule. rewrite (collect_ext sup sup' (sortN order)); [reflexivity|].
  intros o Ho. apply H. eapply Permutation_in; [apply sortN_perm_self|exact Ho].
Qed.

Lemma sup_of_perm a b o :
  NoDup (map fst a) -> Permutation a b -> In o (map fst a) -> sup_of a o = sup_of b o.
Proof.
  intros ND P Ho. apply in_map_iff in Ho. destruct Ho as [p [<- Hp]].
  rewrite (sup_of_item a p ND Hp). symmetry. apply sup_of_item.
  - eapply Permutation_NoDup; [apply Permutation_map; exact P|exact ND].
  - eapply Permutation_in; eassumption.
Qed.

(* (a) the harness hands the same id -> answer table in two orders *)
Theorem sched_model_passes (i : sched_in) :
  let '(a, b, mult) := i in
  NoDup (map fst a) -> Permutation a b -> sched_ok i (sched_model i) = true.
Proof.
  destruct i as [[a b] mult]. intros ND P.
  assert (NDb : NoDup (map fst b)) by (eapply Permutation_NoDup; [apply Permutation_map; exact P|exact ND]).
  unfold sched_ok, sched_model. cbn [fst snd]. rewrite !andb_true_iff. repeat split.
  - now apply sched_ok1_iff.
  - now apply sched_ok1_iff.
  - apply sched_eqb_eq.
    rewrite (schedule_order_indep (sup_of a) (map fst a) (map fst b) mult (Permutation_map fst P)).
    apply schedule_ext. intros o Ho. apply sup_of_perm; try assumption.
    eapply Permutation_in; [symmetry; apply Permutation_map; exact P|exact Ho].
Qed.

(* (b) any pair of answers that passes: each is the schedule of its call, and the two oracles agree *)
Theorem sched_sound (i : sched_in) (o : sched_out) :
  let '(a, b, mult) := i in
  NoDup (map fst a) -> NoDup (map fst b) -> sched_ok i o = true ->
  fst o = schedule (sup_of a) (map fst a) mult /\ snd o = schedule (sup_of b) (map fst b) mult /\ fst o = snd o.
Proof.
  destruct i as [[a b] mult]. intros NDa NDb H. unfold sched_ok in H. rewrite !andb_true_iff in H.
  destruct H as [[Ha Hb] He].
  repeat split; [now apply sched_ok1_iff|now apply sched_ok1_iff|now apply sched_eqb_eq].
Qed.

Example sched_ok_example :
  sched_ok ([(3, 1); (1, 1); (2, 0)]%N, [(2, 0); (3, 1); (1, 1)]%N, 3%Z)
           (Some ([1; 3]%N, [3; 6]%Z), Some ([1; 3]%N, [3; 6]%Z)) = true.
Proof. vm_compute. reflexivity. Qed.

(* ---------- sink rep: Plugin.Reports ---------- *)
(* the answer of one call, as the theorems speak of it *)
Definition rep_spec (i : rep_in) (r : rep_res) : Prop :=
  let '(plugin, items, empty, mult) := i in
  let sup := sup_of items in let order := map fst items in
  match r with
  | Ok None => plugin = 0%N /\ empty = true                       (* only the commit plugin skips an empty report *)
  | Ok (Some s) => schedule sup order mult = Some s               (* a report carries THE schedule *)
  | Err => (plugin = 0%N /\ empty = true) \/ schedule sup order mult = None
  | _ => False
  end.

Theorem rep_model_passes (i : rep_in) :
  let '(plugin, items, empty, mult) := i in
  NoDup (map fst items) -> rep_ok i (rep_model i) = true.
Proof.
  destruct i as [[[plugin items] empty] mult]. intros ND. unfold rep_ok, rep_model, rep_model1.
  destruct (N.eqb plugin 0 && empty) eqn:E; [reflexivity|].
  destruct (schedule (sup_of items) (map fst items) mult) as [s|] eqn:S.
  - apply sched_ok1_iff; [exact ND|now symmetry].
  - cbn [orb]. apply sched_ok1_iff; [exact ND|now symmetry].
Qed.

(* (b) one answer only, and it is the one the theorems describe; several distinct answers never pass *)
Theorem rep_sound (i : rep_in) (o : rep_out) :
  let '(plugin, items, empty, mult) := i in
  NoDup (map fst items) -> rep_ok i o = true -> exists r, o = [r] /\ rep_spec i r.
Proof.
  destruct i as [[[plugin items] empty] mult]. intros ND H. unfold rep_ok in H.
  destruct o as [|r [|r' o']]; try discriminate. exists r. split; [reflexivity|].
  unfold rep_spec. destruct r as [[s|]| | |]; try discriminate.
  - symmetry. now apply sched_ok1_iff.
  - apply andb_true_iff in H. destruct H as [Hp He]. apply N.eqb_eq in Hp. now split.
  - apply orb_true_iff in H. destruct H as [H|H].
    + left. apply andb_true_iff in H. destruct H as [Hp He]. apply N.eqb_eq in Hp. now split.
    + right. symmetry. now apply sched_ok1_iff.
Qed.

Example rep_ok_example :
  rep_ok (1%N, [(3, 1); (1, 1); (2, 0)]%N, false, 3%Z) [Ok (Some ([1; 3]%N, [3; 6]%Z))] = true.
Proof. vm_compute. reflexivity. Qed.

(* ---------- sink gate: the four callbacks ---------- *)
(* the C16 gate clauses on an arbitrary answer o (1 = "transmit" / "accept") *)
Definition gate_spec (g : gate_in) (o : N) : Prop :=
  o = 1%N ->
  match g with
  | GCommitT my cand d r => exists c, cand = Some c /\ c <> my /\ d = true /\ r = true   (* only the active instance *)
  | GExecT w my cand d => w = Some true /\ exists c, cand = Some c /\ c <> my /\ d = true   (* ... that writes the destination *)
  | GCommitA d r t g s c i rmn f => commit_report_empty r t g s = false   (* empty reports are not accepted *)
  | GExecA n d cr c => cr <> 0%N
  end.

Theorem gate_model_passes g : gate_ok g (gate_model g) = true.
Proof.
  destruct g as [my cand d r|w my cand d|d r t g s c i rmn f|n d cr c]; unfold gate_ok, gate_model.
  - destruct (N.eqb_spec (code (commit_should_transmit my cand d r)) 1) as [H|H]; [|reflexivity].
    destruct (commit_should_transmit my cand d r) as [[|]| | |] eqn:E; try discriminate.
    apply commit_transmit_true_inv in E. destruct E as (c0 & -> & Hne & -> & ->).
    rewrite !andb_true_r. now apply negb_true_iff, N.eqb_neq.
  - destruct (N.eqb_spec (code (exec_should_transmit w my cand d)) 1) as [H|H]; [|reflexivity].
    destruct (exec_should_transmit w my cand d) as [[|]| | |] eqn:E; try discriminate.
    apply exec_transmit_true_inv in E. destruct E as (-> & c0 & -> & Hne & ->).
    rewrite andb_true_r. now apply negb_true_iff, N.eqb_neq.
  - set (c' := if N.eqb r 0 then 0%N else c).
    destruct (N.eqb_spec (code (commit_should_accept d r t g s c' i rmn f)) 1) as [H|H]; [|reflexivity].
    destruct (commit_should_accept d r t g s c' i rmn f) as [[|]| | |] eqn:E; try discriminate.
    apply commit_accept_true_inv in E. destruct E as (_ & -> & _). reflexivity.
  - set (c' := if N.eqb cr 0 then 0%N else c).
    destruct (N.eqb_spec (code (exec_should_accept n d cr c')) 1) as [H|H]; [|reflexivity].
    destruct (exec_should_accept n d cr c') as [[|]| | |] eqn:E; try discriminate.
    apply negb_true_iff, N.eqb_neq. intros ->. now apply empty_exec_report_not_accepted in E.
Qed.

Theorem gate_sound g o : gate_ok g o = true -> gate_spec g o.
Proof.
  intros H ->. destruct g as [my cand d r|w my cand d|d r t g s c i rmn f|n d cr c]; cbn [gate_ok N.eqb Pos.eqb] in H.
  - rewrite !andb_true_iff in H. destruct H as [[H ->] ->].
    destruct cand as [c0|]; [|discriminate]. exists c0. split; [reflexivity|].
    split; [now apply N.eqb_neq, negb_true_iff|split; reflexivity].
  - rewrite andb_true_iff in H. destruct H as [H ->].
    destruct w as [[|]|]; try discriminate. destruct cand as [c0|]; [|discriminate].
    split; [reflexivity|]. exists c0. split; [reflexivity|]. split; [now apply N.eqb_neq, negb_true_iff|reflexivity].
  - now apply negb_true_iff.
  - now apply N.eqb_neq, negb_true_iff.
Qed.

Example gate_ok_example : gate_ok (GExecT (Some true) 1%N (Some 2%N) true) 1%N = true.
Proof. reflexivity. Qed.

(* What gate_ok was before this file was written: the transmit clauses checked the digests only. An answer "transmit"
   for a report whose roots-state check FAILED passed it, although C16_commit_transmit_only_active forbids that. *)
Definition gate_ok_before (g : gate_in) (o : N) : bool :=
  match g with
  | GCommitT my cand d r =>
      if N.eqb o 1 then match cand with Some c => negb (N.eqb c my) | None => false end else true
  | GExecT w my cand d =>
      if N.eqb o 1 then
        match w, cand with Some true, Some c => negb (N.eqb c my) | _, _ => false end
      else true
  | _ => gate_ok g o
  end.
Example gate_ok_before_weak :
  gate_ok_before (GCommitT 1%N (Some 2%N) true false) 1%N = true /\
  ~ gate_spec (GCommitT 1%N (Some 2%N) true false) 1%N /\
  gate_ok (GCommitT 1%N (Some 2%N) true false) 1%N = false.
Proof.
  split; [reflexivity|]. split; [|reflexivity].
  intros H. destruct (H eq_refl) as (c & _ & _ & _ & Hr). discriminate.
Qed.

(* JudgeSoundC19P.v — the executable properties of Check/C19_check.v (bg_ok, comp_ok, ctor_ok, plug_ok) tied to the
   statements of Props/C19.v:
     x_model_passes : the model's own output passes the executable property;
     x_sound        : an ARBITRARY output accepted by the executable property satisfies the property clauses, stated
                      with the vocabulary of the Props theorems (In, NoDup, <=, exists ...). *)
Require Import Verif.Model.Base Verif.Proofs.BaseP Verif.Model.BgObserver Verif.Proofs.BgObserverP.
Require Import Verif.Check.C19_check.

(* ====================== boolean equalities decide equality ====================== *)
Lemma list_eqb_spec {A} (e : A -> A -> bool) :
  (forall a b, e a b = true <-> a = b) -> forall l1 l2, list_eqb e l1 l2 = true <-> l1 = l2.
Proof.
  intros He. induction l1 as [|x l1 IH]; intros [|y l2]; cbn [list_eqb]; try (split; [discriminate|discriminate]).
  - tauto.
  - rewrite andb_true_iff, He, IH. split; [intros [-> ->]; reflexivity|intros H; inversion H; auto].
Qed.
Lemma bool_eqb_spec a b : Bool.eqb a b = true <-> a = b.
Proof. apply Bool.eqb_true_iff. Qed.
Lemma tok_eqb_spec a b : tok_eqb a b = true <-> a = b.
Proof.
  destruct a as [r1 s1 d1], b as [r2 s2 d2]. unfold tok_eqb. cbn [t_ready t_sup t_data].
  rewrite !andb_true_iff, !bool_eqb_spec, N.eqb_eq.
  split; [intros [[-> ->] ->]; reflexivity|intros H; inversion H; auto].
Qed.
Lemma tdata_eqb_spec a b : tdata_eqb a b = true <-> a = b.
Proof. apply list_eqb_spec, tok_eqb_spec. Qed.
Lemma tdata_eqb_refl a : tdata_eqb a a = true.
Proof. now apply tdata_eqb_spec. Qed.
Lemma ent_eqb_spec a b : ent_eqb a b = true <-> a = b.
Proof.
  destruct a as [[a1 a2] a3], b as [[b1 b2] b3]. unfold ent_eqb. cbn [fst snd].
  rewrite !andb_true_iff, !N.eqb_eq, tdata_eqb_spec.
  split; [intros [[-> ->] ->]; reflexivity|intros H; inversion H; auto].
Qed.
Lemma obs_res_eqb_spec a b : obs_res_eqb a b = true <-> a = b.
Proof.
  destruct a as [x| |], b as [y| |]; cbn [obs_res_eqb]; try (split; [discriminate|discriminate]); try tauto.
  rewrite (list_eqb_spec _ ent_eqb_spec). split; [intros ->; reflexivity|intros H; inversion H; auto].
Qed.
Lemma bout_eqb_spec a b : bout_eqb a b = true <-> a = b.
Proof.
  destruct a, b; cbn [bout_eqb]; try (split; [discriminate|discriminate]); try tauto.
  - rewrite obs_res_eqb_spec. split; [intros ->; reflexivity|intros H; inversion H; auto].
  - rewrite andb_true_iff, !(list_eqb_spec N.eqb N.eqb_eq).
    split; [intros [-> ->]; reflexivity|intros H; inversion H; auto].
  - rewrite N.eqb_eq. split; [intros ->; reflexivity|intros H; inversion H; auto].
  - rewrite andb_true_iff, !bool_eqb_spec. split; [intros [-> ->]; reflexivity|intros H; inversion H; auto].
Qed.

Lemma Forall2_imp {A B} (P Q : A -> B -> Prop) : (forall a b, P a b -> Q a b) ->
  forall l1 l2, Forall2 P l1 l2 -> Forall2 Q l1 l2.
Proof. intros H l1 l2 HF. induction HF; constructor; auto. Qed.

Lemma Forall2_len {A B} (P : A -> B -> Prop) l1 l2 : Forall2 P l1 l2 -> length l1 = length l2.
Proof. induction 1; cbn [length]; congruence. Qed.

(* ====================== the walk, one event at a time ====================== *)
Definition hist_next (hist : list (N * tdata * N)) (e : bev) : list (N * tdata * N) :=
  match e with
  | BReturn id (FOk d) now => if sup_ready d then (id, d, now) :: hist else hist
  | _ => hist
  end.
Definition seen_next (seen : list N) (e : bev) : list N :=
  match e with BObserve ms _ => add_seen seen ms | _ => seen end.
(* the check walk_ok performs at one event e with recorded output o, (e', o') being what follows *)
Definition ev_ok (strict : bool) (vw : msg -> tdata -> tdata) (w ttl : N) (seen : list N) (hist : list (N * tdata * N))
           (e : bev) (o : bout) (e' : list bev) (o' : list bout) : bool :=
  match e, o with
  | BObserve ms now, OObs (Done es) =>
      entries_ok vw ttl hist now ms es &&
      match next_probe e' o' with Some (q, f) => all_accounted vw ttl hist now q f ms es | None => true end
  | BObserve ms now, OObs ObsErr => err_allowed strict ttl hist now ms
  | BObserve _ _, _ => false
  | BTake _, OTake t f => t && f
  | BTake _, _ => false
  | BProbe, OProbe q f =>
      (match q with [] => true | _ => N.leb w (N.of_nat (length f)) end) &&
      Nat.leb (length q) (length seen) && nodupb N.eqb q
  | BProbe, _ => false
  | _, _ => true
  end.

Lemma walk_ok_cons strict vw w ttl seen hist e o e' o' :
  walk_ok strict vw w ttl seen hist (e :: e') (o :: o') =
  ev_ok strict vw w ttl seen hist e o e' o' && walk_ok strict vw w ttl (seen_next seen e) (hist_next hist e) e' o'.
Proof.
  destruct e as [ms now|id|id r now|now| | | | |]; cbn [walk_ok ev_ok seen_next hist_next andb];
    try (destruct o; reflexivity).
  - destruct r as [d| |]; destruct o; reflexivity.
Qed.
Lemma walk_ok_nil_l strict vw w ttl seen hist outs :
  walk_ok strict vw w ttl seen hist [] outs = true -> outs = [].
Proof. destruct outs; [reflexivity|discriminate]. Qed.
Lemma walk_ok_nil_r strict vw w ttl seen hist e evs :
  walk_ok strict vw w ttl seen hist (e :: evs) [] = false.
Proof. destruct e as [| |id r now| | | | | |]; try reflexivity. destruct r; reflexivity. Qed.

(* ====================== soundness: what an accepted record of observations says ====================== *)
(* the message ids asked for by the Observe calls of a history *)
Definition asked (pre : list bev) : list N :=
  flat_map (fun e => match e with BObserve ms _ => map m_id ms | _ => [] end) pre.

Lemma latest_In id hist : forall d t, latest id hist = Some (d, t) -> In (id, d, t) hist.
Proof.
  induction hist as [|[[i d0] t0] hist IH]; intros d t H; cbn [latest] in H; [discriminate|].
  destruct (N.eqb_spec i id) as [->|Hne].
  - inversion H; subst. now left.
  - right. now apply IH.
Qed.

Lemma add_seen_spec ms : forall seen, NoDup seen ->
  NoDup (add_seen seen ms) /\ (forall x, In x (add_seen seen ms) <-> In x seen \/ In x (map m_id ms)).
Proof.
  unfold add_seen. induction ms as [|m ms IH]; intros seen Hnd; cbn [fold_left map In].
  - split; [exact Hnd|]. intros x. tauto.
  - destruct (memN (m_id m) seen) eqn:Hm.
    + destruct (IH seen Hnd) as [A B]. split; [exact A|]. intros x. rewrite B. apply memN_In in Hm.
      split; [tauto|]. intros [H|[<-|H]]; auto.
    + assert (Hnin : ~ In (m_id m) seen) by (intros Hin; apply memN_In in Hin; congruence).
      destruct (IH (m_id m :: seen)) as [A B]; [now constructor|]. split; [exact A|].
      intros x. rewrite B. cbn [In]. tauto.
Qed.

Section WalkSound.
  Variable strict : bool.                       (* true: the background observer alone; false: under the composite *)
  Variable vw : msg -> tdata -> tdata.          (* how the caller sees a message's token data (identity / composite merge) *)
  Variables w ttl : N.

  (* data d for message id was handed back by a fetch that returned at time t, all supported tokens ready
     (what C19_cache_provenance says of every cache entry) *)
  Definition fetched (pre : list bev) (id : N) (d : tdata) (t : N) : Prop :=
    In (BReturn id (FOk d) t) pre /\ sup_ready d = true.
  (* C19_shape + C19_ready_only_not_expired (+ provenance): the entry is keyed like the message and shows the
     not-ready placeholder, or data a fetch returned earlier, all supported tokens ready, not older than ttl *)
  Definition entry_prop (pre : list bev) (now : N) (m : msg) (e : N * N * tdata) : Prop :=
    key_of_ent e = key_of_msg m /\
    (snd e = vw m (initial_td m) \/
     exists d t, fetched pre (m_id m) d t /\ snd e = vw m d /\ (now <= t + ttl)%N).
  (* C19_asked_is_accounted: served with data, or waiting (q), or being fetched (f) *)
  Definition accounted_prop (pre : list bev) (now : N) (q f : list N) (m : msg) (e : N * N * tdata) : Prop :=
    snd e <> vw m (initial_td m) \/ In (m_id m) q \/ In (m_id m) f \/
    exists d t, fetched pre (m_id m) d t /\ vw m d = vw m (initial_td m) /\ (now <= t + ttl)%N.
  (* the only error an Observe may answer with: under the composite, unexpired fetched data with another slot count *)
  Definition err_prop (pre : list bev) (now : N) (ms : list msg) : Prop :=
    strict = false /\
    exists m d t, In m ms /\ fetched pre (m_id m) d t /\ (now <= t + ttl)%N /\ length d <> length (m_sup m).

  (* C19_nonblocking: Observe answers (never Blocked); the answer is as above *)
  Definition obs_prop (pre : list bev) (now : N) (ms : list msg) (r : obs_res)
             (rest_e : list bev) (rest_o : list bout) : Prop :=
    match r with
    | Done es =>
        Forall2 (entry_prop pre now) ms es /\
        forall takes rest q f,
          rest_e = map BTake takes ++ BProbe :: rest -> nth_error rest_o (length takes) = Some (OProbe q f) ->
          Forall2 (accounted_prop pre now q f) ms es
    | ObsErr => err_prop pre now ms
    | Blocked => False
    end.
  Definition ev_prop (pre : list bev) (e : bev) (o : bout) (rest_e : list bev) (rest_o : list bout) : Prop :=
    match e with
    | BObserve ms now => exists r, o = OObs r /\ obs_prop pre now ms r rest_e rest_o
    | BTake _ => o = OTake true true        (* a waiting message was taken, nothing older was overtaken *)
    | BProbe =>
        exists q f, o = OProbe q f /\
          (q <> [] -> (w <= N.of_nat (length f))%N) /\     (* no idle worker while messages wait *)
          NoDup q /\                                         (* no message waits twice (C19_queue_inv) *)
          exists s, NoDup s /\ incl s (asked pre) /\ (length q <= length s)%nat   (* only messages asked for wait *)
    | _ => True
    end.
  (* pre0: the events before the walk starts *)
  Definition walk_prop (pre0 : list bev) (evs : list bev) (outs : list bout) : Prop :=
    length outs = length evs /\
    forall k e, nth_error evs k = Some e ->
      exists o, nth_error outs k = Some o /\
                ev_prop (pre0 ++ firstn k evs) e o (skipn (S k) evs) (skipn (S k) outs).

  Definition hist_from (hist : list (N * tdata * N)) (pre : list bev) : Prop :=
    forall id d t, In (id, d, t) hist -> fetched pre id d t.
  Definition seen_from (seen : list N) (pre : list bev) : Prop := NoDup seen /\ incl seen (asked pre).

  Lemma entries_ok_sound hist pre now : hist_from hist pre ->
    forall ms es, entries_ok vw ttl hist now ms es = true -> Forall2 (entry_prop pre now) ms es.
  Proof.
    intros Hh. induction ms as [|m ms IH]; intros [|[[ch sq] d] es] H; cbn [entries_ok] in H; try discriminate.
    - constructor.
    - apply andb_true_iff in H. destruct H as [He Hr]. constructor; [|now apply IH].
      unfold entry_ok in He. rewrite !andb_true_iff, !N.eqb_eq in He. destruct He as [[-> ->] Hd].
      split; [reflexivity|]. cbn [snd]. apply orb_true_iff in Hd. destruct Hd as [Hd|Hd].
      + left. now apply tdata_eqb_spec.
      + right. destruct (latest (m_id m) hist) as [[d' t]|] eqn:El; [|discriminate].
        rewrite !andb_true_iff in Hd. destruct Hd as [[Hd Hs] Hn].
        apply tdata_eqb_spec in Hd. apply N.leb_le in Hn. apply latest_In, Hh in El.
        exists d', t. auto.
  Qed.

  Lemma all_accounted_sound hist pre now q f : hist_from hist pre ->
    forall ms es, length ms = length es -> all_accounted vw ttl hist now q f ms es = true ->
    Forall2 (accounted_prop pre now q f) ms es.
  Proof.
    intros Hh. induction ms as [|m ms IH]; intros [|e es] Hlen H; cbn [length] in Hlen; try discriminate.
    - constructor.
    - cbn [all_accounted] in H. apply andb_true_iff in H. destruct H as [Ha Hr].
      constructor; [|apply IH; [lia|exact Hr]].
      unfold accounted in Ha. rewrite !orb_true_iff in Ha. unfold accounted_prop.
      destruct Ha as [[[Ha|Ha]|Ha]|Ha].
      + left. apply negb_true_iff in Ha. intros E. rewrite E, tdata_eqb_refl in Ha. discriminate.
      + right. left. now apply memN_In.
      + right. right. left. now apply memN_In.
      + right. right. right. destruct (latest (m_id m) hist) as [[d' t]|] eqn:El; [|discriminate].
        apply andb_true_iff in Ha. destruct Ha as [Hd Hn]. apply tdata_eqb_spec in Hd. apply N.leb_le in Hn.
        apply latest_In, Hh in El. exists d', t. auto.
  Qed.

  Lemma err_allowed_sound hist pre now ms : hist_from hist pre ->
    err_allowed strict ttl hist now ms = true -> err_prop pre now ms.
  Proof.
    intros Hh H. unfold err_allowed in H. apply andb_true_iff in H. destruct H as [Hs He].
    split; [now destruct strict|]. apply existsb_exists in He. destruct He as [m [Hin Hm]].
    destruct (latest (m_id m) hist) as [[d' t]|] eqn:El; [|discriminate].
    apply andb_true_iff in Hm. destruct Hm as [Hn Hl]. apply N.leb_le in Hn. apply negb_true_iff in Hl.
    apply Nat.eqb_neq in Hl. apply latest_In, Hh in El. exists m, d', t. auto.
  Qed.

  Lemma next_probe_takes takes rest : forall o' q f,
    nth_error o' (length takes) = Some (OProbe q f) ->
    next_probe (map BTake takes ++ BProbe :: rest) o' = Some (q, f).
  Proof.
    induction takes as [|t takes IH]; intros [|o o'] q f H; cbn [length nth_error map app next_probe] in *;
      try discriminate.
    - now inversion H.
    - now apply IH.
  Qed.

  Lemma nodupb_NoDup l : nodupb N.eqb l = true -> NoDup l.
  Proof.
    induction l as [|x l IH]; cbn [nodupb]; intros H; [constructor|].
    apply andb_true_iff in H. destruct H as [H1 H2]. constructor; [|now apply IH].
    intros Hin. apply negb_true_iff in H1. apply (memN_In x l) in Hin. unfold memN in Hin. congruence.
  Qed.

  Lemma ev_ok_sound seen hist pre e o e' o' :
    hist_from hist pre -> seen_from seen pre ->
    ev_ok strict vw w ttl seen hist e o e' o' = true -> ev_prop pre e o e' o'.
  Proof.
    intros Hh [Hnd Hincl] H.
    destruct e as [ms now|id|id r now|now| | | | |]; cbn [ev_prop]; try exact I.
    - destruct o as [r| | | |]; try discriminate. exists r. split; [reflexivity|].
      destruct r as [es| |]; cbn [ev_ok obs_prop] in *; try discriminate.
      + apply andb_true_iff in H. destruct H as [He Ha].
        pose proof (entries_ok_sound _ _ _ Hh _ _ He) as HF. split; [exact HF|].
        intros takes rest q f -> Hn. rewrite (next_probe_takes _ _ _ _ _ Hn) in Ha.
        eapply all_accounted_sound; [exact Hh| |exact Ha]. eapply Forall2_len; exact HF.
      + eapply err_allowed_sound; eassumption.
    - destruct o as [|q f| |t f|]; try discriminate. cbn [ev_ok] in H. apply andb_true_iff in H. destruct H as [-> ->].
      reflexivity.
    - destruct o as [|q f| | |]; try discriminate. cbn [ev_ok] in H. rewrite !andb_true_iff in H.
      destruct H as [[Hi Hl] Hq]. exists q, f. split; [reflexivity|]. split; [|split].
      + intros Hne. destruct q; [contradiction|]. now apply N.leb_le.
      + now apply nodupb_NoDup.
      + exists seen. split; [exact Hnd|]. split; [exact Hincl|]. now apply Nat.leb_le.
  Qed.

  Lemma asked_snoc pre e :
    asked (pre ++ [e]) = asked pre ++ match e with BObserve ms _ => map m_id ms | _ => [] end.
  Proof. unfold asked. rewrite flat_map_app. cbn [flat_map]. now rewrite app_nil_r. Qed.

  Lemma hist_from_next hist pre e : hist_from hist pre -> hist_from (hist_next hist e) (pre ++ [e]).
  Proof.
    intros Hh. assert (Hold : hist_from hist (pre ++ [e])).
    { intros id d t Hin. destruct (Hh _ _ _ Hin) as [A B]. split; [apply in_or_app; now left|exact B]. }
    destruct e as [ms now|id|id r now|now| | | | |]; cbn [hist_next]; try exact Hold.
    destruct r as [d| |]; try exact Hold. destruct (sup_ready d) eqn:Hs; [|exact Hold].
    intros id' d' t' [Heq|Hin]; [|now apply Hold]. inversion Heq; subst.
    split; [apply in_or_app; right; now left|exact Hs].
  Qed.

  Lemma seen_from_next seen pre e : seen_from seen pre -> seen_from (seen_next seen e) (pre ++ [e]).
  Proof.
    intros [Hnd Hincl]. unfold seen_from. rewrite asked_snoc.
    destruct e as [ms now|id|id r now|now| | | | |]; cbn [seen_next];
      try (split; [exact Hnd|]; intros x Hx; apply in_or_app; left; now apply Hincl).
    destruct (add_seen_spec ms seen Hnd) as [A B]. split; [exact A|].
    intros x Hx. apply B in Hx. apply in_or_app. destruct Hx as [Hx|Hx]; [left; now apply Hincl|now right].
  Qed.

  Lemma walk_sound : forall evs outs seen hist pre0,
    hist_from hist pre0 -> seen_from seen pre0 ->
    walk_ok strict vw w ttl seen hist evs outs = true -> walk_prop pre0 evs outs.
  Proof.
    induction evs as [|e evs IH]; intros outs seen hist pre0 Hh Hs H.
    - apply walk_ok_nil_l in H. subst outs. split; [reflexivity|]. intros [|k] e Hk; discriminate.
    - destruct outs as [|o outs]; [now rewrite walk_ok_nil_r in H|].
      rewrite walk_ok_cons in H. apply andb_true_iff in H. destruct H as [He Hw].
      destruct (IH _ _ _ (pre0 ++ [e]) (hist_from_next _ _ e Hh) (seen_from_next _ _ e Hs) Hw) as [Hlen Hk].
      split; [cbn [length]; now rewrite Hlen|].
      intros [|k] e0 Hk0; cbn [nth_error] in Hk0.
      + inversion Hk0; subst e0. exists o. split; [reflexivity|]. cbn [firstn skipn]. rewrite app_nil_r.
        eapply ev_ok_sound; eassumption.
      + destruct (Hk k e0 Hk0) as [o0 [Ho0 Hp]]. exists o0. split; [exact Ho0|].
        cbn [firstn]. replace (pre0 ++ e :: firstn k evs) with ((pre0 ++ [e]) ++ firstn k evs)
          by (rewrite <- app_assoc; reflexivity). exact Hp.
  Qed.
End WalkSound.

Lemma hist_from_nil pre : hist_from [] pre.
Proof. intros id d t []. Qed.
Lemma seen_from_nil pre : seen_from [] pre.
Proof. split; [constructor|intros x []]. Qed.

(* ---------- bg ---------- *)
Lemma bg_sound w ttl evs o :
  bg_ok (w, ttl, evs) o = true ->
  walk_prop true (fun _ d => d) w ttl [] evs (fst o) /\
  fst (snd o) = true /\      (* Close returned *)
  snd (snd o) = true.        (* no goroutine left (C19_close) *)
Proof.
  unfold bg_ok. rewrite !andb_true_iff. intros [[Hw H1] H2]. split; [|split; assumption].
  eapply walk_sound; [apply hist_from_nil|apply seen_from_nil|exact Hw].
Qed.

(* ---------- comp ---------- *)
Lemma comp_sound w ttl evs o :
  comp_ok (w, ttl, evs) o = true ->
  walk_prop false comp_view w ttl [] evs (fst (fst o)) /\
  fst (snd (fst o)) = true /\ snd (snd (fst o)) = true /\
  snd o = true.              (* IsTokenSupported passes through *)
Proof.
  unfold comp_ok. rewrite !andb_true_iff. intros [[[Hw H1] H2] H3]. split; [|repeat split; assumption].
  eapply walk_sound; [apply hist_from_nil|apply seen_from_nil|exact Hw].
Qed.

(* ====================== the model's own observations pass bg_ok ====================== *)
Lemma remove_first_incl {A} (f : A -> bool) l x : In x (remove_first f l) -> In x l.
Proof.
  induction l as [|y l IH]; cbn [remove_first]; [tauto|]. destruct (f y); cbn [In]; [tauto|].
  intros [->|H]; [now left|right; now apply IH].
Qed.
Lemma NoDup_map_filter {A B} (g : A -> B) (f : A -> bool) l : NoDup (map g l) -> NoDup (map g (filter f l)).
Proof.
  induction l as [|x l IH]; cbn [map filter]; intros H; [constructor|]. inversion H as [|? ? Hn Hd]; subst.
  destruct (f x); cbn [map]; [|now apply IH]. constructor; [|now apply IH].
  intros Hin. apply Hn. apply in_map_iff in Hin. destruct Hin as [y [Hy Hin]]. apply filter_In in Hin.
  apply in_map_iff. exists y. tauto.
Qed.
Lemma NoDup_nodupb l : NoDup l -> nodupb N.eqb l = true.
Proof.
  induction 1 as [|x l Hn Hd IH]; cbn [nodupb]; [reflexivity|]. rewrite IH, andb_true_r. apply negb_true_iff.
  destruct (existsb (N.eqb x) l) eqn:E; [|reflexivity]. exfalso. apply Hn. now apply (memN_In x l).
Qed.
Lemma alookup_filter_NoDup {V} (f : N * V -> bool) (c : list (N * V)) k v :
  NoDup (map fst c) -> alookup k (filter f c) = Some v -> alookup k c = Some v.
Proof.
  intros Hnd H. apply alookup_In in H. apply filter_In in H. destruct H as [H _]. now apply alookup_NoDup_In.
Qed.

(* the answers of one Observe, entry by entry: cached data if the cache has unexpired data, else the placeholder;
   only messages asked for are added to the queue *)
Lemma obs_loop_entries now ms : forall st acc st' res,
  observe_loop true true st ms now acc = (st', Done res) ->
  cache st' = cache st /\
  (forall x, In x (map qid (queue st')) -> In x (map qid (queue st)) \/ In x (map m_id ms)) /\
  exists tail, res = rev acc ++ tail /\
    Forall2 (fun m e => e = (m_chain m, m_seq m,
                             match cache_get true now (cache st) (m_id m) with Some d => d | None => initial_td m end))
            ms tail.
Proof.
  induction ms as [|m ms IH]; intros st acc st' res H; cbn [observe_loop] in H.
  - inversion H; subst. split; [reflexivity|]. split; [auto|]. exists []. rewrite app_nil_r. split; [reflexivity|constructor].
  - destruct (cache_get true now (cache st) (m_id m)) as [d|] eqn:Hg.
    + destruct (sup_ready d); [|discriminate].
      destruct (IH _ _ _ _ H) as (Hc & Hq & tail & Hres & HF). split; [exact Hc|]. split.
      { intros x Hx. destruct (Hq x Hx); [now left|right; now right]. }
      exists ((m_chain m, m_seq m, d) :: tail). cbn [rev] in Hres. rewrite <- app_assoc in Hres.
      split; [exact Hres|]. constructor; [now rewrite Hg|exact HF].
    + destruct (memN (m_id m) (ids st)).
      * destruct (IH _ _ _ _ H) as (Hc & Hq & tail & Hres & HF). split; [exact Hc|]. split.
        { intros x Hx. destruct (Hq x Hx); [now left|right; now right]. }
        exists ((m_chain m, m_seq m, initial_td m) :: tail). cbn [rev] in Hres. rewrite <- app_assoc in Hres.
        split; [exact Hres|]. constructor; [now rewrite Hg|exact HF].
      * destruct (IH _ _ _ _ H) as (Hc & Hq & tail & Hres & HF). cbn [cache queue] in *. split; [exact Hc|]. split.
        { intros x Hx. destruct (Hq x Hx) as [Hx'|Hx']; [|right; now right].
          rewrite map_app in Hx'. apply in_app_or in Hx'. destruct Hx' as [Hx'|[<-|[]]]; [now left|right; now left]. }
        exists ((m_chain m, m_seq m, initial_td m) :: tail). cbn [rev] in Hres. rewrite <- app_assoc in Hres.
        split; [exact Hres|]. constructor; [now rewrite Hg|exact HF].
Qed.

Lemma observe_entries st ms now st' res :
  observe true true st ms now = (st', Done res) ->
  (forall x, In x (map qid (queue st')) -> In x (map qid (queue st)) \/ In x (map m_id ms)) /\
  Forall2 (fun m e => e = (m_chain m, m_seq m,
                           match cache_get true now (cache st) (m_id m) with Some d => d | None => initial_td m end))
          ms res.
Proof.
  unfold observe. intros H. apply obs_loop_entries in H. cbn [cache queue] in H.
  destruct H as (_ & Hq & tail & Hres & HF). split; [exact Hq|]. cbn [rev app] in Hres. now subst.
Qed.

Section ModelPasses.
  Variables w ttl : N.
  Notation step := (bstep ttl true true).
  Notation run := (brun ttl true true).
  Notation idv := (fun (_ : msg) (d : tdata) => d).

  Lemma brun_cons st e r :
    run st (e :: r) = (fst (run (fst (step st e)) r), snd (step st e) :: snd (run (fst (step st e)) r)).
  Proof. cbn [brun]. destruct (step st e) as [st1 o]. cbn [fst snd]. now destruct (run st1 r). Qed.

  (* ---- what relates the model state to the walk's bookkeeping ---- *)
  Definition cache_hist (st : bst) (hist : list (N * tdata * N)) : Prop :=
    NoDup (map fst (cache st)) /\
    forall id d exp, alookup id (cache st) = Some (d, exp) ->
                     exists t, latest id hist = Some (d, t) /\ exp = (t + ttl)%N.
  Definition seen_inv (st : bst) (seen : list N) : Prop :=
    NoDup seen /\ forall id, In id (map qid (queue st)) -> In id seen.

  (* ---- what the schedule has to be for the model to follow it (the parts of the property that speak about the
     implementation's scheduling, which the harness RECORDS rather than chooses): every stored fetch result belongs to
     a running fetch, every recorded pick-up is one the model can make in FIFO order, a probe is taken when no worker
     idles next to a waiting message, and after Close the running fetches have returned ---- *)
  Definition ev_sched (st : bst) (e : bev) : bool :=
    match e with
    | BReturn id (FOk d) _ => negb (sup_ready d) || memN id (inflight st)
    | BTake _ => match snd (step st e) with OTake t f => t && f | _ => false end
    | BProbe => match queue st with [] => true | _ => N.leb w (N.of_nat (length (inflight st))) end
    | _ => true
    end.
  Fixpoint sched_ok (st : bst) (evs : list bev) : bool :=
    match evs with
    | [] => fst (shutdown_ok w st)
    | e :: r => ev_sched st e && sched_ok (fst (step st e)) r
    end.

  Lemma next_probe_model rest : forall st1 q f,
    next_probe rest (snd (run st1 rest)) = Some (q, f) ->
    exists takes, q = sortN (map qid (queue (bstate ttl true true st1 (map BTake takes)))) /\
                  f = sortN (inflight (bstate ttl true true st1 (map BTake takes))).
  Proof.
    induction rest as [|e rest IH]; intros st1 q f H; [discriminate|].
    rewrite brun_cons in H. cbn [snd] in H.
    destruct e as [ms now|id|id r now|now| | | | |]; cbn [next_probe] in H; try discriminate.
    - destruct (IH _ _ _ H) as [takes [Hq Hf]]. exists (id :: takes). cbn [map]. now rewrite bstate_cons.
    - cbn [bstep snd] in H. inversion H; subst. exists []. split; reflexivity.
  Qed.

  Lemma model_entries_ok st hist now ms res :
    inv_cache st -> cache_hist st hist ->
    Forall2 (fun m e => e = (m_chain m, m_seq m,
                             match cache_get true now (cache st) (m_id m) with Some d => d | None => initial_td m end))
            ms res ->
    entries_ok idv ttl hist now ms res = true.
  Proof.
    intros Hic [_ Hch] HF. induction HF as [|m e ms res He _ IH]; [reflexivity|].
    cbn [entries_ok]. rewrite IH, andb_true_r. subst e. unfold entry_ok. rewrite !N.eqb_refl. cbn [andb].
    destruct (cache_get true now (cache st) (m_id m)) as [d|] eqn:Hg; [|now rewrite tdata_eqb_refl].
    destruct (cache_get_some _ _ _ _ _ Hg) as [exp [Hl Hexp]]. specialize (Hexp eq_refl).
    destruct (Hch _ _ _ Hl) as [t [Hlat ->]]. rewrite Hlat, tdata_eqb_refl. cbn [andb].
    unfold inv_cache in Hic. rewrite Forall_forall in Hic. apply alookup_In in Hl. specialize (Hic _ Hl).
    cbn [fst snd] in Hic. rewrite Hic. cbn [andb]. apply orb_true_iff. right. now apply N.leb_le.
  Qed.

  Lemma model_all_accounted st hist now q f qs fs ms0 :
    cache_hist st hist -> Permutation q qs -> Permutation f fs ->
    forall ms res,
    (forall m, In m ms -> In m ms0) ->
    (forall m, In m ms0 -> (exists d, cache_get true now (cache st) (m_id m) = Some d) \/ In (m_id m) qs \/ In (m_id m) fs) ->
    Forall2 (fun m e => e = (m_chain m, m_seq m,
                             match cache_get true now (cache st) (m_id m) with Some d => d | None => initial_td m end))
            ms res ->
    all_accounted idv ttl hist now q f ms res = true.
  Proof.
    intros [_ Hch] Pq Pf ms res Hsub Hacc HF. induction HF as [|m e ms res He _ IH]; [reflexivity|].
    cbn [all_accounted]. rewrite IH by (intros m' Hm'; apply Hsub; now right). rewrite andb_true_r.
    subst e. unfold accounted. cbn [snd].
    destruct (cache_get true now (cache st) (m_id m)) as [d|] eqn:Hg.
    - destruct (tdata_eqb d (initial_td m)) eqn:Ed; cbn [negb orb]; [|reflexivity].
      destruct (cache_get_some _ _ _ _ _ Hg) as [exp [Hl Hexp]]. specialize (Hexp eq_refl).
      destruct (Hch _ _ _ Hl) as [t [Hlat ->]]. rewrite Hlat, Ed. cbn [andb].
      rewrite !orb_true_iff. right. now apply N.leb_le.
    - rewrite tdata_eqb_refl. cbn [negb orb].
      destruct (Hacc m (Hsub m (or_introl eq_refl))) as [[d Hd]|[Hq|Hf]]; [congruence| |].
      + assert (Hm : memN (m_id m) q = true) by (apply memN_In; eapply Permutation_in; [symmetry; exact Pq|exact Hq]).
        rewrite Hm. reflexivity.
      + assert (Hm : memN (m_id m) f = true) by (apply memN_In; eapply Permutation_in; [symmetry; exact Pf|exact Hf]).
        rewrite Hm. now rewrite orb_true_r.
  Qed.

  Lemma model_ev_ok st seen hist e rest :
    binv w st -> cache_hist st hist -> seen_inv st seen -> ev_sched st e = true ->
    ev_ok true idv w ttl seen hist e (snd (step st e)) rest (snd (run (fst (step st e)) rest)) = true.
  Proof.
    intros Hinv Hch [Hsn Hsq] Hs.
    destruct e as [ms now|id|id r now|now| | | | |]; try reflexivity.
    - (* Observe *)
      cbn [bstep]. destruct (observe true true st ms now) as [st' r] eqn:E. cbn [fst snd].
      destruct (observe_spec true w _ _ _ _ _ E Hinv) as (_ & _ & _ & _ & _ & _ & NB & NE & _).
      destruct r as [res| |]; try congruence. cbn [ev_ok].
      destruct (observe_entries _ _ _ _ _ E) as [_ HF].
      assert (Hic : inv_cache st) by (destruct Hinv as (_ & _ & Hc & _); exact Hc).
      rewrite (model_entries_ok _ _ _ _ _ Hic Hch HF). cbn [andb].
      destruct (next_probe rest (snd (run st' rest))) as [[q f]|] eqn:Enp; [|reflexivity].
      destruct (next_probe_model _ _ _ _ Enp) as [takes [-> ->]].
      eapply model_all_accounted with (ms0 := ms); try exact Hch; try apply sortN_perm_self; auto.
      intros m Hm. pose proof (asked_is_accounted ttl true w st ms now takes Hinv m Hm) as Ha.
      rewrite E in Ha. exact Ha.
    - (* pick-up *)
      cbn [ev_sched] in Hs. cbn [ev_ok]. destruct (snd (step st (BTake id))); try discriminate. exact Hs.
    - (* probe *)
      cbn [bstep snd ev_ok]. cbn [ev_sched] in Hs.
      destruct (queue_inv w st Hinv) as [Hnd _].
      assert (Hq : (fun p : msg * N => m_id (fst p)) = qid) by reflexivity. rewrite Hq.
      rewrite !andb_true_iff. split; [split|].
      + destruct (queue st) as [|p qq]; [reflexivity|]. unfold sortN at 2. rewrite sort_by_length.
        destruct (sortN (map qid (p :: qq))); [reflexivity|exact Hs].
      + apply Nat.leb_le. unfold sortN. rewrite sort_by_length. apply NoDup_incl_length; [exact Hnd|exact Hsq].
      + apply NoDup_nodupb. eapply Permutation_NoDup; [symmetry; apply sortN_perm_self|exact Hnd].
  Qed.

  Lemma model_inv_step st seen hist e :
    binv w st -> cache_hist st hist -> seen_inv st seen -> ev_sched st e = true ->
    cache_hist (fst (step st e)) (hist_next hist e) /\ seen_inv (fst (step st e)) (seen_next seen e).
  Proof.
    intros Hinv [Hcn Hch] [Hsn Hsq] Hs.
    destruct e as [ms now|id|id r now|now| | | | |]; cbn [bstep hist_next seen_next].
    - destruct (observe true true st ms now) as [st' r] eqn:E. cbn [fst].
      destruct (observe_spec true w _ _ _ _ _ E Hinv) as (_ & _ & Hc & _ & _ & _ & NB & NE & _).
      split; [unfold cache_hist; now rewrite Hc|].
      destruct r as [res| |]; try congruence. destruct (observe_entries _ _ _ _ _ E) as [Hq _].
      destruct (add_seen_spec ms seen Hsn) as [A B]. split; [exact A|]. intros x Hx. apply B.
      destruct (Hq x Hx); [left; now apply Hsq|now right].
    - destruct (find (fun p => N.eqb (m_id (fst p)) id) (queue st)) as [[m ep]|]; [|now repeat split].
      destruct (N.ltb 0 (idle st) && N.ltb 0 (signals st)); [|now repeat split]. cbn [fst].
      split; [split; [exact Hcn|exact Hch]|]. split; [exact Hsn|]. cbn [queue]. intros x Hx. apply Hsq.
      apply in_map_iff in Hx. destruct Hx as [p [Hp Hin]]. apply in_map_iff. exists p. split; [exact Hp|].
      eapply remove_first_incl; exact Hin.
    - cbn [ev_sched] in Hs.
      destruct (memN id (inflight st)) eqn:Hm; cbn [fst].
      2:{ split; [|now split]. destruct r as [d| |]; try (now split). destruct (sup_ready d); [|now split].
          cbn [negb orb] in Hs. discriminate. }
      split; [|now split]. destruct r as [d| |]; try (now split). destruct (sup_ready d) eqn:Hd; [|now split].
      cbn [cache]. unfold cache_set. split.
      + cbn [map fst]. constructor; [|now apply NoDup_map_filter].
        intros Hin. apply in_map_iff in Hin. destruct Hin as [kv [Hk Hin]]. apply filter_In in Hin.
        destruct Hin as [_ Hf]. rewrite Hk, N.eqb_refl in Hf. discriminate.
      + intros id' d' exp Hl. cbn [cache alookup] in Hl. cbn [latest]. rewrite (N.eqb_sym id id'). revert Hl.
        destruct (N.eqb_spec id' id) as [->|Hne]; intros Hl.
        * inversion Hl; subst. exists now. split; reflexivity.
        * apply alookup_filter_NoDup in Hl; [|exact Hcn]. exact (Hch _ _ _ Hl).
    - cbn [fst cache]. split; [|now split]. split; [now apply NoDup_map_filter|].
      intros id d exp Hl. apply alookup_filter_NoDup in Hl; [|exact Hcn]. exact (Hch _ _ _ Hl).
    - now repeat split.
    - destruct (closed st && N.ltb 0 (idle st)); now repeat split.
    - destruct (closed st && N.ltb 0 (signals st)); now repeat split.
    - now repeat split.
    - now repeat split.
  Qed.

  Lemma shutdown_ok_both st : binv w st -> fst (shutdown_ok w st) = true -> shutdown_ok w st = (true, true).
  Proof.
    intros (_ & _ & _ & (Wk & _)) H. unfold shutdown_ok in *. destruct (closed st); [|reflexivity].
    cbn [fst] in H. destruct (inflight st); [|discriminate]. cbn [length] in Wk. f_equal. apply N.eqb_eq. lia.
  Qed.

  Lemma model_walk : forall evs st seen hist,
    binv w st -> cache_hist st hist -> seen_inv st seen -> sched_ok st evs = true ->
    walk_ok true idv w ttl seen hist evs (snd (run st evs)) = true /\
    shutdown_ok w (fst (run st evs)) = (true, true).
  Proof.
    induction evs as [|e evs IH]; intros st seen hist Hinv Hch Hsn Hs; cbn [sched_ok] in Hs.
    - cbn [brun fst snd walk_ok]. split; [reflexivity|now apply shutdown_ok_both].
    - apply andb_true_iff in Hs. destruct Hs as [He Hr]. rewrite brun_cons. cbn [fst snd].
      rewrite walk_ok_cons, (model_ev_ok _ _ _ _ evs Hinv Hch Hsn He). cbn [andb].
      destruct (model_inv_step _ _ _ _ Hinv Hch Hsn He) as [Hch' Hsn'].
      apply IH; try assumption. now apply step_inv.
  Qed.

  Lemma bg_model_passes evs : sched_ok (binit w) evs = true -> bg_ok (w, ttl, evs) (bg_model (w, ttl, evs)) = true.
  Proof.
    intros Hs. unfold bg_ok, bg_model.
    destruct (model_walk evs (binit w) [] []) as [Hw Hf]; try assumption.
    - apply binv_init.
    - split; [constructor|]. intros id d exp H. discriminate.
    - split; [constructor|]. intros id [].
    - destruct (run (binit w) evs) as [st outs]. cbn [fst snd] in *. now rewrite Hw, Hf.
  Qed.
End ModelPasses.

(* ====================== comp: the composite's view of the model's observations passes comp_ok ====================== *)
Definition comp_o (e : bev) (o : bout) : bout :=
  match e, o with
  | BObserve ms _, OObs (Done es) => OObs (match comp_entries ms es with Some r => Done r | None => ObsErr end)
  | _, _ => o
  end.
Lemma comp_outs_cons e e' o o' : comp_outs (e :: e') (o :: o') = comp_o e o :: comp_outs e' o'.
Proof. destruct e; try reflexivity. destruct o as [[es| |]| | | |]; reflexivity. Qed.

Lemma next_probe_comp_outs : forall evs outs, next_probe evs (comp_outs evs outs) = next_probe evs outs.
Proof.
  induction evs as [|e evs IH]; intros [|o outs]; try reflexivity.
  - destruct e; reflexivity.
  - rewrite comp_outs_cons. destruct e as [ms now|id|id r now|now| | | | |]; cbn [next_probe comp_o]; try reflexivity.
    apply IH.
Qed.

Section CompTransfer.
  Variables w ttl : N.
  Notation idv := (fun (_ : msg) (d : tdata) => d).

  Lemma entry_ok_comp hist now m ch sq d :
    entry_ok idv ttl hist now m (ch, sq, d) = true -> entry_ok comp_view ttl hist now m (ch, sq, comp_view m d) = true.
  Proof.
    unfold entry_ok. rewrite !andb_true_iff, !orb_true_iff. intros [Hk Hd]. split; [exact Hk|].
    destruct Hd as [Hd|Hd].
    - left. apply tdata_eqb_spec in Hd. subst d. apply tdata_eqb_refl.
    - right. destruct (latest (m_id m) hist) as [[d' t]|]; [|discriminate].
      rewrite !andb_true_iff in *. destruct Hd as [[Hd Hs] Hn]. apply tdata_eqb_spec in Hd. subst d.
      now rewrite tdata_eqb_refl.
  Qed.

  Lemma accounted_comp hist now q f m ch sq d :
    entry_ok idv ttl hist now m (ch, sq, d) = true -> accounted idv ttl hist now q f m (ch, sq, d) = true ->
    accounted comp_view ttl hist now q f m (ch, sq, comp_view m d) = true.
  Proof.
    unfold entry_ok, accounted. cbn [snd]. rewrite !andb_true_iff, !orb_true_iff. intros [_ He] Ha.
    destruct Ha as [[[Ha|Ha]|Ha]|Ha]; auto.
    - destruct (tdata_eqb (comp_view m d) (comp_view m (initial_td m))) eqn:Ec; [|now left; left; left].
      right. apply negb_true_iff in Ha. rewrite Ha in He. destruct He as [He|He]; [discriminate|].
      destruct (latest (m_id m) hist) as [[d' t]|]; [|discriminate].
      rewrite !andb_true_iff in He. destruct He as [[Hd _] Hn]. apply tdata_eqb_spec in Hd. subst d'.
      now rewrite Ec, Hn.
    - right. destruct (latest (m_id m) hist) as [[d' t]|]; [|discriminate].
      rewrite !andb_true_iff in *. destruct Ha as [Hd Hn]. apply tdata_eqb_spec in Hd. rewrite Hd.
      now rewrite tdata_eqb_refl.
  Qed.

  Lemma entries_comp hist now : forall ms es r,
    entries_ok idv ttl hist now ms es = true -> comp_entries ms es = Some r ->
    entries_ok comp_view ttl hist now ms r = true /\
    forall q f, all_accounted idv ttl hist now q f ms es = true -> all_accounted comp_view ttl hist now q f ms r = true.
  Proof.
    induction ms as [|m ms IH]; intros [|[[ch sq] d] es] r H Hc; cbn [entries_ok comp_entries] in *; try discriminate.
    - inversion Hc; subst. split; [reflexivity|]. intros q f _. reflexivity.
    - apply andb_true_iff in H. destruct H as [He Hr].
      destruct (Nat.eqb (length d) (length (m_sup m))); [|discriminate].
      destruct (comp_entries ms es) as [r'|] eqn:Er; [|discriminate]. inversion Hc; subst r.
      destruct (IH _ _ Hr Er) as [A B]. split.
      + cbn [entries_ok]. now rewrite (entry_ok_comp _ _ _ _ _ _ He), A.
      + intros q f Ha. cbn [all_accounted] in *. apply andb_true_iff in Ha. destruct Ha as [Ha1 Ha2].
        now rewrite (accounted_comp _ _ _ _ _ _ _ _ He Ha1), (B _ _ Ha2).
  Qed.

  Lemma entries_comp_none hist now : forall ms es,
    entries_ok idv ttl hist now ms es = true -> comp_entries ms es = None ->
    err_allowed false ttl hist now ms = true.
  Proof.
    unfold err_allowed. cbn [negb andb].
    induction ms as [|m ms IH]; intros [|[[ch sq] d] es] H Hc; cbn [entries_ok comp_entries] in *; try discriminate.
    apply andb_true_iff in H. destruct H as [He Hr]. cbn [existsb]. apply orb_true_iff.
    destruct (Nat.eqb_spec (length d) (length (m_sup m))) as [El|El].
    - right. destruct (comp_entries ms es) eqn:Er; [discriminate|]. eapply IH; eassumption.
    - left. unfold entry_ok in He. rewrite !andb_true_iff, !orb_true_iff in He. destruct He as [_ [Hd|Hd]].
      + apply tdata_eqb_spec in Hd. subst d. unfold initial_td in El. now rewrite map_length in El.
      + destruct (latest (m_id m) hist) as [[d' t]|]; [|discriminate].
        rewrite !andb_true_iff in Hd. destruct Hd as [[Hd _] Hn]. apply tdata_eqb_spec in Hd. subst d'.
        rewrite Hn. cbn [andb]. apply negb_true_iff. now apply Nat.eqb_neq.
  Qed.

  Lemma ev_ok_comp seen hist e o e' o' :
    ev_ok true idv w ttl seen hist e o e' o' = true ->
    ev_ok false comp_view w ttl seen hist e (comp_o e o) e' (comp_outs e' o') = true.
  Proof.
    intros H. destruct e as [ms now|id|id r now|now| | | | |]; try exact H.
    - destruct o as [[es| |]| | | |]; try discriminate. cbn [ev_ok comp_o] in *.
      apply andb_true_iff in H. destruct H as [He Ha].
      destruct (comp_entries ms es) as [r|] eqn:Ec.
      + destruct (entries_comp _ _ _ _ _ He Ec) as [A B]. rewrite A, next_probe_comp_outs. cbn [andb].
        destruct (next_probe e' o') as [[q f]|]; [now apply B|reflexivity].
      + eapply entries_comp_none; eassumption.
  Qed.

  Lemma walk_comp : forall evs outs seen hist,
    walk_ok true idv w ttl seen hist evs outs = true ->
    walk_ok false comp_view w ttl seen hist evs (comp_outs evs outs) = true.
  Proof.
    induction evs as [|e evs IH]; intros [|o outs] seen hist H; try discriminate.
    - reflexivity.
    - now rewrite walk_ok_nil_r in H.
    - rewrite walk_ok_cons in H. apply andb_true_iff in H. destruct H as [He Hw].
      rewrite comp_outs_cons, walk_ok_cons, (ev_ok_comp _ _ _ _ _ _ He). cbn [andb]. now apply IH.
  Qed.

  Lemma comp_model_passes evs :
    sched_ok w ttl (binit w) evs = true -> comp_ok (w, ttl, evs) (comp_model (w, ttl, evs)) = true.
  Proof.
    intros Hs. pose proof (bg_model_passes w ttl evs Hs) as Hb. unfold bg_ok in Hb. unfold comp_ok, comp_model.
    destruct (bg_model (w, ttl, evs)) as [outs fin]. cbn [fst snd] in *.
    rewrite !andb_true_iff in Hb. destruct Hb as [[Hw H1] H2]. now rewrite (walk_comp _ _ _ _ Hw), H1, H2.
  Qed.
End CompTransfer.

(* ====================== witnesses and examples for bg / comp ====================== *)
(* walk_ok as it was before this file was written: an event answered by an output of another kind fell through to
   the catch-all case *)
Fixpoint walk_ok_before (strict : bool) (vw : msg -> tdata -> tdata) (w ttl : N) (seen : list N) (hist : list (N * tdata * N)) (evs : list bev) (outs : list bout) : bool :=
  match evs, outs with
  | [], [] => true
  | BObserve ms now :: e', OObs r :: o' =>
      match r with
      | Done es => entries_ok vw ttl hist now ms es &&
                   match next_probe e' o' with
                   | Some (q, f) => all_accounted vw ttl hist now q f ms es
                   | None => true
                   end
      | ObsErr => err_allowed strict ttl hist now ms
      | Blocked => false
      end && walk_ok_before strict vw w ttl (add_seen seen ms) hist e' o'
  | BReturn id (FOk d) now :: e', _ :: o' =>
      walk_ok_before strict vw w ttl seen (if sup_ready d then (id, d, now) :: hist else hist) e' o'
  | BTake _ :: e', OTake t f :: o' => t && f && walk_ok_before strict vw w ttl seen hist e' o'
  | BProbe :: e', OProbe q f :: o' =>
      (match q with [] => true | _ => N.leb w (N.of_nat (length f)) end) &&
      Nat.leb (length q) (length seen) && nodupb N.eqb q && walk_ok_before strict vw w ttl seen hist e' o'
  | _ :: e', _ :: o' => walk_ok_before strict vw w ttl seen hist e' o'
  | _, _ => false
  end.
Definition bg_ok_before (i : bg_in) (o : bg_out) : bool :=
  let '(w, ttl, evs) := i in
  walk_ok_before true (fun _ d => d) w ttl [] [] evs (fst o) && fst (snd o) && snd (snd o).

(* an Observe "answered" by ONone was accepted, although the clause (C19_nonblocking) demands an answer *)
Example bg_ok_before_unsound :
  bg_ok_before (1, 10, [BObserve [wit_m1] 0])%N ([ONone], (true, true)) = true /\
  ~ walk_prop true (fun _ d => d) 1 10 [] [BObserve [wit_m1] 0%N] [ONone] /\
  bg_ok (1, 10, [BObserve [wit_m1] 0])%N ([ONone], (true, true)) = false.
Proof.
  split; [vm_compute; reflexivity|]. split; [|vm_compute; reflexivity].
  intros [_ H]. destruct (H 0%nat _ eq_refl) as [o [Ho [r [Hr _]]]]. cbn in Ho. inversion Ho; subst o. discriminate.
Qed.

(* a schedule the model follows: two messages asked for, one worker; the first is fetched and then served from the
   cache, the second is picked up later; Close with a fetch running, which then returns *)
Definition ex_evs : list bev :=
  [BObserve [wit_m1; wit_m2] 0; BTake 1; BProbe; BReturn 1 (FOk [mkT true true 7]) 10; BTake 2;
   BObserve [wit_m1; wit_m2] 12; BProbe; BCacheSize; BClose; BReturn 2 FErr 20; BObserve [wit_m1] 30]%N.
Example bg_ok_example :
  sched_ok 1 5 (binit 1) ex_evs = true /\
  bg_ok (1, 5, ex_evs)%N (bg_model (1, 5, ex_evs)%N) = true /\
  nth_error (fst (bg_model (1, 5, ex_evs)%N)) 5 =
    Some (OObs (Done [(10, 1, [mkT true true 7]); (10, 2, [mkT false true 0])]))%N /\
  nth_error (fst (bg_model (1, 5, ex_evs)%N)) 6 = Some (OProbe [2] [2])%N /\   (* being fetched, and asked for again *)
  (* served data that no fetch returned, and expired data, are rejected *)
  bg_ok (1, 5, [BObserve [wit_m1] 0])%N ([OObs (Done [(10, 1, [mkT true true 7])])], (true, true))%N = false /\
  bg_ok (1, 5, [BObserve [wit_m1] 0; BTake 1; BReturn 1 (FOk [mkT true true 7]) 10; BObserve [wit_m1] 16])%N
        ([OObs (Done [(10, 1, [mkT false true 0])]); OTake true true; ONone; OObs (Done [(10, 1, [mkT true true 7])])],
         (true, true))%N = false.
Proof. vm_compute. repeat split. Qed.

Definition ex_m3 : msg := mkM 3 20 5 [false; true]%N.
Definition ex_evs_comp : list bev :=
  [BObserve [ex_m3; wit_m1] 0; BTake 3; BTake 1; BProbe; BReturn 3 (FOk [mkT false false 0; mkT true true 9]) 10;
   BReturn 1 (FOk [mkT true true 7; mkT true true 8]) 11;       (* one slot too many *)
   BObserve [ex_m3] 12; BObserve [wit_m1] 13; BClose]%N.
Example comp_ok_example :
  sched_ok 2 5 (binit 2) ex_evs_comp = true /\
  comp_ok (2, 5, ex_evs_comp)%N (comp_model (2, 5, ex_evs_comp)%N) = true /\
  nth_error (fst (fst (comp_model (2, 5, ex_evs_comp)%N))) 0 =
    Some (OObs (Done [(20, 5, [mkT true true 0; mkT false true 0]); (10, 1, [mkT false true 0])]))%N /\
  nth_error (fst (fst (comp_model (2, 5, ex_evs_comp)%N))) 6 =
    Some (OObs (Done [(20, 5, [mkT true true 0; mkT true true 9])]))%N /\
  nth_error (fst (fst (comp_model (2, 5, ex_evs_comp)%N))) 7 = Some (OObs ObsErr).
Proof. vm_compute. repeat split. Qed.

(* =====================================================================================================
   ctor / plugin: the executable property IS "equal to the model's output" *)
Lemma ctor_oeqb_spec a b : ctor_oeqb a b = true <-> a = b.
Proof.
  destruct a as [[[[[[a1 a2] a3] a4] a5] a6] a7], b as [[[[[[b1 b2] b3] b4] b5] b6] b7]. unfold ctor_oeqb.
  rewrite !andb_true_iff, bool_eqb_spec, !N.eqb_eq.
  split; [intros [[[[[[-> ->] ->] ->] ->] ->] ->]; reflexivity|intros H; inversion H; repeat split].
Qed.
Lemma ctor_model_passes i : ctor_ok i (ctor_model i) = true.
Proof. unfold ctor_ok. now apply ctor_oeqb_spec. Qed.
Lemma ctor_sound i o : ctor_ok i o = true -> o = ctor_model i.
Proof. unfold ctor_ok. intros H. apply ctor_oeqb_spec in H. now symmetry. Qed.
(* the configuration is the specification: a background observer is built exactly when workers are configured, with
   that many workers (+1 goroutine for the cache cleanup), every interval where it belongs, nothing left after Close *)
Lemma ctor_sound_cfg wk e c t o : ctor_ok (wk, e, c, t) o = true ->
  (wk = 0%N -> o = (false, 0, 0, 0, 0, 0, 0)%N) /\
  (wk <> 0%N -> o = (true, wk, wk + 1, e, c, t, 0)%N).
Proof.
  intros H. apply ctor_sound in H. subst o. unfold ctor_model. destruct (N.eqb_spec wk 0); split; intros; congruence.
Qed.
Example ctor_ok_example : ctor_ok (2, 30, 90, 270)%N (true, 2, 3, 30, 90, 270, 0)%N = true /\
                          ctor_ok (2, 30, 90, 270)%N (true, 2, 3, 90, 30, 270, 0)%N = false /\
                          ctor_ok (0, 30, 90, 270)%N (false, 0, 0, 0, 0, 0, 0)%N = true.
Proof. vm_compute. repeat split. Qed.

Lemma plug_oeqb_spec a b : plug_oeqb a b = true <-> a = b.
Proof.
  destruct a as [[[[a1 a2] a3] a4] a5], b as [[[[b1 b2] b3] b4] b5]. unfold plug_oeqb.
  rewrite !andb_true_iff, !bout_eqb_spec, N.eqb_eq, !bool_eqb_spec.
  split; [intros [[[[-> ->] ->] ->] ->]; reflexivity|intros H; inversion H; repeat split].
Qed.
Lemma plug_model_passes i : plug_ok i (plug_model i) = true.
Proof. unfold plug_ok. now apply plug_oeqb_spec. Qed.
Lemma plug_sound i o : plug_ok i o = true -> o = plug_model i.
Proof. unfold plug_ok. intros H. apply plug_oeqb_spec in H. now symmetry. Qed.

Lemma plug_entries_spec fetched : forall ms ds, length ds = length ms ->
  Forall2 (fun md e => e = (m_chain (fst md), m_seq (fst md),
                            comp_view (fst md) (if fetched && sup_ready (snd md) then snd md else initial_td (fst md))))
          (combine ms ds) (plug_entries ms ds fetched).
Proof.
  induction ms as [|m ms IH]; intros [|d ds] Hlen; cbn [length] in Hlen; try discriminate; cbn [combine plug_entries].
  - constructor.
  - constructor; [reflexivity|apply IH; lia].
Qed.
(* in words of the property: the round is never held up (both calls answer, the first with placeholders only), every
   message is fetched exactly once, only fetched data whose supported tokens are all ready is reported, Close cleans up *)
Lemma plug_sound_round wk ms ds o1 o2 n c l :
  plug_ok (wk, ms, ds) (o1, o2, n, c, l) = true -> length ds = length ms ->
  exists es1 es2,
    o1 = OObs (Done es1) /\ o2 = OObs (Done es2) /\
    Forall2 (fun md e => e = (m_chain (fst md), m_seq (fst md), comp_view (fst md) (initial_td (fst md)))) (combine ms ds) es1 /\
    Forall2 (fun md e => e = (m_chain (fst md), m_seq (fst md),
                              comp_view (fst md) (if sup_ready (snd md) then snd md else initial_td (fst md)))) (combine ms ds) es2 /\
    n = N.of_nat (length ms) /\ c = true /\ l = true.
Proof.
  intros H Hlen. apply plug_sound in H. unfold plug_model in H. inversion H; subst.
  exists (plug_entries ms ds false), (plug_entries ms ds true). repeat split.
  - exact (plug_entries_spec false ms ds Hlen).
  - exact (plug_entries_spec true ms ds Hlen).
Qed.

(* the first answer of plug_model is what the composite model (comp_model, tied to the Props theorems above) answers to
   one Observe on a freshly built observer *)
Lemma comp_entries_placeholders : forall ms,
  comp_entries ms (map (fun m => (m_chain m, m_seq m, initial_td m)) ms) =
  Some (map (fun m => (m_chain m, m_seq m, comp_view m (initial_td m))) ms).
Proof.
  induction ms as [|m ms IH]; [reflexivity|]. cbn [map comp_entries]. rewrite IH.
  unfold initial_td at 1. rewrite map_length, Nat.eqb_refl. reflexivity.
Qed.
Lemma plug_entries_placeholders : forall ms ds, length ds = length ms ->
  plug_entries ms ds false = map (fun m => (m_chain m, m_seq m, comp_view m (initial_td m))) ms.
Proof.
  induction ms as [|m ms IH]; intros [|d ds] Hlen; cbn [length] in Hlen; try discriminate; [reflexivity|].
  cbn [plug_entries map andb]. rewrite IH by lia. reflexivity.
Qed.
Lemma Forall2_eq_map {A B} (g : A -> B) l r : Forall2 (fun a b => b = g a) l r -> r = map g l.
Proof. induction 1 as [|a b l r Hab _ IH]; [reflexivity|]. cbn [map]. now rewrite Hab, IH. Qed.

Lemma plug_first_is_comp wk ttl ms ds now : length ds = length ms ->
  fst (fst (comp_model (wk, ttl, [BObserve ms now]))) = [OObs (Done (plug_entries ms ds false))].
Proof.
  intros Hlen. unfold comp_model, bg_model. cbn [brun bstep].
  destruct (observe true true (binit wk) ms now) as [st' r] eqn:E. cbn [fst snd].
  destruct (observe_spec true wk _ _ _ _ _ E (binv_init wk)) as (_ & _ & _ & _ & _ & _ & NB & NE & _).
  destruct r as [res| |]; try congruence.
  destruct (observe_entries _ _ _ _ _ E) as [_ HF]. cbn [binit cache] in HF.
  assert (Hres : res = map (fun m => (m_chain m, m_seq m, initial_td m)) ms).
  { apply Forall2_eq_map. revert HF. apply Forall2_imp. intros m e ->. reflexivity. }
  subst res. cbn [comp_outs]. rewrite comp_entries_placeholders, (plug_entries_placeholders _ _ Hlen). reflexivity.
Qed.

Example plug_ok_example :
  let ms := [wit_m1; ex_m3] in
  let ds := [[mkT true true 7]; [mkT false false 0; mkT false true 0]]%N in   (* the second fetch comes back not ready *)
  plug_ok (2, ms, ds)%N
    (OObs (Done [(10, 1, [mkT false true 0]); (20, 5, [mkT true true 0; mkT false true 0])]),
     OObs (Done [(10, 1, [mkT true true 7]); (20, 5, [mkT true true 0; mkT false true 0])]), 2, true, true)%N = true.
Proof. vm_compute. reflexivity. Qed.

(* RmnP.v — lemmas and theorems about Model/Rmn.v (C06). *)
Require Import Verif.Model.Base Verif.Model.Rmn Verif.Proofs.BaseP.
From Coq Require Import Sorting.Sorted.

(* ---------- small facts about the set / order helpers ---------- *)
Lemma memN_in x l : memN x l = true <-> In x l.
Proof.
  unfold memN. rewrite existsb_exists. split.
  - intros (y & Hy & E). apply N.eqb_eq in E. now subst.
  - intros H. exists x. split; [exact H|apply N.eqb_refl].
Qed.
Lemma memN_false x l : memN x l = false <-> ~ In x l.
Proof. rewrite <- memN_in. destruct (memN x l); split; congruence. Qed.

Lemma dkf_in seen l x : In x (dedup_keep_first seen l) <-> In x l /\ ~ In x seen.
Proof.
  revert seen. induction l as [|y l IH]; intros seen; cbn [dedup_keep_first].
  - cbn. tauto.
  - destruct (memN y seen) eqn:E.
    + apply memN_in in E. rewrite IH. cbn. split; [tauto|]. intros [[->|H] Hn]; tauto.
    + apply memN_false in E. cbn. rewrite IH. cbn. split.
      * intros [->|[H Hn]]; [tauto|]. split; [tauto|]. intros Hs. apply Hn. now right.
      * intros [[->|H] Hn]; [now left|]. destruct (N.eq_dec y x) as [->|Ne]; [now left|].
        right. split; [exact H|]. intros [->|Hs]; tauto.
Qed.
Lemma dkf_nodup seen l : NoDup (dedup_keep_first seen l).
Proof.
  revert seen. induction l as [|y l IH]; intros seen; cbn [dedup_keep_first]; [constructor|].
  destruct (memN y seen) eqn:E; [apply IH|].
  constructor; [|apply IH]. rewrite dkf_in. intros [_ Hn]. apply Hn. now left.
Qed.

Lemma dedupN_in l x : In x (dedupN l) <-> In x l.
Proof.
  induction l as [|y l IH]; cbn [dedupN]; [tauto|].
  destruct (memN y l) eqn:E.
  - apply memN_in in E. rewrite IH. cbn. split; [tauto|]. intros [->|H]; tauto.
  - cbn. rewrite IH. tauto.
Qed.
Lemma dedupN_nodup l : NoDup (dedupN l).
Proof.
  induction l as [|y l IH]; cbn [dedupN]; [constructor|].
  destruct (memN y l) eqn:E; [exact IH|].
  apply memN_false in E. constructor; [|exact IH]. now rewrite dedupN_in.
Qed.

Lemma order_by_in pref keys x : In x (order_by pref keys) <-> In x keys.
Proof.
  unfold order_by. rewrite in_app_iff, !filter_In, dkf_in. cbn.
  rewrite memN_in, negb_true_iff, memN_false.
  split; [tauto|]. intros H. destruct (in_dec N.eq_dec x pref); tauto.
Qed.
Lemma nodup_app {A} (l1 l2 : list A) :
  NoDup l1 -> NoDup l2 -> (forall x, In x l1 -> ~ In x l2) -> NoDup (l1 ++ l2).
Proof.
  induction l1 as [|a l1 IH]; intros N1 N2 D; cbn; [exact N2|].
  inversion N1 as [|? ? Ha N1']; subst. constructor.
  - rewrite in_app_iff. intros [H|H]; [tauto|]. apply (D a); [now left|exact H].
  - apply IH; try assumption. intros x Hx. apply D. now right.
Qed.
Lemma nodup_filter {A} (f : A -> bool) l : NoDup l -> NoDup (filter f l).
Proof.
  induction 1 as [|a l Ha N IH]; cbn; [constructor|].
  destruct (f a); [constructor|]; try exact IH. rewrite filter_In. tauto.
Qed.
Lemma order_by_nodup pref keys : NoDup keys -> NoDup (order_by pref keys).
Proof.
  intros ND. unfold order_by. apply nodup_app.
  - apply nodup_filter, dkf_nodup.
  - apply nodup_filter, ND.
  - intros x. rewrite !filter_In, dkf_in, negb_true_iff, memN_false. tauto.
Qed.

(* ---------- requestedNodes ---------- *)
Lemma rq_mem_in ch n rq : rq_mem ch n rq = true <-> In (ch, n) rq.
Proof.
  unfold rq_mem. rewrite existsb_exists. split.
  - intros ([c m] & Hin & E). cbn in E. apply andb_true_iff in E as [E1 E2].
    apply N.eqb_eq in E1, E2. now subst.
  - intros H. exists (ch, n). split; [exact H|]. cbn. now rewrite !N.eqb_refl.
Qed.
Lemma rq_add_in ch n rq p : In p (rq_add ch n rq) <-> In p rq \/ p = (ch, n).
Proof.
  unfold rq_add. destruct (rq_mem ch n rq) eqn:E.
  - apply rq_mem_in in E. split; [tauto|]. intros [H| ->]; assumption.
  - rewrite in_app_iff. cbn. split; [intros [H|[H|[]]]; auto|intros [H|H]; auto].
Qed.

Definition asked (rq : list (chain * node)) (n : node) : Prop := exists ch, In (ch, n) rq.
(* a node that has been asked for one lane has been asked for every lane it observes *)
Definition closed (us : list upd) (rq : list (chain * node)) : Prop :=
  forall n, asked rq n -> forall u, In u us -> memN n (u_nodes u) = true -> In (u_chain u, n) rq.

Lemma node_pass_in n us st p :
  In p (fst (node_pass n us st)) <->
  In p (fst st) \/ exists u, In u us /\ memN n (u_nodes u) = true /\ p = (u_chain u, n).
Proof.
  revert st. induction us as [|u us IH]; intros st; cbn [node_pass].
  - split; [auto|]. intros [H|(u & [] & _)]. exact H.
  - destruct (memN n (u_nodes u)) eqn:E.
    + rewrite IH. cbn [fst]. rewrite rq_add_in. split.
      * intros [[H|H]|(u' & Hu & Hm & Hp)]; [auto| |].
        -- right. exists u. cbn. auto.
        -- right. exists u'. cbn. auto.
      * intros [H|(u' & [<-|Hu] & Hm & Hp)]; [auto|auto|]. right. exists u'. auto.
    + rewrite IH. split.
      * intros [H|(u' & Hu & Hm & Hp)]; [auto|]. right. exists u'. cbn. auto.
      * intros [H|(u' & [<-|Hu] & Hm & Hp)]; [auto|congruence|]. right. exists u'. auto.
Qed.

Lemma node_pass_closed n us st : closed us (fst st) -> closed us (fst (node_pass n us st)).
Proof.
  intros C m [ch Hm] u Hu Hmem. apply node_pass_in.
  apply node_pass_in in Hm as [Hm|(u' & Hu' & Hmem' & E)].
  - left. apply C; try assumption. now exists ch.
  - inversion E; subst. right. exists u. auto.
Qed.
Lemma init_loop_closed order us st : closed us (fst st) -> closed us (fst (init_loop order us st)).
Proof.
  revert st. induction order as [|n rest IH]; intros st C; cbn [init_loop]; [exact C|].
  destruct (Nat.eqb _ _); [exact C|]. apply IH, node_pass_closed, C.
Qed.

(* ---------- request ids with their addressees ---------- *)
Lemma ids_add_in id n ids i m : In (i, m) (ids_add id n ids) -> In (i, m) ids \/ (i, m) = (id, n).
Proof.
  unfold ids_add. rewrite in_app_iff, filter_In. cbn. intros [[H _]|[H|[]]]; auto.
Qed.
Lemma ids_add_snd id n ids x : In x (map snd (ids_add id n ids)) -> In x (map snd ids) \/ x = n.
Proof.
  rewrite in_map_iff. intros ([i m] & <- & H). apply ids_add_in in H as [H|H].
  - left. apply in_map_iff. now exists (i, m).
  - inversion H. now right.
Qed.
Lemma nodup_map_filter {A B} (g : A -> B) (f : A -> bool) l : NoDup (map g l) -> NoDup (map g (filter f l)).
Proof.
  induction l as [|a l IH]; cbn; [auto|]. intros N. inversion N as [|? ? Ha N']; subst.
  destruct (f a); cbn; [constructor|]; auto.
  rewrite in_map_iff. intros (y & E & Hy). apply filter_In in Hy as [Hy _]. apply Ha. rewrite <- E. now apply in_map.
Qed.
Lemma ids_add_nodup id n ids :
  NoDup (map snd ids) -> ~ In n (map snd ids) -> NoDup (map snd (ids_add id n ids)).
Proof.
  intros N Hn. unfold ids_add. rewrite map_app. apply nodup_app.
  - now apply nodup_map_filter.
  - cbn. constructor; [tauto|constructor].
  - cbn. intros x Hx [<-|[]]. apply Hn. apply in_map_iff in Hx as (y & E & Hy).
    apply filter_In in Hy as [Hy _]. rewrite <- E. now apply in_map.
Qed.

Lemma send_obs_ids sc nodes pairs ss i m :
  In (i, m) (ss_ids (send_obs sc nodes pairs ss)) -> In (i, m) (ss_ids ss) \/ In m nodes.
Proof.
  revert ss. induction nodes as [|n rest IH]; intros ss; cbn [send_obs]; [auto|].
  destruct (s_fail sc (ss_k ss)); intros H; apply IH in H; cbn [ss_ids] in H.
  - destruct H; cbn; auto.
  - destruct H as [H|H]; [|cbn; auto]. apply ids_add_in in H as [H|H]; [auto|]. inversion H. cbn. auto.
Qed.
Lemma send_obs_nodup sc nodes pairs ss :
  NoDup (map snd (ss_ids ss)) -> NoDup nodes -> (forall n, In n nodes -> ~ In n (map snd (ss_ids ss))) ->
  NoDup (map snd (ss_ids (send_obs sc nodes pairs ss))).
Proof.
  revert ss. induction nodes as [|n rest IH]; intros ss N1 N2 D; cbn [send_obs]; [exact N1|].
  inversion N2 as [|? ? Hn N2']; subst.
  destruct (s_fail sc (ss_k ss)); apply IH; cbn [ss_ids]; try assumption.
  - intros m Hm. apply D. now right.
  - apply ids_add_nodup; [exact N1|]. apply D. now left.
  - intros m Hm Hin. apply ids_add_snd in Hin as [Hin| ->]; [|tauto]. apply (D m); [now right|exact Hin].
Qed.

(* ---------- validation of an observation response (repaired code) ---------- *)
Lemma find_upd_some ch us u : find_upd ch us = Some u -> In u us /\ u_chain u = ch.
Proof. unfold find_upd. intros H. apply find_some in H as [H E]. apply N.eqb_eq in E. auto. Qed.

Lemma bytes_eqb_eq (l m : list (N * N)) : list_eqb (pair_eqb N.eqb N.eqb) l m = true -> l = m.
Proof.
  revert m. induction l as [|[i x] l IH]; intros [|[j y] m] H; cbn [list_eqb] in H; try discriminate; [reflexivity|].
  apply andb_true_iff in H as [H1 H2]. unfold pair_eqb in H1. cbn [fst snd] in H1.
  apply andb_true_iff in H1 as [Hi Hx]. apply N.eqb_eq in Hi, Hx. subst. f_equal. now apply IH.
Qed.
Lemma addr_eqb_eq (a b : addr) : addr_eqb a b = true -> a = b.
Proof.
  destruct a as [l v], b as [l' v']. unfold addr_eqb. cbn [fst snd]. intros H.
  apply andb_true_iff in H as [H1 H2]. apply N.eqb_eq in H1. apply bytes_eqb_eq in H2. now subst.
Qed.

(* the length of what an observation must carry: min(requested length, 20) *)
Lemma exp_onramp_len q : fst (exp_onramp q) = N.min (fst (lr_onramp q)) 20.
Proof.
  unfold exp_onramp, keep_right. destruct (N.leb_spec (fst (lr_onramp q)) 20); cbn [fst]; lia.
Qed.

Lemma validate_lus_sound n us lus : forall seen votes,
  validate_lus fixed n us seen lus = Ok votes ->
  NoDup (map fst votes) /\ (forall ch, In ch (map fst votes) -> ~ In ch seen) /\
  forall ch rv, In (ch, rv) votes ->
    exists lu u, In lu lus /\ find_upd ch us = Some u /\ memN n (u_nodes u) = true /\
      lu_src lu = Some (ch, exp_onramp (u_req u)) /\
      lu_itv lu = Some (lr_min (u_req u), lr_max (u_req u)) /\ lu_root lu = rv /\ rv <> RNil.
Proof.
  induction lus as [|lu rest IH]; intros seen votes H; cbn [validate_lus] in H.
  - inversion H; subst. cbn. repeat split; [constructor|tauto|tauto].
  - cbn [fx_nil fixed andb] in H.
    destruct (lu_src lu) as [[ch onr]|] eqn:Esrc; cbn [is_none orb] in H; [|discriminate].
    destruct (lu_itv lu) as [[mn mx]|] eqn:Eitv; cbn [is_none] in H; [|discriminate].
    destruct (find_upd ch us) as [u|] eqn:Eu; [|discriminate].
    destruct (memN ch seen) eqn:Eseen; [discriminate|].
    destruct (memN n (u_nodes u)) eqn:Eobs; cbn [negb] in H; [|discriminate].
    destruct (N.eqb_spec (lr_min (u_req u)) mn) as [Emn|]; cbn [negb] in H; [|discriminate].
    destruct (N.eqb_spec (lr_max (u_req u)) mx) as [Emx|]; cbn [negb] in H; [|discriminate].
    destruct (addr_eqb (exp_onramp (u_req u)) onr) eqn:Eon; cbn [negb] in H; [|discriminate].
    apply addr_eqb_eq in Eon.
    assert (Hrest : lu_root lu <> RNil /\
                    rbind (validate_lus fixed n us (ch :: seen) rest) (fun l => Ok ((ch, lu_root lu) :: l)) = Ok votes).
    { destruct (lu_root lu); [discriminate| | |]; (split; [discriminate|exact H]). }
    destruct Hrest as [Hnn Hrest].
    destruct (validate_lus fixed n us (ch :: seen) rest) as [l| | |] eqn:Er; cbn [rbind] in Hrest; try discriminate.
    inversion Hrest; subst votes. specialize (IH _ _ Er) as (ND & Hseen & Hall).
    apply memN_false in Eseen. cbn [map fst]. repeat split.
    + constructor; [|exact ND]. intros Hin. apply (Hseen ch Hin). now left.
    + intros c [<-|Hc]; [exact Eseen|]. intros Hs. apply (Hseen c Hc). now right.
    + intros c rv [E|Hin].
      * inversion E; subst. exists lu, u. subst. cbn. repeat split; auto.
      * destruct (Hall c rv Hin) as (lu' & u' & Hl & R). exists lu', u'. cbn. split; [auto|exact R].
Qed.

(* every vote that validation lets through comes from a lane update whose source is EXACTLY the requested lane: the
   requested selector, and an on-ramp address byte-equal to the last 20 bytes of the requested address (all of it if it
   has at most 20) — in particular of exactly that length: no shorter tail, no longer string with the same tail *)
Lemma lane_source_exact n us lus seen votes :
  validate_lus fixed n us seen lus = Ok votes ->
  forall ch rv, In (ch, rv) votes ->
  exists lu u, In lu lus /\ find_upd ch us = Some u /\
    lu_src lu = Some (ch, keep_right 20 (lr_onramp (u_req u))) /\
    forall o, lu_src lu = Some (ch, o) -> fst o = N.min (fst (lr_onramp (u_req u))) 20.
Proof.
  intros H ch rv Hin. destruct (validate_lus_sound _ _ _ _ _ H) as (_ & _ & A).
  destruct (A ch rv Hin) as (lu & u & Hl & Hu & _ & Hs & _). exists lu, u. repeat split; auto.
  intros o Ho. rewrite Hs in Ho. inversion Ho. apply exp_onramp_len.
Qed.

Lemma validate_lus_no_panic n us lus : forall seen,
  validate_lus fixed n us seen lus <> Panic /\ validate_lus fixed n us seen lus <> Spin.
Proof.
  induction lus as [|lu rest IH]; intros seen; cbn [validate_lus]; [split; discriminate|].
  cbn [fx_nil fixed andb].
  destruct (lu_src lu) as [[ch onr]|]; cbn [is_none orb]; [|split; discriminate].
  destruct (lu_itv lu) as [[mn mx]|]; cbn [is_none]; [|split; discriminate].
  destruct (find_upd ch us) as [u|]; [|split; discriminate].
  destruct (memN ch seen); [split; discriminate|].
  destruct (negb (memN n (u_nodes u))); [split; discriminate|].
  destruct (negb _); [split; discriminate|].
  destruct (negb _); [split; discriminate|].
  destruct (negb _); [split; discriminate|].
  specialize (IH (ch :: seen)) as [I1 I2].
  destruct (lu_root lu); [split; discriminate| | |];
    (destruct (validate_lus fixed n us (ch :: seen) rest); cbn [rbind]; split; congruence).
Qed.

Section FixedValidate.
  Variable edv : N -> observation -> N -> bool.
  Variable cfg : config.

  Lemma validate_obs_sound n us p votes :
    validate_obs edv fixed cfg n us p = Ok votes ->
    exists so ob hn, p = PObs so /\ so_obs so = Some ob /\ find_home cfg n = Some hn /\
      ob_dest ob = Some (c_dest_sel cfg, c_dest_off cfg) /\ ob_digest ob = c_digest cfg /\
      edv (hn_key hn) ob (so_sig so) = true /\
      validate_lus fixed n us [] (ob_lus ob) = Ok votes /\ all_roots_32 votes = true.
  Proof.
    unfold validate_obs. intros H.
    destruct p as [|so|]; try discriminate.
    destruct (find_home cfg n) as [hn|] eqn:Eh; [|discriminate].
    destruct (so_obs so) as [ob|] eqn:Eo; [|discriminate].
    destruct (ob_dest ob) as [[sel off]|] eqn:Ed; [|discriminate].
    destruct (N.eqb_spec sel (c_dest_sel cfg)) as [->|]; cbn [negb] in H; [|discriminate].
    destruct (N.eqb_spec off (c_dest_off cfg)) as [->|]; cbn [negb] in H; [|discriminate].
    destruct (N.eqb_spec (ob_digest ob) (c_digest cfg)) as [Edg|]; cbn [negb] in H; [|discriminate].
    destruct (validate_lus fixed n us [] (ob_lus ob)) as [vs| | |] eqn:Ev; cbn [rbind] in H; try discriminate.
    destruct (edv (hn_key hn) ob (so_sig so)) eqn:Es; cbn [negb] in H; [|discriminate].
    cbn [fx_nil fixed andb] in H.
    destruct (all_roots_32 vs) eqn:E32; cbn [negb] in H; [|discriminate].
    inversion H; subst. exists so, ob, hn. repeat split; auto.
  Qed.

  Lemma validate_obs_no_panic n us p :
    validate_obs edv fixed cfg n us p <> Panic /\ validate_obs edv fixed cfg n us p <> Spin.
  Proof.
    unfold validate_obs.
    destruct p as [|so|]; try (split; discriminate).
    destruct (find_home cfg n) as [hn|]; [|split; discriminate].
    destruct (so_obs so) as [ob|]; [|split; discriminate].
    destruct (ob_dest ob) as [[sel off]|]; [|split; discriminate].
    destruct (negb _); [split; discriminate|].
    destruct (negb _); [split; discriminate|].
    destruct (negb _); [split; discriminate|].
    destruct (validate_lus_no_panic n us (ob_lus ob) []) as [P1 P2].
    destruct (validate_lus fixed n us [] (ob_lus ob)); cbn [rbind]; try (split; congruence).
    destruct (negb _); [split; discriminate|].
    destruct (_ && _); split; discriminate.
  Qed.
End FixedValidate.

(* ---------- counting votes ---------- *)
Definition unroot (rv : rootv) : root := match rv with R32 r | RLong r => r | _ => 0%N end.
Definition plain (l : list (chain * rootv)) : list (chain * root) := map (fun p => (fst p, unroot (snd p))) l.
Definition acc32 (acc : acc_t) : Prop := forall n l, In (n, l) acc -> all_roots_32 l = true.
Definition acc_chains_nodup (acc : acc_t) : Prop := forall n l, In (n, l) acc -> NoDup (map fst l).

Lemma flat_votes_32 l : all_roots_32 l = true -> flat_votes l = Ok (plain l).
Proof.
  induction l as [|[ch rv] l IH]; cbn [all_roots_32 forallb flat_votes plain map]; [reflexivity|].
  intros H. apply andb_true_iff in H as [H1 H2]. cbn [snd] in H1.
  destruct rv; try discriminate. cbn [root_of rbind]. fold (all_roots_32 l) in H2.
  rewrite (IH H2). reflexivity.
Qed.
Lemma all_votes_32 acc : acc32 acc -> all_votes acc = Ok (flat_map (fun a => plain (snd a)) acc).
Proof.
  induction acc as [|[n l] acc IH]; intros H; cbn [all_votes flat_map]; [reflexivity|].
  rewrite (flat_votes_32 l); [|apply (H n); now left]. cbn [rbind].
  rewrite IH; [reflexivity|]. intros m k Hin. apply (H m). now right.
Qed.

Lemma vote_eqb_eq p q : vote_eqb p q = true <-> p = q.
Proof.
  destruct p, q. unfold vote_eqb. cbn. rewrite andb_true_iff, !N.eqb_eq. split; [intros []; congruence|].
  intros E; inversion E; auto.
Qed.

Definition entry_has (ch : chain) (r : root) (a : node * list (chain * rootv)) : bool :=
  existsb (vote_eqb (ch, r)) (plain (snd a)).

Lemma count_entry ch r l :
  NoDup (map fst l) ->
  length (filter (vote_eqb (ch, r)) (plain l)) = if existsb (vote_eqb (ch, r)) (plain l) then 1%nat else 0%nat.
Proof.
  induction l as [|[c rv] l IH]; intros ND; cbn [plain map filter existsb]; [reflexivity|].
  inversion ND as [|? ? Hc ND']; subst. fold (plain l). cbn [fst snd].
  destruct (vote_eqb (ch, r) (c, unroot rv)) eqn:E; cbn [orb].
  - apply vote_eqb_eq in E. inversion E; subst c.
    assert (Hnone : filter (vote_eqb (ch, r)) (plain l) = []).
    { clear -Hc. induction l as [|[c' rv'] l IHl]; cbn; [reflexivity|].
      cbn in Hc. destruct (vote_eqb (ch, r) (c', unroot rv')) eqn:E'.
      - apply vote_eqb_eq in E'. inversion E'. subst. tauto.
      - apply IHl. tauto. }
    cbn [length].
    rewrite <- H1, Hnone. reflexivity.
  - apply IH, ND'.
Qed.

Lemma count_votes_voters ch r acc :
  acc_chains_nodup acc ->
  count_votes ch r (flat_map (fun a => plain (snd a)) acc) = zlen (filter (entry_has ch r) acc).
Proof.
  intros H. unfold count_votes, zlen. f_equal.
  induction acc as [|a acc IH]; cbn [flat_map filter]; [reflexivity|].
  rewrite filter_app, app_length, IH; [|intros n l Hin; apply (H n); now right].
  destruct a as [n l]. cbn [snd]. rewrite (count_entry ch r l); [|apply (H n); now left].
  unfold entry_has at 2. cbn [snd]. destruct (existsb _ _); reflexivity.
Qed.

Lemma entry_has_in ch r n l : all_roots_32 l = true -> entry_has ch r (n, l) = true -> In (ch, R32 r) l.
Proof.
  unfold entry_has. cbn [snd]. intros H32 H. apply existsb_exists in H as (q & Hq & E).
  apply vote_eqb_eq in E. subst q. unfold plain in Hq. apply in_map_iff in Hq as ([c rv] & E & Hin).
  cbn in E. inversion E; subst. unfold all_roots_32 in H32. rewrite forallb_forall in H32.
  specialize (H32 _ Hin). cbn in H32. destruct rv; try discriminate. exact Hin.
Qed.

(* gotSufficientObservationResponses = true: every lane has a root with F+1 distinct voters among the accepted *)
Lemma sufficient_voters us acc :
  acc32 acc -> acc_chains_nodup acc -> NoDup (map fst acc) ->
  sufficient us acc = Ok true ->
  forall u, In u us -> exists r voters,
    NoDup voters /\ (u_F u + 1 <= zlen voters)%Z /\
    (u_F u + 1 <= count_votes (u_chain u) r (flat_map (fun a => plain (snd a)) acc))%Z /\
    forall n, In n voters -> exists l, In (n, l) acc /\ In (u_chain u, R32 r) l.
Proof.
  intros H32 Hch ND Hs u Hu. unfold sufficient in Hs. rewrite (all_votes_32 acc H32) in Hs. cbn [rbind] in Hs.
  inversion Hs as [Hs']. rewrite forallb_forall in Hs'. specialize (Hs' u Hu).
  unfold chain_sufficient in Hs'. apply existsb_exists in Hs' as ([c r] & _ & E). cbn [fst snd] in E.
  apply andb_true_iff in E as [_ E]. apply negb_true_iff in E. unfold lt_f_plus_one in E. apply Z.ltb_ge in E.
  exists r, (map fst (filter (entry_has (u_chain u) r) acc)). repeat split.
  - now apply nodup_map_filter.
  - rewrite (count_votes_voters _ _ _ Hch) in E. unfold zlen in *. now rewrite map_length.
  - exact E.
  - intros n Hn. apply in_map_iff in Hn as ([m l] & <- & Hin). apply filter_In in Hin as [Hin Hh].
    exists l. split; [exact Hin|]. eapply entry_has_in; [|exact Hh]. now apply (H32 m).
Qed.

(* ---------- phase A invariant (repaired code) ---------- *)
Lemma alookup_in {V} k (m : list (N * V)) v : alookup k m = Some v -> In (k, v) m.
Proof.
  induction m as [|[k' v'] m IH]; cbn [alookup]; [discriminate|].
  destruct (N.eqb_spec k k') as [->|]; intros H; [inversion H; now left|right; auto].
Qed.
Lemma nodup_snd_inj {A B} (l : list (A * B)) a b x :
  NoDup (map snd l) -> In (a, x) l -> In (b, x) l -> a = b.
Proof.
  induction l as [|[a' x'] l IH]; cbn; [tauto|]. intros N. inversion N as [|? ? Hx N']; subst.
  intros [E1|H1] [E2|H2].
  - congruence.
  - inversion E1; subst. exfalso. apply Hx. apply in_map_iff. now exists (b, x).
  - inversion E2; subst. exfalso. apply Hx. apply in_map_iff. now exists (a, x).
  - now apply IH.
Qed.
Lemma all_pairs_in us ch n :
  In (ch, n) (all_pairs us) <-> exists u, In u us /\ ch = u_chain u /\ In n (u_nodes u).
Proof.
  unfold all_pairs. rewrite in_flat_map. split.
  - intros (u & Hu & H). apply in_map_iff in H as (m & E & Hm). inversion E; subst. exists u. auto.
  - intros (u & Hu & -> & Hn). exists u. split; [exact Hu|]. apply in_map_iff. now exists n.
Qed.
Lemma nodes_of_pairs_in pairs n : In n (nodes_of_pairs pairs) <-> asked pairs n.
Proof.
  unfold nodes_of_pairs, asked. rewrite dkf_in, in_map_iff. split.
  - intros [([c m] & E & H) _]. cbn in E. subst. now exists c.
  - intros [c H]. split; [|tauto]. now exists (c, n).
Qed.

(* no node has two accepted observations => the comparator of transformAndSortObservations never reaches [0] *)
Lemma tas_panics_nodup (acc : acc_t) : NoDup (map fst acc) -> tas_panics acc = false.
Proof.
  induction acc as [|a acc IH]; cbn [tas_panics map]; [reflexivity|]. intros N. inversion N as [|? ? Ha N']; subst.
  rewrite (IH N'), orb_false_r. apply not_true_is_false. intros H. apply existsb_exists in H as (b & Hb & E).
  apply andb_true_iff in E as [E _]. apply N.eqb_eq in E. apply Ha. rewrite E. now apply in_map.
Qed.

Section Inv.
  Variable edv : N -> observation -> N -> bool.
  Variable vrs : N -> N -> report -> bool.
  Variable cfg : config.
  Variable sc : sched.

  (* an accepted observation is backed by a response that validates *)
  Definition resp_ok (pre : list event) (us : list upd) (n : node) (votes : list (chain * rootv)) : Prop :=
    exists id p, In (Resp n (BMsg id p)) pre /\ validate_obs edv fixed cfg n us p = Ok votes.

  Definition acc_good (pre : list event) (us : list upd) (acc : acc_t) : Prop :=
    NoDup (map fst acc) /\ forall n l, In (n, l) acc -> resp_ok pre us n l.

  Lemma acc_good_mono pre e us acc : acc_good pre us acc -> acc_good (pre ++ [e]) us acc.
  Proof.
    intros [ND H]. split; [exact ND|]. intros n l Hin. destruct (H n l Hin) as (id & p & Hi & Hv).
    exists id, p. split; [|exact Hv]. apply in_app_iff. now left.
  Qed.
  Lemma acc_good_32 pre us acc : acc_good pre us acc -> acc32 acc /\ acc_chains_nodup acc.
  Proof.
    intros [_ H]. split; intros n l Hin; destruct (H n l Hin) as (id & p & _ & Hv);
      apply validate_obs_sound in Hv as (so & ob & hn & _ & _ & _ & _ & _ & _ & Hl & H32); [exact H32|].
    now apply validate_lus_sound in Hl as [ND _].
  Qed.

  Record invA (pre : list event) (us : list upd) (s : stA) : Prop := mkInvA {
    iA_ids : NoDup (map snd (a_ids s));
    iA_idasked : forall id n, In (id, n) (a_ids s) -> asked (a_rq s) n;
    iA_closed : a_exp s = false -> closed us (a_rq s);
    iA_accasked : forall n l, In (n, l) (a_acc s) -> asked (a_rq s) n;
    iA_accfin : forall n l, In (n, l) (a_acc s) -> forall id, In (id, n) (a_ids s) -> In id (a_fin s);
    iA_acc : acc_good pre us (a_acc s) }.

  Lemma invA_init us : invA [] us (initA cfg sc us).
  Proof.
    unfold initA.
    set (rq := fst (init_loop _ us ([], []))).
    assert (C : closed us rq) by (apply init_loop_closed; intros n [ch []]).
    set (nodes := order_by (s_sendA1 sc) (nodes_of_pairs rq)).
    constructor; cbn [a_ids a_rq a_exp a_acc a_fin].
    - apply send_obs_nodup; cbn; [constructor| |tauto].
      apply order_by_nodup, dkf_nodup.
    - intros id n H. apply send_obs_ids in H as [[]|H]. apply order_by_in in H. now apply nodes_of_pairs_in.
    - intros _. exact C.
    - intros n l [].
    - intros n l [].
    - split; [constructor|intros n l []].
  Qed.

  (* the nodes the timer branch sends to have not been asked before *)
  Lemma extra_fresh us rq n :
    closed us rq ->
    In n (nodes_of_pairs (filter (fun p => negb (rq_mem (fst p) (snd p) rq)) (all_pairs us))) -> ~ asked rq n.
  Proof.
    intros C H Ha. apply nodes_of_pairs_in in H as [ch H]. apply filter_In in H as [H Hn]. cbn [fst snd] in Hn.
    apply all_pairs_in in H as (u & Hu & -> & Hin). apply negb_true_iff in Hn.
    assert (In (u_chain u, n) rq) as Hq by (apply C; [exact Ha|exact Hu|now apply memN_in]).
    apply rq_mem_in in Hq. congruence.
  Qed.

  Lemma parse_fixed_some ids fin n b id p :
    parse fixed ids fin n b = Some (id, p) ->
    b = BMsg id p /\ In (id, n) ids /\ ~ In id fin.
  Proof.
    unfold parse. destruct b as [|i q]; [discriminate|].
    destruct (ids_mem i ids); cbn [negb]; [|discriminate].
    cbn [fx_addr fixed andb]. destruct (ids_node i ids) as [m|] eqn:E; cbn [option_eqb]; [|discriminate].
    destruct (N.eqb_spec m n) as [->|]; cbn [negb]; [|discriminate].
    destruct (memN i fin) eqn:Ef; [discriminate|]. intros H. inversion H; subst.
    repeat split; [now apply alookup_in|now apply memN_false].
  Qed.

  (* what happens to the accepted list when a response is let in *)
  Lemma accept_step pre us s n id p votes :
    invA pre us s -> In (id, n) (a_ids s) -> ~ In id (a_fin s) ->
    validate_obs edv fixed cfg n us p = Ok votes ->
    acc_good (pre ++ [Resp n (BMsg id p)]) us (a_acc s ++ [(n, votes)]).
  Proof.
    intros I Hid Hfin Hv. destruct (iA_acc _ _ _ I) as [ND Hev]. split.
    - rewrite map_app. apply nodup_app; [exact ND|cbn; constructor; [tauto|constructor]|].
      cbn. intros m Hm [<-|[]]. apply in_map_iff in Hm as ([m' l] & E & Hin). cbn in E. subst m'.
      apply Hfin. eapply iA_accfin; eauto.
    - intros m l Hin. apply in_app_iff in Hin as [Hin|[E|[]]].
      + destruct (Hev m l Hin) as (i & q & Hi & Hq). exists i, q. split; [apply in_app_iff; now left|exact Hq].
      + inversion E; subst. exists id, p. split; [apply in_app_iff; right; now left|exact Hv].
  Qed.

  Lemma invA_step pre us s e s' :
    invA pre us s -> stepA edv fixed cfg sc us s e = Cont s' -> invA (pre ++ [e]) us s'.
  Proof.
    intros I H. destruct e as [n b| |]; cbn [stepA] in H; [| |discriminate].
    - (* Resp *)
      destruct (parse fixed (a_ids s) (a_fin s) n b) as [[id p]|] eqn:Ep.
      2:{ inversion H; subst s'. destruct I. constructor; auto. now apply acc_good_mono. }
      apply parse_fixed_some in Ep as (-> & Hid & Hfin).
      destruct (validate_obs_no_panic edv cfg n us p) as [NP NS].
      destruct (validate_obs edv fixed cfg n us p) as [votes| | |] eqn:Ev; try congruence.
      + (* accepted *)
        destruct (sufficient us (a_acc s ++ [(n, votes)])) as [[|]| | |]; try discriminate.
        destruct (a_exp s && ids_all_finished (a_ids s) (id :: a_fin s)); [discriminate|].
        inversion H; subst s'. clear H.
        pose proof (accept_step _ _ _ _ _ _ _ I Hid Hfin Ev) as G.
        destruct I as [I1 I2 I3 I4 I5 I6]. constructor; cbn [a_ids a_rq a_exp a_acc a_fin]; auto.
        * intros m l Hin. apply in_app_iff in Hin as [Hin|[E|[]]]; [eauto|]. inversion E; subst. eauto.
        * intros m l Hin i Hi. apply in_app_iff in Hin as [Hin|[E|[]]].
          -- right. eauto.
          -- inversion E; subst. left. eapply nodup_snd_inj; eauto.
      + (* rejected *)
        destruct (sufficient us (a_acc s)) as [[|]| | |]; try discriminate.
        destruct (a_exp s && ids_all_finished (a_ids s) (id :: a_fin s)); [discriminate|].
        inversion H; subst s'. clear H.
        destruct I as [I1 I2 I3 I4 I5 I6]. constructor; cbn [a_ids a_rq a_exp a_acc a_fin]; auto.
        * intros m l Hin i Hi. right. eauto.
        * now apply acc_good_mono.
    - (* TimerFire *)
      destruct (a_exp s) eqn:Ex.
      + inversion H; subst s'. destruct I. constructor; cbn; auto; [discriminate|now apply acc_good_mono].
      + inversion H; subst s'. clear H.
        destruct I as [I1 I2 I3 I4 I5 I6]. specialize (I3 Ex).
        set (extra := filter (fun p => negb (rq_mem (fst p) (snd p) (a_rq s))) (all_pairs us)) in *.
        assert (Fresh : forall n, In n (order_by (s_sendA2 sc) (nodes_of_pairs extra)) -> ~ asked (a_rq s) n).
        { intros n Hn. apply order_by_in in Hn. now apply extra_fresh in Hn. }
        constructor; cbn [a_ids a_rq a_exp a_acc a_fin].
        * apply send_obs_nodup; cbn [ss_ids]; [exact I1|apply order_by_nodup, dkf_nodup|].
          intros n Hn Hin. apply (Fresh n Hn). apply in_map_iff in Hin as ([i m] & E & Hin). cbn in E. subst. eauto.
        * intros id n Hin. apply send_obs_ids in Hin as [Hin|Hin]; cbn [ss_ids] in Hin.
          -- destruct (I2 _ _ Hin) as [c Hc]. exists c. apply in_app_iff. now left.
          -- apply order_by_in, nodes_of_pairs_in in Hin as [c Hc]. exists c. apply in_app_iff. now right.
        * discriminate.
        * intros n l Hin. destruct (I4 _ _ Hin) as [c Hc]. exists c. apply in_app_iff. now left.
        * intros n l Hin id Hid. apply send_obs_ids in Hid as [Hid|Hid]; cbn [ss_ids] in Hid; [eauto|].
          exfalso. apply (Fresh n Hid). eauto.
        * now apply acc_good_mono.
  Qed.

  (* phase A returns observations: they are good and sufficient *)
  Lemma invA_done pre us s e acc :
    invA pre us s -> stepA edv fixed cfg sc us s e = Done (inl acc) ->
    acc_good (pre ++ [e]) us acc /\ sufficient us acc = Ok true.
  Proof.
    intros I H. destruct e as [n b| |]; cbn [stepA] in H.
    - destruct (parse fixed (a_ids s) (a_fin s) n b) as [[id p]|] eqn:Ep; [|discriminate].
      apply parse_fixed_some in Ep as (-> & Hid & Hfin).
      destruct (validate_obs edv fixed cfg n us p) as [votes| | |] eqn:Ev; try discriminate.
      + destruct (sufficient us (a_acc s ++ [(n, votes)])) as [[|]| | |] eqn:Es; try discriminate.
        * inversion H; subst acc. split; [|exact Es]. eapply accept_step; eauto.
        * destruct (_ && _); discriminate.
      + destruct (sufficient us (a_acc s)) as [[|]| | |] eqn:Es; try discriminate.
        * inversion H; subst acc. split; [|exact Es]. apply acc_good_mono. now destruct I.
        * destruct (_ && _); discriminate.
    - destruct (a_exp s); discriminate.
    - discriminate.
  Qed.
End Inv.

(* ---------- the prepared requests ---------- *)
Lemma nodupb_nodup l : nodupb N.eqb l = true -> NoDup l.
Proof.
  induction l as [|x l IH]; cbn [nodupb]; [constructor|]. intros H. apply andb_true_iff in H as [H1 H2].
  constructor; [|auto]. apply negb_true_iff in H1. now apply memN_false in H1.
Qed.

Definition upd_wf (cfg : config) (u : upd) : Prop :=
  In (u_req u) (c_reqs cfg) /\ u_nodes u = rmn_nodes_of cfg (u_chain u) /\
  lookupF cfg (u_chain u) = Some (u_F u).

Lemma with_F_spec cfg reqs us :
  with_F cfg reqs = Some us -> map u_req us = reqs /\ forall u, In u us -> In (u_req u) reqs /\
    u_nodes u = rmn_nodes_of cfg (u_chain u) /\ lookupF cfg (u_chain u) = Some (u_F u).
Proof.
  revert us. induction reqs as [|r reqs IH]; intros us H; cbn [with_F] in H.
  - inversion H. split; [reflexivity|intros u []].
  - destruct (lookupF cfg (lr_chain r)) as [f|] eqn:Ef; [|discriminate].
    destruct (with_F cfg reqs) as [us'|]; [|discriminate]. inversion H; subst us. clear H.
    destruct (IH _ eq_refl) as [Hm Hall]. split; [cbn; now rewrite Hm|].
    intros u [<-|Hu].
    + cbn. unfold u_chain. cbn. auto.
    + destruct (Hall u Hu) as (A & B & C). cbn. auto.
Qed.

Lemma prepare_spec cfg us :
  prepare cfg = inl (Ok us) ->
  NoDup (map u_chain us) /\ us <> [] /\
  forall u, In u us -> upd_wf cfg u /\ (u_F u + 1 <= zlen (u_nodes u))%Z.
Proof.
  unfold prepare. destruct (nodupb N.eqb (map lr_chain (c_reqs cfg))) eqn:End; cbn [negb]; [|discriminate].
  destruct (with_F cfg (c_reqs cfg)) as [us0|] eqn:Ew; [|discriminate].
  destruct (filter _ us0) as [|u0 us1] eqn:Ef; [discriminate|]. intros H. inversion H; subst us. clear H.
  apply with_F_spec in Ew as [Hm Hall]. apply nodupb_nodup in End.
  rewrite <- Ef. repeat split.
  - assert (NoDup (map u_chain us0)) as N0.
    { unfold u_chain. rewrite <- (map_map u_req lr_chain), Hm. exact End. }
    now apply nodup_map_filter.
  - rewrite Ef. discriminate.
  - apply filter_In in H as [H _]. apply Hall, H.
  - apply filter_In in H as [H _]. apply Hall, H.
  - apply filter_In in H as [H _]. apply Hall, H.
  - apply filter_In in H as [_ H]. apply negb_true_iff in H. unfold lt_f_plus_one in H. now apply Z.ltb_ge in H.
Qed.

Lemma rmn_nodes_of_spec cfg ch n :
  In n (rmn_nodes_of cfg ch) <-> exists hn, In hn (c_nodes cfg) /\ hn_id hn = n /\ In ch (hn_chains hn).
Proof.
  unfold rmn_nodes_of. rewrite dedupN_in, in_map_iff. split.
  - intros (hn & E & H). apply filter_In in H as [H M]. apply memN_in in M. exists hn. auto.
  - intros (hn & H & E & M). exists hn. split; [exact E|]. apply filter_In. split; [exact H|now apply memN_in].
Qed.

Lemma find_upd_unique us u ch u' :
  NoDup (map u_chain us) -> In u us -> u_chain u = ch -> find_upd ch us = Some u' -> u' = u.
Proof.
  intros ND Hu Hc Hf. apply find_upd_some in Hf as [Hu' Hc'].
  clear -ND Hu Hu' Hc Hc'. induction us as [|x us IH]; [destruct Hu|].
  cbn in ND. inversion ND as [|? ? Hx ND']; subst.
  destruct Hu as [->|Hu], Hu' as [->|Hu']; auto.
  - exfalso. apply Hx. rewrite <- Hc'. now apply in_map.
  - exfalso. apply Hx. rewrite Hc'. now apply in_map.
Qed.

(* ---------- C06, observation threshold ---------- *)
Section ObsThreshold.
  Variable edv : N -> observation -> N -> bool.
  Variable cfg : config.

  (* node n is a configured observer of the lane's chain and sent, in [evs], a correctly signed observation for this
     destination and configuration in which exactly the requested lane and interval carry root r *)
  Definition vote_evidence (evs : list event) (n : node) (q : lane_req) (r : root) : Prop :=
    (exists hn, In hn (c_nodes cfg) /\ hn_id hn = n /\ In (lr_chain q) (hn_chains hn)) /\
    exists id so ob hn lu,
      In (Resp n (BMsg id (PObs so))) evs /\ so_obs so = Some ob /\
      find_home cfg n = Some hn /\ edv (hn_key hn) ob (so_sig so) = true /\
      ob_dest ob = Some (c_dest_sel cfg, c_dest_off cfg) /\ ob_digest ob = c_digest cfg /\
      In lu (ob_lus ob) /\ lu_src lu = Some (lr_chain q, exp_onramp q) /\
      lu_itv lu = Some (lr_min q, lr_max q) /\ lu_root lu = R32 r.

  (* F+1 distinct such nodes *)
  Definition lane_backed (evs : list event) (q : lane_req) (f : Z) (r : root) : Prop :=
    exists voters, NoDup voters /\ (f + 1 <= zlen voters)%Z /\ forall n, In n voters -> vote_evidence evs n q r.

  Lemma acc_vote_evidence evs us acc u n l r :
    NoDup (map u_chain us) -> (forall u, In u us -> upd_wf cfg u) ->
    acc_good edv cfg evs us acc -> In u us -> In (n, l) acc -> In (u_chain u, R32 r) l ->
    vote_evidence evs n (u_req u) r.
  Proof.
    intros ND WF [_ G] Hu Hin Hv. destruct (G n l Hin) as (id & p & Hev & Hval).
    apply validate_obs_sound in Hval as (so & ob & hn & -> & Eo & Eh & Ed & Eg & Es & Hl & _).
    apply validate_lus_sound in Hl as (_ & _ & Hall).
    destruct (Hall _ _ Hv) as (lu & u' & Hlu & Hf & Hm & Esrc & Eitv & Eroot & _).
    assert (u' = u) by (eapply find_upd_unique; eauto). subst u'.
    destruct (WF u Hu) as (_ & Hn & _). split.
    - apply rmn_nodes_of_spec. unfold u_chain in Hn. rewrite <- Hn. now apply memN_in.
    - exists id, so, ob, hn, lu. repeat split; auto.
  Qed.

  Lemma sufficient_backed evs us acc :
    NoDup (map u_chain us) -> (forall u, In u us -> upd_wf cfg u) ->
    acc_good edv cfg evs us acc -> sufficient us acc = Ok true ->
    forall u, In u us -> exists r,
      lane_backed evs (u_req u) (u_F u) r /\
      (u_F u + 1 <= count_votes (u_chain u) r (flat_map (fun a => plain (snd a)) acc))%Z.
  Proof.
    intros ND WF G S u Hu. destruct (acc_good_32 _ _ _ _ _ G) as [H32 Hch].
    destruct (sufficient_voters us acc H32 Hch (proj1 G) S u Hu) as (r & voters & NV & Hlen & Hcnt & Hev).
    exists r. split; [|exact Hcnt]. exists voters. split; [exact NV|]. split; [exact Hlen|].
    intros n Hn. destruct (Hev n Hn) as (l & Hin & Hv). eapply acc_vote_evidence; eauto.
  Qed.
End ObsThreshold.

(* ---------- selectRoots ---------- *)
Lemma select_loop_sound f ch vs rs : forall sel r,
  select_loop f ch vs rs sel = Some r ->
  r = sel \/ (In r rs /\ (f + 1 <= count_votes ch r vs)%Z).
Proof.
  induction rs as [|x rs IH]; intros sel r H; cbn [select_loop] in H.
  - inversion H. now left.
  - destruct (lt_f_plus_one f (count_votes ch x vs)) eqn:E.
    + destruct (IH _ _ H) as [->|[Hin Hc]]; [now left|right; split; [now right|exact Hc]].
    + destruct (negb (N.eqb sel 0)); [discriminate|].
      unfold lt_f_plus_one in E. apply Z.ltb_ge in E.
      destruct (IH _ _ H) as [->|[Hin Hc]]; right; split; auto; [now left|now right].
Qed.
Lemma select_root_sound sc vs u r :
  select_root sc vs u = Some r -> r <> 0%N /\ (u_F u + 1 <= count_votes (u_chain u) r vs)%Z.
Proof.
  unfold select_root. destruct (roots_voted (u_chain u) vs) as [|r0 rs]; [discriminate|].
  destruct (select_loop _ _ _ _ _) as [x|] eqn:E; [|discriminate].
  destruct (N.eqb_spec x 0) as [|Hx]; [discriminate|]. intros H. inversion H; subst x. split; [exact Hx|].
  apply select_loop_sound in E as [->|[_ Hc]]; [congruence|exact Hc].
Qed.
Lemma select_roots_spec sc vs us : forall rep,
  select_roots sc vs us = Some rep ->
  map fst rep = map u_req us /\
  forall q r, In (q, r) rep -> exists u, In u us /\ q = u_req u /\ select_root sc vs u = Some r.
Proof.
  induction us as [|u us IH]; intros rep H; cbn [select_roots] in H.
  - inversion H. split; [reflexivity|intros q r []].
  - destruct (select_root sc vs u) as [r0|] eqn:E; [|discriminate].
    destruct (select_roots sc vs us) as [rep'|]; [|discriminate]. inversion H; subst rep. clear H.
    destruct (IH _ eq_refl) as [Hm Hall]. split; [cbn; now rewrite Hm|].
    intros q r [Eq|Hin].
    + inversion Eq; subst. exists u. cbn. auto.
    + destruct (Hall q r Hin) as (u' & Hu' & Hq & Hs). exists u'. cbn. auto.
Qed.

(* ---------- signature requests ---------- *)
Lemma set_addN_in x y s : In x (set_addN y s) <-> In x s \/ x = y.
Proof.
  unfold set_addN. destruct (memN y s) eqn:E.
  - apply memN_in in E. split; [tauto|]. intros [H| ->]; assumption.
  - rewrite in_app_iff. cbn. split; [intros [H|[H|[]]]; auto|intros [H|H]; auto].
Qed.

Definition gs_inv (st : sigsend) : Prop :=
  NoDup (map snd (gs_ids st)) /\ forall id n, In (id, n) (gs_ids st) -> In n (gs_asked st).

Lemma gs_inv_add st id n k log :
  gs_inv st -> ~ In n (gs_asked st) ->
  gs_inv (mkSigsend (ids_add id n (gs_ids st)) (set_addN n (gs_asked st)) k log).
Proof.
  intros [N A] Hn. split; cbn [gs_ids gs_asked].
  - apply ids_add_nodup; [exact N|]. intros Hin. apply Hn. apply in_map_iff in Hin as ([i m] & E & Hin).
    cbn in E. subst. eauto.
  - intros i m Hin. apply set_addN_in. apply ids_add_in in Hin as [Hin|E]; [left; eauto|]. inversion E. now right.
Qed.

Lemma send_sigs_more_inv cfg sc order : forall st,
  gs_inv st ->
  gs_inv (send_sigs_more cfg sc order st) /\
  (forall n, In n (gs_asked st) -> In n (gs_asked (send_sigs_more cfg sc order st))) /\
  (forall id n, In (id, n) (gs_ids (send_sigs_more cfg sc order st)) -> In (id, n) (gs_ids st) \/ ~ In n (gs_asked st)).
Proof.
  induction order as [|n rest IH]; intros st I; cbn [send_sigs_more];
    [split; [exact I|split; [auto|intros; now left]]|].
  destruct (memN n (gs_asked st)) eqn:Ea; [apply IH, I|].
  destruct (negb (is_home cfg n)); [apply IH, I|].
  apply memN_false in Ea.
  destruct (s_fail sc (gs_k st)).
  - destruct (IH (mkSigsend (gs_ids st) (gs_asked st) (S (gs_k st)) (gs_log st ++ [mkSend 1 n (s_id sc (gs_k st)) false []])))
      as (A & B & C); [exact I|]. split; [exact A|split; [exact B|exact C]].
  - set (st1 := mkSigsend (ids_add (s_id sc (gs_k st)) n (gs_ids st)) (set_addN n (gs_asked st)) (S (gs_k st))
                          (gs_log st ++ [mkSend 1 n (s_id sc (gs_k st)) true []])).
    destruct (IH st1) as (A & B & C); [now apply gs_inv_add|]. split; [exact A|split].
    + intros m Hm. apply B. cbn. apply set_addN_in. now left.
    + intros i m Hin. destruct (C i m Hin) as [H|H]; cbn [st1 gs_ids gs_asked] in H.
      * apply ids_add_in in H as [H|E]; [now left|]. inversion E; subst. now right.
      * right. intros Hm. apply H. apply set_addN_in. now left.
Qed.

Lemma send_sigs_first_inv cfg sc order : forall st,
  gs_inv st -> NoDup order -> (forall n, In n order -> ~ In n (gs_asked st)) ->
  gs_inv (send_sigs_first cfg sc order st).
Proof.
  induction order as [|n rest IH]; intros st I ND D; cbn [send_sigs_first]; [exact I|].
  inversion ND as [|? ? Hn ND']; subst.
  destruct (gte_f_plus_one _ _); [exact I|].
  destruct (negb (is_home cfg n)); [apply IH; auto; intros m Hm; apply D; now right|].
  destruct (s_fail sc (gs_k st)).
  - apply IH; auto. intros m Hm. apply D. now right.
  - apply IH; auto.
    + apply gs_inv_add; [exact I|apply D; now left].
    + intros m Hm. cbn. rewrite set_addN_in. intros [H| ->]; [|tauto]. apply (D m); [now right|exact H].
Qed.

(* ---------- phase B invariant and the global invariant ---------- *)
Section InvB.
  Variable edv : N -> observation -> N -> bool.
  Variable vrs : N -> N -> report -> bool.
  Variable cfg : config.
  Variable sc : sched.
  Hypothesis signers_nodup : NoDup (map sg_node (c_signers cfg)).

  (* signer n with address a is configured and sent, in [evs], signature g of the right shape, valid for [rep] *)
  Definition sig_evidence (evs : list event) (rep : report) (x : node * N * N) : Prop :=
    let '(n, a, g) := x in
    In (mkSigner n a) (c_signers cfg) /\
    exists id e, In (Resp n (BMsg id (PSig (Some e)))) evs /\ e_lenok e = true /\ e_sig e = g /\ vrs a g rep = true.

  Definition rep_good (evs : list event) (us : list upd) (rep : report) : Prop :=
    Permutation (map fst rep) (map u_req us) /\
    StronglySorted (fun a b => (lr_chain (fst a) <= lr_chain (fst b))%N) rep /\
    forall q r, In (q, r) rep ->
      exists u, In u us /\ q = u_req u /\ r <> 0%N /\ lane_backed edv cfg evs q (u_F u) r.

  Lemma vote_evidence_mono evs e n q r :
    vote_evidence edv cfg evs n q r -> vote_evidence edv cfg (evs ++ [e]) n q r.
  Proof.
    intros [H1 (id & so & ob & hn & lu & Hin & R)]. split; [exact H1|].
    exists id, so, ob, hn, lu. split; [apply in_app_iff; now left|exact R].
  Qed.
  Lemma lane_backed_mono evs e q f r :
    lane_backed edv cfg evs q f r -> lane_backed edv cfg (evs ++ [e]) q f r.
  Proof.
    intros (vs & N1 & L & H). exists vs. split; [exact N1|]. split; [exact L|].
    intros n Hn. apply vote_evidence_mono, H, Hn.
  Qed.
  Lemma rep_good_mono evs e us rep : rep_good evs us rep -> rep_good (evs ++ [e]) us rep.
  Proof.
    intros (P & S & H). split; [exact P|]. split; [exact S|].
    intros q r Hin. destruct (H q r Hin) as (u & Hu & Hq & Hr & B). exists u. repeat split; auto.
    now apply lane_backed_mono.
  Qed.
  Lemma sig_evidence_mono evs e rep x : sig_evidence evs rep x -> sig_evidence (evs ++ [e]) rep x.
  Proof.
    destruct x as [[n a] g]. intros [H1 (id & e0 & Hin & R)]. split; [exact H1|].
    exists id, e0. split; [apply in_app_iff; now left|exact R].
  Qed.

  Definition snode (x : node * N * N) : node := fst (fst x).
  Definition saddr (x : node * N * N) : N := snd (fst x).

  Record invB (pre : list event) (us : list upd) (s : stB) : Prop := mkInvB {
    iB_ids : NoDup (map snd (b_ids s));
    iB_idasked : forall id n, In (id, n) (b_ids s) -> In n (b_asked s);
    iB_sigasked : forall x, In x (b_sigs s) -> In (snode x) (b_asked s);
    iB_sigfin : forall x, In x (b_sigs s) -> forall id, In (id, snode x) (b_ids s) -> In id (b_fin s);
    iB_signd : NoDup (map snode (b_sigs s));
    iB_sigev : forall x, In x (b_sigs s) -> sig_evidence pre (b_rep s) x;
    iB_rep : rep_good pre us (b_rep s) }.

  (* entering phase B *)
  Lemma startB_inv pre us acc k log sb :
    NoDup (map u_chain us) -> (forall u, In u us -> upd_wf cfg u) ->
    acc_good edv cfg pre us acc ->
    startB cfg sc us acc k log = Cont sb -> invB pre us sb.
  Proof.
    intros ND WF G H. unfold startB in H.
    destruct (acc_good_32 _ _ _ _ _ G) as [H32 Hch]. rewrite (all_votes_32 acc H32) in H.
    set (vs := flat_map (fun a => plain (snd a)) acc) in *.
    destruct (select_roots sc vs us) as [rep0|] eqn:Esel; [|discriminate].
    destruct (negb (c_dest_known cfg)); [discriminate|].
    destruct (tas_panics acc); [discriminate|].
    set (gs := send_sigs_first cfg sc _ _) in *.
    destruct (lt_f_plus_one _ _); [discriminate|]. inversion H; subst sb. clear H.
    assert (GI : gs_inv gs).
    { apply send_sigs_first_inv.
      - split; cbn; [constructor|tauto].
      - apply order_by_nodup, signers_nodup.
      - cbn. tauto. }
    destruct GI as [G1 G2].
    apply select_roots_spec in Esel as [Hm Hall].
    constructor; cbn [b_ids b_asked b_sigs b_fin b_rep]; auto; try (intros x []); [constructor|].
    split; [|split].
    - rewrite <- Hm. apply Permutation_map. unfold sort_report. apply sort_by_perm.
    - exact (sort_ksorted (fun p : lane_req * root => lr_chain (fst p)) rep0).
    - intros q r Hin. unfold sort_report in Hin. apply sort_by_in in Hin.
      destruct (Hall q r Hin) as (u & Hu & -> & Hs). apply select_root_sound in Hs as [Hr Hc].
      exists u. repeat split; auto.
      destruct (acc_good_32 _ _ _ _ _ G) as [_ Hch'].
      rewrite (count_votes_voters _ _ _ Hch') in Hc.
      exists (map fst (filter (entry_has (u_chain u) r) acc)). split; [apply nodup_map_filter, (proj1 G)|].
      split; [unfold zlen in *; now rewrite map_length|].
      intros n Hn. apply in_map_iff in Hn as ([m l] & <- & Hf). apply filter_In in Hf as [Hf Hh].
      eapply acc_vote_evidence; eauto. eapply entry_has_in; [|exact Hh]. now apply (H32 m).
  Qed.

  Lemma validate_sig_sound rep n p a g :
    validate_sig vrs cfg rep n p = Ok (a, g) ->
    In (mkSigner n a) (c_signers cfg) /\
    exists e, p = PSig (Some e) /\ e_lenok e = true /\ e_sig e = g /\ vrs a g rep = true.
  Proof.
    unfold validate_sig. destruct (find_signer cfg n) as [sg|] eqn:Ef; [|discriminate].
    destruct p as [| |[e|]]; try discriminate.
    destruct (e_lenok e) eqn:El; cbn [negb]; [|discriminate].
    destruct (vrs (sg_addr sg) (e_sig e) rep) eqn:Ev; cbn [negb]; [|discriminate].
    intros H. inversion H; subst. unfold find_signer in Ef. apply find_some in Ef as [Hin E].
    apply N.eqb_eq in E. subst n. destruct sg as [sn sa]. cbn. split; [exact Hin|]. exists e. auto.
  Qed.
  Lemma validate_sig_no_panic rep n p :
    validate_sig vrs cfg rep n p <> Panic /\ validate_sig vrs cfg rep n p <> Spin.
  Proof.
    unfold validate_sig. destruct (find_signer cfg n); [|split; discriminate].
    destruct p as [| |[e|]]; try (split; discriminate).
    destruct (negb _); [split; discriminate|]. destruct (negb _); split; discriminate.
  Qed.

  (* the accepted signatures after one more admission *)
  Lemma accept_sig pre us s n id p a g :
    invB pre us s -> In (id, n) (b_ids s) -> ~ In id (b_fin s) ->
    validate_sig vrs cfg (b_rep s) n p = Ok (a, g) ->
    NoDup (map snode (b_sigs s ++ [(n, a, g)])) /\
    forall x, In x (b_sigs s ++ [(n, a, g)]) -> sig_evidence (pre ++ [Resp n (BMsg id p)]) (b_rep s) x.
  Proof.
    intros I Hid Hfin Hv. split.
    - rewrite map_app. apply nodup_app; [apply (iB_signd _ _ _ I)|cbn; constructor; [tauto|constructor]|].
      cbn. intros m Hm [<-|[]]. apply in_map_iff in Hm as (x & E & Hin).
      apply Hfin. eapply iB_sigfin; eauto. now rewrite E.
    - intros x Hin. apply in_app_iff in Hin as [Hin|[<-|[]]].
      + apply sig_evidence_mono. now apply (iB_sigev _ _ _ I).
      + apply validate_sig_sound in Hv as (Hs & e & -> & El & Eg & Ev). split; [exact Hs|].
        exists id, e. split; [apply in_app_iff; right; now left|auto].
  Qed.

  Lemma invB_step pre us s e s' :
    invB pre us s -> stepB vrs fixed cfg sc s e = Cont s' -> invB (pre ++ [e]) us s'.
  Proof.
    intros I H. destruct e as [n b| |]; cbn [stepB] in H; [| |discriminate].
    - destruct (parse fixed (b_ids s) (b_fin s) n b) as [[id p]|] eqn:Ep.
      2:{ inversion H; subst s'. destruct I. constructor; auto.
          - intros x Hx. now apply sig_evidence_mono; auto.
          - now apply rep_good_mono. }
      apply parse_fixed_some in Ep as (-> & Hid & Hfin).
      destruct (validate_sig_no_panic (b_rep s) n p) as [NP NS].
      destruct (validate_sig vrs cfg (b_rep s) n p) as [[a g]| | |] eqn:Ev; try congruence.
      + destruct (gte_f_plus_one _ _); [discriminate|].
        destruct (b_exp s && _); [discriminate|]. inversion H; subst s'. clear H.
        destruct (accept_sig _ _ _ _ _ _ _ _ I Hid Hfin Ev) as [ND Hev].
        destruct I as [I1 I2 I3 I4 I5 I6 I7].
        constructor; cbn [b_ids b_asked b_sigs b_fin b_rep]; auto.
        * intros x Hin. apply in_app_iff in Hin as [Hin|[<-|[]]]; [auto|]. cbn. eauto.
        * intros x Hin i Hi. apply in_app_iff in Hin as [Hin|[<-|[]]].
          -- right. eauto.
          -- cbn in Hi. left. eapply nodup_snd_inj; eauto.
        * now apply rep_good_mono.
      + destruct (gte_f_plus_one _ _); [discriminate|].
        destruct (b_exp s && _); [discriminate|]. inversion H; subst s'. clear H.
        destruct I as [I1 I2 I3 I4 I5 I6 I7].
        constructor; cbn [b_ids b_asked b_sigs b_fin b_rep]; auto.
        * intros x Hin i Hi. right. eauto.
        * intros x Hx. now apply sig_evidence_mono; auto.
        * now apply rep_good_mono.
    - destruct (b_exp s) eqn:Ex.
      + inversion H; subst s'. destruct I. constructor; cbn; auto.
        * intros x Hx. now apply sig_evidence_mono; auto.
        * now apply rep_good_mono.
      + inversion H; subst s'. clear H. destruct I as [I1 I2 I3 I4 I5 I6 I7].
        destruct (send_sigs_more_inv cfg sc (order_by (s_shufB2 sc) (signer_nodes cfg))
                    (mkSigsend (b_ids s) (b_asked s) (b_k s) (b_log s))) as ([A1 A2] & B & C);
          [split; cbn; auto|].
        constructor; cbn [b_ids b_asked b_sigs b_fin b_rep].
        * exact A1.
        * exact A2.
        * intros x Hx. apply B. cbn. auto.
        * intros x Hx id Hid. destruct (C _ _ Hid) as [Hc|Hc]; cbn in Hc; [eauto|]. exfalso. apply Hc. auto.
        * exact I5.
        * intros x Hx. now apply sig_evidence_mono; auto.
        * now apply rep_good_mono.
  Qed.

  (* what a successful return hands back *)
  Definition success_spec (evs : list event) (us : list upd) (sigs : list N) (rep : report) : Prop :=
    rep_good evs us rep /\
    exists entries : list (node * N * N),
      sigs = map snd entries /\ NoDup (map snode entries) /\ (c_remoteF cfg + 1 <= zlen entries)%Z /\
      StronglySorted (fun a b => (saddr a <= saddr b)%N) entries /\
      forall x, In x entries -> sig_evidence evs rep x.

  Lemma invB_done pre us s e sigs rep :
    invB pre us s -> stepB vrs fixed cfg sc s e = Done (Success sigs rep) -> success_spec (pre ++ [e]) us sigs rep.
  Proof.
    intros I H. destruct e as [n b| |]; cbn [stepB] in H; [| |discriminate].
    2:{ destruct (b_exp s); discriminate. }
    destruct (parse fixed (b_ids s) (b_fin s) n b) as [[id p]|] eqn:Ep; [|discriminate].
    apply parse_fixed_some in Ep as (-> & Hid & Hfin).
    destruct (validate_sig vrs cfg (b_rep s) n p) as [[a g]| | |] eqn:Ev; try discriminate.
    - destruct (gte_f_plus_one _ _) eqn:Eg.
      + inversion H; subst sigs rep. clear H.
        destruct (accept_sig _ _ _ _ _ _ _ _ I Hid Hfin Ev) as [ND Hev].
        split; [apply rep_good_mono, (iB_rep _ _ _ I)|].
        exists (sort_sigs (b_sigs s ++ [(n, a, g)])). split; [reflexivity|]. split; [|split; [|split]].
        * eapply Permutation_NoDup; [|exact ND]. apply Permutation_map. symmetry. apply sort_by_perm.
        * unfold gte_f_plus_one in Eg. apply Z.leb_le in Eg. unfold zlen, sort_sigs in *. now rewrite sort_by_length.
        * exact (sort_ksorted saddr (b_sigs s ++ [(n, a, g)])).
        * intros x Hx. apply Hev. unfold sort_sigs in Hx. now apply sort_by_in in Hx.
      + destruct (b_exp s && _); discriminate.
    - destruct (gte_f_plus_one _ _) eqn:Eg.
      + inversion H; subst sigs rep. clear H.
        split; [apply rep_good_mono, (iB_rep _ _ _ I)|].
        exists (sort_sigs (b_sigs s)). split; [reflexivity|]. split; [|split; [|split]].
        * eapply Permutation_NoDup; [|apply (iB_signd _ _ _ I)]. apply Permutation_map. symmetry. apply sort_by_perm.
        * unfold gte_f_plus_one in Eg. apply Z.leb_le in Eg. unfold zlen, sort_sigs in *. now rewrite sort_by_length.
        * exact (sort_ksorted saddr (b_sigs s)).
        * intros x Hx. apply sig_evidence_mono. apply (iB_sigev _ _ _ I). unfold sort_sigs in Hx. now apply sort_by_in in Hx.
      + destruct (b_exp s && _); discriminate.
  Qed.
End InvB.

(* ---------- the whole call: global invariant ---------- *)
Section Main.
  Variable edv : N -> observation -> N -> bool.
  Variable vrs : N -> N -> report -> bool.
  Variable cfg : config.
  Variable sc : sched.
  Hypothesis signers_nodup : NoDup (map sg_node (c_signers cfg)).

  Notation gstepF := (gstep edv vrs fixed cfg sc).
  Notation runF := (run edv vrs fixed cfg sc).

  Definition ginv (pre : list event) (g : gstate) : Prop :=
    match g with
    | GA us s => prepare cfg = inl (Ok us) /\ invA edv cfg pre us s
    | GB s => exists us, prepare cfg = inl (Ok us) /\ invB edv vrs cfg pre us s
    | GFinal (Success sigs rep) _ =>
        exists us, prepare cfg = inl (Ok us) /\ success_spec edv vrs cfg pre us sigs rep
    | GFinal _ _ => True
    end.

  Lemma ginv_init : ginv [] (ginit cfg sc).
  Proof.
    unfold ginit. destruct (prepare cfg) as [[us| | |]|f] eqn:E; cbn; auto.
    split; [exact E|]. now apply invA_init.
  Qed.

  Lemma success_spec_mono pre e us sigs rep :
    success_spec edv vrs cfg pre us sigs rep -> success_spec edv vrs cfg (pre ++ [e]) us sigs rep.
  Proof.
    intros [R (en & E & ND & L & S & H)]. split; [now apply rep_good_mono|].
    exists en. repeat split; auto. intros x Hx. apply sig_evidence_mono, H, Hx.
  Qed.

  Lemma ginv_step pre g e : ginv pre g -> ginv (pre ++ [e]) (gstepF g e).
  Proof.
    destruct g as [us s|s|f l]; cbn [gstep ginv].
    - intros [P I]. destruct (stepA edv fixed cfg sc us s e) as [s'|[acc|f]] eqn:Es.
      + cbn. split; [exact P|]. eapply invA_step; eauto.
      + destruct (invA_done edv vrs cfg sc _ _ _ _ _ I Es) as [G S].
        unfold enterB. destruct (startB cfg sc us acc (a_k s) (a_log s)) as [sb|[f l]] eqn:Eb.
        * cbn. exists us. split; [exact P|].
          destruct (prepare_spec _ _ P) as (ND & _ & WF).
          eapply startB_inv; eauto. intros u Hu. apply WF, Hu.
        * unfold startB in Eb. destruct (all_votes acc); try (inversion Eb; subst; cbn; trivial).
          destruct (select_roots sc a us); [|inversion Eb; subst; cbn; trivial].
          destruct (negb (c_dest_known cfg)); [inversion Eb; subst; cbn; trivial|].
          destruct (tas_panics acc); [inversion Eb; subst; cbn; trivial|].
          destruct (lt_f_plus_one _ _); [inversion Eb; subst; cbn; trivial|discriminate].
      + destruct f; cbn; auto.
        (* phase A never reports success itself *)
        exfalso. destruct e as [n b| |]; cbn [stepA] in Es.
        * destruct (parse _ _ _ _ _) as [[id p]|]; [|discriminate].
          destruct (validate_obs _ _ _ _ _ _) as [v| | |]; try discriminate;
            (destruct (sufficient _ _) as [[|]| | |]; try discriminate;
             destruct (_ && _); discriminate).
        * destruct (a_exp s); discriminate.
        * discriminate.
    - intros (us & P & I). destruct (stepB vrs fixed cfg sc s e) as [s'|f] eqn:Es.
      + cbn. exists us. split; [exact P|]. eapply invB_step; eauto.
      + destruct f as [sigs rep|f|]; cbn; auto. exists us. split; [exact P|]. eapply invB_done; eauto.
    - destruct f as [sigs rep|f|]; auto. intros (us & P & S). exists us. split; [exact P|].
      now apply success_spec_mono.
  Qed.

  Lemma ginv_fold evs : forall pre g, ginv pre g -> ginv (pre ++ evs) (fold_left gstepF evs g).
  Proof.
    induction evs as [|e evs IH]; intros pre g H; cbn [fold_left].
    - now rewrite app_nil_r.
    - replace (pre ++ e :: evs) with ((pre ++ [e]) ++ evs) by (rewrite <- app_assoc; reflexivity).
      apply IH, ginv_step, H.
  Qed.
  Lemma ginv_run evs : ginv evs (runF evs).
  Proof. apply (ginv_fold evs [] (ginit cfg sc)), ginv_init. Qed.

  (* ---------- C06: what a successful call hands back ---------- *)
  Theorem success_sound evs sigs rep log :
    runF evs = GFinal (Success sigs rep) log ->
    exists us, prepare cfg = inl (Ok us) /\ success_spec edv vrs cfg evs us sigs rep.
  Proof. intros H. pose proof (ginv_run evs) as G. rewrite H in G. exact G. Qed.

  (* ---------- C06: phase A returns observations only with F_home+1 distinct voters per lane ---------- *)
  Theorem obs_threshold evs us s e acc :
    runF evs = GA us s -> stepA edv fixed cfg sc us s e = Done (inl acc) ->
    forall u, In u us -> exists r, lane_backed edv cfg (evs ++ [e]) (u_req u) (u_F u) r.
  Proof.
    intros H Es u Hu. pose proof (ginv_run evs) as G. rewrite H in G. destruct G as [P I].
    destruct (invA_done edv vrs cfg sc _ _ _ _ _ I Es) as [G S].
    destruct (prepare_spec _ _ P) as (ND & _ & WF).
    destruct (sufficient_backed edv cfg _ us acc ND (fun u Hu => proj1 (WF u Hu)) G S u Hu) as (r & B & _).
    now exists r.
  Qed.

  (* ---------- C06: totality ---------- *)
  Lemma fold_final evs f l : fold_left gstepF evs (GFinal f l) = GFinal f l.
  Proof. induction evs; cbn; auto. Qed.

  Lemma ctxdone_final g : exists f l, gstepF g CtxDone = GFinal f l.
  Proof.
    destruct g as [us s|s|f l]; cbn [gstep stepA stepB]; eauto.
  Qed.

  (* the call has returned by the time the context is done, and later events change nothing *)
  Theorem total_terminates pre post :
    exists f l, runF (pre ++ [CtxDone]) = GFinal f l /\ runF (pre ++ CtxDone :: post) = GFinal f l.
  Proof.
    unfold run. rewrite !fold_left_app. cbn [fold_left].
    destruct (ctxdone_final (fold_left gstepF pre (ginit cfg sc))) as (f & l & E).
    exists f, l. rewrite E. split; [reflexivity|apply fold_final].
  Qed.

  (* no event makes the repaired code panic *)
  Definition crashed (g : gstate) : Prop := exists l, g = GFinal Crash l.

  Lemma no_crash_step pre g e : ginv pre g -> ~ crashed g -> ~ crashed (gstepF g e).
  Proof.
    intros G NC [l C]. destruct g as [us s|s|f l0]; cbn [gstep] in C.
    - destruct G as [P I]. destruct (stepA edv fixed cfg sc us s e) as [s'|[acc|f]] eqn:Es; try discriminate.
      + destruct (invA_done edv vrs cfg sc _ _ _ _ _ I Es) as [G S].
        unfold enterB, startB in C. destruct (acc_good_32 _ _ _ _ _ G) as [H32 _].
        rewrite (all_votes_32 acc H32) in C.
        destruct (select_roots _ _ _); [|discriminate].
        destruct (negb (c_dest_known cfg)); [discriminate|].
        rewrite (tas_panics_nodup acc (proj1 G)) in C.
        destruct (lt_f_plus_one _ _); discriminate.
      + inversion C; subst f. clear C.
        destruct e as [n b| |]; cbn [stepA] in Es; [| |discriminate].
        * destruct (parse fixed (a_ids s) (a_fin s) n b) as [[id p]|] eqn:Ep; [|discriminate].
          apply parse_fixed_some in Ep as (-> & Hid & Hfin).
          destruct (validate_obs_no_panic edv cfg n us p) as [NP NS].
          destruct (validate_obs edv fixed cfg n us p) as [votes| | |] eqn:Ev; try congruence.
          -- assert (G : acc_good edv cfg (pre ++ [Resp n (BMsg id p)]) us (a_acc s ++ [(n, votes)]))
               by (eapply accept_step; eauto).
             destruct (acc_good_32 _ _ _ _ _ G) as [H32 _].
             unfold sufficient in Es. rewrite (all_votes_32 _ H32) in Es. cbn [rbind] in Es.
             destruct (forallb _ us); [discriminate|]. destruct (_ && _); discriminate.
          -- destruct (acc_good_32 _ _ _ _ _ (iA_acc _ _ _ _ _ I)) as [H32 _].
             unfold sufficient in Es. rewrite (all_votes_32 _ H32) in Es. cbn [rbind] in Es.
             destruct (forallb _ us); [discriminate|]. destruct (_ && _); discriminate.
        * destruct (a_exp s); discriminate.
    - destruct (stepB vrs fixed cfg sc s e) as [s'|f] eqn:Es; [discriminate|]. inversion C; subst f. clear C.
      destruct e as [n b| |]; cbn [stepB] in Es; [| |discriminate].
      + destruct (parse fixed (b_ids s) (b_fin s) n b) as [[id p]|]; [|discriminate].
        destruct (validate_sig_no_panic vrs cfg (b_rep s) n p) as [NP NS].
        destruct (validate_sig vrs cfg (b_rep s) n p) as [[a g]| | |]; try congruence;
          (destruct (gte_f_plus_one _ _); [discriminate|]; destruct (_ && _); discriminate).
      + destruct (b_exp s); discriminate.
    - apply NC. exists l0. inversion C. reflexivity.
  Qed.

  Lemma no_crash_fold evs : forall pre g, ginv pre g -> ~ crashed g -> ~ crashed (fold_left gstepF evs g).
  Proof.
    induction evs as [|e evs IH]; intros pre g G NC; cbn [fold_left]; [exact NC|].
    apply (IH (pre ++ [e])); [apply ginv_step, G|eapply no_crash_step; eauto].
  Qed.

  Theorem total_no_panic evs : forall l, runF evs <> GFinal Crash l.
  Proof.
    intros l H. apply (no_crash_fold evs [] (ginit cfg sc) ginv_init).
    - intros [l' C]. unfold ginit in C. destruct (prepare cfg) as [[us| | |]|f] eqn:E; try discriminate;
        unfold prepare in E; destruct (negb _); try discriminate;
        destruct (with_F _ _); try discriminate; destruct (filter _ _); discriminate.
    - exists l. exact H.
  Qed.
End Main.

(* ---------- concrete runs: the hypotheses of the theorems are satisfiable; the code before the repair fails ---------- *)
(* a 32-byte abi-encoded on-ramp address (0xAB .. 0x23) and its last 20 bytes *)
Definition w_onr32 : addr := (32, [(0, 35); (19, 17); (31, 171)])%N.
Definition w_onr20 : addr := (20, [(0, 35); (19, 17)])%N.

Module Witness.
  Definition edv (key : N) (_ : observation) (sg : N) : bool := N.eqb sg key.
  Definition vrs (addr : N) (sg : N) (_ : report) : bool := N.eqb (sg / 100) addr.

  (* three nodes observing lane 5, F_home = 1; the same three are signers, F_remote = 1 *)
  Definition cfg : config :=
    mkConfig [mkHomeNode 1 [5] 21; mkHomeNode 2 [5] 22; mkHomeNode 3 [5] 23]%N [(5%N, 1%Z)]
             1 7 true 3 [mkLaneReq 5 w_onr32 10 20]%N
             [mkSigner 1 11; mkSigner 2 12; mkSigner 3 13]%N 1%Z false false.
  Definition sc : sched := mkSched [] [] [] [] [] [] (fun k => N.of_nat (S k)) (fun _ => false).

  Definition obs_of (key : N) (r : root) : payload :=
    PObs (mkSO (Some (mkObs (Some (1, 7)) 3 [mkLU (Some (5, w_onr20)) (Some (10, 20)) (R32 r)]))%N key).
  Definition sig_of (g : N) : payload := PSig (Some (mkEcdsa true g)).

  (* an honest run: nodes 1 and 2 are asked and answer; signers 1 and 2 are asked and sign *)
  Definition good_run : list event :=
    [Resp 1 (BMsg 1 (obs_of 21 105)); Resp 2 (BMsg 2 (obs_of 22 105));
     Resp 2 (BMsg 4 (sig_of 1201)); Resp 1 (BMsg 3 (sig_of 1101))]%N.

  Example good_run_succeeds :
    NoDup (map sg_node (c_signers cfg)) /\
    exists log, run edv vrs fixed cfg sc good_run
                = GFinal (Success [1101; 1201]%N [(mkLaneReq 5 w_onr32 10 20, 105)]%N) log.
  Proof. split; [repeat constructor; cbn; intuition discriminate|eexists; vm_compute; reflexivity]. Qed.

  (* the requested address is the 32-byte form, an observation must carry exactly its last 20 bytes: the honest lane
     update is let through; a proper tail (1 byte, 19 bytes), the empty address, a prefix, the 32-byte form itself and
     the 21-byte tail are all rejected *)
  Definition lu_with (o : addr) : lane_update := mkLU (Some (5%N, o)) (Some (10, 20)%N) (R32 105%N).
  Definition us1 : list upd := [mkUpd (mkLaneReq 5 w_onr32 10 20) [1; 2; 3] 1]%N.
  Example onramp_rule_examples :
    keep_right 20 w_onr32 = w_onr20 /\
    validate_lus fixed 1%N us1 [] [lu_with w_onr20] = Ok [(5%N, R32 105%N)] /\
    forall o, In o [(1, [(0, 35)]); (19, [(0, 35)]); (0, []); (19, [(18, 17)]); w_onr32; (21, [(0, 35); (19, 17)])]%N ->
      validate_lus fixed 1%N us1 [] [lu_with o] = Err.
  Proof.
    split; [vm_compute; reflexivity|]. split; [vm_compute; reflexivity|].
    intros o H. cbn [In] in H. repeat (destruct H as [<-|H]; [vm_compute; reflexivity|]). destruct H.
  Qed.

  Example good_run_phaseA :
    exists us s acc, run edv vrs fixed cfg sc [Resp 1 (BMsg 1 (obs_of 21 105))]%N = GA us s /\
      stepA edv fixed cfg sc us s (Resp 2 (BMsg 2 (obs_of 22 105)))%N = Done (inl acc) /\ us <> [].
  Proof. do 3 eexists. split; [vm_compute; reflexivity|split; [vm_compute; reflexivity|discriminate]]. Qed.

  (* F12b: before the repair node 1 alone — answering under its own request ids and under the ids sent to node 2 —
     supplies both "observers" and both "signers" *)
  Definition one_node_run : list event :=
    [Resp 1 (BMsg 1 (obs_of 21 105)); Resp 1 (BMsg 2 (obs_of 21 105));
     Resp 1 (BMsg 3 (sig_of 1101)); Resp 1 (BMsg 4 (sig_of 1102))]%N.

  Lemma one_node_run_succeeds_unfixed :
    exists sigs rep log, run edv vrs unfixed cfg sc one_node_run = GFinal (Success sigs rep) log.
  Proof. do 3 eexists. vm_compute. reflexivity. Qed.

  Lemma one_node_run_only_node_1 : forall n b, In (Resp n b) one_node_run -> n = 1%N.
  Proof. intros n b H. cbn in H. repeat (destruct H as [H|H]; [inversion H; reflexivity|]). destruct H. Qed.

  (* the same schedule on the repaired code: the foreign-id answers are dropped, the call waits *)
  Example one_node_run_fixed_waits :
    exists us s, run edv vrs fixed cfg sc one_node_run = GA us s /\ length (a_acc s) = 1%nat.
  Proof. do 2 eexists. split; vm_compute; reflexivity. Qed.

  (* F12a: nil sub-messages and short roots panic the code before the repair (a nil Signature in a report
     signature response is already rejected by NewECDSASigFromPB) *)
  Definition so_nil_obs : payload := PObs (mkSO None 21%N).
  Definition so_nil_dest : payload := PObs (mkSO (Some (mkObs None 3 []))%N 21%N).
  Definition so_nil_src : payload :=
    PObs (mkSO (Some (mkObs (Some (1, 7)) 3 [mkLU None (Some (10, 20)) (R32 105)]))%N 21%N).
  Definition so_nil_itv : payload :=
    PObs (mkSO (Some (mkObs (Some (1, 7)) 3 [mkLU (Some (5, w_onr20)) None (R32 105)]))%N 21%N).
  Definition so_short_root : payload :=
    PObs (mkSO (Some (mkObs (Some (1, 7)) 3 [mkLU (Some (5, w_onr20)) (Some (10, 20)) RShort]))%N 21%N).
  Definition crash_runs : list (list event) :=
    [[Resp 1 (BMsg 1 so_nil_obs)]; [Resp 1 (BMsg 1 so_nil_dest)]; [Resp 1 (BMsg 1 so_nil_src)];
     [Resp 1 (BMsg 1 so_nil_itv)]; [Resp 1 (BMsg 1 so_short_root)]]%N.

  Lemma crash_runs_unfixed :
    forall evs, In evs crash_runs -> exists l, run edv vrs unfixed cfg sc (evs ++ [CtxDone]) = GFinal Crash l.
  Proof.
    intros evs H. cbn in H. repeat (destruct H as [<-|H]; [eexists; vm_compute; reflexivity|]). destruct H.
  Qed.
  Lemma crash_runs_fixed :
    forall evs, In evs crash_runs -> exists f l, run edv vrs fixed cfg sc (evs ++ [CtxDone]) = GFinal (Failure f) l.
  Proof.
    intros evs H. cbn in H. repeat (destruct H as [<-|H]; [do 2 eexists; vm_compute; reflexivity|]). destruct H.
  Qed.
End Witness.

(* Distinctness is violated by the code before the repair: a successful return although every response of the
   schedule came from one single node, while two observers and two signers are required. *)
Theorem distinct_unfixed_refuted :
  exists edv vrs cfg sc evs sigs rep log,
    NoDup (map sg_node (c_signers cfg)) /\
    run edv vrs unfixed cfg sc evs = GFinal (Success sigs rep) log /\
    ~ (exists us, prepare cfg = inl (Ok us) /\ success_spec edv vrs cfg evs us sigs rep).
Proof.
  destruct Witness.one_node_run_succeeds_unfixed as (sigs & rep & log & H).
  exists Witness.edv, Witness.vrs, Witness.cfg, Witness.sc, Witness.one_node_run, sigs, rep, log.
  split; [repeat constructor; cbn; intuition discriminate|]. split; [exact H|].
  intros (us & _ & _ & entries & _ & ND & L & _ & Hev).
  assert (All1 : forall x, In x entries -> snode x = 1%N).
  { intros [[n a] g] Hx. destruct (Hev _ Hx) as (_ & id & e & Hin & _).
    cbn. eapply Witness.one_node_run_only_node_1; eauto. }
  cbn in L. unfold zlen in L.
  destruct entries as [|x [|y rest]]; cbn [length] in L; try lia.
  cbn in ND. inversion ND as [|? ? Hn _]; subst. apply Hn. left.
  rewrite (All1 x), (All1 y); cbn; auto.
Qed.

(* Nil sub-messages / short roots panic the code before the repair; the repaired code returns an error. *)
Theorem nil_submessage_unfixed_refuted :
  exists edv vrs cfg sc,
    forall evs, In evs Witness.crash_runs ->
      (exists l, run edv vrs unfixed cfg sc (evs ++ [CtxDone]) = GFinal Crash l) /\
      (exists f l, run edv vrs fixed cfg sc (evs ++ [CtxDone]) = GFinal (Failure f) l).
Proof.
  exists Witness.edv, Witness.vrs, Witness.cfg, Witness.sc. intros evs H.
  split; [now apply Witness.crash_runs_unfixed|now apply Witness.crash_runs_fixed].
Qed.

(* ====================================================================================================
   Liveness.  Everything below assumes that Send calls succeed and that request ids are fresh.
   ==================================================================================================== *)
Lemma filter_all_true {A} (f : A -> bool) l : (forall x, In x l -> f x = true) -> filter f l = l.
Proof.
  induction l as [|a l IH]; cbn; intros H; [reflexivity|].
  rewrite (H a (or_introl eq_refl)). f_equal. apply IH. intros x Hx. apply H. now right.
Qed.
Lemma ids_add_fresh id n ids : ~ In id (map fst ids) -> ids_add id n ids = ids ++ [(id, n)].
Proof.
  intros H. unfold ids_add. f_equal. apply filter_all_true. intros [i m] Hin. cbn.
  apply negb_true_iff. apply N.eqb_neq. intros ->. apply H. apply in_map_iff. now exists (id, m).
Qed.
Lemma nodup_fst_inj {A B} (l : list (A * B)) a x y :
  NoDup (map fst l) -> In (a, x) l -> In (a, y) l -> x = y.
Proof.
  induction l as [|[a' x'] l IH]; cbn; [tauto|]. intros N. inversion N as [|? ? Hx N']; subst.
  intros [E1|H1] [E2|H2].
  - congruence.
  - inversion E1; subst. exfalso. apply Hx. apply in_map_iff. now exists (a, y).
  - inversion E2; subst. exfalso. apply Hx. apply in_map_iff. now exists (a, x).
  - now apply IH.
Qed.

Lemma forallb_nonempty_false {A} (f : A -> bool) (l : list A) :
  l <> [] -> (forall x, f x = false) -> forallb f l = false.
Proof. destruct l as [|a l]; [congruence|]. intros _ H. cbn. now rewrite H. Qed.

Section SendLive.
  Variable sc : sched.
  Hypothesis nofail : forall k, s_fail sc k = false.
  Hypothesis fresh : forall i j, s_id sc i = s_id sc j -> i = j.

  Definition ids_fresh (ids : ids_t) (k : nat) : Prop :=
    NoDup (map fst ids) /\ forall id n, In (id, n) ids -> exists j, (j < k)%nat /\ id = s_id sc j.

  Lemma ids_fresh_add ids k n : ids_fresh ids k -> ids_fresh (ids ++ [(s_id sc k, n)]) (S k) /\
                                  ~ In (s_id sc k) (map fst ids).
  Proof.
    intros [ND H].
    assert (Hn : ~ In (s_id sc k) (map fst ids)).
    { intros Hin. apply in_map_iff in Hin as ([i m] & E & Hin). cbn in E. subst i.
      destruct (H _ _ Hin) as (j & Hj & E). apply fresh in E. lia. }
    split; [|exact Hn]. split.
    - rewrite map_app. apply nodup_app; [exact ND|cbn; constructor; [tauto|constructor]|].
      cbn. intros x Hx [<-|[]]. tauto.
    - intros id m Hin. apply in_app_iff in Hin as [Hin|[E|[]]].
      + destruct (H _ _ Hin) as (j & Hj & E). exists j. split; [lia|exact E].
      + inversion E; subst. exists k. split; [lia|reflexivity].
  Qed.

  Lemma send_obs_live nodes pairs : forall ss,
    ids_fresh (ss_ids ss) (ss_k ss) ->
    ids_fresh (ss_ids (send_obs sc nodes pairs ss)) (ss_k (send_obs sc nodes pairs ss)) /\
    (forall id n, In (id, n) (ss_ids ss) -> In (id, n) (ss_ids (send_obs sc nodes pairs ss))) /\
    (forall n, In n nodes -> exists id, In (id, n) (ss_ids (send_obs sc nodes pairs ss))) /\
    (ss_k ss <= ss_k (send_obs sc nodes pairs ss))%nat.
  Proof.
    induction nodes as [|n rest IH]; intros ss F; cbn [send_obs].
    - split; [exact F|]. split; [auto|]. split; [intros n []|lia].
    - rewrite nofail. destruct (ids_fresh_add _ _ n F) as [F' Hn].
      rewrite (ids_add_fresh _ _ _ Hn).
      set (ss1 := mkSendst (ss_ids ss ++ [(s_id sc (ss_k ss), n)]) (S (ss_k ss)) _).
      destruct (IH ss1 F') as (A & B & C & D). split; [exact A|]. split; [|split].
      + intros id m Hin. apply B. cbn. apply in_app_iff. now left.
      + intros m [<-|Hm]; [|now apply C]. exists (s_id sc (ss_k ss)). apply B. cbn. apply in_app_iff. right. now left.
      + cbn in D. lia.
  Qed.
End SendLive.

Section LiveA.
  Variable edv : N -> observation -> N -> bool.
  Variable vrs : N -> N -> report -> bool.
  Variable cfg : config.
  Variable sc : sched.
  Variable us : list upd.
  Hypothesis Hprep : prepare cfg = inl (Ok us).
  Hypothesis nofail : forall k, s_fail sc k = false.
  Hypothesis fresh : forall i j, s_id sc i = s_id sc j -> i = j.
  Variable hon : node -> bool.     (* the honest nodes *)
  Variable rho : chain -> root.    (* the root honest observers see on each chain *)

  (* an honest observer answers with the root rho for every requested lane it observes, in a form that validates *)
  Definition good_votes (h : node) (votes : list (chain * rootv)) : Prop :=
    forall u, In u us -> In h (u_nodes u) -> In (u_chain u, R32 (rho (u_chain u))) votes.
  Definition good_answer (h : node) (p : payload) : Prop :=
    exists votes, validate_obs edv fixed cfg h us p = Ok votes /\ good_votes h votes.
  Definition honest_obs (evs : list event) : Prop :=
    forall h id p, In (Resp h (BMsg id p)) evs -> hon h = true -> good_answer h p.

  (* for every lane there are F+1 honest observers *)
  Definition honest_quorums (q : upd -> list node) : Prop :=
    forall u, In u us ->
      NoDup (q u) /\ (u_F u + 1 <= zlen (q u))%Z /\ (0 <= u_F u)%Z /\
      forall h, In h (q u) -> hon h = true /\ In h (u_nodes u).

  Record liveA (s : stA) : Prop := mkLiveA {
    lA_fresh : ids_fresh sc (a_ids s) (a_k s);
    lA_finids : forall id, In id (a_fin s) -> In id (map fst (a_ids s));
    lA_askedid : forall n, asked (a_rq s) n -> exists id, In (id, n) (a_ids s);
    lA_all : a_exp s = true -> forall p, In p (all_pairs us) -> In p (a_rq s);
    lA_hon : forall h id, hon h = true -> In (id, h) (a_ids s) -> In id (a_fin s) ->
             exists votes, In (h, votes) (a_acc s) /\ good_votes h votes;
    lA_accgood : forall h votes, hon h = true -> In (h, votes) (a_acc s) -> good_votes h votes;
    lA_insuf : sufficient us (a_acc s) = Ok false }.

  Lemma us_nonempty : us <> [].
  Proof. now destruct (prepare_spec _ _ Hprep) as (_ & H & _). Qed.

  Lemma liveA_init : liveA (initA cfg sc us).
  Proof.
    unfold initA.
    set (rq := fst (init_loop _ us ([], []))).
    set (nodes := order_by (s_sendA1 sc) (nodes_of_pairs rq)).
    destruct (send_obs_live sc nofail fresh nodes rq (mkSendst [] 0 [])) as (A & B & C & D).
    { split; cbn; [constructor|tauto]. }
    constructor; cbn [a_ids a_rq a_exp a_acc a_fin a_k]; auto.
    - intros id [].
    - intros n Hn. apply C. apply order_by_in. now apply nodes_of_pairs_in.
    - discriminate.
    - intros h id _ _ [].
    - intros h votes _ [].
    - unfold sufficient. cbn. f_equal. apply forallb_nonempty_false; [exact us_nonempty|reflexivity].
  Qed.

  (* the effect of letting a response in on the "honest and finished => accepted" bookkeeping *)
  Lemma letin_hon s n id p :
    liveA s -> In (id, n) (a_ids s) -> (hon n = true -> good_answer n p) ->
    forall h id', hon h = true -> In (id', h) (a_ids s) -> In id' (id :: a_fin s) ->
      exists votes,
        In (h, votes) (match validate_obs edv fixed cfg n us p with
                       | Ok v => a_acc s ++ [(n, v)] | _ => a_acc s end) /\ good_votes h votes.
  Proof.
    intros L Hid Hgood h id' Hh Hin [<-|Hfin].
    - assert (h = n) by (eapply nodup_fst_inj; [apply (proj1 (lA_fresh _ L))| |]; eauto). subst h.
      destruct (Hgood Hh) as (votes & Ev & G). rewrite Ev. exists votes. split; [|exact G].
      apply in_app_iff. right. now left.
    - destruct (lA_hon _ L h id' Hh Hin Hfin) as (votes & Ha & G). exists votes. split; [|exact G].
      destruct (validate_obs _ _ _ _ _ _); auto. apply in_app_iff. now left.
  Qed.

  Lemma liveA_step s e s' :
    liveA s ->
    (forall h id p, e = Resp h (BMsg id p) -> hon h = true -> In (id, h) (a_ids s) -> good_answer h p) ->
    stepA edv fixed cfg sc us s e = Cont s' -> liveA s'.
  Proof.
    intros L Hev H. destruct e as [n b| |]; cbn [stepA] in H; [| |discriminate].
    - destruct (parse fixed (a_ids s) (a_fin s) n b) as [[id p]|] eqn:Ep; [|inversion H; now subst].
      apply parse_fixed_some in Ep as (-> & Hid & Hfin).
      pose proof (letin_hon s n id p L Hid (fun Hh => Hev n id p eq_refl Hh Hid)) as AH.
      destruct (validate_obs_no_panic edv cfg n us p) as [NP NS].
      destruct (validate_obs edv fixed cfg n us p) as [votes| | |] eqn:Ev; try congruence.
      + destruct (sufficient us (a_acc s ++ [(n, votes)])) as [[|]| | |] eqn:Es; try discriminate.
        destruct (a_exp s && _); [discriminate|]. inversion H; subst s'. clear H.
        destruct L as [L1 L2 L3 L4 L5 L5' L6]. constructor; cbn [a_ids a_rq a_exp a_acc a_fin a_k]; auto.
        * intros i [E|Hi]; [subst i|auto]. apply in_map_iff. now exists (id, n).
        * intros h vs Hh Hin. apply in_app_iff in Hin as [Hin|[E|[]]]; [eauto|]. inversion E; subst h vs.
          destruct (Hev n id p eq_refl Hh Hid) as (votes' & Ev' & G). rewrite Ev in Ev'. inversion Ev'. now subst.
      + destruct (sufficient us (a_acc s)) as [[|]| | |] eqn:Es; try discriminate.
        destruct (a_exp s && _); [discriminate|]. inversion H; subst s'. clear H.
        destruct L as [L1 L2 L3 L4 L5 L5' L6]. constructor; cbn [a_ids a_rq a_exp a_acc a_fin a_k]; auto.
        intros i [E|Hi]; [subst i|auto]. apply in_map_iff. now exists (id, n).
    - destruct (a_exp s) eqn:Ex.
      + inversion H; subst s'. destruct L. constructor; cbn; auto.
      + inversion H; subst s'. clear H. destruct L as [L1 L2 L3 L4 L5 L5' L6].
        set (extra := filter (fun p => negb (rq_mem (fst p) (snd p) (a_rq s))) (all_pairs us)) in *.
        destruct (send_obs_live sc nofail fresh (order_by (s_sendA2 sc) (nodes_of_pairs extra)) extra
                    (mkSendst (a_ids s) (a_k s) (a_log s)) L1) as (A & B & C & D).
        constructor; cbn [a_ids a_rq a_exp a_acc a_fin a_k]; auto.
        * intros id Hin. apply L2 in Hin. apply in_map_iff in Hin as ([i m] & E & Hin). cbn in E. subst i.
          apply in_map_iff. exists (id, m). split; [reflexivity|]. apply B. exact Hin.
        * intros n [c Hc]. apply in_app_iff in Hc as [Hc|Hc].
          -- destruct (L3 n) as [id Hid]; [now exists c|]. exists id. now apply B.
          -- apply C. apply order_by_in, nodes_of_pairs_in. now exists c.
        * intros _ [c m] Hp. apply in_app_iff. destruct (rq_mem c m (a_rq s)) eqn:Em.
          -- left. now apply rq_mem_in.
          -- right. apply filter_In. split; [exact Hp|]. cbn. now rewrite Em.
        * intros h id Hh Hin Hfin. apply (L5 h id); auto.
          (* a finished id is an old id, so its binding is the old one *)
          specialize (L2 _ Hfin). apply in_map_iff in L2 as ([i m] & E & Hold). cbn in E. subst i.
          pose proof (B _ _ Hold) as Hnew.
          assert (m = h) by (eapply nodup_fst_inj; [apply (proj1 A)| |]; eauto). now subst m.
  Qed.

  (* ---- enough honest votes make gotSufficientObservationResponses true ---- *)
  Lemma vote_entry_has ch r h votes : In (ch, R32 r) votes -> entry_has ch r (h, votes) = true.
  Proof.
    intros H. unfold entry_has. cbn [snd]. apply existsb_exists. exists (ch, r). split; [|now apply vote_eqb_eq].
    unfold plain. apply in_map_iff. exists (ch, R32 r). split; [reflexivity|exact H].
  Qed.

  Lemma quorum_sufficient acc (q : upd -> list node) :
    acc32 acc -> acc_chains_nodup acc ->
    (forall u, In u us ->
       NoDup (q u) /\ (u_F u + 1 <= zlen (q u))%Z /\ (0 <= u_F u)%Z /\ forall h, In h (q u) -> exists votes, In (h, votes) acc /\ In (u_chain u, R32 (rho (u_chain u))) votes) ->
    sufficient us acc = Ok true.
  Proof.
    intros H32 Hch Hq. unfold sufficient. rewrite (all_votes_32 acc H32). cbn [rbind]. f_equal.
    apply forallb_forall. intros u Hu. destruct (Hq u Hu) as (ND & Hlen & Hf & Hall).
    set (ch := u_chain u). set (r := rho ch).
    assert (Hcount : (u_F u + 1 <= count_votes ch r (flat_map (fun a => plain (snd a)) acc))%Z).
    { rewrite (count_votes_voters _ _ _ Hch). unfold zlen in *.
      assert (length (q u) <= length (map fst (filter (entry_has ch r) acc)))%nat.
      { apply NoDup_incl_length; [exact ND|]. intros h Hh. destruct (Hall h Hh) as (votes & Hin & Hv).
        apply in_map_iff. exists (h, votes). split; [reflexivity|]. apply filter_In. split; [exact Hin|].
        now apply vote_entry_has. }
      rewrite map_length in H. lia. }
    unfold chain_sufficient. apply existsb_exists. exists (ch, r). split.
    - destruct (q u) as [|h0 rest] eqn:Eq; [unfold zlen in Hlen; cbn in Hlen; lia|].
      destruct (Hall h0 (or_introl eq_refl)) as (votes & Hin & Hv).
      apply in_flat_map. exists (h0, votes). split; [exact Hin|]. cbn [snd]. unfold plain.
      apply in_map_iff. exists (ch, R32 r). split; [reflexivity|exact Hv].
    - cbn [fst snd]. fold ch. rewrite N.eqb_refl. cbn [andb]. apply negb_true_iff.
      unfold lt_f_plus_one. apply Z.ltb_ge. exact Hcount.
  Qed.

  Variable q : upd -> list node.
  Hypothesis Hq : honest_quorums q.

  (* every member of a quorum that has an id and whose id is finished is among the accepted, with the honest root *)
  Lemma quorum_from_finished pre (ids : ids_t) (fin : list reqid) (acc : acc_t) :
    acc_good edv cfg pre us acc ->
    (forall u h, In u us -> In h (q u) -> exists id, In (id, h) ids /\ In id fin) ->
    (forall h id, hon h = true -> In (id, h) ids -> In id fin -> exists votes, In (h, votes) acc /\ good_votes h votes) ->
    sufficient us acc = Ok true.
  Proof.
    intros G Hfin Hhon. destruct (acc_good_32 _ _ _ _ _ G) as [H32 Hch].
    apply (quorum_sufficient acc q H32 Hch). intros u Hu. destruct (Hq u Hu) as (ND & Hlen & Hf & Hall).
    repeat split; auto. intros h Hh. destruct (Hall h Hh) as [Hhon' Hobs].
    destruct (Hfin u h Hu Hh) as (id & Hid & Hf'). destruct (Hhon h id Hhon' Hid Hf') as (votes & Hin & G').
    exists votes. split; [exact Hin|]. now apply G'.
  Qed.

  (* never "finished but insufficient": once the timer has fired every observer has been asked, and a finished
     honest request has been accepted *)
  Lemma no_giveup pre s e :
    invA edv cfg pre us s -> liveA s ->
    (forall h id p, e = Resp h (BMsg id p) -> hon h = true -> In (id, h) (a_ids s) -> good_answer h p) ->
    stepA edv fixed cfg sc us s e <> Done (inr (Failure FInsufObs)).
  Proof.
    intros I L Hev H. destruct e as [n b| |]; cbn [stepA] in H; [| |discriminate].
    2:{ destruct (a_exp s); discriminate. }
    destruct (parse fixed (a_ids s) (a_fin s) n b) as [[id p]|] eqn:Ep; [|discriminate].
    apply parse_fixed_some in Ep as (-> & Hid & Hfin).
    pose proof (letin_hon s n id p L Hid (fun Hh => Hev n id p eq_refl Hh Hid)) as AH.
    set (acc' := match validate_obs edv fixed cfg n us p with Ok v => a_acc s ++ [(n, v)] | _ => a_acc s end) in *.
    assert (G : exists evs', acc_good edv cfg evs' us acc').
    { unfold acc'. destruct (validate_obs edv fixed cfg n us p) as [votes| | |] eqn:Ev;
        try (exists pre; apply (iA_acc _ _ _ _ _ I)).
      exists (pre ++ [Resp n (BMsg id p)]). eapply accept_step; eauto. }
    destruct G as [evs' G].
    assert (Hex : a_exp s = true /\ ids_all_finished (a_ids s) (id :: a_fin s) = true /\ sufficient us acc' = Ok false).
    { unfold acc'. destruct (validate_obs edv fixed cfg n us p) as [votes| | |]; try discriminate;
        (destruct (sufficient us _) as [[|]| | |]; try discriminate;
         destruct (a_exp s); cbn [andb] in H; [|discriminate];
         destruct (ids_all_finished _ _); [auto|discriminate]). }
    destruct Hex as (Ex & Eall & Einsuf).
    assert (S : sufficient us acc' = Ok true).
    { apply (quorum_from_finished evs' (a_ids s) (id :: a_fin s) acc' G); auto.
      intros u h Hu Hh. destruct (Hq u Hu) as (_ & _ & _ & Hall). destruct (Hall h Hh) as [_ Hobs].
      assert (Hp : In (u_chain u, h) (a_rq s)).
      { apply (lA_all _ L Ex). apply all_pairs_in. exists u. auto. }
      destruct (lA_askedid _ L h) as [id' Hid']; [now exists (u_chain u)|].
      exists id'. split; [exact Hid'|].
      unfold ids_all_finished in Eall. apply andb_true_iff in Eall as [Eall _].
      rewrite forallb_forall in Eall. specialize (Eall _ Hid'). cbn [fst] in Eall. now apply memN_in in Eall. }
    congruence.
  Qed.
End LiveA.

(* ---------- liveness of phase A ---------- *)
Definition is_ga (g : gstate) : bool := match g with GA _ _ => true | _ => false end.

Section LiveMainA.
  Variable edv : N -> observation -> N -> bool.
  Variable vrs : N -> N -> report -> bool.
  Variable cfg : config.
  Variable sc : sched.
  Variable us : list upd.
  Hypothesis Hprep : prepare cfg = inl (Ok us).
  Hypothesis nofail : forall k, s_fail sc k = false.
  Hypothesis fresh : forall i j, s_id sc i = s_id sc j -> i = j.
  Variable hon : node -> bool.
  Variable rho : chain -> root.
  Variable q : upd -> list node.
  Hypothesis Hq : honest_quorums us hon q.

  Notation gstepF := (gstep edv vrs fixed cfg sc).
  Notation runF := (run edv vrs fixed cfg sc).

  Definition honest_ev (e : event) : Prop :=
    forall h id p, e = Resp h (BMsg id p) -> hon h = true -> good_answer edv cfg us rho h p.

  (* the ways in which phase A can fail *)
  Definition failsA (f : fail) : Prop :=
    f = FTimeoutA \/ f = FInsufObs \/ f = FDupChain \/ f = FNoF \/ f = FNothingToDo.

  Definition linv (pre : list event) (g : gstate) : Prop :=
    match g with
    | GA us' s => us' = us /\ invA edv cfg pre us s /\ liveA sc us hon rho s
    | GFinal (Failure f) _ => ~ failsA f
    | _ => True
    end.

  Lemma linv_init : linv [] (ginit cfg sc).
  Proof.
    unfold ginit. rewrite Hprep. cbn. split; [reflexivity|]. split; [now apply invA_init|now apply liveA_init].
  Qed.

  Lemma linv_step pre g e : linv pre g -> e <> CtxDone -> honest_ev e -> linv (pre ++ [e]) (gstepF g e).
  Proof.
    intros L Hne Hev. destruct g as [us' s|s|f l]; cbn [gstep].
    - destruct L as (-> & I & LA).
      destruct (stepA edv fixed cfg sc us s e) as [s'|[acc|f]] eqn:Es.
      + cbn. split; [reflexivity|]. split; [eapply invA_step; eauto|].
        eapply liveA_step; [exact nofail|exact fresh|exact LA| |exact Es].
        intros h id p E Hh _. eapply Hev; eauto.
      + unfold enterB. destruct (startB cfg sc us acc (a_k s) (a_log s)) as [sb|[f l]] eqn:Eb; [exact Logic.I|].
        unfold startB in Eb. unfold failsA.
        destruct (all_votes acc); try (inversion Eb; subst; cbn; trivial).
        destruct (select_roots sc a us); [|inversion Eb; subst; cbn; unfold failsA; intuition discriminate].
        destruct (negb (c_dest_known cfg)); [inversion Eb; subst; cbn; unfold failsA; intuition discriminate|].
        destruct (tas_panics acc); [inversion Eb; subst; cbn; trivial|].
        destruct (lt_f_plus_one _ _); [inversion Eb; subst; cbn; unfold failsA; intuition discriminate|discriminate].
      + assert (Hf : f = Crash \/ f = Failure FInsufObs).
        { destruct e as [n b| |]; cbn [stepA] in Es; [| |congruence].
          - destruct (parse _ _ _ _ _) as [[id p]|]; [|discriminate].
            destruct (validate_obs _ _ _ _ _ _) as [v| | |]; try (inversion Es; auto);
              (destruct (sufficient _ _) as [[|]| | |]; try (inversion Es; auto); try discriminate;
               destruct (_ && _); inversion Es; auto).
          - destruct (a_exp s); discriminate. }
        destruct Hf as [->| ->]; [exact Logic.I|].
        exfalso. eapply (no_giveup edv vrs cfg sc us hon rho q Hq pre s e I LA); [|exact Es].
        intros h id p E Hh _. eapply Hev; eauto.
    - destruct (stepB vrs fixed cfg sc s e) as [s'|f] eqn:Es; [exact Logic.I|].
      destruct f as [sigs rep|f|]; cbn; trivial. unfold failsA.
      destruct e as [n b| |]; cbn [stepB] in Es; [| |congruence].
      + destruct (parse _ _ _ _ _) as [[id p]|]; [|discriminate].
        destruct (validate_sig _ _ _ _ _) as [[a g]| | |]; try discriminate;
          (destruct (gte_f_plus_one _ _); [discriminate|]; destruct (_ && _); inversion Es; unfold failsA; intuition discriminate).
      + destruct (b_exp s); discriminate.
    - exact L.
  Qed.

  Lemma linv_fold evs : forall pre g,
    linv pre g -> ~ In CtxDone evs -> (forall e, In e evs -> honest_ev e) ->
    linv (pre ++ evs) (fold_left gstepF evs g).
  Proof.
    induction evs as [|e evs IH]; intros pre g L Hc Hh; cbn [fold_left].
    - now rewrite app_nil_r.
    - replace (pre ++ e :: evs) with ((pre ++ [e]) ++ evs) by (rewrite <- app_assoc; reflexivity).
      apply IH.
      + apply linv_step; [exact L| |apply Hh; now left]. intros ->. apply Hc. now left.
      + intros H. apply Hc. now right.
      + intros x Hx. apply Hh. now right.
  Qed.

  Lemma honest_obs_ev evs e : honest_obs edv cfg us hon rho evs -> In e evs -> honest_ev e.
  Proof. intros H Hin h id p -> Hh. eapply H; eauto. Qed.

  (* once phase A is over it stays over *)
  Lemma is_ga_step g e : is_ga (gstepF g e) = true -> is_ga g = true.
  Proof.
    destruct g as [us' s|s|f l]; cbn [gstep is_ga]; auto.
    destruct (stepB vrs fixed cfg sc s e); cbn; auto.
  Qed.
  Lemma is_ga_fold evs : forall g, is_ga (fold_left gstepF evs g) = true -> is_ga g = true.
  Proof.
    induction evs as [|e evs IH]; intros g H; cbn [fold_left] in H; [exact H|].
    apply IH in H. now apply is_ga_step in H.
  Qed.

  Lemma ga_step_inv us1 s1 e us2 s2 :
    gstepF (GA us1 s1) e = GA us2 s2 -> us2 = us1 /\ stepA edv fixed cfg sc us1 s1 e = Cont s2.
  Proof.
    cbn [gstep]. destruct (stepA edv fixed cfg sc us1 s1 e) as [s'|[acc|f]]; try discriminate.
    - intros H. inversion H. auto.
    - unfold enterB. destruct (startB _ _ _ _ _ _) as [sb|[f l]]; discriminate.
  Qed.

  Lemma stepA_acc_mono us1 s e s' : stepA edv fixed cfg sc us1 s e = Cont s' -> incl (a_acc s) (a_acc s').
  Proof.
    intros H. destruct e as [n b| |]; cbn [stepA] in H; [| |discriminate].
    - destruct (parse _ _ _ _ _) as [[id p]|]; [|inversion H; apply incl_refl].
      destruct (validate_obs _ _ _ _ _ _) as [v| | |]; try discriminate;
        (destruct (sufficient _ _) as [[|]| | |]; try discriminate;
         destruct (_ && _); [discriminate|]; inversion H; cbn).
      + apply incl_appl, incl_refl.
      + apply incl_refl.
    - destruct (a_exp s); inversion H; cbn; apply incl_refl.
  Qed.

  Lemma ga_fold_acc evs : forall us1 s1 us2 s2,
    fold_left gstepF evs (GA us1 s1) = GA us2 s2 -> us2 = us1 /\ incl (a_acc s1) (a_acc s2).
  Proof.
    induction evs as [|e evs IH]; intros us1 s1 us2 s2 H; cbn [fold_left] in H.
    - inversion H. split; [reflexivity|apply incl_refl].
    - assert (G : is_ga (gstepF (GA us1 s1) e) = true) by (apply (is_ga_fold evs); now rewrite H).
      destruct (gstepF (GA us1 s1) e) as [us' s'|?|? ?] eqn:Eg; try discriminate.
      apply ga_step_inv in Eg as [-> Es]. apply IH in H as [-> Hi]. split; [reflexivity|].
      eapply incl_tran; [eapply stepA_acc_mono; eauto|exact Hi].
  Qed.

  (* an honest node's answer to its own outstanding or finished request is among the accepted afterwards *)
  Lemma answer_accepted pre s1 h id p s2 :
    invA edv cfg pre us s1 -> liveA sc us hon rho s1 -> hon h = true -> good_answer edv cfg us rho h p ->
    In (id, h) (a_ids s1) ->
    stepA edv fixed cfg sc us s1 (Resp h (BMsg id p)) = Cont s2 ->
    exists votes, In (h, votes) (a_acc s2) /\ good_votes us rho h votes.
  Proof.
    intros I L Hh Hg Hid H. cbn [stepA] in H.
    destruct (parse fixed (a_ids s1) (a_fin s1) h (BMsg id p)) as [[id' p']|] eqn:Ep.
    - apply parse_fixed_some in Ep as (E & _ & _). inversion E; subst id' p'. clear E.
      pose proof (letin_hon edv cfg sc us hon rho s1 h id p L Hid (fun _ => Hg) h id Hh Hid (or_introl eq_refl)) as AH.
      destruct (validate_obs edv fixed cfg h us p) as [v| | |]; try discriminate;
        (destruct (sufficient _ _) as [[|]| | |]; try discriminate;
         destruct (_ && _); [discriminate|]; inversion H; subst s2; cbn [a_acc]; exact AH).
    - inversion H; subst s2. eapply lA_hon; eauto.
      unfold parse in Ep.
      assert (Em : ids_mem id (a_ids s1) = true).
      { unfold ids_mem. apply memN_in. apply in_map_iff. now exists (id, h). }
      rewrite Em in Ep. cbn [negb fx_addr fixed andb] in Ep.
      assert (En : ids_node id (a_ids s1) = Some h).
      { unfold ids_node. destruct (alookup id (a_ids s1)) as [m|] eqn:Ea.
        - apply alookup_in in Ea. f_equal. eapply nodup_fst_inj; [apply (proj1 (lA_fresh _ _ _ _ _ L))| |]; eauto.
        - exfalso. clear -Ea Hid. induction (a_ids s1) as [|[k v] l IHl]; [destruct Hid|].
          cbn in Ea. destruct (N.eqb_spec id k); [discriminate|]. destruct Hid as [E|Hid]; [congruence|auto]. }
      rewrite En in Ep. cbn [option_eqb] in Ep. rewrite N.eqb_refl in Ep. cbn [negb] in Ep.
      destruct (memN id (a_fin s1)) eqn:Ef; [now apply memN_in|discriminate].
  Qed.

  (* node h answers (with some request id) at a moment when that id is the one sent to h *)
  Definition answered_in_time (evs : list event) (h : node) : Prop :=
    exists e1 e2 id p, evs = e1 ++ Resp h (BMsg id p) :: e2 /\
      forall us1 s1, runF e1 = GA us1 s1 -> In (id, h) (a_ids s1).

  Theorem liveness_phaseA evs :
    honest_obs edv cfg us hon rho evs -> ~ In CtxDone evs ->
    (forall u h, In u us -> In h (q u) -> answered_in_time evs h) ->
    match runF evs with
    | GA _ _ => False
    | GFinal (Failure f) _ => ~ failsA f
    | _ => True
    end.
  Proof.
    intros Hobs Hctx Hans.
    pose proof (linv_fold evs [] (ginit cfg sc) linv_init Hctx (fun e He => honest_obs_ev evs e Hobs He)) as L.
    cbn [app] in L. fold (runF evs) in L.
    destruct (runF evs) as [us' s|s|f l] eqn:E; [|exact Logic.I|exact L].
    destruct L as (-> & I & LA).
    (* every quorum member is among the accepted *)
    assert (Hacc : forall u h, In u us -> In h (q u) ->
                   exists votes, In (h, votes) (a_acc s) /\ good_votes us rho h votes).
    { intros u h Hu Hh. destruct (Hans u h Hu Hh) as (e1 & e2 & id & p & Eevs & Hasked).
      destruct (Hq u Hu) as (_ & _ & _ & Hall). destruct (Hall h Hh) as [Hhon _].
      assert (Hin : In (Resp h (BMsg id p)) evs) by (rewrite Eevs; apply in_app_iff; right; now left).
      pose proof (Hobs h id p Hin Hhon) as Hgood.
      unfold run in E. rewrite Eevs, fold_left_app in E. cbn [fold_left] in E.
      set (g1 := fold_left gstepF e1 (ginit cfg sc)) in *.
      assert (G1 : is_ga g1 = true).
      { apply (is_ga_step g1 (Resp h (BMsg id p))). apply (is_ga_fold e2). now rewrite E. }
      destruct g1 as [us1 s1|?|? ?] eqn:Eg1; try discriminate.
      assert (L1 : linv e1 (GA us1 s1)).
      { rewrite <- Eg1. unfold g1. apply (linv_fold e1 [] (ginit cfg sc) linv_init).
        - intros Hc. apply Hctx. rewrite Eevs. apply in_app_iff. now left.
        - intros x Hx. apply (honest_obs_ev evs x Hobs). rewrite Eevs. apply in_app_iff. now left. }
      destruct L1 as (-> & I1 & LA1).
      assert (G2 : is_ga (gstepF (GA us s1) (Resp h (BMsg id p))) = true) by (apply (is_ga_fold e2); now rewrite E).
      destruct (gstepF (GA us s1) (Resp h (BMsg id p))) as [us2 s2|?|? ?] eqn:Eg2; try discriminate.
      apply ga_step_inv in Eg2 as [-> Es].
      destruct (answer_accepted e1 s1 h id p s2 I1 LA1 Hhon Hgood (Hasked us s1 Eg1) Es) as (votes & Hin2 & Gv).
      apply ga_fold_acc in E as [_ Hincl]. exists votes. split; [apply Hincl, Hin2|exact Gv]. }
    destruct (acc_good_32 _ _ _ _ _ (iA_acc _ _ _ _ _ I)) as [H32 Hch].
    assert (S : sufficient us (a_acc s) = Ok true).
    { apply (quorum_sufficient us rho (a_acc s) q H32 Hch). intros u Hu.
      destruct (Hq u Hu) as (ND & Hlen & Hf & Hall). repeat split; auto.
      intros h Hh. destruct (Hacc u h Hu Hh) as (votes & Hin & Gv). exists votes. split; [exact Hin|].
      apply Gv; [exact Hu|]. now destruct (Hall h Hh). }
    rewrite (lA_insuf _ _ _ _ _ LA) in S. discriminate.
  Qed.
End LiveMainA.

(* ---------- liveness of phase B ---------- *)
Lemma dedupN_nodup_id l : NoDup l -> dedupN l = l.
Proof.
  induction l as [|x l IH]; cbn [dedupN]; [reflexivity|]. intros N. inversion N as [|? ? Hx N']; subst.
  apply memN_false in Hx. rewrite Hx. f_equal. auto.
Qed.
Lemma set_addN_fresh n s : ~ In n s -> set_addN n s = s ++ [n].
Proof. intros H. unfold set_addN. apply memN_false in H. now rewrite H. Qed.

Section SigLive.
  Variable cfg : config.
  Variable sc : sched.
  Hypothesis nofail : forall k, s_fail sc k = false.
  Hypothesis fresh : forall i j, s_id sc i = s_id sc j -> i = j.

  Definition gs_live (st : sigsend) : Prop :=
    ids_fresh sc (gs_ids st) (gs_k st) /\ map snd (gs_ids st) = gs_asked st.

  Lemma gs_live_add st n log :
    gs_live st -> ~ In n (gs_asked st) ->
    gs_live (mkSigsend (ids_add (s_id sc (gs_k st)) n (gs_ids st)) (set_addN n (gs_asked st)) (S (gs_k st)) log) /\
    ids_add (s_id sc (gs_k st)) n (gs_ids st) = gs_ids st ++ [(s_id sc (gs_k st), n)].
  Proof.
    intros [F E] Hn. destruct (ids_fresh_add sc fresh _ _ n F) as [F' Hnew].
    rewrite (ids_add_fresh _ _ _ Hnew). split; [|reflexivity]. split; cbn [gs_ids gs_k gs_asked]; [exact F'|].
    rewrite map_app, E, (set_addN_fresh _ _ Hn). reflexivity.
  Qed.

  Lemma send_sigs_more_live order : forall st,
    gs_live st ->
    gs_live (send_sigs_more cfg sc order st) /\
    (forall id n, In (id, n) (gs_ids st) -> In (id, n) (gs_ids (send_sigs_more cfg sc order st))) /\
    (forall n, In n order -> is_home cfg n = true -> In n (gs_asked (send_sigs_more cfg sc order st))) /\
    (forall n, In n (gs_asked st) -> In n (gs_asked (send_sigs_more cfg sc order st))).
  Proof.
    induction order as [|n rest IH]; intros st L; cbn [send_sigs_more].
    - split; [exact L|]. split; [auto|]. split; [intros n []|auto].
    - destruct (memN n (gs_asked st)) eqn:Ea.
      + destruct (IH st L) as (A & B & C & D). split; [exact A|]. split; [exact B|]. split; [|exact D].
        intros m [<-|Hm] Hh; [apply D; now apply memN_in|now apply C].
      + apply memN_false in Ea. destruct (is_home cfg n) eqn:Eh; cbn [negb].
        * rewrite nofail.
          destruct (gs_live_add st n (gs_log st ++ [mkSend 1 n (s_id sc (gs_k st)) true []]) L Ea) as [L' Eadd].
          destruct (IH _ L') as (A & B & C & D). split; [exact A|]. split; [|split].
          -- intros id m Hin. apply B. cbn [gs_ids]. rewrite Eadd. apply in_app_iff. now left.
          -- intros m [<-|Hm] Hh; [|now apply C]. apply D. cbn [gs_asked]. apply set_addN_in. now right.
          -- intros m Hm. apply D. cbn [gs_asked]. apply set_addN_in. now left.
        * destruct (IH st L) as (A & B & C & D). split; [exact A|]. split; [exact B|]. split; [|exact D].
          intros m [<-|Hm] Hh; [congruence|now apply C].
  Qed.

  Lemma send_sigs_first_live order : forall st,
    gs_live st -> NoDup order -> (forall n, In n order -> ~ In n (gs_asked st)) ->
    gs_live (send_sigs_first cfg sc order st) /\
    (gte_f_plus_one (c_remoteF cfg) (zlen (dedupN (map fst (gs_ids (send_sigs_first cfg sc order st))))) = true \/
     forall n, In n order -> is_home cfg n = true -> In n (gs_asked (send_sigs_first cfg sc order st))) /\
    (forall n, In n (gs_asked st) -> In n (gs_asked (send_sigs_first cfg sc order st))).
  Proof.
    induction order as [|n rest IH]; intros st L ND D; cbn [send_sigs_first].
    - split; [exact L|]. split; [right; intros n []|auto].
    - inversion ND as [|? ? Hn ND']; subst.
      destruct (gte_f_plus_one _ _) eqn:Eg; [split; [exact L|]; split; [now left|auto]|].
      destruct (is_home cfg n) eqn:Eh; cbn [negb].
      + rewrite nofail.
        assert (Ea : ~ In n (gs_asked st)) by (apply D; now left).
        destruct (gs_live_add st n (gs_log st ++ [mkSend 1 n (s_id sc (gs_k st)) true []]) L Ea) as [L' Eadd].
        destruct (IH _ L' ND') as (A & B & C).
        { intros m Hm. cbn [gs_asked]. rewrite set_addN_in. intros [H| ->]; [|tauto]. apply (D m); [now right|exact H]. }
        split; [exact A|]. split.
        * destruct B as [B|B]; [now left|right]. intros m [<-|Hm] Hh; [|now apply B].
          apply C. cbn [gs_asked]. apply set_addN_in. now right.
        * intros m Hm. apply C. cbn [gs_asked]. apply set_addN_in. now left.
      + destruct (IH st L ND') as (A & B & C); [intros m Hm; apply D; now right|].
        split; [exact A|]. split; [|exact C].
        destruct B as [B|B]; [now left|right]. intros m [<-|Hm] Hh; [congruence|now apply B].
  Qed.
End SigLive.

Section LiveB.
  Variable edv : N -> observation -> N -> bool.
  Variable vrs : N -> N -> report -> bool.
  Variable cfg : config.
  Variable sc : sched.
  Hypothesis nofail : forall k, s_fail sc k = false.
  Hypothesis fresh : forall i j, s_id sc i = s_id sc j -> i = j.
  Variable hon : node -> bool.
  Variable qs : list node.        (* F_remote+1 honest signers that RMNHome knows *)
  Hypothesis Hqs : NoDup qs /\ (c_remoteF cfg + 1 <= zlen qs)%Z /\ (0 <= c_remoteF cfg)%Z /\
                   forall h, In h qs -> hon h = true /\ In h (signer_nodes cfg) /\ is_home cfg h = true.

  (* an honest signer answers with a well-formed signature that verifies for the report it was asked to sign *)
  Definition good_sig (rep : report) (h : node) (p : payload) : Prop :=
    exists sg e, find_signer cfg h = Some sg /\ p = PSig (Some e) /\ e_lenok e = true /\
                 vrs (sg_addr sg) (e_sig e) rep = true.
  Lemma good_sig_valid rep h p :
    good_sig rep h p -> exists a g, validate_sig vrs cfg rep h p = Ok (a, g).
  Proof.
    intros (sg & e & Ef & -> & El & Ev). unfold validate_sig. rewrite Ef, El, Ev. cbn. eauto.
  Qed.

  Record liveB (s : stB) : Prop := mkLiveB {
    lB_fresh : ids_fresh sc (b_ids s) (b_k s);
    lB_eq : map snd (b_ids s) = b_asked s;
    lB_finids : forall id, In id (b_fin s) -> In id (map fst (b_ids s));
    lB_all : b_exp s = true -> forall n, In n (signer_nodes cfg) -> is_home cfg n = true -> In n (b_asked s);
    lB_hon : forall h id, hon h = true -> In (id, h) (b_ids s) -> In id (b_fin s) -> In h (map snode (b_sigs s));
    lB_insuf : gte_f_plus_one (c_remoteF cfg) (zlen (b_sigs s)) = false }.

  Definition sigs_after (s : stB) (n : node) (p : payload) : list (node * N * N) :=
    match validate_sig vrs cfg (b_rep s) n p with
    | Ok (a, g) => b_sigs s ++ [(n, a, g)]
    | _ => b_sigs s
    end.

  Lemma letin_honB s n id p :
    liveB s -> In (id, n) (b_ids s) -> (hon n = true -> good_sig (b_rep s) n p) ->
    forall h id', hon h = true -> In (id', h) (b_ids s) -> In id' (id :: b_fin s) ->
      In h (map snode (sigs_after s n p)).
  Proof.
    intros L Hid Hgood h id' Hh Hin [<-|Hfin]; unfold sigs_after.
    - assert (h = n) by (eapply nodup_fst_inj; [apply (proj1 (lB_fresh _ L))| |]; eauto). subst h.
      destruct (good_sig_valid _ _ _ (Hgood Hh)) as (a & g & Ev). rewrite Ev.
      rewrite map_app. apply in_app_iff. right. now left.
    - pose proof (lB_hon _ L h id' Hh Hin Hfin) as Hs.
      destruct (validate_sig _ _ _ _ _) as [[a g]| | |]; auto. rewrite map_app. apply in_app_iff. now left.
  Qed.

  Lemma liveB_step s e s' :
    liveB s ->
    (forall h id p, e = Resp h (BMsg id p) -> hon h = true -> In (id, h) (b_ids s) -> good_sig (b_rep s) h p) ->
    stepB vrs fixed cfg sc s e = Cont s' -> liveB s' /\ b_rep s' = b_rep s.
  Proof.
    intros L Hev H. destruct e as [n b| |]; cbn [stepB] in H; [| |discriminate].
    - destruct (parse fixed (b_ids s) (b_fin s) n b) as [[id p]|] eqn:Ep; [|inversion H; subst; auto].
      apply parse_fixed_some in Ep as (-> & Hid & Hfin).
      pose proof (letin_honB s n id p L Hid (fun Hh => Hev n id p eq_refl Hh Hid)) as AH.
      unfold sigs_after in AH.
      destruct (validate_sig_no_panic vrs cfg (b_rep s) n p) as [NP NS].
      destruct (validate_sig vrs cfg (b_rep s) n p) as [[a g]| | |] eqn:Ev; try congruence.
      + destruct (gte_f_plus_one _ _) eqn:Eg; [discriminate|].
        destruct (b_exp s && _); [discriminate|]. inversion H; subst s'. clear H. split; [|reflexivity].
        destruct L as [L1 L2 L3 L4 L5 L6]. constructor; cbn [b_ids b_asked b_sigs b_fin b_exp b_k]; auto.
        intros i [E|Hi]; [subst i|auto]. apply in_map_iff. now exists (id, n).
      + destruct (gte_f_plus_one _ _) eqn:Eg; [discriminate|].
        destruct (b_exp s && _); [discriminate|]. inversion H; subst s'. clear H. split; [|reflexivity].
        destruct L as [L1 L2 L3 L4 L5 L6]. constructor; cbn [b_ids b_asked b_sigs b_fin b_exp b_k]; auto.
        intros i [E|Hi]; [subst i|auto]. apply in_map_iff. now exists (id, n).
    - destruct (b_exp s) eqn:Ex.
      + inversion H; subst s'. split; [|reflexivity]. destruct L. constructor; cbn; auto.
      + inversion H; subst s'. clear H. split; [|reflexivity]. destruct L as [L1 L2 L3 L4 L5 L6].
        destruct (send_sigs_more_live cfg sc nofail fresh (order_by (s_shufB2 sc) (signer_nodes cfg))
                    (mkSigsend (b_ids s) (b_asked s) (b_k s) (b_log s))) as ([A1 A2] & B & C & D);
          [split; cbn; auto|].
        constructor; cbn [b_ids b_asked b_sigs b_fin b_exp b_k]; auto.
        * intros id Hin. apply L3 in Hin. apply in_map_iff in Hin as ([i m] & E & Hin). cbn in E. subst i.
          apply in_map_iff. exists (id, m). split; [reflexivity|]. now apply B.
        * intros _ n Hn Hh. apply C; [now apply order_by_in|exact Hh].
        * intros h id Hh Hin Hfin. apply (L5 h id); auto.
          specialize (L3 _ Hfin). apply in_map_iff in L3 as ([i m] & E & Hold). cbn in E. subst i.
          pose proof (B _ _ Hold) as Hnew.
          assert (m = h) by (eapply nodup_fst_inj; [apply (proj1 A1)| |]; eauto). now subst m.
  Qed.

  (* enough distinct honest signers among the accepted make the F_remote+1 gate true *)
  Lemma quorum_enough (sigs : list (node * N * N)) :
    NoDup (map snode sigs) -> (forall h, In h qs -> In h (map snode sigs)) ->
    gte_f_plus_one (c_remoteF cfg) (zlen sigs) = true.
  Proof.
    intros ND H. destruct Hqs as (NQ & Hlen & _ & _). unfold gte_f_plus_one. apply Z.leb_le.
    assert (length qs <= length (map snode sigs))%nat by (apply NoDup_incl_length; auto).
    rewrite map_length in H0. unfold zlen in *. lia.
  Qed.

  Lemma no_giveupB pre us s e :
    invB edv vrs cfg pre us s -> liveB s ->
    (forall h id p, e = Resp h (BMsg id p) -> hon h = true -> In (id, h) (b_ids s) -> good_sig (b_rep s) h p) ->
    stepB vrs fixed cfg sc s e <> Done (Failure FInsufSigs).
  Proof.
    intros I L Hev H. destruct e as [n b| |]; cbn [stepB] in H; [| |discriminate].
    2:{ destruct (b_exp s); discriminate. }
    destruct (parse fixed (b_ids s) (b_fin s) n b) as [[id p]|] eqn:Ep; [|discriminate].
    apply parse_fixed_some in Ep as (-> & Hid & Hfin).
    pose proof (letin_honB s n id p L Hid (fun Hh => Hev n id p eq_refl Hh Hid)) as AH.
    assert (ND : NoDup (map snode (sigs_after s n p))).
    { unfold sigs_after. destruct (validate_sig vrs cfg (b_rep s) n p) as [[a g]| | |] eqn:Ev;
        try apply (iB_signd _ _ _ _ _ _ I).
      now destruct (accept_sig edv vrs cfg _ _ _ _ _ _ _ _ I Hid Hfin Ev). }
    assert (Hex : b_exp s = true /\ ids_all_finished (b_ids s) (id :: b_fin s) = true /\
                  gte_f_plus_one (c_remoteF cfg) (zlen (sigs_after s n p)) = false).
    { unfold sigs_after. destruct (validate_sig vrs cfg (b_rep s) n p) as [[a g]| | |]; try discriminate;
        (destruct (gte_f_plus_one _ _); [discriminate|];
         destruct (b_exp s); cbn [andb] in H; [|discriminate];
         destruct (ids_all_finished _ _); [auto|discriminate]). }
    destruct Hex as (Ex & Eall & Einsuf).
    rewrite quorum_enough in Einsuf; [discriminate|exact ND|].
    intros h Hh. destruct Hqs as (_ & _ & _ & Hall). destruct (Hall h Hh) as (Hhon & Hsig & Hhome).
    pose proof (lB_all _ L Ex h Hsig Hhome) as Hasked. rewrite <- (lB_eq _ L) in Hasked.
    apply in_map_iff in Hasked as ([id' m] & E & Hid'). cbn in E. subst m.
    apply (AH h id' Hhon Hid').
    unfold ids_all_finished in Eall. apply andb_true_iff in Eall as [Eall _].
    rewrite forallb_forall in Eall. specialize (Eall _ Hid'). cbn [fst] in Eall. now apply memN_in in Eall.
  Qed.

  Lemma stepB_sigs_mono s e s' : stepB vrs fixed cfg sc s e = Cont s' -> incl (b_sigs s) (b_sigs s').
  Proof.
    intros H. destruct e as [n b| |]; cbn [stepB] in H; [| |discriminate].
    - destruct (parse _ _ _ _ _) as [[id p]|]; [|inversion H; apply incl_refl].
      destruct (validate_sig _ _ _ _ _) as [[a g]| | |]; try discriminate;
        (destruct (gte_f_plus_one _ _); [discriminate|]; destruct (_ && _); [discriminate|]; inversion H; cbn).
      + apply incl_appl, incl_refl.
      + apply incl_refl.
    - destruct (b_exp s); inversion H; cbn; apply incl_refl.
  Qed.

  Lemma answer_acceptedB s1 h id p s2 :
    liveB s1 -> hon h = true -> good_sig (b_rep s1) h p -> In (id, h) (b_ids s1) ->
    stepB vrs fixed cfg sc s1 (Resp h (BMsg id p)) = Cont s2 -> In h (map snode (b_sigs s2)).
  Proof.
    intros L Hh Hg Hid H. cbn [stepB] in H.
    destruct (parse fixed (b_ids s1) (b_fin s1) h (BMsg id p)) as [[id' p']|] eqn:Ep.
    - apply parse_fixed_some in Ep as (E & _ & _). inversion E; subst id' p'. clear E.
      pose proof (letin_honB s1 h id p L Hid (fun _ => Hg) h id Hh Hid (or_introl eq_refl)) as AH.
      unfold sigs_after in AH.
      destruct (validate_sig vrs cfg (b_rep s1) h p) as [[a g]| | |]; try discriminate;
        (destruct (gte_f_plus_one _ _); [discriminate|]; destruct (_ && _); [discriminate|];
         inversion H; subst s2; cbn [b_sigs]; exact AH).
    - inversion H; subst s2. eapply lB_hon; eauto.
      unfold parse in Ep.
      assert (Em : ids_mem id (b_ids s1) = true).
      { unfold ids_mem. apply memN_in. apply in_map_iff. now exists (id, h). }
      rewrite Em in Ep. cbn [negb fx_addr fixed andb] in Ep.
      assert (En : ids_node id (b_ids s1) = Some h).
      { unfold ids_node. apply alookup_NoDup_In; [apply (proj1 (lB_fresh _ L))|exact Hid]. }
      rewrite En in Ep. cbn [option_eqb] in Ep. rewrite N.eqb_refl in Ep. cbn [negb] in Ep.
      destruct (memN id (b_fin s1)) eqn:Ef; [now apply memN_in|discriminate].
  Qed.
End LiveB.

(* ---------- between the phases: selectRoots cannot fail when at most F observers per lane are dishonest ---------- *)
Lemma select_loop_unique f ch vs x :
  x <> 0%N -> (f + 1 <= count_votes ch x vs)%Z ->
  forall rs, NoDup rs -> (forall r, In r rs -> (f + 1 <= count_votes ch r vs)%Z -> r = x) ->
    (In x rs -> select_loop f ch vs rs 0%N = Some x) /\ (~ In x rs -> select_loop f ch vs rs x = Some x).
Proof.
  intros Hx Hc. induction rs as [|r rs IH]; intros ND Hu; cbn [select_loop].
  - split; [intros []|reflexivity].
  - inversion ND as [|? ? Hr ND']; subst.
    destruct (IH ND') as [IH1 IH2]; [intros r' Hr' Hc'; apply Hu; [now right|exact Hc']|].
    destruct (lt_f_plus_one f (count_votes ch r vs)) eqn:E.
    + unfold lt_f_plus_one in E. apply Z.ltb_lt in E.
      assert (r <> x) by (intros ->; lia).
      split; [intros [->|Hin]; [congruence|auto]|intros Hn; apply IH2; intros Hin; apply Hn; now right].
    + unfold lt_f_plus_one in E. apply Z.ltb_ge in E.
      assert (r = x) by (apply Hu; [now left|exact E]). subst r.
      split; [intros _; cbn; apply IH2, Hr|intros Hn; exfalso; apply Hn; now left].
Qed.

Lemma select_root_complete sc vs u x :
  x <> 0%N -> In (u_chain u, x) vs -> (u_F u + 1 <= count_votes (u_chain u) x vs)%Z ->
  (forall r, (u_F u + 1 <= count_votes (u_chain u) r vs)%Z -> r = x) ->
  select_root sc vs u = Some x.
Proof.
  intros Hx Hin Hc Hu. unfold select_root.
  assert (Hv : In x (roots_voted (u_chain u) vs)).
  { unfold roots_voted. apply dkf_in. split; [|tauto]. apply in_map_iff. exists (u_chain u, x).
    split; [reflexivity|]. apply filter_In. split; [exact Hin|]. cbn. apply N.eqb_refl. }
  destruct (roots_voted (u_chain u) vs) as [|r0 rs] eqn:Er; [destruct Hv|].
  assert (ND : NoDup (order_by (s_rootord sc) (r0 :: rs))).
  { apply order_by_nodup. rewrite <- Er. unfold roots_voted. apply dkf_nodup. }
  destruct (select_loop_unique (u_F u) (u_chain u) vs x Hx Hc _ ND) as [H1 _]; [intros r _ Hr; now apply Hu|].
  rewrite H1; [|now apply order_by_in]. destruct (N.eqb_spec x 0); [congruence|reflexivity].
Qed.

Lemma select_roots_complete sc vs (rho : chain -> root) us :
  (forall u, In u us -> select_root sc vs u = Some (rho (u_chain u))) ->
  select_roots sc vs us = Some (map (fun u => (u_req u, rho (u_chain u))) us).
Proof.
  induction us as [|u us IH]; intros H; cbn [select_roots map]; [reflexivity|].
  rewrite (H u (or_introl eq_refl)), IH; [reflexivity|]. intros u' Hu'. apply H. now right.
Qed.

Section LiveFull.
  Variable edv : N -> observation -> N -> bool.
  Variable vrs : N -> N -> report -> bool.
  Variable cfg : config.
  Variable sc : sched.
  Variable us : list upd.
  Hypothesis signers_nodup : NoDup (map sg_node (c_signers cfg)).
  Hypothesis Hprep : prepare cfg = inl (Ok us).
  Hypothesis dest_known : c_dest_known cfg = true.
  Hypothesis nofail : forall k, s_fail sc k = false.
  Hypothesis fresh : forall i j, s_id sc i = s_id sc j -> i = j.
  Variable hon : node -> bool.
  Variable rho : chain -> root.
  Hypothesis rho_nonzero : forall u, In u us -> rho (u_chain u) <> 0%N.
  Variable q : upd -> list node.
  Hypothesis Hq : honest_quorums us hon q.
  (* at most F_home observers of a lane are not honest *)
  Hypothesis Hbyz : forall u, In u us -> (zlen (filter (fun n => negb (hon n)) (u_nodes u)) <= u_F u)%Z.
  Variable qs : list node.
  Hypothesis Hqs : NoDup qs /\ (c_remoteF cfg + 1 <= zlen qs)%Z /\ (0 <= c_remoteF cfg)%Z /\
                   forall h, In h qs -> hon h = true /\ In h (signer_nodes cfg) /\ is_home cfg h = true.

  Notation gstepF := (gstep edv vrs fixed cfg sc).
  Notation runF := (run edv vrs fixed cfg sc).

  (* a root other than the honest one never reaches F+1 votes *)
  Lemma byz_count pre acc u r :
    acc_good edv cfg pre us acc ->
    (forall h votes, hon h = true -> In (h, votes) acc -> good_votes us rho h votes) ->
    In u us -> r <> rho (u_chain u) ->
    (count_votes (u_chain u) r (flat_map (fun a => plain (snd a)) acc) <= u_F u)%Z.
  Proof.
    intros G Hgood Hu Hr. destruct (acc_good_32 _ _ _ _ _ G) as [H32 Hch].
    destruct (prepare_spec _ _ Hprep) as (NDc & _ & _).
    rewrite (count_votes_voters _ _ _ Hch). specialize (Hbyz u Hu). unfold zlen in *.
    assert (length (map fst (filter (entry_has (u_chain u) r) acc)) <=
            length (filter (fun n => negb (hon n)) (u_nodes u)))%nat.
    { apply NoDup_incl_length; [apply nodup_map_filter, (proj1 G)|].
      intros n Hn. apply in_map_iff in Hn as ([m votes] & E & Hf). cbn in E. subst m.
      apply filter_In in Hf as [Hin Hh].
      assert (Hv : In (u_chain u, R32 r) votes) by (eapply entry_has_in; [now apply (H32 n)|exact Hh]).
      destruct (proj2 G n votes Hin) as (id & p & _ & Hval).
      apply validate_obs_sound in Hval as (so & ob & hn & _ & _ & _ & _ & _ & _ & Hl & _).
      apply validate_lus_sound in Hl as (NDv & _ & Hall).
      destruct (Hall _ _ Hv) as (lu & u' & _ & Hf & Hm & _).
      assert (u' = u) by (eapply find_upd_unique; eauto). subst u'. apply memN_in in Hm.
      apply filter_In. split; [exact Hm|]. apply negb_true_iff. destruct (hon n) eqn:Eh; [|reflexivity].
      exfalso. pose proof (Hgood n votes Eh Hin u Hu Hm) as Hg.
      assert (R32 r = R32 (rho (u_chain u))) by (eapply nodup_fst_inj; eauto). congruence. }
    rewrite map_length in H. lia.
  Qed.

  (* phase A has returned good and sufficient observations: phase B starts, with its bookkeeping in order *)
  Lemma enterB_live pre acc k log :
    acc_good edv cfg pre us acc -> sufficient us acc = Ok true ->
    (forall h votes, hon h = true -> In (h, votes) acc -> good_votes us rho h votes) ->
    exists sb, enterB cfg sc us acc k log = GB sb /\ invB edv vrs cfg pre us sb /\ liveB cfg sc hon sb.
  Proof.
    intros G S Hgood. destruct (acc_good_32 _ _ _ _ _ G) as [H32 Hch].
    destruct (prepare_spec _ _ Hprep) as (NDc & _ & WF).
    set (vs := flat_map (fun a => plain (snd a)) acc).
    assert (Sel : select_roots sc vs us = Some (map (fun u => (u_req u, rho (u_chain u))) us)).
    { apply select_roots_complete. intros u Hu.
      assert (Huniq : forall r, (u_F u + 1 <= count_votes (u_chain u) r vs)%Z -> r = rho (u_chain u)).
      { intros r Hc. destruct (N.eq_dec r (rho (u_chain u))) as [|Hne]; [assumption|].
        pose proof (byz_count pre acc u r G Hgood Hu Hne). fold vs in H. lia. }
      unfold sufficient in S. rewrite (all_votes_32 acc H32) in S. cbn [rbind] in S. inversion S as [S'].
      rewrite forallb_forall in S'. specialize (S' u Hu). unfold chain_sufficient in S'.
      apply existsb_exists in S' as ([c r0] & Hin & E). cbn [fst snd] in E.
      apply andb_true_iff in E as [Ec E]. apply N.eqb_eq in Ec. subst c.
      apply negb_true_iff in E. unfold lt_f_plus_one in E. apply Z.ltb_ge in E. fold vs in Hin, E.
      pose proof (Huniq r0 E). subst r0.
      apply select_root_complete; auto. }
    assert (Cont_eq : exists sb, startB cfg sc us acc k log = Cont sb /\ liveB cfg sc hon sb).
    { unfold startB. rewrite (all_votes_32 acc H32). fold vs. rewrite Sel, dest_known. cbn [negb]. rewrite (tas_panics_nodup acc (proj1 G)).
      set (gs := send_sigs_first cfg sc _ _).
      destruct (send_sigs_first_live cfg sc nofail fresh (order_by (s_shufB1 sc) (signer_nodes cfg))
                  (mkSigsend [] [] k log)) as ([F E] & B & _).
      { split; cbn; [split; [constructor|intros id n []]|reflexivity]. }
      { apply order_by_nodup, signers_nodup. }
      { cbn. tauto. }
      fold gs in F, E, B. destruct Hqs as (NQ & Hlen & Hf0 & Hall).
      assert (Enough : lt_f_plus_one (c_remoteF cfg) (zlen (dedupN (map fst (gs_ids gs)))) = false).
      { unfold lt_f_plus_one. apply Z.ltb_ge. destruct B as [B|B].
        - unfold gte_f_plus_one in B. now apply Z.leb_le in B.
        - rewrite (dedupN_nodup_id _ (proj1 F)).
          assert (length qs <= length (gs_asked gs))%nat.
          { apply NoDup_incl_length; [exact NQ|]. intros h Hh. destruct (Hall h Hh) as (_ & Hs & Hh').
            apply B; [now apply order_by_in|exact Hh']. }
          rewrite <- E in H. rewrite map_length in H. unfold zlen in *. rewrite map_length. lia. }
      rewrite Enough. eexists. split; [reflexivity|].
      constructor; cbn [b_ids b_asked b_sigs b_fin b_exp b_k]; auto.
      - intros id [].
      - discriminate.
      - unfold gte_f_plus_one, zlen. cbn. apply Z.leb_gt. lia. }
    destruct Cont_eq as (sb & Eb & LB). exists sb. unfold enterB. rewrite Eb. split; [reflexivity|]. split; [|exact LB].
    eapply startB_inv; eauto. intros u Hu. apply WF, Hu.
  Qed.

  (* an honest node answers a request that was sent to it correctly: with an observation in phase A, with a
     signature over the report it is asked to sign in phase B; nothing is assumed about what else it sends *)
  Definition honest_at (g : gstate) (e : event) : Prop :=
    forall h id p, e = Resp h (BMsg id p) -> hon h = true ->
      match g with
      | GA _ s => In (id, h) (a_ids s) -> good_answer edv cfg us rho h p
      | GB s => In (id, h) (b_ids s) -> good_sig vrs cfg (b_rep s) h p
      | GFinal _ _ => True
      end.

  Definition LINV (pre : list event) (g : gstate) : Prop :=
    match g with
    | GA us' s => us' = us /\ invA edv cfg pre us s /\ liveA sc us hon rho s
    | GB s => invB edv vrs cfg pre us s /\ liveB cfg sc hon s
    | GFinal (Success _ _) _ => True
    | GFinal _ _ => False
    end.

  Lemma LINV_init : LINV [] (ginit cfg sc).
  Proof.
    unfold ginit. rewrite Hprep. cbn. split; [reflexivity|]. split; [now apply invA_init|now apply liveA_init].
  Qed.

  Lemma stepA_done_hon s e acc :
    liveA sc us hon rho s ->
    (forall h id p, e = Resp h (BMsg id p) -> hon h = true -> In (id, h) (a_ids s) -> good_answer edv cfg us rho h p) ->
    stepA edv fixed cfg sc us s e = Done (inl acc) ->
    forall h votes, hon h = true -> In (h, votes) acc -> good_votes us rho h votes.
  Proof.
    intros L Hev H. destruct e as [n b| |]; cbn [stepA] in H; [|destruct (a_exp s); discriminate|discriminate].
    destruct (parse fixed (a_ids s) (a_fin s) n b) as [[id p]|] eqn:Ep; [|discriminate].
    apply parse_fixed_some in Ep as (-> & Hid & Hfin).
    destruct (validate_obs edv fixed cfg n us p) as [v| | |] eqn:Ev; try discriminate;
      (destruct (sufficient _ _) as [[|]| | |]; try discriminate; [|destruct (_ && _); discriminate]);
      inversion H; subst acc; intros h votes Hh Hin.
    - apply in_app_iff in Hin as [Hin|[E|[]]]; [eapply lA_accgood; eauto|]. inversion E; subst h votes.
      destruct (Hev n id p eq_refl Hh Hid) as (votes' & Ev' & G). rewrite Ev in Ev'. inversion Ev'. now subst.
    - eapply lA_accgood; eauto.
  Qed.

  Lemma LINV_step pre g e : LINV pre g -> e <> CtxDone -> honest_at g e -> LINV (pre ++ [e]) (gstepF g e).
  Proof.
    intros L Hne Hev. destruct g as [us' s|s|f l]; cbn [gstep].
    - destruct L as (-> & I & LA).
      assert (NC : ~ crashed (gstepF (GA us s) e)).
      { eapply no_crash_step; [|intros [l C]; discriminate]. cbn. split; [exact Hprep|exact I]. }
      cbn [gstep] in NC.
      assert (Hev' : forall h id p, e = Resp h (BMsg id p) -> hon h = true -> In (id, h) (a_ids s) ->
                                    good_answer edv cfg us rho h p).
      { intros h id p E Hh. exact (Hev h id p E Hh). }
      destruct (stepA edv fixed cfg sc us s e) as [s'|[acc|f]] eqn:Es.
      + cbn. split; [reflexivity|]. split; [eapply invA_step; eauto|].
        eapply liveA_step; [exact nofail|exact fresh|exact LA|exact Hev'|exact Es].
      + destruct (invA_done edv vrs cfg sc _ _ _ _ _ I Es) as [G S].
        destruct (enterB_live (pre ++ [e]) acc (a_k s) (a_log s) G S (stepA_done_hon s e acc LA Hev' Es))
          as (sb & Eb & IB & LB).
        rewrite Eb. cbn. auto.
      + assert (Hf : f = Crash \/ f = Failure FInsufObs).
        { destruct e as [n b| |]; cbn [stepA] in Es; [| |congruence].
          - destruct (parse _ _ _ _ _) as [[id p]|]; [|discriminate].
            destruct (validate_obs _ _ _ _ _ _) as [v| | |]; try (inversion Es; auto);
              (destruct (sufficient _ _) as [[|]| | |]; try (inversion Es; auto); try discriminate;
               destruct (_ && _); inversion Es; auto).
          - destruct (a_exp s); discriminate. }
        destruct Hf as [->| ->].
        * exfalso. apply NC. eexists. reflexivity.
        * exfalso. eapply (no_giveup edv vrs cfg sc us hon rho q Hq pre s e I LA Hev'). exact Es.
    - destruct L as (I & LB).
      assert (NC : ~ crashed (gstepF (GB s) e)).
      { eapply no_crash_step; [|intros [l C]; discriminate]. cbn. exists us. split; [exact Hprep|exact I]. }
      cbn [gstep] in NC.
      assert (Hev' : forall h id p, e = Resp h (BMsg id p) -> hon h = true -> In (id, h) (b_ids s) ->
                                    good_sig vrs cfg (b_rep s) h p).
      { intros h id p E Hh. exact (Hev h id p E Hh). }
      destruct (stepB vrs fixed cfg sc s e) as [s'|f] eqn:Es.
      + cbn. split; [eapply invB_step; eauto|].
        eapply (proj1 (liveB_step vrs cfg sc nofail fresh hon qs Hqs s e s' LB Hev' Es)).
      + destruct f as [sigs rep|f|]; cbn; trivial.
        * assert (Hf : f = FInsufSigs).
          { destruct e as [n b| |]; cbn [stepB] in Es; [| |congruence].
            - destruct (parse _ _ _ _ _) as [[id p]|]; [|discriminate].
              destruct (validate_sig _ _ _ _ _) as [[a g]| | |]; try discriminate;
                (destruct (gte_f_plus_one _ _); [discriminate|]; destruct (_ && _); inversion Es; auto).
            - destruct (b_exp s); discriminate. }
          subst f. eapply (no_giveupB edv vrs cfg sc hon qs Hqs pre us s e I LB Hev'). exact Es.
        * apply NC. eexists. reflexivity.
    - exact L.
  Qed.

  Lemma LINV_fold evs : forall pre g,
    LINV pre g -> ~ In CtxDone evs ->
    (forall e1 e e2, evs = e1 ++ e :: e2 -> honest_at (fold_left gstepF e1 g) e) ->
    LINV (pre ++ evs) (fold_left gstepF evs g).
  Proof.
    induction evs as [|e evs IH]; intros pre g L Hc Hh; cbn [fold_left].
    - now rewrite app_nil_r.
    - replace (pre ++ e :: evs) with ((pre ++ [e]) ++ evs) by (rewrite <- app_assoc; reflexivity).
      apply IH.
      + apply LINV_step; [exact L| |exact (Hh [] e evs eq_refl)]. intros ->. apply Hc. now left.
      + intros H. apply Hc. now right.
      + intros e1 e' e2 E. apply (Hh (e :: e1) e' e2). cbn. now rewrite E.
  Qed.

  (* the schedule as seen by the honest nodes *)
  Definition honest_run (evs : list event) : Prop :=
    forall e1 e e2, evs = e1 ++ e :: e2 -> honest_at (runF e1) e.

  Definition answered_A (evs : list event) (h : node) : Prop :=
    exists e1 e2 id p, evs = e1 ++ Resp h (BMsg id p) :: e2 /\
      match runF e1 with GA _ s1 => In (id, h) (a_ids s1) | _ => True end.
  Definition answered_B (evs : list event) (h : node) : Prop :=
    exists e1 e2 id p, evs = e1 ++ Resp h (BMsg id p) :: e2 /\
      match runF e1 with GA _ _ => False | GB s1 => In (id, h) (b_ids s1) | GFinal _ _ => True end.

  Lemma LINV_prefix evs e1 e2 :
    honest_run evs -> ~ In CtxDone evs -> evs = e1 ++ e2 -> LINV e1 (runF e1).
  Proof.
    intros Hh Hc E. apply (LINV_fold e1 [] (ginit cfg sc) LINV_init).
    - intros H. apply Hc. rewrite E. apply in_app_iff. now left.
    - intros a e b Ea. apply (Hh a e (b ++ e2)). rewrite E, Ea, <- app_assoc. reflexivity.
  Qed.

  Lemma gb_step_inv s1 e s2 : gstepF (GB s1) e = GB s2 -> stepB vrs fixed cfg sc s1 e = Cont s2.
  Proof. cbn [gstep]. destruct (stepB vrs fixed cfg sc s1 e); [intros H; now inversion H|discriminate]. Qed.

  Lemma gb_fold_sigs evs : forall s1 s2, fold_left gstepF evs (GB s1) = GB s2 -> incl (b_sigs s1) (b_sigs s2).
  Proof.
    induction evs as [|e evs IH]; intros s1 s2 H; cbn [fold_left] in H; [inversion H; apply incl_refl|].
    destruct (gstepF (GB s1) e) as [?|s'|f l] eqn:Eg.
    - cbn [gstep] in Eg. destruct (stepB vrs fixed cfg sc s1 e); discriminate.
    - apply gb_step_inv in Eg. eapply incl_tran; [eapply stepB_sigs_mono; eauto|now apply IH].
    - rewrite (fold_final edv vrs cfg sc evs f l) in H. discriminate.
  Qed.

  (* ---------- C06 liveness ---------- *)
  Theorem liveness evs :
    honest_run evs -> ~ In CtxDone evs ->
    (forall u h, In u us -> In h (q u) -> answered_A evs h) ->
    (forall h, In h qs -> answered_B evs h) ->
    exists sigs rep log, runF evs = GFinal (Success sigs rep) log.
  Proof.
    intros Hrun Hctx HansA HansB.
    pose proof (LINV_prefix evs evs [] Hrun Hctx (eq_sym (app_nil_r evs))) as L.
    destruct (runF evs) as [us' s|s|f l] eqn:E.
    - (* still in phase A: impossible, every quorum member has been accepted *)
      exfalso. destruct L as (-> & I & LA).
      assert (Hacc : forall u h, In u us -> In h (q u) ->
                     exists votes, In (h, votes) (a_acc s) /\ good_votes us rho h votes).
      { intros u h Hu Hh. destruct (HansA u h Hu Hh) as (e1 & e2 & id & p & Eevs & Hasked).
        destruct (Hq u Hu) as (_ & _ & _ & Hall). destruct (Hall h Hh) as [Hhon _].
        pose proof (LINV_prefix evs e1 _ Hrun Hctx Eevs) as L1.
        pose proof (Hrun e1 _ e2 Eevs h id p eq_refl Hhon) as Hgood.
        unfold run in E. rewrite Eevs, fold_left_app in E. cbn [fold_left] in E.
        fold (runF e1) in E.
        assert (G1 : is_ga (runF e1) = true).
        { apply (is_ga_step edv vrs cfg sc (runF e1) (Resp h (BMsg id p))). apply (is_ga_fold edv vrs cfg sc e2).
          now rewrite E. }
        destruct (runF e1) as [us1 s1|?|? ?] eqn:Eg1; try discriminate.
        destruct L1 as (-> & I1 & LA1).
        assert (G2 : is_ga (gstepF (GA us s1) (Resp h (BMsg id p))) = true)
          by (apply (is_ga_fold edv vrs cfg sc e2); now rewrite E).
        destruct (gstepF (GA us s1) (Resp h (BMsg id p))) as [us2 s2|?|? ?] eqn:Eg2; try discriminate.
        apply ga_step_inv in Eg2 as [-> Es].
        destruct (answer_accepted edv cfg sc us hon rho e1 s1 h id p s2 I1 LA1 Hhon (Hgood Hasked) Hasked Es)
          as (votes & Hin2 & Gv).
        apply ga_fold_acc in E as [_ Hincl]. exists votes. split; [apply Hincl, Hin2|exact Gv]. }
      destruct (acc_good_32 _ _ _ _ _ (iA_acc _ _ _ _ _ I)) as [H32 Hch].
      assert (S : sufficient us (a_acc s) = Ok true).
      { apply (quorum_sufficient us rho (a_acc s) q H32 Hch). intros u Hu.
        destruct (Hq u Hu) as (ND & Hlen & Hf & Hall). repeat split; auto.
        intros h Hh. destruct (Hacc u h Hu Hh) as (votes & Hin & Gv). exists votes. split; [exact Hin|].
        apply Gv; [exact Hu|]. now destruct (Hall h Hh). }
      rewrite (lA_insuf _ _ _ _ _ LA) in S. discriminate.
    - (* still in phase B: impossible, every quorum signer has been accepted *)
      exfalso. destruct L as (I & LB).
      assert (Hsig : forall h, In h qs -> In h (map snode (b_sigs s))).
      { intros h Hh. destruct (HansB h Hh) as (e1 & e2 & id & p & Eevs & Hasked).
        destruct Hqs as (_ & _ & _ & Hall). destruct (Hall h Hh) as (Hhon & _ & _).
        pose proof (LINV_prefix evs e1 _ Hrun Hctx Eevs) as L1.
        pose proof (Hrun e1 _ e2 Eevs h id p eq_refl Hhon) as Hgood.
        unfold run in E. rewrite Eevs, fold_left_app in E. cbn [fold_left] in E.
        fold (runF e1) in E.
        destruct (runF e1) as [us1 s1|s1|f1 l1] eqn:Eg1; [destruct Hasked| |].
        2:{ cbn [gstep] in E. rewrite (fold_final edv vrs cfg sc e2 f1 l1) in E. discriminate. }
        destruct L1 as (I1 & LB1).
        destruct (gstepF (GB s1) (Resp h (BMsg id p))) as [?|s2|f2 l2] eqn:Eg2.
        - cbn [gstep] in Eg2. destruct (stepB vrs fixed cfg sc s1 _); discriminate.
        - apply gb_step_inv in Eg2.
          pose proof (answer_acceptedB vrs cfg sc hon qs Hqs s1 h id p s2 LB1 Hhon (Hgood Hasked) Hasked Eg2) as Hin2.
          apply gb_fold_sigs in E. apply in_map_iff in Hin2 as (x & Ex & Hx).
          apply in_map_iff. exists x. split; [exact Ex|apply E, Hx].
        - rewrite (fold_final edv vrs cfg sc e2 f2 l2) in E. discriminate. }
      pose proof (quorum_enough cfg hon qs Hqs (b_sigs s) (iB_signd _ _ _ _ _ _ I) Hsig) as En.
      rewrite (lB_insuf _ _ _ _ LB) in En. discriminate.
    - destruct f as [sigs rep|f|]; cbn in L; try destruct L. eauto.
  Qed.
End LiveFull.

(* ---------- the hypotheses of the liveness theorem are satisfiable (and the theorem then gives a success) ---------- *)
Module LiveWitness.
  Import Witness.
  Definition us : list upd := [mkUpd (mkLaneReq 5 w_onr32 10 20) [1; 2; 3] 1]%N.
  Definition hon (n : node) : bool := N.eqb n 1 || N.eqb n 2.     (* node 3 is not honest *)
  Definition rho (_ : chain) : root := 105%N.
  Definition q (_ : upd) : list node := [1; 2]%N.
  Definition qs : list node := [1; 2]%N.

  (* node 3 interferes: a conflicting root under node 1's request id, a signature under node 1's request id *)
  Definition live_run : list event :=
    [Resp 3 (BMsg 1 (obs_of 23 999)); Resp 1 (BMsg 1 (obs_of 21 105)); Resp 2 (BMsg 2 (obs_of 22 105));
     Resp 3 (BMsg 3 (sig_of 1301)); Resp 2 (BMsg 4 (sig_of 1201)); Resp 1 (BMsg 3 (sig_of 1101))]%N.

  Lemma good_obs_1 : good_answer edv cfg us rho 1%N (obs_of 21%N 105%N).
  Proof.
    exists [(5, R32 105)]%N. split; [vm_compute; reflexivity|].
    intros u [<-|[]] _. now left.
  Qed.
  Lemma good_obs_2 : good_answer edv cfg us rho 2%N (obs_of 22%N 105%N).
  Proof.
    exists [(5, R32 105)]%N. split; [vm_compute; reflexivity|].
    intros u [<-|[]] _. now left.
  Qed.

  Lemma honest_run_live : honest_run edv vrs cfg sc us hon rho live_run.
  Proof.
    intros e1 e e2 E h id p -> Hh.
    unfold live_run in E.
    destruct e1 as [|a1 [|a2 [|a3 [|a4 [|a5 [|a6 [|? ?]]]]]]]; cbn in E; inversion E; subst; clear E;
      try (vm_compute in Hh; discriminate).
    - set (g := run _ _ _ _ _ _). vm_compute in g. subst g. cbn. intros _. exact good_obs_1.
    - set (g := run _ _ _ _ _ _). vm_compute in g. subst g. cbn. intros _. exact good_obs_2.
    - set (g := run _ _ _ _ _ _). vm_compute in g. subst g. cbn. intros _.
      exists (mkSigner 2 12)%N, (mkEcdsa true 1201%N). repeat split; vm_compute; reflexivity.
    - set (g := run _ _ _ _ _ _). vm_compute in g. subst g. cbn. intros _.
      exists (mkSigner 1 11)%N, (mkEcdsa true 1101%N). repeat split; vm_compute; reflexivity.
  Qed.

  Example liveness_applies :
    exists sigs rep log, run edv vrs fixed cfg sc live_run = GFinal (Success sigs rep) log.
  Proof.
    apply (liveness edv vrs cfg sc us) with (hon := hon) (rho := rho) (q := q) (qs := qs).
    - repeat constructor; cbn; intuition discriminate.
    - vm_compute. reflexivity.
    - reflexivity.
    - reflexivity.
    - intros i j H. change (N.of_nat (S i) = N.of_nat (S j)) in H. apply Nat2N.inj in H. now inversion H.
    - intros u [<-|[]]. cbn. discriminate.
    - intros u [<-|[]]. cbn. split; [repeat constructor; cbn; intuition discriminate|].
      split; [lia|]. split; [lia|]. intros h [<-|[<-|[]]]; split; cbn; auto.
    - intros u [<-|[]]. vm_compute. discriminate.
    - split; [repeat constructor; cbn; intuition discriminate|]. split; [cbn; lia|]. split; [cbn; lia|].
      intros h [<-|[<-|[]]]; repeat split; cbn; auto.
    - exact honest_run_live.
    - cbn. intuition discriminate.
    - intros u h [<-|[]] [<-|[<-|[]]].
      + exists [Resp 3 (BMsg 1 (obs_of 23 999))]%N, (skipn 2 live_run), 1%N, (obs_of 21%N 105%N).
        split; [reflexivity|]. vm_compute. auto.
      + exists (firstn 2 live_run), (skipn 3 live_run), 2%N, (obs_of 22%N 105%N).
        split; [reflexivity|]. vm_compute. auto.
    - intros h [<-|[<-|[]]].
      + exists (firstn 5 live_run), [], 3%N, (sig_of 1101%N). split; [reflexivity|]. vm_compute. auto.
      + exists (firstn 4 live_run), (skipn 5 live_run), 4%N, (sig_of 1201%N). split; [reflexivity|]. vm_compute. auto.
  Qed.
End LiveWitness.

(* ---------- the comparator of transformAndSortObservations (reviewer's question, "F31") ---------- *)
(* In every reachable phase-A state of the repaired code no node is the addressee of two observation requests and no
   node has two accepted observations; so the equal-SignerNodeIndex branch of the comparator, the only place that
   indexes FixedDestLaneUpdates[0], is never taken (tas_panics = false), whatever the lane-update lists contain. *)
Theorem one_observation_per_node edv vrs cfg sc :
  NoDup (map sg_node (c_signers cfg)) ->
  forall evs us s, run edv vrs fixed cfg sc evs = GA us s ->
    NoDup (map snd (a_ids s)) /\ NoDup (map fst (a_acc s)) /\ tas_panics (a_acc s) = false.
Proof.
  intros ND evs us s H. pose proof (ginv_run edv vrs cfg sc ND evs) as G. rewrite H in G. destruct G as [_ I].
  split; [apply (iA_ids _ _ _ _ _ I)|]. destruct (iA_acc _ _ _ _ _ I) as [N _]. split; [exact N|now apply tas_panics_nodup].
Qed.

Module SortWitness.
  Import Witness.
  (* an observation without lane updates, correctly signed by node 1 *)
  Definition empty_obs : payload := PObs (mkSO (Some (mkObs (Some (1, 7)) 3 []))%N 21%N).
  (* node 1 answers its own request, then (empty) the request sent to node 2; after the timer node 3 is asked and
     answers: two votes, phase A returns, and node 1 has two accepted observations one of which is empty *)
  Definition sort_run : list event :=
    [Resp 1 (BMsg 1 (obs_of 21 105)); Resp 1 (BMsg 2 empty_obs); TimerFire; Resp 3 (BMsg 3 (obs_of 23 105))]%N.

  Lemma sort_run_unfixed_panics : exists l, run edv vrs unfixed cfg sc sort_run = GFinal Crash l.
  Proof. eexists. vm_compute. reflexivity. Qed.
  Lemma sort_run_fixed_goes_on : exists s, run edv vrs fixed cfg sc sort_run = GB s /\ length (b_acc s) = 2%nat.
  Proof. eexists. split; vm_compute; reflexivity. Qed.
  (* a zero-lane observation from a node with ONE request is harmless in both versions *)
  Lemma zero_lanes_single_harmless :
    exists s, run edv vrs unfixed cfg sc [Resp 1 (BMsg 1 empty_obs); Resp 2 (BMsg 2 (obs_of 22 105)); TimerFire;
                                          Resp 3 (BMsg 3 (obs_of 23 105))]%N = GB s.
  Proof. eexists. vm_compute. reflexivity. Qed.
End SortWitness.

Theorem sort_panic_unfixed_refuted :
  exists edv vrs cfg sc evs,
    (exists l, run edv vrs unfixed cfg sc evs = GFinal Crash l) /\
    (exists s, run edv vrs fixed cfg sc evs = GB s).
Proof.
  exists Witness.edv, Witness.vrs, Witness.cfg, Witness.sc, SortWitness.sort_run.
  split; [exact SortWitness.sort_run_unfixed_panics|].
  destruct SortWitness.sort_run_fixed_goes_on as (s & H & _). now exists s.
Qed.

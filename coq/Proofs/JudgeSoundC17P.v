(* JudgeSoundC17P.v — the executable properties of Check/C17_check.v (consistentb, step_ok, trunc_ok) tied to the
   Prop-level clauses of Props/C17.v (C17_fits, C17_consistent, C17_error_only_if_nothing_fits). *)
Require Import Verif.Model.Base Verif.Proofs.BaseP Verif.Model.Truncate Verif.Proofs.TruncateP Verif.Check.C17_check.
From Coq Require Import ZifyN ZifyNat ZifyBool.

(* ---------- reflection of the boolean equalities of the case types ---------- *)
Lemma js17_list_eqb_eq {A} (e : A -> A -> bool) :
  (forall a b, e a b = true <-> a = b) -> forall l1 l2, list_eqb e l1 l2 = true <-> l1 = l2.
Proof.
  intros He. induction l1 as [|x l1 IH]; intros [|y l2]; cbn [list_eqb]; try (split; [discriminate|discriminate]).
  - split; reflexivity.
  - rewrite andb_true_iff, He, IH. split; [intros [-> ->]; reflexivity| intros H; inversion H; split; reflexivity].
Qed.
Lemma js17_pair_eqb_eq {A B} (ea : A -> A -> bool) (eb : B -> B -> bool) :
  (forall a b, ea a b = true <-> a = b) -> (forall a b, eb a b = true <-> a = b) ->
  forall p q, pair_eqb ea eb p q = true <-> p = q.
Proof.
  intros Ha Hb [a b] [a' b']. unfold pair_eqb. cbn [fst snd]. rewrite andb_true_iff, Ha, Hb.
  split; [intros [-> ->]; reflexivity| intros H; inversion H; split; reflexivity].
Qed.
Lemma tc_eqb_eq a b : tc_eqb a b = true <-> a = b.
Proof.
  destruct a as [i l h], b as [i' l' h']. unfold tc_eqb. cbn [tc_id tc_lo tc_hi].
  rewrite !andb_true_iff, !N.eqb_eq. split; [intros [[-> ->] ->]; reflexivity| intros H; inversion H; repeat split].
Qed.
Lemma tmsg_eqb_eq (a b : tmsg) : tmsg_eqb a b = true <-> a = b.
Proof.
  destruct a as [[c s] i], b as [[c' s'] i']. unfold tmsg_eqb. cbn [fst snd].
  rewrite !andb_true_iff, !N.eqb_eq. split; [intros [[-> ->] ->]; reflexivity| intros H; inversion H; repeat split].
Qed.
Lemma tcs_eqb_eq (a b : list tcommit) : list_eqb tc_eqb a b = true <-> a = b.
Proof. apply js17_list_eqb_eq. exact tc_eqb_eq. Qed.
Lemma tobs_eqb_eq a b : tobs_eqb a b = true <-> a = b.
Proof.
  destruct a as [cm ms ts ks ns], b as [cm' ms' ts' ks' ns']. unfold tobs_eqb.
  cbn [t_commits t_msgs t_toks t_costly t_nonces]. rewrite !andb_true_iff.
  rewrite (js17_list_eqb_eq _ (js17_pair_eqb_eq _ _ N.eqb_eq tcs_eqb_eq)).
  rewrite (js17_list_eqb_eq _ tmsg_eqb_eq).
  rewrite (js17_list_eqb_eq _ (js17_pair_eqb_eq _ _ N.eqb_eq N.eqb_eq)).
  rewrite !(js17_list_eqb_eq _ N.eqb_eq).
  split; [intros [[[[-> ->] ->] ->] ->]; reflexivity| intros H; inversion H; repeat split].
Qed.

Lemma js17_nodupb_NoDup (l : list N) : nodupb N.eqb l = true <-> NoDup l.
Proof.
  induction l as [|x l IH]; cbn [nodupb].
  - split; [constructor|reflexivity].
  - rewrite andb_true_iff, negb_true_iff, IH. fold (memN x l). split.
    + intros [Hn Hd]. constructor; [|exact Hd]. intros Hi. apply memN_In in Hi. congruence.
    + intros ND. inversion ND as [|? ? Hn Hd]; subst. split; [|exact Hd].
      destruct (memN x l) eqn:E; [|reflexivity]. apply memN_In in E. contradiction.
Qed.

Lemma is_prefix_firstn l' : forall l, is_prefix l' l = true <-> l' = firstn (length l') l.
Proof.
  induction l' as [|a l' IH]; intros l; cbn [is_prefix length firstn]; [split; reflexivity|].
  destruct l as [|b l]; [split; discriminate|]. rewrite andb_true_iff, tc_eqb_eq, IH.
  split; [intros [-> <-]; reflexivity| intros H; inversion H as [[H1 H2]]; split; [reflexivity|]; rewrite <- H2; exact H2].
Qed.

Lemma toks_have_msgsb_iff o : toks_have_msgsb o = true <-> toks_have_msgs o.
Proof. unfold toks_have_msgsb, toks_have_msgs. apply forallb_forall. Qed.

(* ---------- consistentb is C17's [consistent] (plus: the remaining chain keys are unique) ---------- *)
Definition prefixesb (cm0 cm : list (N * list tcommit)) : bool :=
  forallb (fun kv => match alookup (fst kv) cm0 with Some l => is_prefix (snd kv) l | None => false end) cm.

Lemma prefixesb_sound cm0 cm : prefixesb cm0 cm = true -> prefixes cm0 cm.
Proof.
  intros H c l' Hl. apply alookup_In in Hl. unfold prefixesb in H. rewrite forallb_forall in H.
  specialize (H _ Hl). cbn [fst snd] in H. destruct (alookup c cm0) as [l|]; [|discriminate].
  exists l. split; [reflexivity|]. now apply is_prefix_firstn.
Qed.
Lemma prefixesb_complete cm0 cm : NoDup (tkeys cm) -> prefixes cm0 cm -> prefixesb cm0 cm = true.
Proof.
  intros ND H. unfold prefixesb. apply forallb_forall. intros [c l'] Hi. cbn [fst snd].
  destruct (H c l' (alookup_NoDup_In c cm l' ND Hi)) as [l [-> Hp]]. now apply is_prefix_firstn.
Qed.

(* soundness, token data only under messages (the case C17_consistent speaks of) *)
Theorem consistentb_sound o0 o :
  toks_have_msgs o0 -> consistentb o0 o = true -> consistent o0 o /\ NoDup (tkeys (t_commits o)).
Proof.
  intros Ht H. unfold consistentb in H. rewrite !andb_true_iff in H. destruct H as [[He Hp] Hn].
  rewrite (proj2 (toks_have_msgsb_iff o0) Ht) in He. apply tobs_eqb_eq in He.
  split; [split; [exact He|now apply prefixesb_sound]|now apply js17_nodupb_NoDup].
Qed.
(* soundness, any original: everything except the token-data component (which the executable clause skips then) *)
Theorem consistentb_sound_but_toks o0 o :
  consistentb o0 o = true ->
  let p := project o0 (t_commits o) in
  t_msgs o = t_msgs p /\ t_costly o = t_costly p /\ t_nonces o = t_nonces p /\
  prefixes (t_commits o0) (t_commits o) /\ NoDup (tkeys (t_commits o)).
Proof.
  intros H p. unfold consistentb in H. rewrite !andb_true_iff in H. destruct H as [[He Hp] Hn].
  fold p in He. apply tobs_eqb_eq in He.
  assert (t_msgs o = t_msgs p /\ t_costly o = t_costly p /\ t_nonces o = t_nonces p) as (H1 & H2 & H3).
  { destruct (toks_have_msgsb o0); rewrite He at 1 2 3; cbn [t_msgs t_costly t_nonces]; repeat split. }
  repeat split; try assumption; [now apply prefixesb_sound|now apply js17_nodupb_NoDup].
Qed.
Theorem consistentb_complete o0 o :
  toks_have_msgs o0 -> NoDup (tkeys (t_commits o)) -> consistent o0 o -> consistentb o0 o = true.
Proof.
  intros Ht ND [He Hp]. unfold consistentb. rewrite (proj2 (toks_have_msgsb_iff o0) Ht), !andb_true_iff.
  split; [split|]; [now apply tobs_eqb_eq|now apply prefixesb_complete|now apply js17_nodupb_NoDup].
Qed.

(* ---------- observations with token data under message-less keys (the harness builds them) ----------
   The executable clause then skips the token-data component.  The other four components do not depend on the token
   data at all: erase it ([strip]) and the theorems about [consistent] apply. *)
Definition strip (o : tobs) : tobs := mkTObs (t_commits o) (t_msgs o) [] (t_costly o) (t_nonces o).

Lemma strip_toks_have_msgs o : toks_have_msgs (strip o).
Proof. intros t Ht. destruct Ht. Qed.
Lemma strip_tlc o c : strip (truncate_last_commit o c) = truncate_last_commit (strip o) c.
Proof.
  unfold truncate_last_commit. cbn [strip t_commits t_msgs t_toks t_costly t_nonces].
  destruct (alookup c (t_commits o)) as [[|a l]|]; reflexivity.
Qed.
Lemma strip_tch o c : strip (truncate_chain o c) = truncate_chain (strip o) c.
Proof.
  unfold truncate_chain. cbn [strip t_commits t_msgs t_toks t_costly t_nonces].
  destruct (alookup c (t_commits o)); reflexivity.
Qed.
Lemma strip_step o c : strip (step o c) = step (strip o) c.
Proof.
  unfold step. cbn [strip t_commits]. destruct (alookup c (t_commits o)) as [l|]; [|apply strip_tch].
  destruct (Nat.ltb 1 (length l)); [apply strip_tlc|apply strip_tch].
Qed.

Theorem consistentb_complete_gen o0 o :
  NoDup (tkeys (t_commits o)) ->
  (toks_have_msgs o0 -> consistent o0 o) -> consistent (strip o0) (strip o) -> consistentb o0 o = true.
Proof.
  intros ND Hfull [He Hp]. destruct (toks_have_msgsb o0) eqn:Et.
  - apply toks_have_msgsb_iff in Et. apply consistentb_complete; auto.
  - cbn [strip t_commits] in He, Hp. unfold consistentb. rewrite Et, !andb_true_iff.
    split; [split|]; [|now apply prefixesb_complete|now apply js17_nodupb_NoDup].
    apply tobs_eqb_eq. unfold project in *. destruct o as [cm ms ts ks ns].
    cbn [strip t_commits t_msgs t_toks t_costly t_nonces] in *. inversion He as [[Hm Hk Hn]].
    rewrite <- Hm, <- Hk, <- Hn. reflexivity.
Qed.

(* ---------- sink step: truncateLastCommit / truncateChain on one chain ---------- *)
Definition untouchedb (c : N) (o o' : tobs) : bool :=
  forallb (fun kv => if N.eqb (fst kv) c then true
                     else match alookup (fst kv) (t_commits o') with
                          | Some l => list_eqb tc_eqb l (snd kv) | None => false end) (t_commits o).

Lemma untouchedb_sound c o o' : untouchedb c o o' = true ->
  forall k l, In (k, l) (t_commits o) -> k <> c -> alookup k (t_commits o') = Some l.
Proof.
  intros H k l Hi Hk. unfold untouchedb in H. rewrite forallb_forall in H. specialize (H _ Hi). cbn [fst snd] in H.
  destruct (N.eqb_spec k c); [contradiction|]. destruct (alookup k (t_commits o')) as [l0|]; [|discriminate].
  apply tcs_eqb_eq in H. now subst.
Qed.

(* (b) any result that passes: Ok, consistent with the input, and the other chains keep their report lists *)
Theorem step_sound (i : step_in) (r : step_out) :
  let '(kind, c, o) := i in
  toks_have_msgs o -> step_ok i r = true ->
  exists o', r = Ok o' /\ consistent o o' /\ NoDup (tkeys (t_commits o')) /\
             forall k l, In (k, l) (t_commits o) -> k <> c -> alookup k (t_commits o') = Some l.
Proof.
  destruct i as [[kind c] o]. intros Ht H. unfold step_ok in H.
  destruct r as [o'| | |]; try discriminate. apply andb_true_iff in H. destruct H as [Hc Hu].
  exists o'. destruct (consistentb_sound o o' Ht Hc) as [H1 H2].
  repeat split; try assumption; try apply H1. exact (untouchedb_sound c o o' Hu).
Qed.

Lemma not_in_keys_alookup {V} c (m : list (N * V)) : ~ In c (tkeys m) -> alookup c m = None.
Proof.
  unfold tkeys. induction m as [|[k w] m IH]; cbn [map fst In alookup]; intros H; [reflexivity|].
  destruct (N.eqb_spec c k) as [->|]; [exfalso; apply H; now left|]. apply IH. tauto.
Qed.

Lemma tlc_nodup o c : NoDup (tkeys (t_commits o)) -> NoDup (tkeys (t_commits (truncate_last_commit o c))).
Proof.
  intros ND. unfold truncate_last_commit. destruct (alookup c (t_commits o)) as [[|a l]|]; try exact ND.
  cbn [t_commits]. unfold tkeys, aset. rewrite map_map.
  erewrite map_ext; [exact ND|]. intros [k w]. cbn [fst]. now destruct (N.eqb_spec k c) as [->|].
Qed.
Lemma tch_nodup o c : NoDup (tkeys (t_commits o)) -> NoDup (tkeys (t_commits (truncate_chain o c))).
Proof.
  intros ND. unfold truncate_chain. destruct (alookup c (t_commits o)) as [l|] eqn:E; [|exact ND].
  cbn [t_commits]. now apply (proj2 (cmeasure_aremove c l _ E)).
Qed.

Lemma tlc_consistent o c : toks_have_msgs o -> consistent o (truncate_last_commit o c).
Proof.
  intros Ht. destruct (alookup c (t_commits o)) as [l|] eqn:E.
  - destruct l as [|a l].
    + unfold truncate_last_commit. rewrite E. apply consistent_refl.
    + eapply consistent_last_commit; [exact Ht|apply consistent_refl|exact E|discriminate].
  - unfold truncate_last_commit. rewrite E. apply consistent_refl.
Qed.

Lemma tlc_untouched o c : NoDup (tkeys (t_commits o)) -> untouchedb c o (truncate_last_commit o c) = true.
Proof.
  intros ND. unfold untouchedb. apply forallb_forall. intros [k l] Hi. cbn [fst snd].
  destruct (N.eqb_spec k c) as [|Hk]; [reflexivity|].
  assert (Hl : alookup k (t_commits o) = Some l) by now apply alookup_NoDup_In.
  unfold truncate_last_commit. destruct (alookup c (t_commits o)) as [[|a l0]|] eqn:E;
    try (rewrite Hl; now apply tcs_eqb_eq).
  cbn [t_commits]. rewrite alookup_aset. destruct (N.eqb_spec k c); [contradiction|]. rewrite Hl. now apply tcs_eqb_eq.
Qed.
Lemma tch_untouched o c : NoDup (tkeys (t_commits o)) -> untouchedb c o (truncate_chain o c) = true.
Proof.
  intros ND. unfold untouchedb. apply forallb_forall. intros [k l] Hi. cbn [fst snd].
  destruct (N.eqb_spec k c) as [|Hk]; [reflexivity|].
  assert (Hl : alookup k (t_commits o) = Some l) by now apply alookup_NoDup_In.
  unfold truncate_chain. destruct (alookup c (t_commits o)) as [l0|] eqn:E; [|rewrite Hl; now apply tcs_eqb_eq].
  cbn [t_commits]. rewrite alookup_aremove. destruct (N.eqb_spec k c); [contradiction|]. rewrite Hl. now apply tcs_eqb_eq.
Qed.

(* (a): no premise on the token data *)
Theorem step_model_passes (i : step_in) :
  let '(kind, c, o) := i in
  NoDup (tkeys (t_commits o)) -> step_ok i (step_model i) = true.
Proof.
  destruct i as [[kind c] o]. intros ND. unfold step_ok, step_model. apply andb_true_iff.
  destruct (N.eqb kind 0).
  - split; [|now apply tlc_untouched]. apply consistentb_complete_gen; [now apply tlc_nodup|now apply tlc_consistent|].
    rewrite strip_tlc. apply tlc_consistent, strip_toks_have_msgs.
  - split; [|now apply tch_untouched]. apply consistentb_complete_gen; [now apply tch_nodup| |].
    + intros _. apply consistent_chain, consistent_refl.
    + rewrite strip_tch. apply consistent_chain, consistent_refl.
Qed.

Example step_ok_example :
  step_ok (0%N, 1%N, mkTObs [(1%N, [mkTC 1 5 6; mkTC 2 7 8]); (2%N, [mkTC 3 1 2])] [(1, 7, 100)%N; (2, 1, 101)%N] [(1%N, 7%N)] [100%N] [1%N])
          (Ok (mkTObs [(1%N, [mkTC 1 5 6]); (2%N, [mkTC 3 1 2])] [(2, 1, 101)%N] [] [] [1%N])) = true.
Proof. vm_compute. reflexivity. Qed.

(* ---------- sink trunc: truncateObservation at one limit ---------- *)
(* the Err clause: [nothing_fits] is "the loop, replayed on the case's witness path with the case's sizes, ends in the
   error" - so C17_error_only_if_nothing_fits applies to an ARBITRARY answer that passes *)
Lemma step_nodup o c : NoDup (tkeys (t_commits o)) -> NoDup (tkeys (t_commits (step o c))).
Proof.
  intros ND. unfold step. destruct (alookup c (t_commits o)) as [l|]; [|now apply tch_nodup].
  destruct (Nat.ltb 1 (length l)); [now apply tlc_nodup|now apply tch_nodup].
Qed.

Section NothingFits.
  Variable size : tobs -> N.
  Variable max : Z.
  Variable pick : nat -> tobs -> N.
  Let stepf := fun o c => Ok (step o c).

  Lemma nothing_fits_iff fuel : forall n o,
    nothing_fits size max pick fuel n o = true <-> loop size max pick stepf fuel n o = Err.
  Proof.
    induction fuel as [|fuel IH]; intros n o; cbn [nothing_fits loop].
    - destruct (too_big size max o); cbn [andb]; split; discriminate.
    - destruct (too_big size max o); cbn [andb]; [|split; discriminate].
      unfold cut_next. destruct (chain_for pick n o) as [c|]; unfold stepf; cbn [rbind].
      + destruct (t_commits (step o c)); [split; reflexivity|apply IH].
      + destruct (t_commits o); [split; reflexivity|apply IH].
  Qed.

  (* every measured observation is too big *)
  Lemma nothing_fits_trace fuel n o :
    nothing_fits size max pick fuel n o = true ->
    Forall (fun x => (max < Z.of_N (size x))%Z) (trace size max pick fuel n o).
  Proof. intros H. apply loop_err. now apply nothing_fits_iff. Qed.

  (* and the measuring went on to the end: the last measured observation is one cut away from "no more data" *)
  Lemma nothing_fits_last fuel : forall n o,
    nothing_fits size max pick fuel n o = true ->
    exists pre x, trace size max pick fuel n o = pre ++ [x] /\
                  t_commits (cut_next pick (n + length pre) x) = [].
  Proof.
    induction fuel as [|fuel IH]; intros n o H; cbn [nothing_fits trace] in *.
    - destruct (too_big size max o); discriminate.
    - destruct (too_big size max o); cbn [andb] in H; [|discriminate].
      unfold cut_next in H. fold (cut_next pick n o) in H.
      change (match chain_for pick n o with Some c => step o c | None => o end) with (cut_next pick n o).
      destruct (t_commits (cut_next pick n o)) eqn:E.
      + exists [], o. cbn [app length]. rewrite Nat.add_0_r. split; [reflexivity|exact E].
      + destruct (IH _ _ H) as (pre & x & Ht & Hx). exists (o :: pre), x. rewrite Ht. split; [reflexivity|].
        cbn [length]. rewrite Nat.add_succ_r. exact Hx.
  Qed.

  Lemma trace_nodup fuel : forall n o,
    NoDup (tkeys (t_commits o)) ->
    Forall (fun x => NoDup (tkeys (t_commits x))) (trace size max pick fuel n o).
  Proof.
    induction fuel as [|fuel IH]; intros n o ND; cbn [trace].
    - destruct (too_big size max o); repeat constructor; exact ND.
    - constructor; [exact ND|]. destruct (too_big size max o); [|constructor].
      destruct (chain_for pick n o) as [c|].
      + destruct (t_commits (step o c)) eqn:E; [constructor|]. apply IH. now apply step_nodup.
      + destruct (t_commits o) eqn:E; [constructor|]. apply IH. rewrite E. exact ND.
  Qed.
End NothingFits.

(* an observation one cut away from "no more data" holds at most one commit report *)
Lemma aremove_nil_single c (l : list tcommit) cm :
  NoDup (tkeys cm) -> alookup c cm = Some l -> aremove c cm = [] -> cm = [(c, l)].
Proof.
  intros ND Hl Hr. destruct cm as [|[k w] cm]; [discriminate|].
  unfold aremove in Hr. cbn [filter fst] in Hr. cbn [alookup] in Hl.
  destruct (N.eqb_spec k c) as [->|Hk]; cbn [negb] in Hr; [|discriminate].
  rewrite N.eqb_refl in Hl. inversion Hl; subst w. f_equal.
  destruct cm as [|[k2 w2] cm]; [reflexivity|]. cbn [filter fst] in Hr.
  destruct (N.eqb_spec k2 c) as [->|Hk2]; cbn [negb] in Hr; [|discriminate].
  exfalso. cbn [tkeys map fst] in ND. inversion ND as [|? ? Hn _]; subst. apply Hn. now left.
Qed.

Lemma cut_next_empty_single pick n x :
  NoDup (tkeys (t_commits x)) -> t_commits (cut_next pick n x) = [] ->
  t_commits x = [] \/ exists c l, t_commits x = [(c, l)] /\ (length l <= 1)%nat.
Proof.
  intros ND H. destruct (t_commits x) as [|kv cm] eqn:Ecm; [now left|right].
  unfold cut_next, chain_for in H. rewrite Ecm in H. cbn [tkeys map] in H.
  set (c := if Nat.eqb n 0 then hd 0%N (sortN (fst kv :: map fst cm)) else pick n x) in H.
  unfold step in H. rewrite Ecm in H. destruct (alookup c (kv :: cm)) as [l|] eqn:El.
  - destruct (Nat.ltb_spec 1 (length l)) as [Hlt|Hge].
    + exfalso. unfold truncate_last_commit in H. rewrite Ecm, El in H.
      destruct l as [|a l]; [cbn [length] in Hlt; lia|]. cbn [t_commits] in H. unfold aset in H. discriminate.
    + unfold truncate_chain in H. rewrite Ecm, El in H. cbn [t_commits] in H.
      exists c, l. split; [|exact Hge]. now apply aremove_nil_single.
  - exfalso. unfold truncate_chain in H. rewrite Ecm, El in H. rewrite Ecm in H. discriminate.
Qed.

(* (b) what an answer (result, real encoded size of the result) that passes guarantees: C17_fits on the REAL size,
   C17_consistent, nothing cut when the original fits; and an error only when NOTHING that the loop measures fits
   (the clause of C17_error_only_if_nothing_fits, on the case's witness path and size table) down to a last observation
   that is one cut away from empty *)
Theorem trunc_ok1_sound o tab max picks (r : res tobs * N) :
  toks_have_msgs o -> trunc_ok1 o tab max picks r = true ->
  match fst r with
  | Ok o' => (Z.of_N (snd r) <= max)%Z /\ consistent o o' /\
             ((Z.of_N (size_tab tab o) <= max)%Z -> o' = o) /\
             (o' = o \/ t_commits o' <> [])
  | Err => let tr := trace (size_tab tab) max (pick_of picks) (S (measure o)) 0 o in
           Forall (fun x => (max < Z.of_N (size_tab tab x))%Z) tr /\
           exists pre x, tr = pre ++ [x] /\ t_commits (cut_next (pick_of picks) (length pre) x) = []
  | _ => False
  end.
Proof.
  intros Ht H. unfold trunc_ok1 in H. destruct (fst r) as [o'| | |]; try discriminate.
  - rewrite !andb_true_iff in H. destruct H as [[[Hf Hc] Hfit] Hne].
    split; [lia|]. split; [apply (consistentb_sound o o' Ht Hc)|]. split.
    + intros Hle. destruct (Z.leb_spec (Z.of_N (size_tab tab o)) max); [|lia]. symmetry. now apply tobs_eqb_eq.
    + apply orb_true_iff in Hne. destruct Hne as [He|Hl]; [left; symmetry; now apply tobs_eqb_eq|right].
      intros E. rewrite E in Hl. discriminate.
  - split; [now apply nothing_fits_trace|]. exact (nothing_fits_last _ _ _ _ 0%nat o H).
Qed.

(* the Err clause alone needs no premise; it is the conclusion of C17_error_only_if_nothing_fits for the judged answer *)
Theorem trunc_ok1_err_sound o tab max picks n :
  trunc_ok1 o tab max picks (Err, n) = true ->
  Forall (fun x => (max < Z.of_N (size_tab tab x))%Z) (trace (size_tab tab) max (pick_of picks) (S (measure o)) 0 o).
Proof. intros H. now apply nothing_fits_trace. Qed.

(* with unique chain keys (a Go map): the last observation measured before the error holds at most one commit report,
   and it does not fit - "not even one report fits" *)
Theorem trunc_ok1_err_single_report o tab max picks n :
  NoDup (tkeys (t_commits o)) -> trunc_ok1 o tab max picks (Err, n) = true ->
  exists x, In x (trace (size_tab tab) max (pick_of picks) (S (measure o)) 0 o) /\
            (max < Z.of_N (size_tab tab x))%Z /\
            (t_commits x = [] \/ exists c l, t_commits x = [(c, l)] /\ (length l <= 1)%nat).
Proof.
  intros ND H. cbn [trunc_ok1 fst] in H.
  pose proof (nothing_fits_trace _ _ _ _ _ _ H) as HF.
  pose proof (trace_nodup (size_tab tab) max (pick_of picks) (S (measure o)) 0 o ND) as HN.
  destruct (nothing_fits_last _ _ _ _ 0%nat o H) as (pre & x & Ht & Hx).
  rewrite Forall_forall in HF, HN. assert (Hi : In x (trace (size_tab tab) max (pick_of picks) (S (measure o)) 0 o)).
  { rewrite Ht. apply in_or_app. right. now left. }
  exists x. split; [exact Hi|]. split; [now apply HF|]. eapply cut_next_empty_single; [now apply HN|exact Hx].
Qed.

Theorem trunc_sound (i : trunc_in) (out : trunc_out) :
  let '(o, tab, runs) := i in
  toks_have_msgs o -> trunc_ok i out = true ->
  length out = length runs /\
  forall n run r, nth_error runs n = Some run -> nth_error out n = Some r ->
    match fst r with
    | Ok o' => (Z.of_N (snd r) <= fst run)%Z /\ consistent o o' /\
               ((Z.of_N (size_tab tab o) <= fst run)%Z -> o' = o) /\ (o' = o \/ t_commits o' <> [])
    | Err => let tr := trace (size_tab tab) (fst run) (pick_of (snd run)) (S (measure o)) 0 o in
             Forall (fun x => (fst run < Z.of_N (size_tab tab x))%Z) tr /\
             exists pre x, tr = pre ++ [x] /\ t_commits (cut_next (pick_of (snd run)) (length pre) x) = []
    | _ => False
    end.
Proof.
  destruct i as [[o tab] runs]. intros Ht H. unfold trunc_ok in H. apply andb_true_iff in H. destruct H as [Hl Hall].
  apply Nat.eqb_eq in Hl. split; [now symmetry|]. intros n run r Hr Ho.
  rewrite forallb_forall in Hall. apply (trunc_ok1_sound o tab (fst run) (snd run) r Ht).
  apply (Hall (run, r)). clear Hall Hl. revert out n Hr Ho.
  induction runs as [|x runs IH]; intros [|y out] [|n] Hr Ho; cbn [nth_error combine] in *; try discriminate.
  - inversion Hr; inversion Ho; subst. now left.
  - right. eapply IH; eassumption.
Qed.

(* (a): the loop keeps the chain keys unique, cuts nothing when the original fits, ends with a chain entry, and errs
   only after every measured observation was too big (C17_error_only_if_nothing_fits) *)
Section LoopJ.
  Variable size : tobs -> N.
  Variable max : Z.
  Variable pick : nat -> tobs -> N.
  Let stepf := fun o c => Ok (step o c).

  Lemma loop_nodup fuel : forall n o o',
    NoDup (tkeys (t_commits o)) -> loop size max pick stepf fuel n o = Ok o' -> NoDup (tkeys (t_commits o')).
  Proof.
    induction fuel as [|fuel IH]; intros n o o' ND H; cbn [loop] in H.
    - destruct (too_big size max o); [discriminate|]. now inversion H; subst.
    - destruct (too_big size max o); [|now inversion H; subst].
      destruct (chain_for pick n o) as [c|]; unfold stepf in H; cbn [rbind] in H.
      + destruct (t_commits (step o c)) eqn:E; [discriminate|]. eapply IH; [|exact H]. now apply step_nodup.
      + destruct (t_commits o) eqn:E; [discriminate|]. eapply IH; [|exact H]. rewrite E. exact ND.
  Qed.

  Lemma loop_nonempty fuel : forall n o o',
    t_commits o <> [] -> loop size max pick stepf fuel n o = Ok o' -> t_commits o' <> [].
  Proof.
    induction fuel as [|fuel IH]; intros n o o' Hne H; cbn [loop] in H.
    - destruct (too_big size max o); [discriminate|]. now inversion H; subst.
    - destruct (too_big size max o); [|now inversion H; subst].
      destruct (chain_for pick n o) as [c|]; unfold stepf in H; cbn [rbind] in H.
      + destruct (t_commits (step o c)) eqn:E; [discriminate|]. eapply IH; [|exact H]. rewrite E. discriminate.
      + destruct (t_commits o) eqn:E; [discriminate|]. eapply IH; [|exact H]. rewrite E. discriminate.
  Qed.

  Lemma loop_cut_or_same fuel n o o' :
    loop size max pick stepf fuel n o = Ok o' -> o' = o \/ t_commits o' <> [].
  Proof.
    intros H. destruct fuel as [|fuel]; cbn [loop] in H.
    - destruct (too_big size max o); [discriminate|]. left. now inversion H.
    - destruct (too_big size max o); [|left; now inversion H].
      destruct (chain_for pick n o) as [c|]; unfold stepf in H; cbn [rbind] in H.
      + destruct (t_commits (step o c)) eqn:E; [discriminate|]. right. eapply loop_nonempty; [|exact H]. rewrite E. discriminate.
      + destruct (t_commits o) eqn:E; [discriminate|]. right. eapply loop_nonempty; [|exact H]. rewrite E. discriminate.
  Qed.

  Hypothesis size_strip : forall o, size (strip o) = size o.
  Hypothesis pick_strip : forall n o, pick n (strip o) = pick n o.
  Lemma loop_strip fuel : forall n o,
    loop size max pick stepf fuel n (strip o) =
    match loop size max pick stepf fuel n o with Ok o' => Ok (strip o') | Err => Err | Panic => Panic | Spin => Spin end.
  Proof.
    induction fuel as [|fuel IH]; intros n o; cbn [loop]; unfold too_big; rewrite size_strip.
    - destruct (Z.ltb max (Z.of_N (size o))); reflexivity.
    - destruct (Z.ltb max (Z.of_N (size o))); [|reflexivity].
      unfold chain_for. cbn [strip t_commits]. rewrite pick_strip. fold (strip o).
      destruct (tkeys (t_commits o)) as [|k ks]; unfold stepf; cbn [rbind].
      + cbn [strip t_commits]. destruct (t_commits o); [reflexivity|]. apply IH.
      + rewrite <- strip_step. cbn [strip t_commits].
        destruct (t_commits (step o (if Nat.eqb n 0 then hd 0%N (sortN (k :: ks)) else pick n o))); [reflexivity|]. apply IH.
  Qed.

  Lemma loop_fits_same fuel n o : too_big size max o = false -> loop size max pick stepf fuel n o = Ok o.
  Proof. intros E. destruct fuel; cbn [loop]; now rewrite E. Qed.

  Lemma loop_err_too_big fuel n o : loop size max pick stepf fuel n o = Err -> too_big size max o = true.
  Proof. intros H. destruct fuel; cbn [loop] in H; destruct (too_big size max o); try discriminate; reflexivity. Qed.
End LoopJ.

Lemma size_tab_strip tab o : size_tab tab (strip o) = size_tab tab o.
Proof. reflexivity. Qed.

Lemma truncate_strip tab max picks o o' :
  truncate (size_tab tab) max (pick_of picks) o = Ok o' ->
  truncate (size_tab tab) max (pick_of picks) (strip o) = Ok (strip o').
Proof.
  intros E. unfold truncate in *. change (measure (strip o)) with (measure o).
  rewrite loop_strip; [now rewrite E|apply size_tab_strip|reflexivity].
Qed.

(* no premise on the token data *)
Theorem trunc_model_passes1 o tab max picks :
  NoDup (tkeys (t_commits o)) ->
  truncate (size_tab tab) max (pick_of picks) o <> Spin ->     (* the witness path replays to an end *)
  let res := truncate (size_tab tab) max (pick_of picks) o in
  trunc_ok1 o tab max picks (res, match res with Ok o' => size_tab tab o' | _ => 0%N end) = true.
Proof.
  intros ND Hs res. unfold trunc_ok1. cbn [fst snd].
  destruct res as [o'| | |] eqn:E; subst res.
  - rewrite !andb_true_iff. repeat split.
    + pose proof (truncate_fits _ _ _ _ _ E). lia.
    + apply consistentb_complete_gen.
      * unfold truncate in E. eapply loop_nodup; [exact ND|exact E].
      * intros Ht. now apply (truncate_consistent _ _ _ _ _ Ht E).
      * apply truncate_strip in E. exact (truncate_consistent _ _ _ _ _ (strip_toks_have_msgs o) E).
    + destruct (Z.leb_spec (Z.of_N (size_tab tab o)) max) as [Hle|]; [|reflexivity].
      unfold truncate in E. rewrite loop_fits_same in E by (unfold too_big; lia). inversion E. now apply tobs_eqb_eq.
    + unfold truncate in E. apply loop_cut_or_same in E. apply orb_true_iff. destruct E as [->|Hne].
      * left. now apply tobs_eqb_eq.
      * right. destruct (t_commits o'); [contradiction|reflexivity].
  - unfold truncate in E. now apply nothing_fits_iff.
  - exfalso. exact (loop_no_panic _ _ _ _ _ _ E).
  - contradiction.
Qed.

Theorem trunc_model_passes (i : trunc_in) :
  let '(o, tab, runs) := i in
  NoDup (tkeys (t_commits o)) ->
  (forall run, In run runs -> truncate (size_tab tab) (fst run) (pick_of (snd run)) o <> Spin) ->
  trunc_ok i (trunc_model i) = true.
Proof.
  destruct i as [[o tab] runs]. intros ND Hs. unfold trunc_ok, trunc_model. apply andb_true_iff. split.
  - rewrite map_length. apply Nat.eqb_refl.
  - induction runs as [|run runs IH]; [reflexivity|]. cbn [map combine forallb fst snd]. apply andb_true_iff. split.
    + apply trunc_model_passes1; try assumption. apply Hs. now left.
    + apply IH. intros r Hr. apply Hs. now right.
Qed.

Example trunc_ok_example :
  let o := mkTObs [(1%N, [mkTC 1 5 6; mkTC 2 7 8])] [(1, 7, 100)%N] [(1%N, 7%N)] [100%N] [] in
  let tab := [([(1%N, 2%nat)], 90%N); ([(1%N, 1%nat)], 40%N)] in
  trunc_ok (o, tab, [(50%Z, [1%N]); (100%Z, []); (10%Z, [1%N; 1%N])])
           [(Ok (mkTObs [(1%N, [mkTC 1 5 6])] [] [] [] []), 40%N); (Ok o, 90%N); (Err, 0%N)] = true.
Proof. vm_compute. reflexivity. Qed.

(* ---------- the Err clause before the strengthening: judged against the ORIGINAL's size only ---------- *)
Definition trunc_ok1_before (o : tobs) (tab : list (vec_t * N)) (max : Z) (r : res tobs * N) : bool :=
  match fst r with
  | Ok o' => Z.leb (Z.of_N (snd r)) max && consistentb o o' &&
             (if Z.leb (Z.of_N (size_tab tab o)) max then tobs_eqb o o' else true) &&
             (tobs_eqb o o' || negb (Nat.eqb (length (t_commits o')) 0))
  | Err => Z.ltb max (Z.of_N (size_tab tab o))
  | _ => false
  end.
Definition trunc_ok_before (i : trunc_in) (out : trunc_out) : bool :=
  let '(o, tab, runs) := i in
  Nat.eqb (length runs) (length out) &&
  forallb (fun p => trunc_ok1_before o tab (fst (fst p)) (snd p)) (combine runs out).

(* two reports of 90 bytes together, 40 bytes with the first one alone, limit 50: the answer "error" was accepted
   although the single-report observation fits (the model answers Ok with one report) *)
Definition weak_trunc_in : trunc_in :=
  (mkTObs [(1%N, [mkTC 1 5 6; mkTC 2 7 8])] [(1, 7, 100)%N] [(1%N, 7%N)] [100%N] [],
   [([(1%N, 2%nat)], 90%N); ([(1%N, 1%nat)], 40%N)], [(50%Z, [1%N])]).
Theorem trunc_ok_before_weak :
  trunc_ok_before weak_trunc_in [(Err, 0%N)] = true /\
  trunc_ok weak_trunc_in [(Err, 0%N)] = false /\
  trunc_model weak_trunc_in = [(Ok (mkTObs [(1%N, [mkTC 1 5 6])] [] [] [] []), 40%N)] /\
  trunc_ok weak_trunc_in (trunc_model weak_trunc_in) = true.
Proof. vm_compute. repeat split. Qed.

(* the hypotheses of trunc_ok1_err_sound / _single_report are satisfiable: a genuine error (limit 10) *)
Example trunc_ok1_err_example :
  let o := mkTObs [(1%N, [mkTC 1 5 6; mkTC 2 7 8]); (2%N, [mkTC 3 1 2])] [(1, 7, 100)%N] [(1%N, 7%N)] [100%N] [] in
  let tab := [([(1%N, 2%nat); (2%N, 1%nat)], 120%N); ([(1%N, 1%nat); (2%N, 1%nat)], 70%N); ([(2%N, 1%nat)], 30%N)] in
  NoDup (tkeys (t_commits o)) /\ trunc_ok1 o tab 10 [1%N; 1%N; 2%N] (Err, 0%N) = true /\
  length (trace (size_tab tab) 10 (pick_of [1%N; 1%N; 2%N]) (S (measure o)) 0 o) = 3%nat.
Proof. cbv zeta. split; [repeat constructor; cbn; intuition discriminate|]. vm_compute. split; reflexivity. Qed.
